import Rfsm.Audit
import Rfsm.Proofs.CodecFsm
/-!
# C05 — Binary `.rfsm` round trip preserves the model (and hence its behaviour)

Model: `Rfsm.Codec` (lean/Rfsm/Model/Codec.lean): the writer as the sequence of primitive protocol
calls `FsmWriter::write` issues (`opsFsm`) and the bytes they put into a `Vec<u8>` (`imageOf`), the
reader as `FsmReader::read` over `DefaultProtocolReader` (`readImage`).  The writer has no panic site
any more (`write_str` used to slice `value[0..len & 0x0FFF]`).

The model value `Fsm` consists of the persisted fields only, so "structurally identical in every
persisted element" is equality of model values.  The behavioural half of the property is then a
congruence: an interpreter model that is a function of the persisted tables gives equal traces for
equal tables.  What that leaves to be established about the *code* — that the real interpreter reads
nothing but persisted fields — is checked by the correspondence run (original vs reloaded machine on
generated event sequences, harness family `c05`), not by a theorem here.

`wfFsm L f` collects what must hold of a model: ids fit `u32`, integers `i64`, strings are valid UTF-8
(guaranteed by Rust's `String`) and shorter than `L.strMax`, `u64`/`usize` values are below `L.uMax`,
the text of a double parses as `f64`, `Data` nesting is below the model's fuel, and the three
conditionally stored fields are in normal form (an empty transition condition is `Null`; `initial` is 0
without child states; `Invoke.parent_state_name` is empty unless `invoke_id` is empty; a parameter
list is not `Some([])`).  `typeLim` is what the Rust types allow: strings below 2^64 bytes, the whole
`u64` range.  Since the repairs of round 2 (68 bit integers written with their eight value bytes,
string type 0xE0 with a 64 bit length) the code is lossless on all of it.
-/
namespace Rfsm.Codec

/-- a model survives: what the reader returns for the written image (followed by anything) is the
model, with the rest of the input left over and no error flagged -/
def Survives (f : Fsm) : Prop :=
  readImageFull (imageOf f) = (ReadResult.ok f, false) ∧
  ∀ rest : List Nat, ((readFsmProg.run (RState.init (imageOf f ++ rest))).2.inp = rest)

/-- The property at full strength: every primitive value and every model the Rust types allow
survives the round trip. -/
def C05_full : Prop :=
  (∀ v : Nat, v < 2 ^ 64 → ∀ rest, (pUInt.run (RState.init ((uintOp v).bytes ++ rest))).1 = v) ∧
  (∀ s : Str, validUtf8 s = true → s.length < 2 ^ 64 →
      ∀ rest, (pStr.run (RState.init ((Op.str s).bytes ++ rest))).1 = s) ∧
  (∀ f : Fsm, wfFsm typeLim f = true → Survives f)

/-- every `u64`: exact round trip, whatever follows in the stream -/
theorem C05_uint (v : Nat) (hv : v < 2 ^ 64) (rest : List Nat) :
    ∃ t, pUInt.run (RState.init ((uintOp v).bytes ++ rest)) = (v, ⟨rest, true, t, v, none⟩) := by
  obtain ⟨t, h⟩ := readUInt_roundtrip v hv rest 0 0 none
  exact ⟨t, h⟩
#assert_axioms C05_uint

/-- every string a Rust `String` can hold (valid UTF-8, length below 2^64): exact round trip -/
theorem C05_str (s : Str) (hu : validUtf8 s = true) (hl : s.length < 2 ^ 64) (rest : List Nat) :
    pStr.run (RState.init ((Op.str s).bytes ++ rest)) = (s, ⟨rest, true, strTid s, 0, none⟩) :=
  readString_roundtrip s hl hu rest 0 0 none
#assert_axioms C05_str

/-- every `Data` value (all ten variants, arrays and maps nested to any depth below the fuel) -/
theorem C05_data (d : Data) (hw : wfD typeLim d = true) (rest : List Nat) :
    ∃ t n, readData.run (RState.init (bytesOf (opsData d) ++ rest)) = (d, ⟨rest, true, t, n, none⟩) :=
  Reads.wdata hw rest 0 0 none
#assert_axioms C05_data

/-- the integer text: `i64::to_string` then `str::parse::<i64>` is the identity on the whole `i64` range -/
theorem C05_i64_text (v : Int) (h1 : -(2 ^ 63) ≤ v) (h2 : v < 2 ^ 63) : parseI64 (showInt v) = some v :=
  parseI64_showInt v h1 h2
#assert_axioms C05_i64_text

/-- every model the types allow — all states, transitions, the nine executable content kinds, invoke,
donedata, data, for every order in which the hash maps are iterated — is read back identical, with no
error flagged and exactly the trailing bytes left over -/
theorem C05_model (f : Fsm) (h : wfFsm typeLim f = true) : Survives f := by
  refine ⟨readImageFull_image h, fun rest => ?_⟩
  obtain ⟨t, n, hr⟩ := Reads.fsm h rest 0 0 none
  simp [RState.init, hr]
#assert_axioms C05_model

/-- **Main theorem: the property at full strength.** -/
theorem C05 : C05_full := by
  refine ⟨fun v hv rest => ?_, fun s hu hl rest => ?_, C05_model⟩
  · obtain ⟨t, h⟩ := C05_uint v hv rest
    rw [h]
  · rw [C05_str s hu hl rest]
#assert_axioms C05

/-- corollary in the form of the property: reading what was written gives the model back -/
theorem C05_roundtrip (f : Fsm) (h : wfFsm typeLim f = true) : readImage (imageOf f) = ReadResult.ok f := by
  simp [readImage, (C05_model f h).1]
#assert_axioms C05_roundtrip

/-! ## regression: the inputs on which the code was lossy before the repairs -/

/-- `write_uint(2^60)` used to be read back as 0 (the 68-bit form shifted by 52, 44, …, 4, 0) -/
theorem C05_uint_regression :
    (uintOp (2 ^ 60)).bytes = [0xB0, 0x10, 0, 0, 0, 0, 0, 0, 0] ∧
    (pUInt.run (RState.init ((uintOp (2 ^ 60)).bytes))).1 = 2 ^ 60 ∧
    (pUInt.run (RState.init ((uintOp (2 ^ 64 - 1)).bytes))).1 = 2 ^ 64 - 1 := by decide
#assert_axioms C05_uint_regression

/-- a string of exactly 4096 bytes used to be written as the two bytes `D0 00` and read back empty;
it now carries the type 0xE0 and its length in eight bytes -/
theorem C05_str_regression (s : Str) (hl : s.length = 4096) :
    (Op.str s).bytes = [0xE0, 0, 0, 0, 0, 0, 0, 0x10, 0] ++ s := by
  have h := strBytes_long s (by omega)
  rw [h, hl]
  rfl
#assert_axioms C05_str_regression

/-- multi-byte text: 2048 times `é` followed by `_` (4097 bytes) used to panic in the writer (the slice
end 4097 & 0x0FFF = 1 is inside the first `é`); it is read back whole -/
theorem C05_str_multibyte_regression :
    (pStr.run (RState.init ((Op.str ((List.replicate 2048 [195, 169]).flatten ++ [95])).bytes))).1 =
      (List.replicate 2048 [195, 169]).flatten ++ [95] := by
  have hu : validUtf8 ((List.replicate 2048 [195, 169]).flatten ++ [95]) = true := by decide +kernel
  have := C05_str _ hu (by decide +kernel) []
  simp only [List.append_nil] at this
  rw [this]
#assert_axioms C05_str_multibyte_regression

/-! ## non-vacuity: a model with a compound state, history, invoke, donedata, data, a guarded
transition and content of several kinds satisfies the hypotheses -/

def exFsm : Fsm :=
  { name := [77], datamodel := [110, 117, 108, 108], binding := .late, pseudoRoot := 1, script := 0,
    states := [
      { id := 1, docId := 1, name := [114], historyType := .none, isParallel := false, isFinal := false,
        initial := 7, states := [2, 3], onentry := [1], onexit := [], transitions := [8],
        invoke := [{ invokeId := [], parentStateName := [114], docId := 4, srcExpr := .none,
                     src := .source [102] 3, typeExpr := .none, typeName := .none, externalIdLocation := [],
                     autoforward := true, finalize := 2, content := some ⟨some [99], none⟩,
                     params := some [⟨[112], [49], []⟩], nameList := [[120]] }],
        history := [4], data := [([118], .source [49] 9)], parent := 0, donedata := none },
      { id := 3, docId := 5, name := [102], historyType := .none, isParallel := false, isFinal := true,
        initial := 0, states := [], onentry := [], onexit := [], transitions := [], invoke := [],
        history := [], data := [], parent := 1, donedata := some ⟨none, some [⟨[97], [], [118]⟩]⟩ }],
    transitions := [
      { id := 8, docId := 6, source := 1, target := [3], events := [[101], [195, 169, 46, 120]],
        ttype := .internal, wildcard := false, cond := .source [118, 61, 61, 49] 10, content := 1 }],
    content := [(1, [.raise [101], .log [] (.array [.integer (-5), .map [([107], .double [49, 46, 53])]]),
                     .ifc (.source [116] 11) 2 0, .script [1, 2]]),
                (2, [.assign (.source [49] 12) (.source [118] 13), .cancel [115] .none])] }

example : wfFsm typeLim exFsm = true := by decide +kernel
example : wfD typeLim (.array [.integer (-5), .map [([107], .double [49, 46, 53])], .none]) = true := by decide

end Rfsm.Codec
