import Rfsm.Audit
import Rfsm.Proofs.CodecNoPanic
import Rfsm.Proofs.CodecLossy
/-!
# C05 — Binary `.rfsm` round trip preserves the model (and hence its behaviour)

Model: `Rfsm.Codec` (lean/Rfsm/Model/Codec.lean): the writer as the sequence of primitive protocol
calls `FsmWriter::write` issues (`opsFsm`) and the bytes they put into a `Vec<u8>` (`imageOf`,
`encodeFsm`), the reader as `FsmReader::read` over `DefaultProtocolReader` (`readImage`).

The model value `Fsm` consists of the persisted fields only, so "structurally identical in every
persisted element" is equality of model values.  The behavioural half of the property is then a
congruence: an interpreter model that is a function of the persisted tables gives equal traces for
equal tables.  What that leaves to be established about the *code* — that the real interpreter reads
nothing but persisted fields — is checked by the correspondence run (original vs reloaded machine on
generated event sequences, harness family `c05`), not by a theorem here.

`wfFsm L f` collects what must hold of a model: ids fit `u32`, integers `i64`, strings are valid UTF-8
(guaranteed by Rust's `String`) and shorter than `L.strMax`, `u64`/`usize` values are below `L.uMax`,
the text of a double parses as `f64`, `Data` nesting is below the model's fuel, and the three
conditionally stored fields are in normal form (an empty transition condition is `Null`; `initial` is 0
without child states; `Invoke.parent_state_name` is empty unless `invoke_id` is empty; a parameter
list is not `Some([])`).  `typeLim` is what the Rust types allow, `small` is where the unchanged code
is lossless.
-/
namespace Rfsm.Codec

/-- a model survives: the writer does not panic, and what the reader returns for the written image
(followed by anything) is the model, with the rest of the input left over and no error flagged -/
def Survives (f : Fsm) : Prop :=
  encodeFsm f = WriteResult.bytes (imageOf f) ∧ readImageFull (imageOf f) = (ReadResult.ok f, false) ∧
  ∀ rest : List Nat, ((readFsmProg.run (RState.init (imageOf f ++ rest))).2.inp = rest)

/-- The property at full strength: every primitive value and every model the Rust types admit
survives the round trip. -/
def C05_full : Prop :=
  (∀ v : Nat, v < 2 ^ 64 → ∀ rest, (pUInt.run (RState.init ((uintOp v).bytes ++ rest))).1 = v) ∧
  (∀ s : Str, validUtf8 s = true → s.length < 2 ^ 64 →
      (Op.str s).panics = false ∧ ∀ rest, (pStr.run (RState.init ((Op.str s).bytes ++ rest))).1 = s) ∧
  (∀ f : Fsm, wfFsm typeLim f = true → Survives f)

/-! ## what holds -/

/-- unsigned integers below 2^60 (every id, length, flag word and realistic delay): exact round trip,
whatever follows in the stream -/
theorem C05_uint_partial (v : Nat) (hv : v < 2 ^ 60) (rest : List Nat) :
    ∃ t, pUInt.run (RState.init ((uintOp v).bytes ++ rest)) = (v, ⟨rest, true, t, v, none⟩) := by
  obtain ⟨t, h⟩ := readUInt_roundtrip v hv rest 0 0 none
  exact ⟨t, h⟩
#assert_axioms C05_uint_partial

/-- strings shorter than 4096 bytes: no panic, exact round trip -/
theorem C05_str_partial (s : Str) (hu : validUtf8 s = true) (hl : s.length < 4096) (rest : List Nat) :
    (Op.str s).panics = false ∧
    pStr.run (RState.init ((Op.str s).bytes ++ rest)) = (s, ⟨rest, true, strTid s, 0, none⟩) := by
  refine ⟨?_, readString_roundtrip s hl hu rest 0 0 none⟩
  have : strOk (.str s) = true := by simp only [strOk]; exact decide_eq_true hl
  have := opsOk_no_panic [.str s] (by simp [this])
  simpa [anyPanics] using this
#assert_axioms C05_str_partial

/-- every `Data` value (all ten variants, arrays and maps nested to any depth below the fuel) within
the limits -/
theorem C05_data_partial (d : Data) (hw : wfD small d = true) (rest : List Nat) :
    anyPanics (opsData d) = false ∧
    ∃ t n, readData.run (RState.init (bytesOf (opsData d) ++ rest)) = (d, ⟨rest, true, t, n, none⟩) :=
  ⟨opsOk_no_panic _ (opsOk_wd hw), Reads.wdata hw rest 0 0 none⟩
#assert_axioms C05_data_partial

/-- the integer text: `i64::to_string` then `str::parse::<i64>` is the identity on the whole `i64` range -/
theorem C05_i64_text (v : Int) (h1 : -(2 ^ 63) ≤ v) (h2 : v < 2 ^ 63) : parseI64 (showInt v) = some v :=
  parseI64_showInt v h1 h2
#assert_axioms C05_i64_text

/-- **Main theorem (partial).** Every model within the limits `small` — all states, transitions, the
nine executable content kinds, invoke, donedata, data, for every order in which the hash maps are
iterated — is written without panic and read back identical, with no error flagged and exactly the
trailing bytes left over.  Missing for `C05_full`: strings of 4096 bytes and more and `u64` values of
2^60 and more, where the unchanged code is lossy (see the counterexamples below). -/
theorem C05_partial (f : Fsm) (h : wfFsm small f = true) : Survives f := by
  refine ⟨encodeFsm_wf h, readImageFull_image h, fun rest => ?_⟩
  obtain ⟨t, n, hr⟩ := Reads.fsm h rest 0 0 none
  simp [RState.init, hr]
#assert_axioms C05_partial

/-- corollary in the form of the property: reading what was written gives the model back -/
theorem C05_roundtrip (f : Fsm) (h : wfFsm small f = true) :
    ∃ img, encodeFsm f = WriteResult.bytes img ∧ readImage img = ReadResult.ok f :=
  ⟨imageOf f, (C05_partial f h).1, by simp [readImage, (C05_partial f h).2.1]⟩
#assert_axioms C05_roundtrip

/-! ## what does not hold on the unchanged code -/

/-- `write_uint(2^60)` is read back as 0: the 68-bit form shifts by 52, 44, …, 4, 0 (the last two
bytes overlap) and the reader's `u64` drops the top nibble -/
theorem C05_uint_counterexample :
    (pUInt.run (RState.init ((uintOp (2 ^ 60)).bytes))).1 = 0 ∧
    (pUInt.run (RState.init ((uintOp (2 ^ 60)).bytes))).2.ok = true := by decide
#assert_axioms C05_uint_counterexample

/-- a string of exactly 4096 bytes is written as the two bytes `D0 00` and read back empty, without
any error -/
theorem C05_str_counterexample (s : Str) (hl : s.length = 4096) (rest : List Nat) :
    (Op.str s).bytes = [0xD0, 0] ∧
    pStr.run (RState.init ((Op.str s).bytes ++ rest)) = ([], ⟨rest, true, 0xD0, 0, none⟩) := by
  have hb : (Op.str s).bytes = [0xD0, 0] := by
    simp [Op.bytes, strHeader, strSliceLen, hl, tvBytes, tvTail]
  refine ⟨hb, ?_⟩
  rw [hb]
  simp [pStr, Prim.run, readStringS, readTypeAndSize, RState.init, readStrPayload, validUtf8]
#assert_axioms C05_str_counterexample

/-- exactly what is lost: a string of any length ≥ 16 comes back cut to `len mod 4096` bytes (when that
cut is at a character boundary; otherwise the writer panics, next theorem) — with no error flagged -/
theorem C05_str_lossy (s : Str) (h16 : 16 ≤ s.length) (hu : validUtf8 (s.take (s.length % 4096)) = true)
    (rest : List Nat) :
    pStr.run (RState.init ((Op.str s).bytes ++ rest)) =
      (s.take (s.length % 4096), ⟨rest, true, 0xD0, 0, none⟩) :=
  readString_lossy s h16 hu rest 0 0 none
#assert_axioms C05_str_lossy

/-- multi-byte text: when `len & 0x0FFF` falls inside a character the writer panics.  Witness: 2048 times
`é` followed by `_` (4097 bytes; the slice end 4097 & 0x0FFF = 1 is inside the first `é`). -/
theorem C05_str_panic_counterexample :
    validUtf8 ((List.replicate 2048 [195, 169]).flatten ++ [95]) = true ∧
    (Op.str ((List.replicate 2048 [195, 169]).flatten ++ [95])).panics = true := by
  decide +kernel
#assert_axioms C05_str_panic_counterexample

theorem C05_counterexample : ¬ C05_full := by
  intro h
  have := h.1 (2 ^ 60) (by decide) []
  have h0 := C05_uint_counterexample.1
  simp only [List.append_nil] at this
  rw [h0] at this
  exact absurd this (by decide)
#assert_axioms C05_counterexample

/-! ## non-vacuity: a model with a compound state, history, invoke, donedata, data, a guarded
transition and content of several kinds satisfies the hypotheses -/

def exFsm : Fsm :=
  { name := [77], datamodel := [110, 117, 108, 108], binding := .late, pseudoRoot := 1, script := 0,
    states := [
      { id := 1, docId := 1, name := [114], historyType := .none, isParallel := false, isFinal := false,
        initial := 7, states := [2, 3], onentry := [1], onexit := [], transitions := [8],
        invoke := [{ invokeId := [], parentStateName := [114], docId := 4, srcExpr := .none,
                     src := .source [102] 3, typeExpr := .none, typeName := .none, externalIdLocation := [],
                     autoforward := true, finalize := 2, content := some ⟨some [99], none⟩,
                     params := some [⟨[112], [49], []⟩], nameList := [[120]] }],
        history := [4], data := [([118], .source [49] 9)], parent := 0, donedata := none },
      { id := 3, docId := 5, name := [102], historyType := .none, isParallel := false, isFinal := true,
        initial := 0, states := [], onentry := [], onexit := [], transitions := [], invoke := [],
        history := [], data := [], parent := 1, donedata := some ⟨none, some [⟨[97], [], [118]⟩]⟩ }],
    transitions := [
      { id := 8, docId := 6, source := 1, target := [3], events := [[101], [195, 169, 46, 120]],
        ttype := .internal, wildcard := false, cond := .source [118, 61, 61, 49] 10, content := 1 }],
    content := [(1, [.raise [101], .log [] (.array [.integer (-5), .map [([107], .double [49, 46, 53])]]),
                     .ifc (.source [116] 11) 2 0, .script [1, 2]]),
                (2, [.assign (.source [49] 12) (.source [118] 13), .cancel [115] .none])] }

example : wfFsm small exFsm = true := by decide +kernel
example : wfD small (.array [.integer (-5), .map [([107], .double [49, 46, 53])], .none]) = true := by decide

end Rfsm.Codec
