import Rfsm.Audit
import Rfsm.Proofs.CodecNoPanic
import Rfsm.Proofs.CodecSink
/-!
# C18 — Partial or failed `.rfsm` I/O is reported, never silently accepted

Model: `Rfsm.Codec` — reader side `readImage` (`FsmReader::read` over `DefaultProtocolReader` with its
sticky error flag and defaults after an error; a Rust panic is an explicit outcome), writer side
`runOps` / `writeFsmTo` (`FsmWriter::write` + `close` over `DefaultProtocolWriter` against an arbitrary
sink, lean/Rfsm/Model/Sink.lean).

Three clauses:
* read: every strict prefix of a written image is answered with an error (not `Ok`, not a panic);
* short write: a sink that takes only part of a write (but at least one byte, and never fails) still
  receives the complete image;
* failing write: if some call of the sink fails, `has_error()` is true afterwards.

The third holds for every call sequence and every sink (theorem `C18_write_fail`).  The first two are
false on the unchanged code (counterexample theorems); what does hold is proved as `…_partial`.
-/
namespace Rfsm.Codec

def ReadResult.isErr : ReadResult → Bool
  | .errCantRead => true
  | .errVersion _ => true
  | _ => false

def ReadResult.isPanic : ReadResult → Bool
  | .panic _ => true
  | _ => false

def ReadResult.isOk : ReadResult → Bool
  | .ok _ => true
  | _ => false

/-- the sink reported a failure at some point of the run -/
def sawFailure (o : SinkOutcome) : Bool := o.state.sawErr
/-- `has_error()` after the run -/
def hasError (o : SinkOutcome) : Bool := !o.state.ok

def C18_read_full : Prop :=
  ∀ f : Fsm, wfFsm typeLim f = true → ∀ k, k < (imageOf f).length →
    (readImage ((imageOf f).take k)).isErr = true

def C18_short_full : Prop :=
  ∀ (f : Fsm) (k : Sink), wfFsm typeLim f = true → anyPanics (opsFsm f) = false → AcceptsUpTo k 1 →
    (writeFsmTo k f).state.out = imageOf f

def C18_fail_full : Prop :=
  ∀ (ops : List Op) (k : Sink), sawFailure (runOps k ops WState.init) = true →
    hasError (runOps k ops WState.init) = true

/-- The property at full strength. -/
def C18_full : Prop := C18_read_full ∧ C18_short_full ∧ C18_fail_full

/-! ## failing writes: holds in full -/

/-- Whatever the serializer writes and whatever the sink does: once a `write` or `flush` call has
failed (or `write_all` saw `Ok(0)`), `has_error()` is true — at the end and at every point in between
(the invariant `WInv` is preserved by every call). -/
theorem C18_write_fail : C18_fail_full := by
  intro ops k h
  have := runOps_inv k ops WState.init (by intro h; simp [WState.init] at h)
  simp only [sawFailure] at h
  simp [hasError, this h]
#assert_axioms C18_write_fail

/-- the same for a whole model, including the final `close()` -/
theorem C18_write_fail_fsm (f : Fsm) (k : Sink) (h : sawFailure (writeFsmTo k f) = true) :
    hasError (writeFsmTo k f) = true :=
  C18_write_fail (opsFsm f ++ [Op.flush]) k h
#assert_axioms C18_write_fail_fsm

/-! ## reading a truncated image -/

/-- **What holds.** After reading any strict prefix of the image of any model within the limits, the
protocol reader's sticky error flag is set: the information "this image is incomplete" is always
there when `FsmReader::read` is about to return.  (Proof: the reader decodes the full image exactly —
C05 — and no reader program that ends without error can have seen the end of its input —
`Prog.mono`.)  Missing for `C18_read_full`: `FsmReader::read` does not consult the flag, and
`BindingType::from_ordinal(0)` panics before the end is reached. -/
theorem C18_read_partial (f : Fsm) (h : wfFsm small f = true) (k : Nat) (hk : k < (imageOf f).length) :
    (readImageFull ((imageOf f).take k)).2 = true := by
  have := prefix_has_error h k hk
  simp only [readImageFull]
  cases hp : (readFsmProg.run (RState.init ((imageOf f).take k))).2.panic <;> simp [this]
#assert_axioms C18_read_partial

/-- so an `Ok` result for a strict prefix is never an `Ok` *without* the error flag: the only way the
unchanged reader accepts a truncated image is by ignoring `has_error()` -/
theorem C18_read_ok_is_flagged (f : Fsm) (h : wfFsm small f = true) (k : Nat) (hk : k < (imageOf f).length)
    (g : Fsm) (e : Bool) (hr : readImageFull ((imageOf f).take k) = (ReadResult.ok g, e)) : e = true := by
  have := C18_read_partial f h k hk
  rw [hr] at this
  exact this
#assert_axioms C18_read_ok_is_flagged

/-- `FsmReader::read` as it would be with the proposed minimal repair
(notes/codec-proposed-fixes/C18-P7-truncated-image.diff): the flag is consulted before the binding
ordinal is converted and again before `Ok` is returned -/
def readImageChecked (bytes : List Nat) : ReadResult :=
  match readImageFull bytes with
  | (_, true) => .errCantRead
  | (r, false) => r

/-- with that check the read clause holds: every strict prefix is an error, the complete image is
still read back -/
theorem C18_read_checked (f : Fsm) (h : wfFsm small f = true) :
    (∀ k, k < (imageOf f).length → (readImageChecked ((imageOf f).take k)).isErr = true) ∧
    readImageChecked (imageOf f) = ReadResult.ok f := by
  constructor
  · intro k hk
    have := C18_read_partial f h k hk
    unfold readImageChecked
    cases hr : readImageFull ((imageOf f).take k) with
    | mk r e =>
      rw [hr] at this
      simp only at this
      subst this
      rfl
  · simp [readImageChecked, readImageFull_image h]
#assert_axioms C18_read_checked

/-- the complete image, by contrast, is read without the flag -/
theorem C18_read_complete (f : Fsm) (h : wfFsm small f = true) :
    readImageFull (imageOf f) = (ReadResult.ok f, false) := readImageFull_image h
#assert_axioms C18_read_complete

/-- a cut inside the version string (the first 8 bytes) is reported as an error, for every model -/
theorem C18_read_version_cut (f : Fsm) (k : Nat) (hk : k < 8) :
    (readImage ((imageOf f).take k)).isErr = true := by
  have hs : imageOf f = [199, 102, 115, 109, 87, 49, 46, 49] ++ bytesOf ((opsFsm f).drop 1) := by
    rw [image_split]; rfl
  have ht : (imageOf f).take k = ([199, 102, 115, 109, 87, 49, 46, 49] : List Nat).take k := by
    rw [hs, List.take_append_of_le_length (by simp; omega)]
  rw [ht]
  have : k = 0 ∨ k = 1 ∨ k = 2 ∨ k = 3 ∨ k = 4 ∨ k = 5 ∨ k = 6 ∨ k = 7 := by omega
  rcases this with rfl | rfl | rfl | rfl | rfl | rfl | rfl | rfl <;> decide
#assert_axioms C18_read_version_cut

/-- the smallest model: no states, no transitions, no content -/
def emptyFsm : Fsm :=
  { name := [], datamodel := [], binding := .early, pseudoRoot := 0, script := 0, states := [],
    transitions := [], content := [] }

example : wfFsm small emptyFsm = true := by decide
example : imageOf emptyFsm = [199, 102, 115, 109, 87, 49, 46, 49, 192, 192, 49, 48, 48, 48, 48, 48] := by decide

/-- cut right after the version string: name, datamodel and the binding ordinal are read as defaults
after the error, and `BindingType::from_ordinal(0)` panics -/
theorem C18_read_counterexample_panic :
    (readImage ((imageOf emptyFsm).take 8)).isPanic = true ∧ (readImage ((imageOf emptyFsm).take 10)).isPanic = true := by
  decide
#assert_axioms C18_read_counterexample_panic

/-- cut after the binding byte: `Ok` with a model whose remaining fields are defaults -/
theorem C18_read_counterexample_ok :
    (readImage ((imageOf emptyFsm).take 11)).isOk = true ∧ (readImage ((imageOf emptyFsm).take 15)).isOk = true := by
  decide
#assert_axioms C18_read_counterexample_ok

theorem C18_read_counterexample : ¬ C18_read_full := by
  intro h
  have := h emptyFsm (by decide) 11 (by decide)
  revert this
  decide
#assert_axioms C18_read_counterexample

/-! ## short writes -/

/-- **What holds.** Against a sink that never fails and takes at least one byte per call the writer
never records an error (so any loss is silent), and every byte that goes through `write_all` — type
nibbles, numbers, booleans, string headers — arrives.  The image is complete whenever no string payload
is longer than what the sink takes at once (`m`; `m = 1`: all strings of at most one byte).  Missing
for `C18_short_full`: `write_str` hands the payload to `Write::write` and ignores the returned count. -/
theorem C18_short_partial (ops : List Op) (k : Sink) (m : Nat) (hm : 1 ≤ m) (hk : AcceptsUpTo k m)
    (hp : anyPanics ops = false) :
    ∃ w, runOps k ops WState.init = .done w ∧ w.ok = true ∧ w.sawErr = false ∧
      ((∀ op ∈ ops, payloadLen op ≤ m) → w.out = bytesOf ops) := by
  obtain ⟨w, e, a, c, o⟩ := runOps_ok k m hm hk ops WState.init rfl hp
  exact ⟨w, e, a, c, fun h => by simpa [WState.init] using o h⟩
#assert_axioms C18_short_partial

/-- against the sink of a `Vec<u8>` the bytes are `bytesOf`: the pure image is what the real writer
produces when nothing goes wrong -/
theorem C18_ideal_sink (ops : List Op) (hp : anyPanics ops = false) :
    ∃ w, runOps idealSink ops WState.init = .done w ∧ w.ok = true ∧ w.out = bytesOf ops := by
  obtain ⟨w, e, a, _, o⟩ := runOps_ok idealSink (((ops.map payloadLen).foldr max 0) + 1) (by omega)
    (idealSink_accepts _) ops WState.init rfl hp
  exact ⟨w, e, a, by simpa [WState.init] using o (fun op h => by have := payload_le_max ops op h; omega)⟩
#assert_axioms C18_ideal_sink

/-- one byte per call: the name "ab" of a model loses its second byte, and no error is recorded -/
def oneByteSink : Sink := ⟨fun _ _ => .acc 1, false⟩

def abFsm : Fsm := { emptyFsm with name := [97, 98] }

theorem C18_short_counterexample :
    AcceptsUpTo oneByteSink 1 ∧ anyPanics (opsFsm abFsm) = false ∧
    (writeFsmTo oneByteSink abFsm).state.out ≠ imageOf abFsm ∧ hasError (writeFsmTo oneByteSink abFsm) = false := by
  refine ⟨⟨rfl, fun _ len => ⟨1, rfl, by omega⟩⟩, by decide, by decide, by decide⟩
#assert_axioms C18_short_counterexample

theorem C18_counterexample : ¬ C18_full := fun h => C18_read_counterexample h.1
#assert_axioms C18_counterexample

end Rfsm.Codec
