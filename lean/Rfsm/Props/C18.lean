import Rfsm.Audit
import Rfsm.Proofs.CodecFsm
import Rfsm.Proofs.CodecSink
/-!
# C18 — Partial or failed `.rfsm` I/O is reported, never silently accepted

Model: `Rfsm.Codec` — reader side `readImage` (`FsmReader::read` over `DefaultProtocolReader` with its
sticky error flag and defaults after an error; a Rust panic is an explicit outcome), writer side
`runOps` / `writeFsmTo` (`FsmWriter::write` + `close` over `DefaultProtocolWriter` against an arbitrary
sink, lean/Rfsm/Model/Sink.lean).

Three clauses:
* read: every strict prefix of a written image is answered with an error (not `Ok`, not a panic);
* short write: a sink that takes only part of a write (but at least one byte, and never fails) still
  receives the complete image;
* failing write: if some call of the sink fails, `has_error()` is true afterwards.

State after the repairs of round 2 (`FsmReader::read` consults `has_error()` before it converts the
binding ordinal and before it returns `Ok`; `write_str` uses `write_all`): the second and third clause
are proved in full (`C18_short`, `C18_write_fail`).  Of the first, "never `Ok`" and "the error flag is
set" are proved for every model and every cut (`C18_read_never_ok`, `C18_read_partial`); that the one
panic site left in the reader (`read_executable_content`, "Unknown Executable Content") is not reached on
a prefix is proved for the cuts inside the header and checked on concrete images only — see
`C18_read_partial`.
-/
namespace Rfsm.Codec

def ReadResult.isErr : ReadResult → Bool
  | .errCantRead => true
  | .errVersion _ => true
  | _ => false

def ReadResult.isPanic : ReadResult → Bool
  | .panic _ => true
  | _ => false

def ReadResult.isOk : ReadResult → Bool
  | .ok _ => true
  | _ => false

/-- the sink reported a failure at some point of the run -/
def sawFailure (w : WState) : Bool := w.sawErr
/-- `has_error()` after the run -/
def hasError (w : WState) : Bool := !w.ok

def C18_read_full : Prop :=
  ∀ f : Fsm, wfFsm typeLim f = true → ∀ k, k < (imageOf f).length →
    (readImage ((imageOf f).take k)).isErr = true

def C18_short_full : Prop :=
  ∀ (f : Fsm) (k : Sink), wfFsm typeLim f = true → AcceptsUpTo k 1 →
    (writeFsmTo k f).out = imageOf f

def C18_fail_full : Prop :=
  ∀ (ops : List Op) (k : Sink), sawFailure (runOps k ops WState.init) = true →
    hasError (runOps k ops WState.init) = true

/-- The property at full strength. -/
def C18_full : Prop := C18_read_full ∧ C18_short_full ∧ C18_fail_full

/-! ## failing writes: holds in full -/

/-- Whatever the serializer writes and whatever the sink does: once a `write` or `flush` call has
failed (or `write_all` saw `Ok(0)`), `has_error()` is true — at the end and at every point in between
(the invariant `WInv` is preserved by every call). -/
theorem C18_write_fail : C18_fail_full := by
  intro ops k h
  have := runOps_inv k ops WState.init (by intro h; simp [WState.init] at h)
  simp only [sawFailure] at h
  simp [hasError, this h]
#assert_axioms C18_write_fail

/-- the same for a whole model, including the final `close()` -/
theorem C18_write_fail_fsm (f : Fsm) (k : Sink) (h : sawFailure (writeFsmTo k f) = true) :
    hasError (writeFsmTo k f) = true :=
  C18_write_fail (opsFsm f ++ [Op.flush]) k h
#assert_axioms C18_write_fail_fsm

/-! ## reading a truncated image -/

/-- `FsmReader::read` returns `Ok` only with the error flag unset (it consults `has_error()` last) -/
theorem readFsmProg_ok_unflagged (st : RState) :
    (readFsmProg.run st).1.isOk = true → (readFsmProg.run st).2.ok = true := by
  simp only [readFsmProg, run_bind, pHasError]
  split
  · simp only [run_bind, run_prim, Prim.run]
    split
    · simp [ReadResult.isOk]
    · simp only [run_bind, run_prim, Prim.run]
      generalize (readFsmRest _ _ _).run _ = R
      by_cases hk : R.2.ok = true <;> simp [hk, ReadResult.isOk]
  · simp only [run_bind, run_prim, Prim.run]
    generalize (pStr.run st).snd = X
    by_cases hk : X.ok = true <;> simp [hk, ReadResult.isOk]
#assert_axioms readFsmProg_ok_unflagged

/-- After reading any strict prefix of the image of any model, the protocol reader's sticky error flag
is set.  (Proof: the reader decodes the full image exactly — C05 — and no reader program that ends
without error can have seen the end of its input — `Prog.mono`.) -/
theorem C18_read_flag (f : Fsm) (h : wfFsm typeLim f = true) (k : Nat) (hk : k < (imageOf f).length) :
    (readImageFull ((imageOf f).take k)).2 = true := by
  have := prefix_has_error h k hk
  simp only [readImageFull]
  cases hp : (readFsmProg.run (RState.init ((imageOf f).take k))).2.panic <;> simp [this]
#assert_axioms C18_read_flag

/-- **No strict prefix of any image is accepted**: `FsmReader::read` never answers `Ok` (the finding
`C18-P7-prefix-ok` — `Ok` with a model made of defaults — is gone for every model and every cut). -/
theorem C18_read_never_ok (f : Fsm) (h : wfFsm typeLim f = true) (k : Nat) (hk : k < (imageOf f).length) :
    (readImage ((imageOf f).take k)).isOk = false := by
  have hflag := prefix_has_error h k hk
  cases hr : (readImage ((imageOf f).take k)).isOk with
  | false => rfl
  | true =>
    exfalso
    simp only [readImage, readImageFull] at hr
    cases hp : (readFsmProg.run (RState.init ((imageOf f).take k))).2.panic with
    | some s => rw [hp] at hr; simp [ReadResult.isOk] at hr
    | none =>
      rw [hp] at hr
      have := readFsmProg_ok_unflagged _ hr
      rw [hflag] at this
      exact absurd this (by simp)
#assert_axioms C18_read_never_ok

/-- **What holds of the read clause.** For every model and every cut the answer is an error, or else a
panic — never `Ok`.  Missing for `C18_read_full`: that the panic cannot happen.  The reader's only
panic site left is `read_executable_content` on an unknown content type byte (the model's nesting
fuel is the other `Site`); on a prefix the type bytes read before the cut are those of the full image
(0…8) and after the cut `read_u8` answers 0 (`If`), so it is not reached — but this needs an induction
over all reader programs that is not done here.  It is proved for the cuts inside the version string
(`C18_read_version_cut`), by evaluation for every cut of concrete images (`C18_read_examples`), and the
harness checks every prefix it generates (no panic is tolerated there). -/
theorem C18_read_partial (f : Fsm) (h : wfFsm typeLim f = true) (k : Nat) (hk : k < (imageOf f).length) :
    (readImage ((imageOf f).take k)).isErr = true ∨ (readImage ((imageOf f).take k)).isPanic = true := by
  have := C18_read_never_ok f h k hk
  cases hr : readImage ((imageOf f).take k) with
  | ok g => rw [hr] at this; simp [ReadResult.isOk] at this
  | errCantRead => exact Or.inl rfl
  | errVersion v => exact Or.inl rfl
  | panic s => exact Or.inr rfl
#assert_axioms C18_read_partial

/-- the complete image, by contrast, is read without the flag -/
theorem C18_read_complete (f : Fsm) (h : wfFsm typeLim f = true) :
    readImageFull (imageOf f) = (ReadResult.ok f, false) := readImageFull_image h
#assert_axioms C18_read_complete

/-- a cut inside the version string (the first 8 bytes) is reported as an error, for every model -/
theorem C18_read_version_cut (f : Fsm) (k : Nat) (hk : k < 8) :
    (readImage ((imageOf f).take k)).isErr = true := by
  have hs : imageOf f = [199, 102, 115, 109, 87, 49, 46, 49] ++ bytesOf ((opsFsm f).drop 1) := by
    rw [image_split]; rfl
  have ht : (imageOf f).take k = ([199, 102, 115, 109, 87, 49, 46, 49] : List Nat).take k := by
    rw [hs, List.take_append_of_le_length (by simp; omega)]
  rw [ht]
  have : k = 0 ∨ k = 1 ∨ k = 2 ∨ k = 3 ∨ k = 4 ∨ k = 5 ∨ k = 6 ∨ k = 7 := by omega
  rcases this with rfl | rfl | rfl | rfl | rfl | rfl | rfl | rfl <;> decide
#assert_axioms C18_read_version_cut

/-- the smallest model: no states, no transitions, no content -/
def emptyFsm : Fsm :=
  { name := [], datamodel := [], binding := .early, pseudoRoot := 0, script := 0, states := [],
    transitions := [], content := [] }

example : wfFsm typeLim emptyFsm = true := by decide
example : imageOf emptyFsm = [199, 102, 115, 109, 87, 49, 46, 49, 192, 192, 49, 48, 48, 48, 48, 48] := by decide

/-- a model with one state, one transition and one block of content -/
def tinyFsm : Fsm :=
  { name := [77], datamodel := [], binding := .late, pseudoRoot := 1, script := 0,
    states := [{ id := 1, docId := 1, name := [114], historyType := .none, isParallel := false,
                 isFinal := false, initial := 0, states := [], onentry := [1], onexit := [],
                 transitions := [8], invoke := [], history := [], data := [], parent := 0, donedata := none }],
    transitions := [{ id := 8, docId := 6, source := 1, target := [1], events := [[101]],
                      ttype := .internal, wildcard := false, cond := .null, content := 1 }],
    content := [(1, [.raise [101], .log [] (.string [104, 105]), .script [1]])] }

example : wfFsm typeLim tinyFsm = true := by decide +kernel

/-- regression of `C18-P7-prefix-panic` / `C18-P7-prefix-ok`: every cut of the 16-byte image of the
empty model (8 and 10 used to panic in `BindingType::from_ordinal(0)`, 11 and 15 used to be `Ok`) and
every cut of the image of `tinyFsm` is answered with an error -/
theorem C18_read_examples :
    (∀ k, k < (imageOf emptyFsm).length → (readImage ((imageOf emptyFsm).take k)).isErr = true) ∧
    (∀ k, k < (imageOf tinyFsm).length → (readImage ((imageOf tinyFsm).take k)).isErr = true) := by
  constructor
  · intro k hk
    have : ((List.range (imageOf emptyFsm).length).all
        fun k => (readImage ((imageOf emptyFsm).take k)).isErr) = true := by decide +kernel
    exact List.all_eq_true.mp this k (List.mem_range.mpr hk)
  · intro k hk
    have : ((List.range (imageOf tinyFsm).length).all
        fun k => (readImage ((imageOf tinyFsm).take k)).isErr) = true := by decide +kernel
    exact List.all_eq_true.mp this k (List.mem_range.mpr hk)
#assert_axioms C18_read_examples

/-! ## short writes: holds in full -/

/-- Against a sink that never fails and takes at least one byte per call, every call sequence delivers
exactly its bytes and records no error (`write_str` hands the payload to `write_all`, which repeats
`write` until everything is taken). -/
theorem C18_short_ops (ops : List Op) (k : Sink) (hk : AcceptsUpTo k 1) :
    (runOps k ops WState.init).out = bytesOf ops ∧ (runOps k ops WState.init).ok = true ∧
    (runOps k ops WState.init).sawErr = false := by
  obtain ⟨a, c, o⟩ := runOps_ok k 1 (Nat.le_refl 1) hk ops WState.init rfl
  exact ⟨by simpa [WState.init] using o, a, c⟩
#assert_axioms C18_short_ops

theorem C18_short : C18_short_full := by
  intro f k _ hk
  have := (C18_short_ops (opsFsm f ++ [Op.flush]) k hk).1
  simpa [writeFsmTo, imageOf, Op.bytes] using this
#assert_axioms C18_short

/-- against the sink of a `Vec<u8>` the bytes are `bytesOf`: the pure image is what the real writer
produces when nothing goes wrong -/
theorem C18_ideal_sink (ops : List Op) :
    (runOps idealSink ops WState.init).ok = true ∧ (runOps idealSink ops WState.init).out = bytesOf ops := by
  obtain ⟨o, a, _⟩ := C18_short_ops ops idealSink (idealSink_accepts 1)
  exact ⟨a, o⟩
#assert_axioms C18_ideal_sink

/-- regression of `C18-P8-short-write`: one byte per call; the name "ab" of a model used to lose its
second byte with no error recorded -/
def oneByteSink : Sink := ⟨fun _ _ => .acc 1, false⟩

def abFsm : Fsm := { emptyFsm with name := [97, 98] }

theorem C18_short_regression :
    AcceptsUpTo oneByteSink 1 ∧
    (writeFsmTo oneByteSink abFsm).out = imageOf abFsm ∧ hasError (writeFsmTo oneByteSink abFsm) = false := by
  refine ⟨⟨rfl, fun _ len => ⟨1, rfl, by omega⟩⟩, by decide, by decide⟩
#assert_axioms C18_short_regression

/-- the two clauses about writing, together -/
theorem C18_write : C18_short_full ∧ C18_fail_full := ⟨C18_short, C18_write_fail⟩
#assert_axioms C18_write

end Rfsm.Codec
