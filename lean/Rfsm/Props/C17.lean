import Rfsm.Audit
import Rfsm.Proofs.LocksLemmas
import Rfsm.Proofs.LockTableLemmas
import Rfsm.Gen.LockSites
/-!
# C17 — Concurrent sessions never deadlock on the platform's internal locks

Model: `Rfsm.Locks` (`Model/Locks.lean`): threads are programs over `acquire l | release l` on
non-reentrant locks, the scheduler is explicit, `Deadlock s` is a non-empty set of threads each
blocked on a lock held by a member of the set (one thread re-locking its own lock included).

**General part** (no reference to the code; unbounded in the number of threads, locks, program
lengths and schedules):

* `order_no_deadlock`   a strict order on the locks that every thread follows (locks private to a
  thread excepted) excludes deadlock in every reachable state;
* `ranked_no_deadlock`  the same for a rank function into `Nat`;
* `ranked_progress`     … and some unfinished thread can always step;
* `ranked_completes`    … and every reachable state can be run to completion; the only states in
  which nothing can move are the finished ones (`ranked_stuck_only_when_done`).

**Instance part**: `Rfsm.Gen.LockSites.edges` is the held-while-acquiring table of the code,
regenerated from `/repo/src` on every run.  `C17_full` says that every system of threads whose
acquisitions are instances of the table's edges is deadlock-free.

State of the code (after the repairs `1c1d11d` session start / `FsmExecutor::shutdown`, `baeeed4`
`Fsm::invoke`, `54484ea` `<send>` target — the lock-order cycles `E → P → E`, `E → P → G → E` and
`G → P → G` reported by earlier versions of this file are gone):

* `C17_repaired_edges_absent`, `C17_no_cycle_E_P`, `C17_no_cycle_G_P`, `C17_no_cycle_E_P_G`: the
  generated table has no edge `E → P`, `G → P`, `G → Gn` any more and none of the old cycles; the
  unrepaired start / invoke programs no longer conform to it (`C17_old_start_rejected`,
  `C17_old_invoke_rejected`) although they do deadlock in the model
  (`C17_old_start_deadlocks`, `C17_old_invoke_deadlocks`: what the repair removed).
* `C17_minimal_cycles`, `C17_all_cycles`: the **only** cycle left is the self-loop `D → D` (a data
  cell locked while a data cell that may be the same one is held.  Its instances inside
  rfsm-expressions — `a[a]`, `a = a`, `a ?= a`, `a == [a]`, cf. C11 — are repaired: those lock
  sites hold no other cell any more; the edge stays in the table through the calling contexts in
  which the *caller* of an evaluation holds a cell, and `DataArc::eq` still locks both sides while
  it descends).  `C17_full` is therefore still **false**: `C17_counterexample_D_D`.
* `C17_modulo_relock` — proved for the **whole** table of the code as it is now: every conforming
  system in which no thread requests a lock it is holding is deadlock-free under every schedule and,
  if balanced, can always step and finish.  `C17_deadlock_needs_relock`: a reachable deadlock of a
  conforming system implies that some program re-locks a held lock.
* `C17_partial` — the same conclusion for every system conforming to the table minus the single
  offending edge `D → D any` (no side condition on the programs).
* `C17_repaired_scenarios_deadlock_free`: the abstract programs of the former confirmation
  scenarios (start ∥ cross-session send, invoke ∥ own delayed send) in their repaired shape cannot
  deadlock under any schedule.
-/
namespace Rfsm.Locks

variable {L : Type} [DecidableEq L]

/-! ## General theorems -/

/-- **Lock-order theorem.**  Let `lt` be a strict order on the locks and `pv` an assignment of
private locks to threads.  If every thread only acquires a lock `l` while each lock `h` it holds is
`lt`-below `l` — or private to the thread and different from `l` — and no thread touches another
thread's private locks, then no reachable state is a deadlock (self-deadlock included). -/
theorem order_no_deadlock (lt : L → L → Prop) (hirr : ∀ a, ¬ lt a a)
    (htr : ∀ a b c, lt a b → lt b c → lt a c) (pv : L → Option Nat)
    (progs : List (List (Op L)))
    (hord : ∀ (u : Nat) (p : List (Op L)), progs[u]? = some p → OrderedP lt pv u [] p)
    (s : Sys L) (hr : Reach (start progs) s) : ¬ Deadlock s := by
  apply invP_state_no_deadlock (lt := lt) (pv := pv) hirr htr
  refine reach_invP (lt := lt) (pv := pv) ?_ hr
  apply start_allThreads
  intro u p hp
  show HeldOk pv u [] ∧ OrderedP lt pv u [] p
  exact ⟨(fun h hh => nomatch hh), hord u p hp⟩
#assert_axioms order_no_deadlock

/-- **`ranked_no_deadlock`.**  If there is a rank function such that every thread only ever
acquires locks of rank strictly greater than all locks it currently holds, no reachable state is a
deadlock: along a wait cycle the awaited ranks would strictly increase. -/
theorem ranked_no_deadlock (rank : L → Nat) (progs : List (List (Op L)))
    (hord : ∀ p ∈ progs, Ordered (fun a b => rank a < rank b) [] p)
    (s : Sys L) (hr : Reach (start progs) s) : ¬ Deadlock s := by
  apply ordered_state_no_deadlock (lt := fun a b => rank a < rank b)
    (fun a => Nat.lt_irrefl _) (fun a b c => Nat.lt_trans)
  apply reach_ordered _ hr
  apply start_allThreads
  intro u p hp
  exact hord p (List.mem_of_getElem? hp)
#assert_axioms ranked_no_deadlock

/-- **Progress.**  Under the rank discipline, if moreover every program releases what it acquires,
then in every reachable state with an unfinished thread some thread can execute its next step. -/
theorem ranked_progress (rank : L → Nat) (progs : List (List (Op L)))
    (hord : ∀ p ∈ progs, Ordered (fun a b => rank a < rank b) [] p)
    (hbal : ∀ p ∈ progs, Balanced [] p)
    (s : Sys L) (hr : Reach (start progs) s) (hun : unfinished s) :
    ∃ t s', step s t = some s' := by
  have hinv : AllThreads (InvP (fun a b => rank a < rank b) (fun _ => none)) s := by
    apply reach_invP _ hr
    apply start_allThreads
    intro u p hp
    show HeldOk (fun _ => none) u [] ∧ OrderedP _ (fun _ => none) u [] p
    exact ⟨(fun h hh => nomatch hh), orderedP_of_ordered u p [] (hord p (List.mem_of_getElem? hp))⟩
  have hb : AllThreads (fun _ => Balanced) s := by
    apply reach_balanced _ hr
    apply start_allThreads
    intro u p hp
    exact hbal p (List.mem_of_getElem? hp)
  exact progress_of_inv (lt := fun a b => rank a < rank b) (fun a => Nat.lt_irrefl _)
    (fun a b c => Nat.lt_trans) hinv hb hun
#assert_axioms ranked_progress

/-- the only reachable states in which no thread can move are those where every thread is done -/
theorem ranked_stuck_only_when_done (rank : L → Nat) (progs : List (List (Op L)))
    (hord : ∀ p ∈ progs, Ordered (fun a b => rank a < rank b) [] p)
    (hbal : ∀ p ∈ progs, Balanced [] p)
    (s : Sys L) (hr : Reach (start progs) s) (hstuck : ∀ t, step s t = none) :
    allFinished s = true := by
  cases hf : allFinished s with
  | true => rfl
  | false =>
    obtain ⟨t, s', h⟩ := ranked_progress rank progs hord hbal s hr (not_allFinished_unfinished hf)
    rw [hstuck t] at h
    cases h
#assert_axioms ranked_stuck_only_when_done

/-- **Completion.**  Under the same hypotheses every reachable state can be run to the end: there is
a schedule after which all threads have finished (in fact any schedule that keeps picking enabled
threads does, after exactly `todo s` steps). -/
theorem ranked_completes (rank : L → Nat) (progs : List (List (Op L)))
    (hord : ∀ p ∈ progs, Ordered (fun a b => rank a < rank b) [] p)
    (hbal : ∀ p ∈ progs, Balanced [] p)
    (s : Sys L) (hr : Reach (start progs) s) :
    ∃ sched s', exec s sched = some s' ∧ allFinished s' = true := by
  have hinv : AllThreads (InvP (fun a b => rank a < rank b) (fun _ => none)) s := by
    apply reach_invP _ hr
    apply start_allThreads
    intro u p hp
    show HeldOk (fun _ => none) u [] ∧ OrderedP _ (fun _ => none) u [] p
    exact ⟨(fun h hh => nomatch hh), orderedP_of_ordered u p [] (hord p (List.mem_of_getElem? hp))⟩
  have hb : AllThreads (fun _ => Balanced) s := by
    apply reach_balanced _ hr
    apply start_allThreads
    intro u p hp
    exact hbal p (List.mem_of_getElem? hp)
  exact completes_of_inv (lt := fun a b => rank a < rank b) (fun a => Nat.lt_irrefl _)
    (fun a b c => Nat.lt_trans) (todo s) s rfl hinv hb
#assert_axioms ranked_completes

/-- sanity of the machine: in every state reachable from a clean start a lock has at most one
holder (locks are mutually exclusive and non-reentrant) -/
theorem reach_mutex (progs : List (List (Op L))) (s : Sys L) (hr : Reach (start progs) s) :
    Mutex s := by
  have : Mutex s ∧ NoDup s := by
    induction hr with
    | refl =>
      constructor
      · intro u v thu thv l hu _ hlu _
        obtain ⟨p, _, rfl⟩ := start_getElem? hu
        cases hlu
      · intro u th hu
        obtain ⟨p, _, rfl⟩ := start_getElem? hu
        exact List.nodup_nil
    | step _ hstep ih => exact step_mutex ih.1 ih.2 hstep
  exact this.1
#assert_axioms reach_mutex

/-- a state recognised by the decidable checker is a deadlock -/
theorem deadlockedSet_is_deadlock (s : Sys L) (S : List Nat) (h : deadlockedSet s S = true) :
    Deadlock s := deadlockedSet_sound h
#assert_axioms deadlockedSet_is_deadlock

/-! non-vacuity of the general theorems: two threads taking locks 1 then 2 (rank = identity) -/
example : ∀ p ∈ [[Op.acquire 1, .acquire 2, .release 2, .release 1],
                 [Op.acquire 1, .acquire 2, .release 1, .release 2]],
    Ordered (fun a b : Nat => id a < id b) [] p ∧ Balanced [] p := by
  intro p hp
  simp only [List.mem_cons, List.not_mem_nil, or_false] at hp
  rcases hp with rfl | rfl <;> simp [Ordered, Balanced]

/-- … and the classical inversion (1 then 2 against 2 then 1) is rejected by every rank and does
deadlock under the schedule 0,1: the hypothesis of the theorems is not idle.  (Test, by `decide`.) -/
example : deadlockedSet
    ((exec (start [[Op.acquire 1, .acquire 2], [Op.acquire 2, .acquire 1]]) [0, 1]).getD []) [0, 1]
      = true := by
  decide

/-- self-deadlock is a deadlock of the model (Test, by `decide`.) -/
example : deadlockedSet ((exec (start [[Op.acquire 7, .acquire 7]]) [0]).getD []) [0] = true := by
  decide

/-! ## Instance: the lock-site table of the code -/

open Rfsm.Gen.LockSites

/-- **The property at full strength**: every system of session, timer and host threads whose
held-while-acquiring pairs are instances of the edges of the code's lock-site table (private data
cells being private) never reaches a deadlock, under any schedule. -/
def C17_full : Prop :=
  ∀ (pv : Lk → Option Nat) (progs : List (List (Op Lk))),
    systemConforms edges pv progs = true →
    ∀ s, Reach (start progs) s → ¬ Deadlock s

/-- For *any* table: admitting a class rank makes every conforming system deadlock-free. -/
theorem C17_ranked_table_deadlock_free (table : List Edge) (cr : Cls → Nat)
    (hadm : admits cr table = true) (pv : Lk → Option Nat) (progs : List (List (Op Lk)))
    (hconf : systemConforms table pv progs = true) (s : Sys Lk) (hr : Reach (start progs) s) :
    ¬ Deadlock s :=
  table_no_deadlock hadm pv progs (systemConforms_sound hconf) s hr
#assert_axioms C17_ranked_table_deadlock_free

/-- … and, when the programs release what they acquire, always able to make a step and to finish -/
theorem C17_ranked_table_progress (table : List Edge) (cr : Cls → Nat)
    (hadm : admits cr table = true) (pv : Lk → Option Nat) (progs : List (List (Op Lk)))
    (hconf : systemConforms table pv progs = true) (hbal : systemBalanced progs = true)
    (s : Sys Lk) (hr : Reach (start progs) s) :
    (unfinished s → ∃ t s', step s t = some s') ∧
    ∃ sched s', exec s sched = some s' ∧ allFinished s' = true := by
  have hinv : AllThreads (InvP (ltLk cr) pv) s := by
    apply reach_invP _ hr
    apply start_allThreads
    intro u p hp
    show HeldOk pv u [] ∧ OrderedP (ltLk cr) pv u [] p
    exact ⟨(fun h hh => nomatch hh), conforms_orderedP hadm (systemConforms_sound hconf u p hp)⟩
  have hb : AllThreads (fun _ => Balanced) s := by
    apply reach_balanced _ hr
    apply start_allThreads
    exact systemBalanced_sound hbal
  exact ⟨progress_of_inv (ltLk_irrefl cr) (ltLk_trans cr) hinv hb,
    completes_of_inv (ltLk_irrefl cr) (ltLk_trans cr) (todo s) s rfl hinv hb⟩
#assert_axioms C17_ranked_table_progress

/-! ### the code as it is now: the only cycle left is `D → D` -/

/-- the edges behind the repaired cycles: a processor locked under the executor state (`E → P`, was
`start_fsm_with_data_and_finish_mode#5`, `FsmExecutor::shutdown#1`), the child start under the
parent's global data (`G → Gn`, `G → P`, was `Fsm::invoke#3/#5`) -/
def repairedOffending (e : Edge) : Bool :=
  (e.held == .E && e.acq == .P) || (e.held == .G && (e.acq == .Gn || e.acq == .P))

/-- none of them is in the table generated from the current source (regression: re-introducing one
of these held-while-acquiring pairs makes this theorem — and the check — fail) -/
theorem C17_repaired_edges_absent : edges.all (fun e => !repairedOffending e) = true := by decide
#assert_axioms C17_repaired_edges_absent

/-- the executor-state / processor inversion is gone -/
theorem C17_no_cycle_E_P : classCycle edges [.E, .P] = false := by decide
#assert_axioms C17_no_cycle_E_P

/-- the global-data / processor inversion is gone -/
theorem C17_no_cycle_G_P : classCycle edges [.G, .P] = false := by decide
#assert_axioms C17_no_cycle_G_P

/-- … and so is the three-lock cycle of DESIGN §5 P16 -/
theorem C17_no_cycle_E_P_G : classCycle edges [.E, .P, .G] = false := by decide
#assert_axioms C17_no_cycle_E_P_G

/-- a data cell is locked while a data cell that may be the same one is held -/
theorem C17_cycle_D_D : classCycle edges [.D] = true := by decide
#assert_axioms C17_cycle_D_D

/-- **`C17_cycle`**: because of that self-loop the table admits no rank as it stands -/
theorem C17_cycle : ∀ cr : Cls → Nat, admits cr edges = false :=
  classCycle_not_admits C17_cycle_D_D
#assert_axioms C17_cycle

/-- the self-loop is the only cycle of the table (simple cycles, each found once) -/
theorem C17_all_cycles : allCycles edges = [[.D]] := by decide
#assert_axioms C17_all_cycles

/-- … also as reported by the driver (`locks table`, `locks cycles`) -/
theorem C17_minimal_cycles : (minimalCycles edges).map showCycle = ["D>D"] := by decide
#assert_axioms C17_minimal_cycles

/-! ### abstract programs of the platform's lock users -/

def lkE : Lk := ⟨.E, 0⟩
def lkP : Lk := ⟨.P, 0⟩
def lkG (sid : Nat) : Lk := ⟨.G, sid⟩
def lkGn (sid : Nat) : Lk := ⟨.Gn, sid⟩
def lkD (cell : Nat) : Lk := ⟨.D, cell⟩

/-- what `start_fsm_with_data_and_finish_mode` does for a new session `sid` (fsm.rs:100–141): the
processor list is copied out of the executor state, `E` is released, then the processors are locked
under the new session's global data only -/
def progStart (sid : Nat) : List (Op Lk) :=
  [.acquire (lkGn sid), .release (lkGn sid),          -- source
   .acquire lkE, .release lkE,                        -- sessions.insert, options
   .acquire lkE, .release lkE,                        -- processors.clone()
   .acquire (lkGn sid), .acquire lkP, .release lkP, .release (lkGn sid)]

/-- what a cross-session `<send>` (or `cancelInvoke`, `returnDoneEvent`) of session `sid` does:
`Datamodel::send` → `ScxmlEventIOProcessor::send` → `FsmExecutor::get_session_sender` -/
def progSend (sid : Nat) : List (Op Lk) :=
  [.acquire (lkG sid), .release (lkG sid),            -- get_io_processor
   .acquire lkP, .acquire (lkG sid), .acquire lkE, .release lkE, .release (lkG sid), .release lkP]

/-- the delayed-send closure on the timer thread of session `sid` (executable_content.rs:671–678) -/
def progTimer (sid : Nat) : List (Op Lk) :=
  [.acquire (lkG sid), .release (lkG sid),            -- delayed_send.remove
   .acquire lkP, .acquire (lkG sid), .acquire lkE, .release lkE, .release (lkG sid), .release lkP]

/-- `Fsm::invoke` of session `sid` starting child `child` (fsm.rs:3143–3203): session id, actions and
executor are copied out of `G(sid)`, which is released before the child is started and taken again
to record the child -/
def progInvoke (sid child : Nat) : List (Op Lk) :=
  [.acquire (lkG sid), .release (lkG sid)] ++ progStart child ++
  [.acquire (lkG sid), .release (lkG sid)]

/-- the start before repair `1c1d11d`: the processors were locked while `E` (and `Gn`) was held -/
def progStartOld (sid : Nat) : List (Op Lk) :=
  [.acquire (lkGn sid), .release (lkGn sid),
   .acquire lkE, .release lkE,
   .acquire (lkGn sid), .acquire lkE, .acquire lkP, .release lkP, .release lkE, .release (lkGn sid)]

/-- the invoke before repair `baeeed4`: `G(sid)` was held across the child start -/
def progInvokeOld (sid child : Nat) : List (Op Lk) :=
  [.acquire (lkG sid)] ++ progStart child ++ [.release (lkG sid)]

def noPriv : Lk → Option Nat := fun _ => none
def cellsOf0 : Lk → Option Nat := fun l => if l.cls = .D then some 0 else none

/-! ### the repaired cycles: what the old shapes did, and that the table rejects them now -/

/-- host starts session 2 (old shape) while session 1 sends to another session -/
def cexEPold : List (List (Op Lk)) := [progStartOld 2, progSend 1]

/-- session 1 invokes child 2 (old shape) while a delayed send of session 1 fires -/
def cexGPold : List (List (Op Lk)) := [progInvokeOld 1 2, progTimer 1]

/-- schedule: the starter takes `E` (steps 1–6 of thread 0), the sender takes `P` and `G(1)`
(steps 1–4 of thread 1); now 0 waits for `P`, 1 waits for `E` -/
def schedEP : List Nat := [0, 0, 0, 0, 0, 0, 1, 1, 1, 1]

/-- schedule: the timer takes `G(1)` and releases it, the parent takes `G(1)`, the timer takes `P`
and waits for `G(1)`; the parent goes on to the child start and waits for `P` -/
def schedGP : List Nat := [1, 1, 0, 1, 0, 0, 0, 0, 0, 0, 0]

/-- the old start did deadlock against a sender (model run; this is what `1c1d11d` removed) -/
theorem C17_old_start_deadlocks :
    ∃ s, exec (start cexEPold) schedEP = some s ∧ deadlockedSet s [0, 1] = true := by
  refine ⟨(exec (start cexEPold) schedEP).getD [], by decide, by decide⟩
#assert_axioms C17_old_start_deadlocks

/-- the old invoke did deadlock against the session's own timer (what `baeeed4` removed) -/
theorem C17_old_invoke_deadlocks :
    ∃ s, exec (start cexGPold) schedGP = some s ∧ deadlockedSet s [0, 1] = true := by
  refine ⟨(exec (start cexGPold) schedGP).getD [], by decide, by decide⟩
#assert_axioms C17_old_invoke_deadlocks

/-- the table of the current source does not allow the old start … -/
theorem C17_old_start_rejected : systemConforms edges noPriv cexEPold = false := by decide
#assert_axioms C17_old_start_rejected

/-- … nor the old invoke -/
theorem C17_old_invoke_rejected : systemConforms edges noPriv cexGPold = false := by decide
#assert_axioms C17_old_invoke_rejected

/-! ### the remaining counterexample: re-locking a data cell -/

/-- a data cell is held and the same cell is locked again: what the edge `D → D any` of the table
admits (an expression evaluated while its caller holds a cell of the session; `DataArc::eq` on
cyclic data).  The former instances `a[a]`, `a = a`, `a ?= a` inside expressions are repaired. -/
def cexDD : List (List (Op Lk)) := [[.acquire (lkD 5), .acquire (lkD 5), .release (lkD 5), .release (lkD 5)]]

theorem C17_cexDD_conforms : systemConforms edges cellsOf0 cexDD = true := by decide
#assert_axioms C17_cexDD_conforms

theorem C17_deadlock_schedule_D_D :
    ∃ s, exec (start cexDD) [0] = some s ∧ deadlockedSet s [0] = true := by
  refine ⟨(exec (start cexDD) [0]).getD [], by decide, by decide⟩
#assert_axioms C17_deadlock_schedule_D_D

/-- **the code still violates C17 at full strength**: a single thread re-locking a data cell it
holds conforms to the table and is a deadlock (the thread never returns; everybody who later needs
the session's global data, which the thread holds during evaluation, waits for ever) -/
theorem C17_counterexample_D_D : ¬ C17_full := by
  intro h
  obtain ⟨s, hs, hd⟩ := C17_deadlock_schedule_D_D
  exact h cellsOf0 cexDD C17_cexDD_conforms s (exec_reach hs) (deadlockedSet_sound hd)
#assert_axioms C17_counterexample_D_D

/-! ### what does hold -/

/-- the one edge behind the remaining cycle: a data cell locked under a data cell that may be the
same (`D → D`, `any`) -/
def offending (e : Edge) : Bool := e.held == .D && e.acq == .D && e.rel == .any

def fixedEdges : List Edge := edges.filter fun e => !offending e

/-- exactly one edge is left out -/
theorem C17_one_offending_edge : (edges.filter offending).length = 1 := by decide
#assert_axioms C17_one_offending_edge

/-- the rank of the table: not-yet-shared session data first, then the processors, the session
data, and last the executor state, data cells, actions, tracer factory -/
def fixedRank : Cls → Nat
  | .DF => 0 | .Gn => 0 | .Gi => 0 | .R => 0
  | .P => 1
  | .G => 2
  | .E => 3 | .D => 3 | .A => 3 | .TF => 3

theorem C17_fixed_ranked : admits fixedRank fixedEdges = true := by decide
#assert_axioms C17_fixed_ranked

/-- the rank search of the driver (`locks rank`) finds a rank for the reduced table too -/
theorem C17_fixed_hasRank : hasRank fixedEdges = true := by decide +kernel
#assert_axioms C17_fixed_hasRank

/-- the **whole** table is ranked by `fixedRank` up to re-locking of private locks: every edge is
rank-increasing, exempt, or has a held lock private to the acquiring thread -/
theorem C17_ranked_modulo_relock : admitsModRelock fixedRank edges = true := by decide
#assert_axioms C17_ranked_modulo_relock

/-- **`C17_modulo_relock`** (the code as it is now, whole table): every system of threads that
conforms to the lock-site table and in which no thread requests a lock it is holding is
deadlock-free under every schedule; if its programs are balanced it can always step and finish.
Missing for `C17_full`: the side condition — the code does contain re-locking of a held data cell
(`C17_counterexample_D_D`). -/
theorem C17_modulo_relock (pv : Lk → Option Nat) (progs : List (List (Op Lk)))
    (hconf : systemConforms edges pv progs = true) (hnr : systemNoRelock progs = true)
    (s : Sys Lk) (hr : Reach (start progs) s) :
    ¬ Deadlock s ∧
    (systemBalanced progs = true →
      (unfinished s → ∃ t s', step s t = some s') ∧
      ∃ sched s', exec s sched = some s' ∧ allFinished s' = true) := by
  have hinv : AllThreads (InvP (ltLk fixedRank) pv) s := by
    apply reach_invP _ hr
    apply start_allThreads
    intro u p hp
    show HeldOk pv u [] ∧ OrderedP (ltLk fixedRank) pv u [] p
    exact ⟨(fun h hh => nomatch hh),
      conforms_orderedP_noRelock C17_ranked_modulo_relock (systemConforms_sound hconf u p hp)
        (systemNoRelock_sound hnr u p hp)⟩
  refine ⟨invP_state_no_deadlock (ltLk_irrefl fixedRank) (ltLk_trans fixedRank) hinv, ?_⟩
  intro hbal
  have hb : AllThreads (fun _ => Balanced) s := by
    apply reach_balanced _ hr
    apply start_allThreads
    exact systemBalanced_sound hbal
  exact ⟨progress_of_inv (ltLk_irrefl fixedRank) (ltLk_trans fixedRank) hinv hb,
    completes_of_inv (ltLk_irrefl fixedRank) (ltLk_trans fixedRank) (todo s) s rfl hinv hb⟩
#assert_axioms C17_modulo_relock

/-- a deadlock of a conforming system needs a program that re-locks a lock it holds -/
theorem C17_deadlock_needs_relock (pv : Lk → Option Nat) (progs : List (List (Op Lk)))
    (hconf : systemConforms edges pv progs = true) (s : Sys Lk) (hr : Reach (start progs) s)
    (hd : Deadlock s) : systemNoRelock progs = false := by
  cases hnr : systemNoRelock progs with
  | false => rfl
  | true => exact absurd hd (C17_modulo_relock pv progs hconf hnr s hr).1
#assert_axioms C17_deadlock_needs_relock

/-- **`C17_partial`**: every system that conforms to the table *without the offending edge* is
deadlock-free under every schedule; if its programs are balanced it can always step and finish.
Missing for `C17_full`: the edge `D → D any` (re-locking of a data cell, e.g.
`ExpressionIndex::execute#1`, `ExpressionAssign::execute#1`) is in the code. -/
theorem C17_partial (pv : Lk → Option Nat) (progs : List (List (Op Lk)))
    (hconf : systemConforms fixedEdges pv progs = true) (s : Sys Lk)
    (hr : Reach (start progs) s) :
    ¬ Deadlock s ∧
    (systemBalanced progs = true →
      (unfinished s → ∃ t s', step s t = some s') ∧
      ∃ sched s', exec s sched = some s' ∧ allFinished s' = true) :=
  ⟨C17_ranked_table_deadlock_free fixedEdges _ C17_fixed_ranked pv progs hconf s hr,
   fun hbal => C17_ranked_table_progress fixedEdges _ C17_fixed_ranked pv progs hconf hbal s hr⟩
#assert_axioms C17_partial

/-- starts, invokes, cross-session sends and timers as the code does them now -/
def repairedScenario : List (List (Op Lk)) :=
  [progStart 3, progInvoke 1 2, progSend 1, progTimer 1, progSend 2]

/-- **the former deadlock scenarios cannot deadlock any more**: a host start, an invoke, the
invoking session's delayed send and cross-session sends, all at once, under every schedule — and
they can always be run to the end -/
theorem C17_repaired_scenarios_deadlock_free (s : Sys Lk) (hr : Reach (start repairedScenario) s) :
    ¬ Deadlock s ∧ ∃ sched s', exec s sched = some s' ∧ allFinished s' = true := by
  have h := C17_partial noPriv repairedScenario (by decide) s hr
  exact ⟨h.1, (h.2 (by decide)).2⟩
#assert_axioms C17_repaired_scenarios_deadlock_free

/-- non-vacuity of `C17_modulo_relock`: the same programs conform to the whole table, never
re-lock and are balanced; with a thread that evaluates expressions over its own cells (`G`, then
two different cells) as well -/
example :
    let eval : List (Op Lk) := [.acquire (lkG 1), .acquire (lkD 1), .acquire (lkD 2),
      .release (lkD 2), .release (lkD 1), .release (lkG 1)]
    systemConforms edges cellsOf0 (eval :: repairedScenario) = true ∧
    systemNoRelock (eval :: repairedScenario) = true ∧
    systemBalanced (eval :: repairedScenario) = true := by
  decide

/-- the re-locking program is excluded by the side condition (it is not idle) -/
example : systemNoRelock cexDD = false := by decide

/-- the same schedules that deadlocked the old shapes do not deadlock the repaired ones: the
starter finishes, the sender goes on (Test, by `decide`.) -/
example : deadlockedSet ((run (start [progStart 2, progSend 1]) schedEP)) [0, 1] = false := by
  decide

end Rfsm.Locks
