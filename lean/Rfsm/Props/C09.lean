import Rfsm.Audit
import Rfsm.Proofs.HistoryLemmas
import Rfsm.Model.Vdm
/-!
# C09 — In(), system variables and data binding behave as SCXML specifies

What the interpreter contributes (M-INT, generic in the data model): *which* configuration the data
model is shown at each evaluation point, *when* `_event` is (re)bound, and *when* a state's data are
initialised.  What the data models contribute (In() itself, the read-only system variables) is
outside M-INT; for the real data models it is checked by the oracle of the correspondence run
(harness/src/sysvars.rs), and the deviations found there are known findings.
-/
namespace Rfsm.Interp
open Rfsm.Descriptor (Str)

variable {σ : Type}

/-- guards are evaluated against the session's current configuration (selection does not change it) -/
theorem C09_guard_sees_configuration (env : Env σ) (d : Doc) (s : Sess σ) (t : Nat)
    (hc : (getTrans d t).cond ≠ []) :
    conditionMatch env d s t =
      (match env.cond s.dm s.cfg (getTrans d t).cond with
       | (o, some b) => (s.absorb o, b)
       | (o, none) => ({ (s.absorb o) with iq := (s.absorb o).iq ++ [errorExecution] }, false)) := by
  unfold conditionMatch
  have : (getTrans d t).cond.isEmpty = false := by
    cases h : (getTrans d t).cond with
    | nil => exact absurd h hc
    | cons a l => rfl
  simp only [this, Bool.false_eq_true, ↓reduceIte]
  rfl
#assert_axioms C09_guard_sees_configuration

/-- a content block is run with the configuration the session has at that moment -/
theorem C09_content_sees_configuration (env : Env σ) (s : Sess σ) (c : Nat) (hc : c ≠ 0) :
    runContent env s c = (s.emit [.content c]).absorb (env.exec s.dm s.cfg c) := by
  unfold runContent
  simp [hc, Sess.emit]
#assert_axioms C09_content_sees_configuration

/-- mid-microstep, exit side: a state's onexit blocks run while the state itself (and everything
    not yet exited) is still in the configuration; it is removed right after them -/
theorem C09_onexit_configuration (env : Env σ) (d : Doc) (s : Sess σ) (sid : Nat) :
    (cancelChildren d (s.emit [.exit sid]) sid).cfg = s.cfg ∧
    exitOne env d s sid =
      { ((getState d sid).onexit.foldl (runContent env) (cancelChildren d (s.emit [.exit sid]) sid)) with
        cfg := odel ((getState d sid).onexit.foldl (runContent env) (cancelChildren d (s.emit [.exit sid]) sid)).cfg sid } :=
  ⟨((kept_emit s [.exit sid]).trans (cancelChildren_kept d _ sid)).cfg, rfl⟩
#assert_axioms C09_onexit_configuration

/-- mid-microstep, transition bodies: they run on the configuration that is left after all exits -/
theorem C09_transition_content_configuration (env : Env σ) (d : Doc) (s : Sess σ) (ts : List Nat) :
    ∀ x, x ∈ (exitStates env d s ts).cfg ↔ x ∈ s.cfg ∧ x ∉ computeExitSet d s.hv s.cfg ts :=
  (exitStates_spec env d s ts).1
#assert_axioms C09_transition_content_configuration

/-- mid-microstep, entry side: a state is in the configuration before its data are (late-)bound and
    before its onentry blocks run -/
theorem C09_onentry_configuration (env : Env σ) (d : Doc) (acc : EntryAcc) (s : Sess σ) (sid : Nat) :
    (enterInit env d (enterAdd s sid) sid).cfg = oadd s.cfg sid ∧
    enterOne env d acc s sid =
      enterFinal env d ((entryContent d acc sid).foldl (runContent env) (enterInit env d (enterAdd s sid) sid)) sid :=
  ⟨(enterInit_cfg env d (enterAdd s sid) sid).1, rfl⟩
#assert_axioms C09_onentry_configuration

/-- `_event` is bound to the internal event before selection for it, and stays bound while the
    resulting microstep runs (nothing in `select` / `microstep` calls `setEvent`) -/
theorem C09_event_bound_before_selection (env : Env σ) (d : Doc) (s : Sess σ) (e : Event) :
    (preExternal env d s e).dm =
      (forwardList d (forgetDoneChild (s.emit [.ext e.name]) e) e).foldl (fun dm _ => dm)
        (((finalizeList d (forgetDoneChild (s.emit [.ext e.name]) e) e).foldl (runContent env)
          { (forgetDoneChild (s.emit [.ext e.name]) e) with
            dm := env.setEvent (forgetDoneChild (s.emit [.ext e.name]) e).dm e }).dm) := by
  unfold preExternal
  simp only
  generalize (finalizeList d (forgetDoneChild (s.emit [.ext e.name]) e) e).foldl (runContent env) _ = s2
  generalize forwardList d (forgetDoneChild (s.emit [.ext e.name]) e) e = l
  induction l generalizing s2 with
  | nil => rfl
  | cons a l ih =>
    simp only [List.foldl_cons]
    rw [ih]
    unfold forwardOne
    split <;> rfl
#assert_axioms C09_event_bound_before_selection

/-- late binding: a state's data are initialised at its first entry only — the call happens iff the
    state has not been entered before, and marks it entered -/
theorem C09_late_binding_once (env : Env σ) (d : Doc) (s : Sess σ) (sid : Nat) (hl : d.late = true) :
    (sid ∈ s.entered → enterInit env d s sid = s) ∧
    (sid ∉ s.entered →
      enterInit env d s sid = ({ s with entered := sid :: s.entered }.absorb (env.initData s.dm sid true)) ∧
      sid ∈ (enterInit env d s sid).entered) := by
  constructor
  · intro h
    unfold enterInit
    simp [hl, h]
  · intro h
    unfold enterInit
    simp [hl, h, Sess.absorb]
#assert_axioms C09_late_binding_once

/-- early binding: `enterInit` never initialises anything; all data were initialised with their
    values by `initSession` (a left fold over all states in document order, with `set_data = true`)
    before the global script and before any state is entered -/
theorem C09_early_binding (env : Env σ) (d : Doc) (s : Sess σ) (sid : Nat) (he : d.late = false) :
    enterInit env d s sid = s := by
  unfold enterInit
  simp [he]
#assert_axioms C09_early_binding

theorem C09_data_initialised_at_load (env : Env σ) (d : Doc) (dm0 : σ) :
    initSession env d dm0 =
      (let s := (allStatesPreorder d (fuelOf d) d.root).foldl
          (fun s sid => s.absorb (env.initData s.dm sid (!d.late))) ({ dm := dm0 } : Sess σ)
       if d.script != 0 then s.absorb (env.exec s.dm s.cfg d.script) else s) := rfl
#assert_axioms C09_data_initialised_at_load

/-- C09 (interpreter part): the conjunction of the configuration / binding clauses. -/
def C09_interpreter : Prop :=
  ∀ (σ : Type) (env : Env σ) (d : Doc) (s : Sess σ) (sid : Nat),
    ((enterInit env d (enterAdd s sid) sid).cfg = oadd s.cfg sid) ∧
    ((cancelChildren d (s.emit [.exit sid]) sid).cfg = s.cfg) ∧
    (d.late = false → enterInit env d s sid = s) ∧
    (d.late = true → sid ∈ s.entered → enterInit env d s sid = s)

theorem C09_partial : C09_interpreter := by
  intro σ env d s sid
  exact ⟨(C09_onentry_configuration env d {} s sid).1, (C09_onexit_configuration env d s sid).1,
    C09_early_binding env d s sid, fun hl => (C09_late_binding_once env d s sid hl).1⟩
#assert_axioms C09_partial

end Rfsm.Interp
