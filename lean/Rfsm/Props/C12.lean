import Rfsm.Audit
import Rfsm.Props.C15
import Rfsm.Props.C07
import Rfsm.Props.C08
import Rfsm.Props.C11
/-!
# C12 — No accepted document or event sequence can crash or wedge its session

The property speaks about four layers of the code, each of which has its own model:

* the SCXML event I/O processor and `<send>` after its arguments are evaluated — `Rfsm.Route`
  (tied to the code by the `c15` correspondence family): **full** clause `C12_route`;
* the interpreter loop — `Rfsm.Interp` (tied by the `int` families, here `c12`): the cancel event is
  honoured in every state of the session, and a cancelled session takes no further step:
  clause `C12_cancel`;
* executable content — `Rfsm.Exec`: an evaluation error ends its block only, the following
  blocks run; the error *event* clause holds for `<if>`, `<foreach>`, `<assign>`, illegal delays,
  unsupported types and — since the `fix:` commit for P11 — `<script>`, `<log>` and the expression
  arguments of `<send>` / `<cancel>` / `<invoke>` (`C12_content`);
* the rfsm-expression engine — `Rfsm.Expr`: evaluation can panic (`%` by zero, `abs` of
  `i64::MIN`), block for ever on its own mutex (`a = a`) or never finish lexing (`1 <`):
  `C12_counterexample_expression_*`; each of these kills or wedges the session thread that
  evaluates the expression (replayed on the real code by the `c12` scenario table).

`C12_full` is the conjunction at full strength; it is false of the unchanged code
(`C12_counterexample`: the expression engine), `C12_partial` is what is proved.  Panics the models do not contain at all
(`Fsm::schedule` with a delay `chrono` cannot represent, `create_datamodel` with an unknown data
model, a `<history>` without default transition) are found by the scenario table only and are
listed in known_findings.json.
-/
namespace Rfsm.Route

section
variable {δ : Type}

/-- what a failing `routeSend` does: ONE error event on the sender's internal queue, nothing else -/
theorem routeSend_fail (w w' : World δ) (S : Session δ) (target : Str) (ev : Event δ)
    (h : routeSend w S target ev = .done w' false) :
    ∃ e, (e = errorCommunication (stamp S.sid ev) ∨ e = errorExecution ev.sendid ev.invokeId) ∧
      w' = enqInt w S.sid e := by
  have hs : ∀ sid w', sendToSession w S.sid sid (stamp S.sid ev) = .done w' false →
      w' = enqInt w S.sid (errorCommunication (stamp S.sid ev)) := by
    intro sid w' h
    unfold sendToSession at h
    split at h
    · cases h; rfl
    · split at h
      · cases h; rfl
      · cases h
  unfold routeSend at h
  simp only at h
  split at h
  · cases h
  · split at h
    · cases h
    · split at h
      · split at h
        · cases h; exact ⟨_, Or.inl rfl, rfl⟩
        · exact ⟨_, Or.inl rfl, hs _ _ h⟩
      · split at h
        · split at h
          · exact ⟨_, Or.inl rfl, hs _ _ h⟩
          · cases h; exact ⟨_, Or.inl rfl, rfl⟩
        · split at h
          · split at h
            · cases h; exact ⟨_, Or.inl rfl, rfl⟩
            · exact ⟨_, Or.inl rfl, hs _ _ h⟩
          · cases h; exact ⟨_, Or.inr rfl, rfl⟩
#assert_axioms routeSend_fail

/-- `<send>` (after the evaluation of its arguments) never panics: for every world, counter,
sender and send element -/
theorem C12_send_no_panic (w : World δ) (ctr : Nat) (S : Session δ) (sp : SendSpec δ) (site : PanicSite) :
    execSend w ctr S sp ≠ .panic site := by
  intro h
  unfold execSend at h
  simp only at h
  generalize (if sp.type = [] then procUrl else sp.type) = ty at h
  by_cases h1 : sp.delayMs < 0
  · rw [if_pos h1] at h; cases h
  · rw [if_neg h1] at h
    by_cases h2 : sp.delayMs > 0 ∧ sp.target = tInternal
    · rw [if_pos h2] at h; cases h
    · rw [if_neg h2] at h
      by_cases h3 : sp.delayMs > 0
      · rw [if_pos h3] at h
        split at h <;> cases h
      · rw [if_neg h3] at h
        split at h
        · obtain ⟨w1, ok, hr⟩ := C15_no_panic w S sp.target (buildEvent S sp (sendId sp ctr).1)
          rw [hr] at h
          cases ok <;> cases h
        · cases h
#assert_axioms C12_send_no_panic

/-- the names of the two error events -/
def IsErrorEvent (e : Event δ) : Prop := e.name = errComm ∨ e.name = errExec

/-- a `<send>` that fails is reported as error events on the sender's internal queue and changes
nothing else: the world afterwards is the world before with one or two events, all named
`error.communication` or `error.execution`, the last one `error.execution`, appended to the sender's
internal queue -/
theorem C12_failed_send_is_error_events (w w' : World δ) (ctr c : Nat) (S : Session δ) (sp : SendSpec δ)
    (h : execSend w ctr S sp = .done w' c false) :
    ∃ errs : List (Event δ), (errs.length = 1 ∨ errs.length = 2) ∧ (∀ e ∈ errs, IsErrorEvent e) ∧
      (∃ l, errs.getLast? = some l ∧ l.name = errExec) ∧
      w' = errs.foldl (fun w e => enqInt w S.sid e) w := by
  have one : ∀ sid inv, ∃ errs : List (Event δ), (errs.length = 1 ∨ errs.length = 2) ∧
      (∀ e ∈ errs, IsErrorEvent e) ∧ (∃ l, errs.getLast? = some l ∧ l.name = errExec) ∧
      enqInt w S.sid (errorExecution sid inv) = errs.foldl (fun w e => enqInt w S.sid e) w := by
    intro sid inv
    refine ⟨[errorExecution sid inv], Or.inl rfl, ?_, ⟨_, rfl, rfl⟩, rfl⟩
    intro e he
    simp only [List.mem_singleton] at he
    subst he
    exact Or.inr rfl
  unfold execSend at h
  simp only at h
  generalize (if sp.type = [] then procUrl else sp.type) = ty at h
  by_cases h1 : sp.delayMs < 0
  · rw [if_pos h1] at h; cases h; exact one _ _
  · rw [if_neg h1] at h
    by_cases h2 : sp.delayMs > 0 ∧ sp.target = tInternal
    · rw [if_pos h2] at h; cases h; exact one _ _
    · rw [if_neg h2] at h
      by_cases h3 : sp.delayMs > 0
      · rw [if_pos h3] at h
        split at h
        · cases h
        · cases h; exact one _ _
      · rw [if_neg h3] at h
        split at h
        · cases hr : routeSend w S sp.target (buildEvent S sp (sendId sp ctr).1) with
          | panic site => rw [hr] at h; cases h
          | done w1 ok =>
            rw [hr] at h
            cases ok with
            | true => cases h
            | false =>
              cases h
              obtain ⟨e, he, hw⟩ := routeSend_fail w w1 S _ _ hr
              subst hw
              refine ⟨[e, errorExecution (sendId sp ctr).1 S.caller], Or.inr rfl, ?_, ⟨_, rfl, rfl⟩, rfl⟩
              intro x hx
              simp only [List.mem_cons, List.mem_nil_iff, or_false] at hx
              cases hx with
              | inl hx => subst hx; cases he with
                | inl he => subst he; exact Or.inl rfl
                | inr he => subst he; exact Or.inr rfl
              | inr hx => subst hx; exact Or.inr rfl
        · cases h; exact one _ _
#assert_axioms C12_failed_send_is_error_events

/-- which error the Recommendation's failure classes get (event I/O processor level):
nonexistent / unreachable target session → `error.communication`; a target that is no SCXML target
form at all → `error.execution` -/
theorem C12_route_error_classes (w : World δ) (S : Session δ) (ev : Event δ) :
    -- a session id nobody is registered under
    (∀ n, n < 4294967296 → lookup w n = none →
      routeSend w S (location n) ev = .done (enqInt w S.sid (errorCommunication (stamp S.sid ev))) false) ∧
    -- `#_parent` without parent
    (S.parent = none →
      routeSend w S tParent ev = .done (enqInt w S.sid (errorCommunication (stamp S.sid ev))) false) ∧
    -- `#_scxml_<text>` where the text is no session id
    (∀ t, parseU32 t = none → pfxSession ++ t ≠ tInternal → pfxSession ++ t ≠ tParent →
      routeSend w S (pfxSession ++ t) ev = .done (enqInt w S.sid (errorCommunication (stamp S.sid ev))) false) ∧
    -- a target that does not start with `#_`
    (∀ t, t ≠ [] → pfxInvoke.isPrefixOf t = false →
      routeSend w S t ev = .done (enqInt w S.sid (errorExecution ev.sendid ev.invokeId)) false) := by
  refine ⟨fun n hn hl => C15_unknown_session_error w S n ev hn hl, fun hp => C15_no_parent_error w S ev hp, ?_, ?_⟩
  · intro t ht h1 h2
    have h0 : pfxSession ++ t ≠ [] := by simp [pfxSession]
    have h4 : pfxSession.isPrefixOf (pfxSession ++ t) = true := by
      simp [List.isPrefixOf_iff_prefix]
    have h5 : (pfxSession ++ t).drop pfxSession.length = t := by simp
    unfold routeSend
    simp only [h0, h1, h2, h4, h5, if_false, if_true, ht]
  · intro t ht hp
    have h1 : t ≠ tInternal := by
      intro h; subst h; simp [pfxInvoke, tInternal] at hp
    have h2 : t ≠ tParent := by
      intro h; subst h; simp [pfxInvoke, tParent] at hp
    have h3 : pfxSession.isPrefixOf t = false := by
      cases hq : pfxSession.isPrefixOf t with
      | false => rfl
      | true =>
        rw [List.isPrefixOf_iff_prefix] at hq
        obtain ⟨r, hr⟩ := hq
        subst hr
        simp [pfxInvoke, pfxSession] at hp
    unfold routeSend
    simp only [ht, h1, h2, h3, hp, if_false, Bool.false_eq_true]
    rfl
#assert_axioms C12_route_error_classes

/-- C12, event I/O processor and `<send>` level, at full strength -/
def C12_route_full : Prop :=
  ∀ (δ : Type) (w : World δ) (ctr : Nat) (S : Session δ) (sp : SendSpec δ),
    (∀ site, execSend w ctr S sp ≠ .panic site) ∧
    (∀ w' c, execSend w ctr S sp = .done w' c false →
      ∃ errs : List (Event δ), (errs.length = 1 ∨ errs.length = 2) ∧ (∀ e ∈ errs, IsErrorEvent e) ∧
        (∃ l, errs.getLast? = some l ∧ l.name = errExec) ∧
        w' = errs.foldl (fun w e => enqInt w S.sid e) w)

theorem C12_route : C12_route_full :=
  fun _ w ctr S sp => ⟨C12_send_no_panic w ctr S sp, fun w' c h => C12_failed_send_is_error_events w w' ctr c S sp h⟩
#assert_axioms C12_route

end

/-! non-vacuity: a failing send in a concrete world -/
private def mkS12 (sid : Nat) : Session Nat :=
  { sid := sid, parent := none, caller := none, children := [], receiverDropped := false, extQ := [], intQ := [] }
private def sp12 (target : Str) : SendSpec Nat :=
  { target := target, event := [101], idLiteral := [], idLocation := false, stateName := [115],
    hasContent := false, content := none, params := [], delayMs := 0, type := [] }
example : (match execSend [mkS12 1] 0 (mkS12 1) (sp12 (pfxSession ++ [57])) with
    | .done w' _ ok => (ok, (lookup w' 1).map (fun s => s.intQ.map (·.name)))
    | _ => (true, none)) = (false, some [errComm, errExec]) := by decide
example : (match execSend [mkS12 1] 0 (mkS12 1) (sp12 tParent) with
    | .done w' _ ok => (ok, (lookup w' 1).map (fun s => s.intQ.map (·.name)))
    | _ => (true, none)) = (false, some [errComm, errExec]) := by decide
example : (match execSend [mkS12 1] 0 (mkS12 1) (sp12 [33, 33]) with
    | .done w' _ ok => (ok, (lookup w' 1).map (fun s => s.intQ.map (·.name)))
    | _ => (true, none)) = (false, some [errExec, errExec]) := by decide

end Rfsm.Route

namespace Rfsm.Interp
open Rfsm.Descriptor (Str)
variable {σ : Type}

/-- C12, interpreter level: whatever the session's state — configuration, history, queues, data,
children — the platform cancel event stops it without touching anything, and a stopped session takes
no further step of either loop: `interpret` goes on to `exitInterpreter` -/
def C12_cancel_full : Prop :=
  ∀ (σ : Type) (env : Env σ) (d : Doc) (c : Str) (m f : Nat) (s : Sess σ) (e : Event) (feed : List (List Event)),
    e.name = cancelName →
      (handleExternal env d s e).running = false ∧ (handleExternal env d s e).cfg = s.cfg ∧
      macroLoop env d (f + 1) (handleExternal env d s e) = some (handleExternal env d s e) ∧
      mainLoop env d c m (f + 1) (handleExternal env d s e) feed = some (handleExternal env d s e, false)

theorem C12_cancel : C12_cancel_full := by
  intro σ env d c m f s e feed hc
  have h := C07_cancel env d s e hc
  have h2 := C07_stopped_processes_nothing env d c m f (handleExternal env d s e) feed h.1
  exact ⟨h.1, h.2.1, h2.1, h2.2⟩
#assert_axioms C12_cancel

/-- C12, executable-content level, error-event clause for `<script>` / `<log>`: an erroring
element places `error.execution` on the internal queue (for every data model; since the `fix:`
commit for P11 — before it the clause was false for data models that report errors quietly) -/
def C12_content_full : Prop :=
  ∀ (σ : Type) (ops : DMOps σ) (rs : Regions) (cfg : List Nat) (caller : Option Str) (f : Nat) (l e : Str) (x : XS σ),
    (ops.exec x.dm cfg e).val = none →
      errorExecution ∈ (execItem ops rs cfg caller (f + 1) (.expr e) x).1.raised ∧
      errorExecution ∈ (execItem ops rs cfg caller (f + 1) (.log l e) x).1.raised

theorem C12_content : C12_content_full := by
  intro σ ops rs cfg caller f l e x herr
  have h := C08_script_error ops rs cfg caller f l e x herr
  rw [h.1, h.2.2.1]
  simp
#assert_axioms C12_content

end Rfsm.Interp

namespace Rfsm

/-- C12, expression-engine level, is C11 (every evaluation ends with a value or an error) -/
def C12_full : Prop :=
  Route.C12_route_full ∧ Interp.C12_cancel_full ∧ Interp.C12_content_full ∧ Expr.C11_full

/-- the code still violates C12 at the expression-engine level: `a == b` on two cyclic values
blocks the session thread inside `DataArc::eq` (`Expr.C11_counterexample_equal_cyclic`).  The
former witnesses — `5 % 0` and `abs(i64::MIN)` panicking, `a = a` / `a[a]` blocking, `x =`
spinning — are repaired (`Expr.C11_regression_*`). -/
theorem C12_counterexample : ¬ C12_full := fun h => Expr.C11_counterexample h.2.2.2
#assert_axioms C12_counterexample

/-- C12, expression-engine level, what holds: no evaluation panics, every text parses to an
expression or a parse error (no livelock), and an evaluation ends with a value or an error unless
it blocks inside `DataArc::eq` on cyclic operands (or the model's heap fuel runs out: tier B) -/
def C12_expr_partial_stmt : Prop :=
  (∀ (D : Type) (ops : Expr.DoubleOps D) (text : Expr.Str) (st : Expr.St D), st.held = [] →
    (∀ s, (Expr.execute ops text st).2 ≠ .panic s) ∧
    ((Expr.execute ops text st).2.isValueOrError = true ∨
      (Expr.execute ops text st).2 = .deadlock .equal ∨ (Expr.execute ops text st).2 = .fuelOut)) ∧
  (∀ text : Expr.Str, (∃ e, Expr.parse text = .ok e) ∨ (∃ e, Expr.parse text = .err e))

/-- what is proved: no panic and exact error reporting at the `<send>` / event-I/O-processor
level, the cancel event is honoured in every state, erroring content raises `error.execution`,
and the expression engine neither panics nor spins.
Missing for `C12_full`: `Expr.C11_full`, false because of `==` on cyclic values. -/
theorem C12_partial :
    Route.C12_route_full ∧ Interp.C12_cancel_full ∧ Interp.C12_content_full ∧ C12_expr_partial_stmt :=
  ⟨Route.C12_route, Interp.C12_cancel, Interp.C12_content,
   fun _ ops text st h => ⟨Expr.C11_execute_no_panic ops text st h, (Expr.C11_partial ops text st h).1⟩,
   Expr.C11_parse_total⟩
#assert_axioms C12_partial

end Rfsm
