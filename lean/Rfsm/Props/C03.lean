import Rfsm.Audit
import Rfsm.Proofs.ExtLemmas
/-!
# C03 — Run-to-completion: internal work finishes before the next external event

Model: `macroLoop`, `mainLoop`, `awaitExternal`, `takeExternal`, `processExternal` of `Rfsm.Interp`
(transcribing `mainEventLoop` of `src/fsm.rs`), generic in the data model.

* the inner loop returns only when the session stopped, or no eventless transition is enabled and
  the internal queue is empty                                           — `C03_macrostep_complete`
* eventless transitions are taken before any internal event is dequeued — `C03_eventless_first`
* otherwise the *oldest* internal event is processed                    — `C03_oldest_internal_event`
* the external queue is only looked at after the macrostep is complete  — `C03_external_after_macrostep`
* external events are consumed in arrival order, each exactly once      — `C03_fifo_dequeue`, `C03_queue_append_only`
* an event that enables no transition changes nothing                   — `C03_no_transition_no_change`
-/
namespace Rfsm.Interp
open Rfsm.Descriptor (Str)

variable {σ : Type}

/-- "macrostep complete": the session stopped, or nothing eventless is enabled and the internal
    queue is empty -/
def Quiescent (env : Env σ) (d : Doc) (s : Sess σ) : Prop :=
  s.running = false ∨ (s.iq = [] ∧ ∃ s0 : Sess σ, select env d none s0 = (s, []))

/-- C03 at full strength (for the model): whenever the event loop looks at the external queue the
    macrostep is complete; within a macrostep eventless transitions go first and internal events
    are taken oldest first; dequeuing takes the first acceptable event and keeps the rest in order;
    nothing but dequeuing removes from the external queue; an event without enabled transition
    changes neither configuration nor history nor any interpreter-owned state. -/
def C03_full : Prop :=
  ∀ (σ : Type) (env : Env σ) (d : Doc),
    (∀ f (s s' : Sess σ), macroLoop env d f s = some s' → Quiescent env d s') ∧
    (∀ (s : Sess σ) (ev : Option Str) ts, ExtGrows s (microstep env d s ts) ∧ ExtGrows s (select env d ev s).1) ∧
    (∀ (s : Sess σ) (e : Event), childOf (forgetDoneChild (s.emit [.ext e.name]) e) e = none →
      (select env d (some e.name) (preExternal env d s e)).2 = [] → Kept s (processExternal env d s e))

theorem C03_macrostep_complete (env : Env σ) (d : Doc) : ∀ (f : Nat) (s s' : Sess σ),
    macroLoop env d f s = some s' → Quiescent env d s' := by
  intro f
  induction f with
  | zero => intro s s' h; simp [macroLoop] at h
  | succ f ih =>
    intro s s' h
    unfold macroLoop at h
    split at h
    · rename_i hr
      cases h
      exact Or.inl (by simpa using hr)
    · revert h
      generalize hq : select env d none s = q
      obtain ⟨s1, enabled⟩ := q
      simp only
      intro h
      split at h
      · rename_i hemp
        split at h
        · rename_i hiq
          cases h
          refine Or.inr ⟨hiq, s, ?_⟩
          rw [hq]
          have : enabled = [] := by simpa using hemp
          rw [this]
        · revert h
          generalize select env d (some _) _ = q2
          obtain ⟨s2, enabled2⟩ := q2
          simp only
          intro h
          split at h <;> exact ih _ _ h
      · exact ih _ _ h
#assert_axioms C03_macrostep_complete

/-- if an eventless transition is enabled it is taken now — the internal queue is not touched -/
theorem C03_eventless_first (env : Env σ) (d : Doc) (f : Nat) (s : Sess σ)
    (hr : s.running = true) (he : (select env d none s).2 ≠ []) :
    macroLoop env d (f + 1) s =
      macroLoop env d f (microstep env d (select env d none s).1 (select env d none s).2) := by
  conv => lhs; unfold macroLoop
  simp only [hr, Bool.not_true]
  generalize select env d none s = q at he ⊢
  obtain ⟨s1, enabled⟩ := q
  simp only at he ⊢
  have : enabled.isEmpty = false := by
    cases enabled with
    | nil => exact absurd rfl he
    | cons a l => rfl
  simp [this]
#assert_axioms C03_eventless_first

/-- if none is enabled and the internal queue is `e :: rest`, the next event processed is `e`
    (the oldest), with `_event` bound to it before selection -/
theorem C03_oldest_internal_event (env : Env σ) (d : Doc) (f : Nat) (s : Sess σ) (e : Event) (rest : List Event)
    (hr : s.running = true) (he : (select env d none s).2 = []) (hq : (select env d none s).1.iq = e :: rest) :
    let s1 := (select env d none s).1
    let s2 : Sess σ := { s1 with iq := rest, dm := env.setEvent s1.dm e, trace := s1.trace ++ [.int e.name] }
    macroLoop env d (f + 1) s =
      (if (select env d (some e.name) s2).2.isEmpty then macroLoop env d f (select env d (some e.name) s2).1
       else macroLoop env d f (microstep env d (select env d (some e.name) s2).1 (select env d (some e.name) s2).2)) := by
  intro s1 s2
  show macroLoop env d (f + 1) s = _
  conv => lhs; unfold macroLoop
  simp only [hr, Bool.not_true]
  generalize hsel : select env d none s = q at he hq s1 s2 ⊢
  obtain ⟨t1, enabled⟩ := q
  simp only at he hq ⊢
  subst he
  simp only [List.isEmpty_nil, ↓reduceIte, Bool.false_eq_true]
  rw [hq]
  simp only [s2, s1, hsel]
#assert_axioms C03_oldest_internal_event

/-- the external queue is consulted only when the macrostep is complete: in every iteration of the
    outer loop, `awaitExternal` is applied to a session that `macroLoop` returned (and that is still
    running, after invoking, with an empty internal queue) -/
theorem C03_external_after_macrostep (env : Env σ) (d : Doc) (c : Str) (m f : Nat) (s : Sess σ)
    (feed : List (List Event)) (hr : s.running = true) :
    mainLoop env d c m (f + 1) s feed =
      match macroLoop env d m s with
      | none => none
      | some s1 =>
        if !s1.running then some (s1, false) else
        if !(runInvokes env d s1).iq.isEmpty then mainLoop env d c m f (runInvokes env d s1) feed else
        match awaitExternal c ((runInvokes env d s1).emit [.idle]) feed with
        | (s2, none, _) => some (s2, true)
        | (s2, some e, feed') => mainLoop env d c m f (handleExternal env d s2 e) feed' := by
  conv => lhs; unfold mainLoop
  simp only [hr, Bool.not_true, Bool.false_eq_true, ↓reduceIte]
  rfl
#assert_axioms C03_external_after_macrostep

/-- dequeuing takes the first event the invoke filter accepts; what is in front of it is discarded
    by that filter, what is behind it stays queued in the same order -/
theorem C03_fifo_dequeue (c : Str) (q : List Event) (s s' : Sess σ) (e : Event)
    (h : takeExternal c s q = (s', some e)) :
    ∃ pre, q = pre ++ e :: s'.extq ∧
      (∀ x ∈ pre, ∃ s0 : Sess σ, s0.children = s.children ∧ acceptExternal c s0 x = false) :=
  let ⟨pre, h1, h2, _⟩ := (takeExternal_spec c q s).1 s' e h
  ⟨pre, h1, h2⟩
#assert_axioms C03_fifo_dequeue

/-- nothing but dequeuing removes from the external queue: selection, microsteps and the whole
    processing of an external event only append to it (self-sent events) -/
theorem C03_queue_append_only (env : Env σ) (d : Doc) (s : Sess σ) (ev : Option Str) (ts : List Nat) (e : Event) :
    ExtGrows s (select env d ev s).1 ∧ ExtGrows s (microstep env d s ts) ∧
    ExtGrows s (processExternal env d s e) :=
  ⟨select_ext env d ev s, microstep_ext env d s ts, processExternal_ext env d s e⟩
#assert_axioms C03_queue_append_only

/-- an external event (not coming from an invoked child) that enables no transition changes
    neither configuration, history, `running`, the states to invoke nor the first-entry flags -/
theorem C03_no_transition_no_change (env : Env σ) (d : Doc) (s : Sess σ) (e : Event)
    (hsel : (select env d (some e.name) (preExternal env d s e)).2 = []) :
    Kept s (processExternal env d s e) := by
  unfold processExternal
  simp only [hsel, List.isEmpty_nil, ↓reduceIte]
  have hp := preExternal_same env d s e
  have hk := kept_of_sameCore (select_sameCore env d (some e.name) (preExternal env d s e))
  -- preExternal keeps running / toInvoke / entered as well
  have hpre : Kept s (preExternal env d s e) := by
    unfold preExternal
    simp only
    have h1 : Kept s (forgetDoneChild (s.emit [.ext e.name]) e) := by
      unfold forgetDoneChild
      split
      · split <;> exact ⟨rfl, rfl, rfl, rfl, rfl⟩
      · exact ⟨rfl, rfl, rfl, rfl, rfl⟩
    generalize forgetDoneChild (s.emit [.ext e.name]) e = s1 at h1 ⊢
    have h2 : Kept s1 { s1 with dm := env.setEvent s1.dm e } := ⟨rfl, rfl, rfl, rfl, rfl⟩
    have h3 := foldl_runContent_kept env (finalizeList d s1 e) { s1 with dm := env.setEvent s1.dm e }
    have h4 : ∀ (l : List Str) (s0 : Sess σ), Kept s0 (l.foldl (forwardOne e) s0) := by
      intro l
      induction l with
      | nil => intro s0; exact Kept.rfl' s0
      | cons a l ih =>
        intro s0
        simp only [List.foldl_cons]
        have : Kept s0 (forwardOne e s0 a) := by
          unfold forwardOne; split <;> exact ⟨rfl, rfl, rfl, rfl, rfl⟩
        exact this.trans (ih _)
    exact ((h1.trans h2).trans h3).trans (h4 _ _)
  exact hpre.trans hk
#assert_axioms C03_no_transition_no_change

/-- What is proved of `C03_full`: all three clauses as stated there, the third one for every
    external event (the hypothesis about `childOf` is not even needed for `Kept`).  What the model
    cannot express and is covered by the correspondence only: that the *real* external queue
    (`std::sync::mpsc`) is the FIFO list the model assumes. -/
theorem C03 : C03_full := by
  intro σ env d
  refine ⟨C03_macrostep_complete env d, ?_, ?_⟩
  · intro s ev ts
    exact ⟨microstep_ext env d s ts, select_ext env d ev s⟩
  · intro s e _ hsel
    exact C03_no_transition_no_change env d s e hsel
#assert_axioms C03

/-! ### Non-vacuity: a session with a queued internal event and no eventless transition -/
example : Quiescent (σ := Unit)
    { cond := fun dm _ _ => ({ dm := dm }, some true), exec := fun dm _ _ => { dm := dm },
      setEvent := fun dm _ => dm, initData := fun dm _ _ => { dm := dm },
      doneData := fun dm _ _ => ({ dm := dm }, []), invoke := fun dm _ _ _ => { dm := dm } }
    { states := [], transitions := [], root := 0 } { running := false, dm := () } := Or.inl rfl

end Rfsm.Interp
