import Rfsm.Audit
import Rfsm.Proofs.HistoryLemmas
/-!
# C07 — Final states raise done events and a top-level final ends the session cleanly

Model: `enterFinal` (final-state part of `enterStates`), `macroLoop` / `mainLoop` guards,
`handleExternal` (platform cancel event), `exitInterpreter` of `Rfsm.Interp`.
-/
namespace Rfsm.Interp
open Rfsm.Descriptor (Str)

variable {σ : Type}

/-- the event `done.state.<name of state p>` -/
def doneStateEvent (d : Doc) (p : Nat) (payload : Str) : Event :=
  { name := doneStatePrefix ++ (getState d p).name, data := payload }

/-- entering a final child of a compound state: after the entry content, the donedata is evaluated
    and `done.state.<parent>` (carrying it) is appended to the internal queue; `done.state.<grand
    parent>` follows iff the grandparent is a parallel state all of whose regions are now in a
    final state — one per entered final state; `running` is not touched -/
theorem C07_done_state (env : Env σ) (d : Doc) (s : Sess σ) (sid : Nat)
    (hf : isFinalStateId d sid = true) (hp : (getState d sid).parent ≠ d.root) :
    let p := (getState d sid).parent
    let gp := (getState d p).parent
    let o := env.doneData s.dm s.cfg sid
    (enterFinal env d s sid).running = s.running ∧
    (enterFinal env d s sid).iq =
      s.iq ++ o.1.raised ++ [doneStateEvent d p o.2] ++
        (if isParallelState d gp && (getState d gp).kids.all (isInFinalState d s.cfg)
         then [doneStateEvent d gp []] else []) := by
  intro p gp o
  unfold enterFinal
  have hne : ((getState d sid).parent == d.root) = false := by simpa using hp
  simp only [hf, ↓reduceIte, hne, Bool.false_eq_true, Sess.absorb]
  by_cases hc : (isParallelState d gp && (getState d gp).kids.all (isInFinalState d s.cfg)) = true
  · have hc' := hc
    simp only [gp, p] at hc'
    simp [doneStateEvent, o, p, gp, hc']
  · have hc' := hc
    simp only [gp, p] at hc'
    simp [doneStateEvent, o, p, gp, hc']
#assert_axioms C07_done_state

/-- entering a top-level final state stops the session and raises nothing -/
theorem C07_top_level_final (env : Env σ) (d : Doc) (s : Sess σ) (sid : Nat)
    (hf : isFinalStateId d sid = true) (hp : (getState d sid).parent = d.root) :
    (enterFinal env d s sid).running = false ∧ (enterFinal env d s sid).iq = s.iq ∧
    (enterFinal env d s sid).cfg = s.cfg := by
  unfold enterFinal
  simp [hf, hp]
#assert_axioms C07_top_level_final

/-- entering a non-final state does none of this -/
theorem C07_non_final (env : Env σ) (d : Doc) (s : Sess σ) (sid : Nat)
    (hf : isFinalStateId d sid = false) : enterFinal env d s sid = s := by
  unfold enterFinal
  simp [hf]
#assert_axioms C07_non_final

/-- once `running` is false no further event — internal or external — is dequeued: both loops
    return the session unchanged, and `interpret` goes straight to `exitInterpreter` -/
theorem C07_stopped_processes_nothing (env : Env σ) (d : Doc) (c : Str) (m f : Nat) (s : Sess σ)
    (feed : List (List Event)) (hr : s.running = false) :
    macroLoop env d (f + 1) s = some s ∧ mainLoop env d c m (f + 1) s feed = some (s, false) := by
  constructor
  · conv => lhs; unfold macroLoop
    simp [hr]
  · conv => lhs; unfold mainLoop
    simp [hr]
#assert_axioms C07_stopped_processes_nothing

/-- the platform cancel event stops the session without selecting or taking any transition: the
    configuration, history and queues are untouched -/
theorem C07_cancel (env : Env σ) (d : Doc) (s : Sess σ) (e : Event) (hc : e.name = cancelName) :
    (handleExternal env d s e).running = false ∧ (handleExternal env d s e).cfg = s.cfg ∧
    (handleExternal env d s e).hv = s.hv ∧ (handleExternal env d s e).iq = s.iq ∧
    (handleExternal env d s e).extq = s.extq := by
  unfold handleExternal
  simp [hc, Sess.emit]
#assert_axioms C07_cancel

/-- one step of `exitInterpreter` for state `sid` -/
def exitFinalOne (env : Env σ) (d : Doc) (hasParent : Bool) (s : Sess σ) (sid : Nat) : Sess σ :=
  let s := (getState d sid).onexit.foldl (runContent env) s
  let s := { s with cfg := odel s.cfg sid }
  if isFinalStateId d sid && (getState d sid).parent == d.root && hasParent then s.emit [.doneInvoke] else s

/-- shutdown: the final configuration is reported, the invoked children are cancelled, and then
    every active state — each exactly once, in reverse document order — runs its onexit blocks and
    leaves the configuration; `done.invoke` goes to the parent session iff the state is a top-level
    final state and there is a parent session -/
theorem C07_exit_interpreter (env : Env σ) (d : Doc) (hasParent : Bool) (s : Sess σ) :
    let order := sortByDesc (docIdOf d) s.cfg
    order.Pairwise (fun a b => docIdOf d b ≤ docIdOf d a) ∧ order.Perm s.cfg ∧
    exitInterpreter env d hasParent s =
      order.foldl (exitFinalOne env d hasParent)
        (s.children.foldl (fun s c => s.emit [.cancelInvoke c.invokeId]) (s.emit [.finalCfg s.cfg])) :=
  ⟨sortByDesc_sorted _ _, sortByDesc_perm _ _, rfl⟩
#assert_axioms C07_exit_interpreter

/-- `done.invoke` is never sent by a session without parent, and a state that is not a top-level
    final state never triggers it -/
theorem C07_done_invoke_only_for_child_sessions (env : Env σ) (d : Doc) (s : Sess σ) (sid : Nat) :
    exitFinalOne env d false s sid =
      { (getState d sid).onexit.foldl (runContent env) s with
        cfg := odel ((getState d sid).onexit.foldl (runContent env) s).cfg sid } := by
  unfold exitFinalOne
  simp
#assert_axioms C07_done_invoke_only_for_child_sessions

/-- C07 (model level): the conjunction of the clauses above. -/
def C07_full : Prop :=
  ∀ (σ : Type) (env : Env σ) (d : Doc) (s : Sess σ) (sid : Nat),
    (isFinalStateId d sid = true → (getState d sid).parent = d.root →
      (enterFinal env d s sid).running = false) ∧
    (isFinalStateId d sid = true → (getState d sid).parent ≠ d.root →
      (enterFinal env d s sid).running = s.running ∧
      ∃ tail, (enterFinal env d s sid).iq = s.iq ++ (env.doneData s.dm s.cfg sid).1.raised ++
        [doneStateEvent d (getState d sid).parent (env.doneData s.dm s.cfg sid).2] ++ tail ∧
        (tail = [] ∨ tail = [doneStateEvent d (getState d (getState d sid).parent).parent []])) ∧
    (s.running = false → ∀ c m f feed, mainLoop env d c m (f + 1) s feed = some (s, false))

theorem C07 : C07_full := by
  intro σ env d s sid
  refine ⟨fun hf hp => (C07_top_level_final env d s sid hf hp).1, ?_, ?_⟩
  · intro hf hp
    obtain ⟨h1, h2⟩ := C07_done_state env d s sid hf hp
    refine ⟨h1, _, h2, ?_⟩
    split
    · exact Or.inr rfl
    · exact Or.inl rfl
  · intro hr c m f feed
    exact (C07_stopped_processes_nothing env d c m f s feed hr).2
#assert_axioms C07

end Rfsm.Interp
