import Rfsm.Audit
import Rfsm.Proofs.HttpLemmas
import Rfsm.Proofs.HttpRoute
/-!
# C20 — The BasicHTTP processor turns each valid POST into exactly one event

Model: `Rfsm.Http` (bytes).  `handlePost t sid fields` is what `rocket_receive_event` does with a
request whose url-encoded body decodes to `fields` (the `Form<RawFields>` guard keeps every field
with its verbatim name, in body order; then the route body); `formEncode`/`formDecode` are the
serializer of the `url` crate used by `ureq::send_form` and rocket's form parser; `sendForm` is
`BasicHTTPEventIOProcessor::send`.

The statement has three clauses (DESIGN.md §4 C20):
 (a) a POST naming a session of the table and carrying `_scxmleventname=N` is answered 200 and puts
     exactly one event named `N` on exactly that session's queue, with `_event.data` = the other
     fields (or `_content`); otherwise an error status and no enqueue anywhere;
 (b) decode ∘ encode = id on every list of pairs of byte strings;
 (c) what `send` emits, read back by the receiving route, is an event with the same name and the
     textual form of each parameter.

`C20_full` (every field name is just a name) is PROVED: `theorem C20`.  Before the repair of finding
C20-F1 it was false (`¬ C20_full` was a theorem of the old model): rocket read form field NAMES
structurally (`a.b`, `a[b]`, `k:x`, `x:y`, empty first key).  The old counterexample inputs are kept
as regression theorems `C20_regression_*` (and in the harness corpus): they now deliver the event.
-/
namespace Rfsm.Http

/-! ## statement -/

/-- `_event.data` the statement promises for an event sent with these params / content -/
def outData (e : OutEvent) : EvData :=
  match e.params with
  | some (p :: ps) => .map ((p :: ps).map (fun q => (q.1, dataText q.2)))
  | _ => match e.content with
    | some c => .text (dataText c)
    | none => .null

/-- no `<param>` uses one of the two names the protocol reserves -/
def noReservedParam (e : OutEvent) : Bool :=
  match e.params with
  | some ps => ps.all (fun p => p.1 != scxmlEventName && p.1 != scxmlContent)
  | none => true

/-- clause (a) for requests whose fields satisfy `ok` (`ok` is `True` in `C20_full`; the parameter is
    kept so that `C20_full` is literally the statement that was refuted for the old code) -/
def C20_receive (ok : List (Bytes × Bytes) → Prop) : Prop :=
  ∀ (t : Table) (sid : Nat) (fields : List (Bytes × Bytes)),
    (sidsOf t).Nodup → keysDistinct fields = true → ok fields →
    match lookup t sid, specEvent fields with
    | some _, some (n, d) =>
      ∃ ev, handlePost t sid fields = (200, enqueue t sid ev) ∧ ev.name = n ∧ eventData ev = d ∧
        queueOf (enqueue t sid ev) sid = queueOf t sid ++ [ev] ∧
        (∀ s', s' ≠ sid → queueOf (enqueue t sid ev) s' = queueOf t s') ∧
        totalQueued (enqueue t sid ev) = totalQueued t + 1
    | _, _ => ∃ st, 400 ≤ st ∧ handlePost t sid fields = (st, t)

/-- clause (b) -/
def C20_codec : Prop := ∀ kvs : List (Bytes × Bytes), formDecode (formEncode kvs) = kvs

/-- clause (c) for events whose form satisfies `ok` -/
def C20_roundtrip (ok : List (Bytes × Bytes) → Prop) : Prop :=
  ∀ (t : Table) (sid : Nat) (e : OutEvent),
    (sidsOf t).Nodup → (lookup t sid).isSome = true →
    keysDistinct (sendForm e) = true → noReservedParam e = true → ok (sendForm e) →
    ∃ ev, handlePost t sid (formDecode (sendBody e)) = (200, enqueue t sid ev) ∧
      ev.name = e.name ∧ eventData ev = outData e

/-- The property at full strength: every field name is just a name. -/
def C20_full : Prop :=
  C20_receive (fun _ => True) ∧ C20_codec ∧ C20_roundtrip (fun _ => True)

/-! ## (b) the codec, for all byte strings -/

theorem C20_codec_roundtrip : C20_codec := formDecode_formEncode
#assert_axioms C20_codec_roundtrip

/-- per component: `url_decode_lossy ∘ byte_serialize = id` on every byte string -/
theorem C20_component_roundtrip (s : Bytes) : urlDecode (encStr s) = s := urlDecode_encStr s
#assert_axioms C20_component_roundtrip

/-- an encoded component never contains `&` or `=`: the framing is unambiguous -/
theorem C20_no_separator_in_component (s : Bytes) : ∀ c ∈ encStr s, c ≠ 38 ∧ c ≠ 61 :=
  fun c h => encStr_noSep s c h
#assert_axioms C20_no_separator_in_component

/-! ## (a) the receiving route -/

theorem C20_receive_full : C20_receive (fun _ => True) := by
  intro t sid fields hn hd _
  have hmap : handlePost t sid fields = routeBody t sid fields := rfl
  rw [hmap, routeBody_spec t sid fields hd]
  cases hl : lookup t sid with
  | none => exact ⟨400, by omega, rfl⟩
  | some s =>
    cases hs : specEvent fields with
    | none => exact ⟨400, by omega, rfl⟩
    | some nd =>
      obtain ⟨n, d⟩ := nd
      refine ⟨_, rfl, rfl, ?_, queueOf_enqueue_same t sid _ s hl,
        fun s' hne => queueOf_enqueue_other t sid s' _ hne,
        totalQueued_enqueue t sid _ hn ((lookup_isSome_iff t sid).mp (by simp [hl]))⟩
      unfold specEvent at hs
      cases hv : fieldValue fields scxmlEventName with
      | none => simp [hv] at hs
      | some n' =>
        simp only [hv, Option.some.injEq, Prod.mk.injEq] at hs
        rw [← hs.2]
        unfold eventData
        cases ho : (otherFields fields).isEmpty with
        | true => cases fieldValue fields scxmlContent <;> simp
        | false => simp [mapOf_distinct _ (keysDistinct_otherFields fields hd)]
#assert_axioms C20_receive_full

/-- The route for EVERY request, duplicates included (outside the statement, which speaks of "the"
    event name and "the" remaining fields): the LAST `_scxmleventname` names the event, the LAST
    `_content` is its content, every other field is a parameter in body order (`eventData` then keeps
    the last value of a repeated parameter name, `mapOf`). -/
theorem C20_receive_all (t : Table) (sid : Nat) (fields : List (Bytes × Bytes)) :
    handlePost t sid fields =
      match lookup t sid, lastValue fields scxmlEventName with
      | some _, some n =>
        (200, enqueue t sid
          { name := n,
            params := if (otherFields fields).isEmpty then none else some (otherFields fields),
            content := lastValue fields scxmlContent })
      | _, _ => (400, t) := routeBody_all t sid fields
#assert_axioms C20_receive_all

/-- For EVERY request (any field names, duplicates, any table): either an error status and the
    table is unchanged, or status 200 and exactly one `enqueue` on the addressed, existing session.
    One request is one atomic step. -/
theorem C20_atomic (t : Table) (sid : Nat) (fields : List (Bytes × Bytes)) :
    (∃ st, 400 ≤ st ∧ handlePost t sid fields = (st, t)) ∨
    (∃ ev, handlePost t sid fields = (200, enqueue t sid ev) ∧ (lookup t sid).isSome = true) := by
  unfold handlePost routeBody
  cases hl : lookup t sid with
  | none => exact Or.inl ⟨400, by omega, rfl⟩
  | some s =>
    simp only
    cases hb : buildEvent fields with
    | mk n ev =>
      cases n with
      | none => exact Or.inl ⟨400, by omega, rfl⟩
      | some n => exact Or.inr ⟨_, rfl, rfl⟩
#assert_axioms C20_atomic

/-- the same for the whole request including the path segment -/
theorem C20_atomic_request (t : Table) (seg body : Bytes) :
    (∃ st, 400 ≤ st ∧ receive t seg body = (st, t)) ∨
    (∃ sid ev, receive t seg body = (200, enqueue t sid ev) ∧ (lookup t sid).isSome = true) := by
  unfold receive
  cases parseSid (pctDecode seg) with
  | none => exact Or.inl ⟨422, by omega, rfl⟩
  | some sid =>
    rcases C20_atomic t sid (formDecode body) with h | ⟨ev, h1, h2⟩
    · exact Or.inl h
    · exact Or.inr ⟨sid, ev, h1, h2⟩
#assert_axioms C20_atomic_request

/-! ## concurrent posts: a sequence of atomic enqueues -/

/-- After any sequence of requests — i.e. under any interleaving of concurrent posters, since each
    request is one atomic enqueue under the executor lock — the queue of every session is its old
    queue followed by exactly the events of the accepted requests addressed to it, in the order the
    requests were served.  (This makes every poster a producer in the sense of C13's FIFO/merge
    theorem: per poster order is preserved because the list order is.) -/
theorem C20_concurrent (t : Table) (reqs : List (Bytes × Bytes)) (s : Nat) :
    queueOf (receiveAll t reqs) s =
      queueOf t s ++ (reqs.filterMap (eventOf t)).filterMap
        (fun p => if p.1 = s then some p.2 else none) := by
  induction reqs generalizing t with
  | nil => simp [receiveAll]
  | cons r reqs ih =>
    have hstep : receiveAll t (r :: reqs) = receiveAll (receive t r.1 r.2).2 reqs := rfl
    rw [hstep, receive_eventOf]
    cases he : eventOf t r with
    | none => simp only [List.filterMap_cons, he]; exact ih t
    | some p =>
      obtain ⟨sid, ev⟩ := p
      simp only [List.filterMap_cons, he]
      rw [ih (enqueue t sid ev)]
      have hcongr : reqs.filterMap (eventOf (enqueue t sid ev)) = reqs.filterMap (eventOf t) := by
        have : eventOf (enqueue t sid ev) = eventOf t :=
          funext (eventOf_congr _ _ (enqueue_sids t sid ev))
        rw [this]
      rw [hcongr]
      have hsome : (lookup t sid).isSome = true := by
        unfold eventOf at he
        cases hp : parseSid (pctDecode r.1) with
        | none => simp [hp] at he
        | some sid' =>
          simp only [hp] at he
          by_cases hl : (lookup t sid').isSome = true
          · simp only [hl, ↓reduceIte, Option.map_eq_some_iff, Prod.mk.injEq] at he
            obtain ⟨_, _, h1, _⟩ := he
            rw [← h1]; exact hl
          · simp [hl] at he
      by_cases hs : sid = s
      · subst hs
        cases hl : lookup t sid with
        | none => simp [hl] at hsome
        | some sess =>
          rw [queueOf_enqueue_same t sid ev sess hl]
          simp
      · rw [queueOf_enqueue_other t sid s ev (fun h => hs h.symm)]
        simp [hs]
#assert_axioms C20_concurrent

/-! ## (c) send → receive -/

theorem sendBody_decodes (e : OutEvent) : formDecode (sendBody e) = sendForm e :=
  formDecode_formEncode (sendForm e)
#assert_axioms sendBody_decodes

/-- what the statement promises for the form `send` emits -/
theorem specEvent_sendForm (e : OutEvent) (hr : noReservedParam e = true) :
    specEvent (sendForm e) = some (e.name, outData e) := by
  have hname : fieldValue (sendForm e) scxmlEventName = some e.name := by
    simp [sendForm, fieldValue_cons]
  unfold specEvent
  rw [hname]
  simp only [Option.some.injEq, Prod.mk.injEq, true_and]
  have hne : (scxmlEventName == scxmlContent) = false := by decide
  cases hps : e.params with
  | none =>
    cases hc : e.content with
    | none => simp [sendForm, hps, hc, otherFields, outData, fieldValue, hne]
    | some c =>
      simp [sendForm, hps, hc, otherFields, outData, fieldValue_cons, hne]
  | some ps =>
    unfold noReservedParam at hr
    simp only [hps] at hr
    have hof : otherFields (sendForm e) = ps.map (fun p => (p.1, dataText p.2)) := by
      simp only [sendForm, hps]
      rw [otherFields_append, otherFields_append, otherFields_params ps hr]
      cases e.content <;> simp [otherFields]
    have hcont : fieldValue (sendForm e) scxmlContent = e.content.map dataText := by
      simp only [sendForm, hps]
      rw [List.append_assoc, List.singleton_append, fieldValue_cons, hne]
      simp only [Bool.false_eq_true, ↓reduceIte]
      rw [fieldValue_append_absent _ _ _ (params_no_content ps hr)]
      cases e.content <;> simp [fieldValue]
    rw [hof, hcont]
    cases ps with
    | nil => cases hc : e.content <;> simp [outData, hps, hc]
    | cons p ps => simp [outData, hps]
#assert_axioms specEvent_sendForm

theorem C20_roundtrip_full : C20_roundtrip (fun _ => True) := by
  intro t sid e hn hl hd hr _
  rw [sendBody_decodes]
  have h := C20_receive_full t sid (sendForm e) hn hd trivial
  rw [specEvent_sendForm e hr] at h
  cases hlk : lookup t sid with
  | none => simp [hlk] at hl
  | some s =>
    simp only [hlk] at h
    obtain ⟨ev, h1, h2, h3, _⟩ := h
    exact ⟨ev, h1, h2, h3⟩
#assert_axioms C20_roundtrip_full

/-- the path segment of the location a session publishes (`…/scxml/<decimal id>`) names it -/
theorem C20_location_names_session (sid : Nat) (h : sid < 4294967296) :
    parseSid (pctDecode (decimal sid)) = some sid ∧
    locationOf sid = asciiBytes "http://localhost:5555/scxml/" ++ decimal sid :=
  ⟨parseSid_decimal sid h, rfl⟩
#assert_axioms C20_location_names_session

/-- (c) at the level of the whole request: the body `send` emits, posted to the path of the
    published location, delivers `e`'s name and the text of each parameter -/
theorem C20_roundtrip_request (t : Table) (sid : Nat) (e : OutEvent)
    (hn : (sidsOf t).Nodup) (hl : (lookup t sid).isSome = true) (h32 : sid < 4294967296)
    (hd : keysDistinct (sendForm e) = true) (hr : noReservedParam e = true) :
    ∃ ev, receive t (decimal sid) (sendBody e) = (200, enqueue t sid ev) ∧
      ev.name = e.name ∧ eventData ev = outData e := by
  unfold receive
  rw [parseSid_decimal sid h32]
  exact C20_roundtrip_full t sid e hn hl hd hr trivial
#assert_axioms C20_roundtrip_request

/-- C20 at full strength: every field / parameter name is just a name -/
theorem C20 : C20_full :=
  ⟨C20_receive_full, C20_codec_roundtrip, C20_roundtrip_full⟩
#assert_axioms C20

/-! ## regression: the witnesses of the repaired finding C20-F1 (also in the harness corpus)

Under the old code (form = `HashMap<String,String>`, names read as form paths by rocket) these inputs
gave 422 / a truncated key / a smuggled event name; `¬ C20_full` was proved from the first one. -/

def tbl1 : Table := [{ sid := 1, queue := [] }]
/-- `ev` -/
def bEv : Bytes := [101, 118]
/-- `x:y` -/
def bXY : Bytes := [120, 58, 121]
/-- `a.b` -/
def bAB : Bytes := [97, 46, 98]
/-- `1` -/
def b1 : Bytes := [49]

/-- `_scxmleventname=ev&x:y=1` to a live session (was: 422, nothing enqueued) -/
theorem C20_regression_colon :
    handlePost tbl1 1 [(scxmlEventName, bEv), (bXY, b1)] =
      (200, [{ sid := 1, queue := [{ name := bEv, params := some [(bXY, b1)], content := none }] }]) := by
  decide
#assert_axioms C20_regression_colon

/-- `_scxmleventname=ev&a.b=1` (was: delivered under the key `a`) -/
theorem C20_regression_dot :
    handlePost tbl1 1 [(scxmlEventName, bEv), (bAB, b1)] =
      (200, [{ sid := 1, queue := [{ name := bEv, params := some [(bAB, b1)], content := none }] }]) := by
  decide
#assert_axioms C20_regression_dot

/-- `_scxmleventname=ev&=1`: the empty name is a parameter name (was: 422) -/
theorem C20_regression_emptykey :
    handlePost tbl1 1 [(scxmlEventName, bEv), ([], b1)] =
      (200, [{ sid := 1, queue := [{ name := bEv, params := some [([], b1)], content := none }] }]) := by
  decide
#assert_axioms C20_regression_emptykey

/-- `k:n=_scxmleventname&v:n=ev` does not name an event any more (was: 200, event `ev`) -/
theorem C20_regression_smuggled :
    handlePost tbl1 1 [([107, 58, 110], scxmlEventName), ([118, 58, 110], bEv)] = (400, tbl1) := by
  decide
#assert_axioms C20_regression_smuggled

/-- `<send>` with `<param name="x:y" expr="true"/>` arrives with that parameter and the text `true`
    (was: lost, 422) -/
theorem C20_regression_send_colon :
    handlePost tbl1 1 (formDecode (sendBody { name := bEv, params := some [(bXY, .bool true)], content := none }))
      = (200, [{ sid := 1, queue := [{ name := bEv, params := some [(bXY, [116, 114, 117, 101])], content := none }] }]) := by
  rw [sendBody_decodes]
  decide
#assert_axioms C20_regression_send_colon

/-! ## non-vacuity: concrete instances of the hypotheses -/

/-- `_scxmleventname=ev&p1=abc&p2=123` on a table with two sessions -/
example :
    let t : Table := [{ sid := 1, queue := [] }, { sid := 2, queue := [] }]
    let fields : List (Bytes × Bytes) := [(scxmlEventName, bEv), ([112, 49], [97, 98, 99]), ([112, 50], [49, 50, 51])]
    (sidsOf t).Nodup ∧ keysDistinct fields = true ∧
      handlePost t 2 fields = (200, [{ sid := 1, queue := [] },
        { sid := 2, queue := [{ name := bEv, params := some [([112, 49], [97, 98, 99]), ([112, 50], [49, 50, 51])], content := none }] }]) := by
  decide

/-- the project's own example event (`leave`, p1='abc', p2=123) through `send` and back -/
example :
    let e : OutEvent := { name := [108], params := some [([112, 49], .str [97, 98, 99]), ([112, 50], .bool true)], content := none }
    keysDistinct (sendForm e) = true ∧ noReservedParam e = true ∧
      outData e = .map [([112, 49], [97, 98, 99]), ([112, 50], [116, 114, 117, 101])] := by
  decide

/-- structural-looking names satisfy the hypotheses of `C20` like any other (`a.b`, `x:y`, `[]`, empty) -/
example :
    let fields : List (Bytes × Bytes) := [(bAB, b1), (scxmlEventName, bEv), (bXY, b1), ([91, 93], b1), ([], b1)]
    keysDistinct fields = true ∧
      specEvent fields = some (bEv, .map [(bAB, b1), (bXY, b1), ([91, 93], b1), ([], b1)]) := by
  decide

/-- a value that needs every kind of escaping survives the codec (test, by evaluation) -/
example : formDecode (formEncode [([97, 32, 43], [38, 61, 37, 195, 169, 0, 255]), ([], [])]) =
    [([97, 32, 43], [38, 61, 37, 195, 169, 0, 255]), ([], [])] := by decide

end Rfsm.Http
