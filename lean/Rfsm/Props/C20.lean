import Rfsm.Audit
import Rfsm.Proofs.HttpLemmas
import Rfsm.Proofs.HttpRoute
/-!
# C20 — The BasicHTTP processor turns each valid POST into exactly one event

Model: `Rfsm.Http` (bytes).  `handlePost t sid fields` is what `rocket_receive_event` does with a
request whose url-encoded body decodes to `fields` (rocket's `HashMap<String,String>` form guard,
then the route body); `formEncode`/`formDecode` are the serializer of the `url` crate used by
`ureq::send_form` and rocket's form parser; `sendForm` is `BasicHTTPEventIOProcessor::send`.

The statement has three clauses (DESIGN.md §4 C20):
 (a) a POST naming a session of the table and carrying `_scxmleventname=N` is answered 200 and puts
     exactly one event named `N` on exactly that session's queue, with `_event.data` = the other
     fields (or `_content`); otherwise an error status and no enqueue anywhere;
 (b) decode ∘ encode = id on every list of pairs of byte strings;
 (c) what `send` emits, read back by the receiving route, is an event with the same name and the
     textual form of each parameter.

`C20_full` is false for the unchanged code: rocket reads form field NAMES structurally
(`a.b`, `a[b]`, `k:x`, `x:y`, empty first key), see `C20_counterexample*`.  `C20_partial` is
`C20_full` restricted to field names without `.`, `[`, `:`, not empty and not starting with `=`
(`plainFields`); clause (b) holds unrestricted.
-/
namespace Rfsm.Http

/-! ## statement -/

/-- `_event.data` the statement promises for an event sent with these params / content -/
def outData (e : OutEvent) : EvData :=
  match e.params with
  | some (p :: ps) => .map ((p :: ps).map (fun q => (q.1, dataText q.2)))
  | _ => match e.content with
    | some c => .text (dataText c)
    | none => .null

/-- no `<param>` uses one of the two names the protocol reserves -/
def noReservedParam (e : OutEvent) : Bool :=
  match e.params with
  | some ps => ps.all (fun p => p.1 != scxmlEventName && p.1 != scxmlContent)
  | none => true

/-- clause (a) for requests whose fields satisfy `ok` -/
def C20_receive (ok : List (Bytes × Bytes) → Prop) : Prop :=
  ∀ (t : Table) (sid : Nat) (fields : List (Bytes × Bytes)),
    (sidsOf t).Nodup → keysDistinct fields = true → ok fields →
    match lookup t sid, specEvent fields with
    | some _, some (n, d) =>
      ∃ ev, handlePost t sid fields = (200, enqueue t sid ev) ∧ ev.name = n ∧ eventData ev = d ∧
        queueOf (enqueue t sid ev) sid = queueOf t sid ++ [ev] ∧
        (∀ s', s' ≠ sid → queueOf (enqueue t sid ev) s' = queueOf t s') ∧
        totalQueued (enqueue t sid ev) = totalQueued t + 1
    | _, _ => ∃ st, 400 ≤ st ∧ handlePost t sid fields = (st, t)

/-- clause (b) -/
def C20_codec : Prop := ∀ kvs : List (Bytes × Bytes), formDecode (formEncode kvs) = kvs

/-- clause (c) for events whose form satisfies `ok` -/
def C20_roundtrip (ok : List (Bytes × Bytes) → Prop) : Prop :=
  ∀ (t : Table) (sid : Nat) (e : OutEvent),
    (sidsOf t).Nodup → (lookup t sid).isSome = true →
    keysDistinct (sendForm e) = true → noReservedParam e = true → ok (sendForm e) →
    ∃ ev, handlePost t sid (formDecode (sendBody e)) = (200, enqueue t sid ev) ∧
      ev.name = e.name ∧ eventData ev = outData e

/-- The property at full strength: every field name is just a name. -/
def C20_full : Prop :=
  C20_receive (fun _ => True) ∧ C20_codec ∧ C20_roundtrip (fun _ => True)

/-- The part that holds: field names that rocket reads as one key. -/
def C20_partial_stmt : Prop :=
  C20_receive (fun f => plainFields f = true) ∧ C20_codec ∧ C20_roundtrip (fun f => plainFields f = true)

/-! ## (b) the codec, for all byte strings -/

theorem C20_codec_roundtrip : C20_codec := formDecode_formEncode
#assert_axioms C20_codec_roundtrip

/-- per component: `url_decode_lossy ∘ byte_serialize = id` on every byte string -/
theorem C20_component_roundtrip (s : Bytes) : urlDecode (encStr s) = s := urlDecode_encStr s
#assert_axioms C20_component_roundtrip

/-- an encoded component never contains `&` or `=`: the framing is unambiguous -/
theorem C20_no_separator_in_component (s : Bytes) : ∀ c ∈ encStr s, c ≠ 38 ∧ c ≠ 61 :=
  fun c h => encStr_noSep s c h
#assert_axioms C20_no_separator_in_component

/-! ## (a) the receiving route -/

theorem C20_receive_plain : C20_receive (fun f => plainFields f = true) := by
  intro t sid fields hn hd hp
  have hmap : handlePost t sid fields = routeBody t sid fields := by
    unfold handlePost
    rw [rocketMap_plain fields hp hd]
  rw [hmap, routeBody_spec t sid fields hd]
  cases hl : lookup t sid with
  | none => exact ⟨400, by omega, rfl⟩
  | some s =>
    cases hs : specEvent fields with
    | none => exact ⟨400, by omega, rfl⟩
    | some nd =>
      obtain ⟨n, d⟩ := nd
      refine ⟨_, rfl, rfl, ?_, queueOf_enqueue_same t sid _ s hl,
        fun s' hne => queueOf_enqueue_other t sid s' _ hne,
        totalQueued_enqueue t sid _ hn ((lookup_isSome_iff t sid).mp (by simp [hl]))⟩
      unfold specEvent at hs
      cases hv : fieldValue fields scxmlEventName with
      | none => simp [hv] at hs
      | some n' =>
        simp only [hv, Option.some.injEq, Prod.mk.injEq] at hs
        rw [← hs.2]
        unfold eventData
        cases ho : (otherFields fields).isEmpty with
        | true => cases fieldValue fields scxmlContent <;> simp
        | false => simp
#assert_axioms C20_receive_plain

/-- The route for EVERY request, in terms of the map rocket builds from the fields (`rocketMap`,
    whose keys are pairwise distinct — `rocketMap_distinct`): 422 when rocket rejects the form;
    otherwise exactly what the statement says *about that map*.  The only distance to `C20_full` is
    `rocketMap fields` versus `fields`, which `rocketMap_plain` closes for plain names. -/
theorem C20_receive_all (t : Table) (sid : Nat) (fields : List (Bytes × Bytes)) :
    handlePost t sid fields =
      match rocketMap fields with
      | none => (422, t)
      | some form =>
        match lookup t sid, specEvent form with
        | some _, some (n, _) =>
          (200, enqueue t sid
            { name := n,
              params := if (otherFields form).isEmpty then none else some (otherFields form),
              content := fieldValue form scxmlContent })
        | _, _ => (400, t) := by
  unfold handlePost
  cases h : rocketMap fields with
  | none => rfl
  | some form => exact routeBody_spec t sid form (rocketMap_distinct fields form h)
#assert_axioms C20_receive_all

/-- For EVERY request (any field names, duplicates, any table): either an error status and the
    table is unchanged, or status 200 and exactly one `enqueue` on the addressed, existing session.
    One request is one atomic step. -/
theorem C20_atomic (t : Table) (sid : Nat) (fields : List (Bytes × Bytes)) :
    (∃ st, 400 ≤ st ∧ handlePost t sid fields = (st, t)) ∨
    (∃ ev, handlePost t sid fields = (200, enqueue t sid ev) ∧ (lookup t sid).isSome = true) := by
  unfold handlePost
  cases rocketMap fields with
  | none => exact Or.inl ⟨422, by omega, rfl⟩
  | some form =>
    simp only
    unfold routeBody
    cases hl : lookup t sid with
    | none => exact Or.inl ⟨400, by omega, rfl⟩
    | some s =>
      simp only
      cases hb : buildEvent form with
      | mk n ev =>
        cases n with
        | none => exact Or.inl ⟨400, by omega, rfl⟩
        | some n => exact Or.inr ⟨_, rfl, rfl⟩
#assert_axioms C20_atomic

/-- the same for the whole request including the path segment -/
theorem C20_atomic_request (t : Table) (seg body : Bytes) :
    (∃ st, 400 ≤ st ∧ receive t seg body = (st, t)) ∨
    (∃ sid ev, receive t seg body = (200, enqueue t sid ev) ∧ (lookup t sid).isSome = true) := by
  unfold receive
  cases parseSid (pctDecode seg) with
  | none => exact Or.inl ⟨422, by omega, rfl⟩
  | some sid =>
    rcases C20_atomic t sid (formDecode body) with h | ⟨ev, h1, h2⟩
    · exact Or.inl h
    · exact Or.inr ⟨sid, ev, h1, h2⟩
#assert_axioms C20_atomic_request

/-! ## concurrent posts: a sequence of atomic enqueues -/

/-- After any sequence of requests — i.e. under any interleaving of concurrent posters, since each
    request is one atomic enqueue under the executor lock — the queue of every session is its old
    queue followed by exactly the events of the accepted requests addressed to it, in the order the
    requests were served.  (This makes every poster a producer in the sense of C13's FIFO/merge
    theorem: per poster order is preserved because the list order is.) -/
theorem C20_concurrent (t : Table) (reqs : List (Bytes × Bytes)) (s : Nat) :
    queueOf (receiveAll t reqs) s =
      queueOf t s ++ (reqs.filterMap (eventOf t)).filterMap
        (fun p => if p.1 = s then some p.2 else none) := by
  induction reqs generalizing t with
  | nil => simp [receiveAll]
  | cons r reqs ih =>
    have hstep : receiveAll t (r :: reqs) = receiveAll (receive t r.1 r.2).2 reqs := rfl
    rw [hstep, receive_eventOf]
    cases he : eventOf t r with
    | none => simp only [List.filterMap_cons, he]; exact ih t
    | some p =>
      obtain ⟨sid, ev⟩ := p
      simp only [List.filterMap_cons, he]
      rw [ih (enqueue t sid ev)]
      have hcongr : reqs.filterMap (eventOf (enqueue t sid ev)) = reqs.filterMap (eventOf t) := by
        have : eventOf (enqueue t sid ev) = eventOf t :=
          funext (eventOf_congr _ _ (enqueue_sids t sid ev))
        rw [this]
      rw [hcongr]
      have hsome : (lookup t sid).isSome = true := by
        unfold eventOf at he
        cases hp : parseSid (pctDecode r.1) with
        | none => simp [hp] at he
        | some sid' =>
          simp only [hp] at he
          by_cases hl : (lookup t sid').isSome = true
          · simp only [hl, ↓reduceIte] at he
            cases hm : rocketMap (formDecode r.2) with
            | none => simp [hm] at he
            | some form =>
              simp only [hm, Option.map_eq_some_iff, Prod.mk.injEq] at he
              obtain ⟨_, _, h1, _⟩ := he
              rw [← h1]; exact hl
          · simp [hl] at he
      by_cases hs : sid = s
      · subst hs
        cases hl : lookup t sid with
        | none => simp [hl] at hsome
        | some sess =>
          rw [queueOf_enqueue_same t sid ev sess hl]
          simp
      · rw [queueOf_enqueue_other t sid s ev (fun h => hs h.symm)]
        simp [hs]
#assert_axioms C20_concurrent

/-! ## (c) send → receive -/

theorem sendBody_decodes (e : OutEvent) : formDecode (sendBody e) = sendForm e :=
  formDecode_formEncode (sendForm e)
#assert_axioms sendBody_decodes

/-- what the statement promises for the form `send` emits -/
theorem specEvent_sendForm (e : OutEvent) (hr : noReservedParam e = true) :
    specEvent (sendForm e) = some (e.name, outData e) := by
  have hname : fieldValue (sendForm e) scxmlEventName = some e.name := by
    simp [sendForm, fieldValue_cons]
  unfold specEvent
  rw [hname]
  simp only [Option.some.injEq, Prod.mk.injEq, true_and]
  have hne : (scxmlEventName == scxmlContent) = false := by decide
  cases hps : e.params with
  | none =>
    cases hc : e.content with
    | none => simp [sendForm, hps, hc, otherFields, outData, fieldValue, hne]
    | some c =>
      simp [sendForm, hps, hc, otherFields, outData, fieldValue_cons, hne]
  | some ps =>
    unfold noReservedParam at hr
    simp only [hps] at hr
    have hof : otherFields (sendForm e) = ps.map (fun p => (p.1, dataText p.2)) := by
      simp only [sendForm, hps]
      rw [otherFields_append, otherFields_append, otherFields_params ps hr]
      cases e.content <;> simp [otherFields]
    have hcont : fieldValue (sendForm e) scxmlContent = e.content.map dataText := by
      simp only [sendForm, hps]
      rw [List.append_assoc, List.singleton_append, fieldValue_cons, hne]
      simp only [Bool.false_eq_true, ↓reduceIte]
      rw [fieldValue_append_absent _ _ _ (params_no_content ps hr)]
      cases e.content <;> simp [fieldValue]
    rw [hof, hcont]
    cases ps with
    | nil => cases hc : e.content <;> simp [outData, hps, hc]
    | cons p ps => simp [outData, hps]
#assert_axioms specEvent_sendForm

theorem C20_roundtrip_plain : C20_roundtrip (fun f => plainFields f = true) := by
  intro t sid e hn hl hd hr hp
  rw [sendBody_decodes]
  have h := C20_receive_plain t sid (sendForm e) hn hd hp
  rw [specEvent_sendForm e hr] at h
  cases hlk : lookup t sid with
  | none => simp [hlk] at hl
  | some s =>
    simp only [hlk] at h
    obtain ⟨ev, h1, h2, h3, _⟩ := h
    exact ⟨ev, h1, h2, h3⟩
#assert_axioms C20_roundtrip_plain

/-- the path segment of the location a session publishes (`…/scxml/<decimal id>`) names it -/
theorem C20_location_names_session (sid : Nat) (h : sid < 4294967296) :
    parseSid (pctDecode (decimal sid)) = some sid ∧
    locationOf sid = asciiBytes "http://localhost:5555/scxml/" ++ decimal sid :=
  ⟨parseSid_decimal sid h, rfl⟩
#assert_axioms C20_location_names_session

/-- (c) at the level of the whole request: the body `send` emits, posted to the path of the
    published location, delivers `e`'s name and the text of each parameter -/
theorem C20_roundtrip_request (t : Table) (sid : Nat) (e : OutEvent)
    (hn : (sidsOf t).Nodup) (hl : (lookup t sid).isSome = true) (h32 : sid < 4294967296)
    (hd : keysDistinct (sendForm e) = true) (hr : noReservedParam e = true)
    (hp : plainFields (sendForm e) = true) :
    ∃ ev, receive t (decimal sid) (sendBody e) = (200, enqueue t sid ev) ∧
      ev.name = e.name ∧ eventData ev = outData e := by
  unfold receive
  rw [parseSid_decimal sid h32]
  exact C20_roundtrip_plain t sid e hn hl hd hr hp
#assert_axioms C20_roundtrip_request

/-- C20 for field / parameter names that rocket reads as one key -/
theorem C20_partial : C20_partial_stmt :=
  ⟨C20_receive_plain, C20_codec_roundtrip, C20_roundtrip_plain⟩
#assert_axioms C20_partial

/-! ## the unchanged code violates `C20_full`: concrete witnesses (replayed by the harness corpus) -/

def tbl1 : Table := [{ sid := 1, queue := [] }]
/-- `ev` -/
def bEv : Bytes := [101, 118]
/-- `x:y` -/
def bXY : Bytes := [120, 58, 121]
/-- `a.b` -/
def bAB : Bytes := [97, 46, 98]
/-- `1` -/
def b1 : Bytes := [49]

/-- `_scxmleventname=ev&x:y=1` to a live session: answered 422, nothing enqueued -/
theorem C20_counterexample_rejected :
    handlePost tbl1 1 [(scxmlEventName, bEv), (bXY, b1)] = (422, tbl1) := by decide
#assert_axioms C20_counterexample_rejected

/-- `_scxmleventname=ev&a.b=1`: delivered, but `_event.data` has the key `a`, not `a.b` -/
theorem C20_counterexample_truncated :
    handlePost tbl1 1 [(scxmlEventName, bEv), (bAB, b1)] =
      (200, [{ sid := 1, queue := [{ name := bEv, params := some [([97], b1)], content := none }] }]) := by
  decide
#assert_axioms C20_counterexample_truncated

/-- `<send>` with `<param name="x:y" expr="1"/>`: the event is lost on the receiving side -/
theorem C20_counterexample_send_lost :
    handlePost tbl1 1 (formDecode (sendBody { name := bEv, params := some [(bXY, .int 1)], content := none }))
      = (422, tbl1) := by
  rw [sendBody_decodes]
  decide
#assert_axioms C20_counterexample_send_lost

theorem C20_counterexample : ¬ C20_full := by
  intro h
  have h1 := h.1 tbl1 1 [(scxmlEventName, bEv), (bXY, b1)] (by decide) (by decide) trivial
  have hl : lookup tbl1 1 = some { sid := 1, queue := [] } := by decide
  have hs : specEvent [(scxmlEventName, bEv), (bXY, b1)] = some (bEv, .map [(bXY, b1)]) := by decide
  rw [hl, hs] at h1
  obtain ⟨ev, h2, _⟩ := h1
  rw [C20_counterexample_rejected] at h2
  have h3 := congrArg Prod.fst h2
  simp at h3
#assert_axioms C20_counterexample

/-! ## non-vacuity: concrete instances of the hypotheses -/

/-- `_scxmleventname=ev&p1=abc&p2=123` on a table with two sessions -/
example :
    let t : Table := [{ sid := 1, queue := [] }, { sid := 2, queue := [] }]
    let fields : List (Bytes × Bytes) := [(scxmlEventName, bEv), ([112, 49], [97, 98, 99]), ([112, 50], [49, 50, 51])]
    (sidsOf t).Nodup ∧ keysDistinct fields = true ∧ plainFields fields = true ∧
      handlePost t 2 fields = (200, [{ sid := 1, queue := [] },
        { sid := 2, queue := [{ name := bEv, params := some [([112, 49], [97, 98, 99]), ([112, 50], [49, 50, 51])], content := none }] }]) := by
  decide

/-- the project's own example event (`leave`, p1='abc', p2=123) through `send` and back -/
example :
    let e : OutEvent := { name := [108], params := some [([112, 49], .str [97, 98, 99]), ([112, 50], .bool true)], content := none }
    keysDistinct (sendForm e) = true ∧ noReservedParam e = true ∧ plainFields (sendForm e) = true ∧
      outData e = .map [([112, 49], [97, 98, 99]), ([112, 50], [116, 114, 117, 101])] := by
  decide

/-- a value that needs every kind of escaping survives the codec (test, by evaluation) -/
example : formDecode (formEncode [([97, 32, 43], [38, 61, 37, 195, 169, 0, 255]), ([], [])]) =
    [([97, 32, 43], [38, 61, 37, 195, 169, 0, 255]), ([], [])] := by decide

end Rfsm.Http
