import Rfsm.Audit
import Rfsm.Proofs.RouteLemmas
/-!
# C15 — The SCXML event I/O processor routes each send to exactly the addressed queue

Model: `Rfsm.Route` — `routeSend` transcribes `ScxmlEventIOProcessor::send` case by case,
`sendToSession` the executor's session table lookup, `execSend`/`buildEvent`/`sendId` the part of
`SendParameters::execute` that follows the evaluation of the attribute expressions, `fetchAdd` /
`runCounter` the two global `AtomicU32` id sources, `showNat`/`parseU32` Rust's `u32` `Display`
and `parse`.  Panic sites (`todo!()` for an unknown session, `unwrap()` of a missing parent) are
explicit outcomes; they are not in the scope of C15's statement (no queue is named by such a
target) and are left to C12.

Trusted, not proved: `AtomicU32::fetch_add` is atomic (each call is linearized); the tie of the
model to the code is the correspondence run of harness family `c15`.
-/
namespace Rfsm.Route

/-- What a completed call of the processor did to the queues: EXACTLY ONE of
* the stamped event appended to the external queue of one registered session,
* the stamped event (as internal event) appended to the sender's internal queue,
* one error event appended to the sender's internal queue (and the call returned `false`). -/
inductive Did {δ : Type} (w : World δ) (S : Session δ) (ev : Event δ) : World δ → Bool → Prop
  | ext (sid : Nat) (T : Session δ) : lookup w sid = some T →
      Did w S ev (enqExt w sid (stamp S.sid ev)) true
  | int : Did w S ev (enqInt w S.sid { stamp S.sid ev with etype := .internal }) true
  | err (e : Event δ) :
      (e = errorCommunication (stamp S.sid ev) ∨ e = errorExecution ev.sendid ev.invokeId) →
      Did w S ev (enqInt w S.sid e) false

/-- "internal", "parent", "scxml_": invoke ids that `#_<invokeid>` cannot address because the
exact targets `#_internal`, `#_parent` and the prefix `#_scxml_` are tested first -/
def reservedInvokeId (inv : Str) : Bool :=
  inv == tInternal.drop 2 || inv == tParent.drop 2 || (pfxSession.drop 2).isPrefixOf inv

/-- (a) one enqueue, never two, never an event and an error -/
def C15a_full : Prop :=
  ∀ (δ : Type) (w w' : World δ) (S S' : Session δ) (target : Str) (ev : Event δ) (ok : Bool),
    (w.map (·.sid)).Nodup → lookup w S.sid = some S' →
    routeSend w S target ev = .done w' ok →
      Did w S ev w' ok ∧ queued w' = queued w + 1

/-- (a') every target form of the statement names the queue that receives the event -/
def C15_targets_full : Prop :=
  ∀ (δ : Type) (w : World δ) (S : Session δ) (ev : Event δ),
    routeSend w S tInternal ev =
      .done (enqInt w S.sid { stamp S.sid ev with etype := .internal }) true ∧
    routeSend w S [] ev = .done (enqExt w S.sid (stamp S.sid ev)) true ∧
    (∀ n T, n < 4294967296 → lookup w n = some T → T.receiverDropped = false →
      routeSend w S (location n) ev = .done (enqExt w n (stamp S.sid ev)) true) ∧
    (∀ p P, S.parent = some p → lookup w p = some P → P.receiverDropped = false →
      routeSend w S tParent ev = .done (enqExt w p (stamp S.sid ev)) true) ∧
    (∀ inv c C, S.children.lookup inv = some c → lookup w c = some C → C.receiverDropped = false →
      reservedInvokeId inv = false →
      routeSend w S (pfxInvoke ++ inv) ev = .done (enqExt w c (stamp S.sid ev)) true)

/-- (b) name, sendid and data arrive unchanged: the event that is enqueued is the event
`SendParameters::execute` built, apart from origin/origintype -/
def C15b_full : Prop :=
  ∀ (δ : Type) (w w' : World δ) (ctr : Nat) (S : Session δ) (sp : SendSpec δ),
    sp.delayMs = 0 → procTypes.contains (if sp.type = [] then procUrl else sp.type) = true →
    routeSend w S sp.target (buildEvent S sp (sendId sp ctr).1) = .done w' true →
      execSend w ctr S sp = .done w' (sendId sp ctr).2 true ∧
      let e := stamp S.sid (buildEvent S sp (sendId sp ctr).1)
      e.name = sp.event ∧
      e.sendid = (if sp.idLocation then some (genId sp.stateName ctr)
                  else if sp.idLiteral = [] then none else some sp.idLiteral) ∧
      (sp.hasContent = true → e.content = sp.content ∧ e.params = none) ∧
      (sp.hasContent = false → e.content = none ∧
        e.params = if sp.params.isEmpty then none else some sp.params) ∧
      e.origin = some (location S.sid) ∧ e.originType = some procUrl ∧ e.invokeId = S.caller

/-- (c) a reply sent to the received event's origin (through the processor named by its
origintype) is enqueued on the original sender's external queue, in any later world in which the
sender is still registered -/
def C15c_full : Prop :=
  ∀ (δ : Type) (w : World δ) (S S' R : Session δ) (ev reply : Event δ),
    ev.origin = none → S.sid < 4294967296 →
    lookup w S.sid = some S' → S'.receiverDropped = false →
      ∃ o ty, (stamp S.sid ev).origin = some o ∧ (stamp S.sid ev).originType = some ty ∧
        procTypes.contains ty = true ∧
        routeSend w R o reply = .done (enqExt w S.sid (stamp R.sid reply)) true

/-- (d) ids: whatever the interleaving of the threads' `fetch_add` calls, the values handed out
are pairwise distinct (below wrap-around); generated ids are injective in the platform id, even
across different state names; `#_scxml_<id>` locations are injective in the id -/
def C15d_full : Prop :=
  (∀ (c : Nat) (sched : List Nat), c + sched.length ≤ 4294967296 →
      ((runCounter c sched).1.map Prod.snd).Nodup ∧
      (runCounter c sched).1.map Prod.fst = sched) ∧
  (∀ (st1 st2 : Str) (n m : Nat), genId st1 n = genId st2 m → n = m) ∧
  (∀ n m : Nat, location n = location m → n = m)

def C15_full : Prop := C15a_full ∧ C15_targets_full ∧ C15b_full ∧ C15c_full ∧ C15d_full

/-! ## proofs -/

section
variable {δ : Type}

theorem sendToSession_did_aux (w w' : World δ) (S : Session δ) (ev : Event δ) (sid : Nat) (ok : Bool)
    (h : sendToSession w S.sid sid (stamp S.sid ev) = .done w' ok) : Did w S ev w' ok := by
  unfold sendToSession at h
  split at h
  · cases h; exact .err _ (Or.inl rfl)
  · rename_i T hl
    split at h
    · cases h; exact .err _ (Or.inl rfl)
    · cases h; exact .ext sid T hl
#assert_axioms sendToSession_did_aux

theorem C15_route_did (w w' : World δ) (S S' : Session δ) (target : Str) (ev : Event δ) (ok : Bool)
    (hS : lookup w S.sid = some S') (h : routeSend w S target ev = .done w' ok) :
    Did w S ev w' ok := by
  unfold routeSend at h
  simp only at h
  split at h
  · cases h; exact .ext S.sid S' hS
  · split at h
    · cases h; exact .int
    · split at h
      · split at h
        · cases h; exact .err _ (Or.inl rfl)
        · exact sendToSession_did_aux w w' S ev _ ok h
      · split at h
        · split at h
          · exact sendToSession_did_aux w w' S ev _ ok h
          · cases h; exact .err _ (Or.inl rfl)
        · split at h
          · split at h
            · cases h; exact .err _ (Or.inl rfl)
            · exact sendToSession_did_aux w w' S ev _ ok h
          · cases h; exact .err _ (Or.inr rfl)
#assert_axioms C15_route_did

theorem C15_did_queued (w w' : World δ) (S S' : Session δ) (ev : Event δ) (ok : Bool)
    (hnd : (w.map (·.sid)).Nodup) (hS : lookup w S.sid = some S') (h : Did w S ev w' ok) :
    queued w' = queued w + 1 := by
  cases h with
  | ext sid T hl => exact queued_enqExt w sid _ T hnd hl
  | int => exact queued_enqInt w S.sid _ S' hnd hS
  | err e _ => exact queued_enqInt w S.sid _ S' hnd hS
#assert_axioms C15_did_queued

theorem C15a : C15a_full := by
  intro δ w w' S S' target ev ok hnd hS h
  have hd := C15_route_did w w' S S' target ev ok hS h
  exact ⟨hd, C15_did_queued w w' S S' ev ok hnd hS hd⟩
#assert_axioms C15a

/-- frame: an enqueue on session `q`'s external queue leaves every other session, and `q`'s other
fields, as they were; `q`'s external queue grows by exactly that event at the tail -/
theorem C15_enqExt_frame (w : World δ) (q sid' : Nat) (e : Event δ) :
    lookup (enqExt w q e) sid' =
      (lookup w sid').map fun s => if s.sid = q then { s with extQ := s.extQ ++ [e] } else s :=
  lookup_modify w q sid' _ (fun _ => rfl)
#assert_axioms C15_enqExt_frame

theorem C15_enqInt_frame (w : World δ) (q sid' : Nat) (e : Event δ) :
    lookup (enqInt w q e) sid' =
      (lookup w sid').map fun s => if s.sid = q then { s with intQ := s.intQ ++ [e] } else s :=
  lookup_modify w q sid' _ (fun _ => rfl)
#assert_axioms C15_enqInt_frame

theorem location_route_aux (w : World δ) (R : Session δ) (n : Nat) (T : Session δ) (ev : Event δ)
    (hn : n < 4294967296) (hl : lookup w n = some T) (hd : T.receiverDropped = false) :
    routeSend w R (location n) ev = .done (enqExt w n (stamp R.sid ev)) true := by
  have h1 : location n ≠ [] := by simp [location, pfxSession]
  have h2 : location n ≠ tInternal := by simp [location, pfxSession, tInternal]
  have h3 : location n ≠ tParent := by simp [location, pfxSession, tParent]
  have h4 : pfxSession.isPrefixOf (location n) = true := by
    simp [location, List.isPrefixOf_iff_prefix]
  have h5 : (location n).drop pfxSession.length = showNat n := by simp [location]
  unfold routeSend
  simp only [h1, h2, h3, h4, h5, if_false, if_true, parseU32_showNat n hn, sendToSession, hl, hd]
  simp
#assert_axioms location_route_aux

theorem C15_targets : C15_targets_full := by
  intro δ w S ev
  refine ⟨?_, ?_, ?_, ?_, ?_⟩
  · unfold routeSend
    have : tInternal ≠ [] := by decide
    simp [this]
  · simp [routeSend]
  · intro n T hn hl hd
    exact location_route_aux w S n T ev hn hl hd
  · intro p P hp hl hd
    have h1 : tParent ≠ [] := by decide
    have h2 : tParent ≠ tInternal := by decide
    unfold routeSend
    simp only [h1, h2, if_false, if_true, hp, sendToSession, hl, hd]
    simp
  · intro inv c C hc hl hd hres
    simp only [reservedInvokeId, Bool.or_eq_false_iff, beq_eq_false_iff_ne] at hres
    obtain ⟨⟨hi, hp⟩, hs⟩ := hres
    have h1 : pfxInvoke ++ inv ≠ [] := by simp [pfxInvoke]
    have h2 : pfxInvoke ++ inv ≠ tInternal := by
      intro h; apply hi
      have := congrArg (List.drop 2) h
      simpa [pfxInvoke] using this
    have h3 : pfxInvoke ++ inv ≠ tParent := by
      intro h; apply hp
      have := congrArg (List.drop 2) h
      simpa [pfxInvoke] using this
    have h4 : pfxSession.isPrefixOf (pfxInvoke ++ inv) = false := by
      simpa [pfxInvoke, pfxSession, List.isPrefixOf] using hs
    have h5 : pfxInvoke.isPrefixOf (pfxInvoke ++ inv) = true := by
      simp [List.isPrefixOf_iff_prefix]
    have h6 : (pfxInvoke ++ inv).drop pfxInvoke.length = inv := by simp
    unfold routeSend
    simp only [h1, h2, h3, h4, h5, h6, if_false, if_true, hc, sendToSession, hl, hd]
    simp
#assert_axioms C15_targets

theorem C15b : C15b_full := by
  intro δ w w' ctr S sp hdelay hty hroute
  refine ⟨?_, rfl, ?_, ?_, ?_, rfl, rfl, rfl⟩
  · unfold execSend
    simp only [hdelay, hty, hroute]
    simp
  · simp only [stamp, buildEvent, sendId, fetchAdd]
    split <;> (try split) <;> rfl
  · intro hc; simp [stamp, buildEvent, hc]
  · intro hc; simp [stamp, buildEvent, hc]
#assert_axioms C15b

theorem C15c : C15c_full := by
  intro δ w S S' R ev reply horig hlt hl hd
  refine ⟨location S.sid, procUrl, ?_, rfl, by decide, ?_⟩
  · simp [stamp, horig]
  · exact location_route_aux w R S.sid S' reply hlt hl hd
#assert_axioms C15c

theorem genId_platform_aux (st1 st2 : Str) (n m : Nat) (h : genId st1 n = genId st2 m) : n = m := by
  have hr := congrArg List.reverse h
  simp only [genId, List.reverse_append, List.reverse_cons, List.append_assoc,
    List.singleton_append] at hr
  have hd : ∀ k, ∀ c ∈ (showNat k).reverse, c ≠ 46 := by
    intro k c hc
    have := showNat_digits k c (List.mem_reverse.1 hc)
    omega
  have := append_dot_cancel _ _ _ _ (hd n) (hd m) hr
  exact showNat_injective (List.reverse_inj.1 this)
#assert_axioms genId_platform_aux

theorem C15d : C15d_full := by
  refine ⟨?_, genId_platform_aux, ?_⟩
  · intro c sched h
    refine ⟨?_, runCounter_threads c sched⟩
    rw [runCounter_values c sched h]
    exact List.nodup_range'
  · intro n m h
    exact showNat_injective (List.append_cancel_left h)
#assert_axioms C15d

end

theorem C15 : C15_full := ⟨C15a, C15_targets, C15b, C15c, C15d⟩
#assert_axioms C15

/-! ## what the code does outside the statement's target forms, and quirks (all modelled) -/

section
variable {δ : Type}

/-- P9 (belonged to C12; repaired by /repo commit 9d6cb1f): a well-formed `#_scxml_<n>` for an
unregistered `n` used to panic in `todo!()`; now the send fails with `error.communication` on the
sender's internal queue, as the Recommendation says -/
theorem C15_unknown_session_error (w : World δ) (S : Session δ) (n : Nat) (ev : Event δ)
    (hn : n < 4294967296) (hl : lookup w n = none) :
    routeSend w S (location n) ev =
      .done (enqInt w S.sid (errorCommunication (stamp S.sid ev))) false := by
  have h1 : location n ≠ [] := by simp [location, pfxSession]
  have h2 : location n ≠ tInternal := by simp [location, pfxSession, tInternal]
  have h3 : location n ≠ tParent := by simp [location, pfxSession, tParent]
  have h4 : pfxSession.isPrefixOf (location n) = true := by
    simp [location, List.isPrefixOf_iff_prefix]
  have h5 : (location n).drop pfxSession.length = showNat n := by simp [location]
  unfold routeSend
  simp only [h1, h2, h3, h4, h5, if_false, if_true, parseU32_showNat n hn, sendToSession, hl]
#assert_axioms C15_unknown_session_error

/-- P9 (belonged to C12; repaired by /repo commit bcf85d6): `#_parent` in a session without
parent used to panic in `unwrap()`; now the send fails with `error.communication` -/
theorem C15_no_parent_error (w : World δ) (S : Session δ) (ev : Event δ) (hp : S.parent = none) :
    routeSend w S tParent ev =
      .done (enqInt w S.sid (errorCommunication (stamp S.sid ev))) false := by
  have h1 : tParent ≠ [] := by decide
  have h2 : tParent ≠ tInternal := by decide
  unfold routeSend
  simp only [h1, h2, if_false, if_true, hp]
#assert_axioms C15_no_parent_error

/-- the processor never panics: for every world, sender, target text and event -/
theorem C15_no_panic (w : World δ) (S : Session δ) (target : Str) (ev : Event δ) :
    ∃ w' ok, routeSend w S target ev = .done w' ok := by
  have hs : ∀ sid e, ∃ w' ok, sendToSession w S.sid sid e = Outcome.done (δ := δ) w' ok := by
    intro sid e
    unfold sendToSession
    cases hl : lookup w sid with
    | none => exact ⟨_, _, rfl⟩
    | some T => simp only; split <;> exact ⟨_, _, rfl⟩
  unfold routeSend
  simp only
  split
  · exact ⟨_, _, rfl⟩
  · split
    · exact ⟨_, _, rfl⟩
    · split
      · cases hpar : S.parent with
        | none => exact ⟨_, _, rfl⟩
        | some p => exact hs _ _
      · split
        · split
          · exact hs _ _
          · exact ⟨_, _, rfl⟩
        · split
          · split
            · exact ⟨_, _, rfl⟩
            · exact hs _ _
          · exact ⟨_, _, rfl⟩
#assert_axioms C15_no_panic

/-- quirk: after a failed routing `SendParameters::execute` adds a second error event
(`error.execution`) behind the processor's `error.communication` / `error.execution` -/
theorem C15_failed_send_two_errors (w w' : World δ) (ctr : Nat) (S : Session δ) (sp : SendSpec δ)
    (hdelay : sp.delayMs = 0) (hty : procTypes.contains (if sp.type = [] then procUrl else sp.type) = true)
    (h : routeSend w S sp.target (buildEvent S sp (sendId sp ctr).1) = .done w' false) :
    execSend w ctr S sp =
      .done (enqInt w' S.sid (errorExecution (sendId sp ctr).1 S.caller)) (sendId sp ctr).2 false := by
  unfold execSend
  simp only [hdelay, hty, h]
  simp
#assert_axioms C15_failed_send_two_errors

theorem extQ_enqInt_aux (w : World δ) (q sid : Nat) (e : Event δ) :
    (lookup (enqInt w q e) sid).map (·.extQ) = (lookup w sid).map (·.extQ) := by
  rw [C15_enqInt_frame]
  cases lookup w sid with
  | none => rfl
  | some s => simp only [Option.map_some]; split <;> rfl
#assert_axioms extQ_enqInt_aux

/-- a `<send>` that fails (returns `false`) touches no external queue of any session: only
error events on the sender's internal queue -/
theorem C15_failed_send_touches_no_external_queue (w w' : World δ) (ctr c : Nat) (S S' : Session δ)
    (sp : SendSpec δ) (hS : lookup w S.sid = some S')
    (h : execSend w ctr S sp = .done w' c false) :
    ∀ sid, (lookup w' sid).map (·.extQ) = (lookup w sid).map (·.extQ) := by
  intro sid
  unfold execSend at h
  simp only at h
  generalize (if sp.type = [] then procUrl else sp.type) = ty at h
  by_cases h1 : sp.delayMs < 0
  · rw [if_pos h1] at h; cases h; exact extQ_enqInt_aux _ _ _ _
  · rw [if_neg h1] at h
    by_cases h2 : sp.delayMs > 0 ∧ sp.target = tInternal
    · rw [if_pos h2] at h; cases h; exact extQ_enqInt_aux _ _ _ _
    · rw [if_neg h2] at h
      by_cases h3 : sp.delayMs > 0
      · rw [if_pos h3] at h
        split at h
        · cases h
        · cases h; exact extQ_enqInt_aux _ _ _ _
      · rw [if_neg h3] at h
        split at h
        · cases hr : routeSend w S sp.target (buildEvent S sp (sendId sp ctr).1) with
          | panic site => rw [hr] at h; cases h
          | done w1 ok =>
            rw [hr] at h
            cases ok with
            | true => cases h
            | false =>
              cases h
              have hd := C15_route_did w w1 S S' _ _ false hS hr
              cases hd with
              | err e _ => rw [extQ_enqInt_aux, extQ_enqInt_aux]
        · cases h; exact extQ_enqInt_aux _ _ _ _
#assert_axioms C15_failed_send_touches_no_external_queue

/-- P13 (finding of C14, recorded here because it shows in C15's runs): an invoked session `M`
(caller invoke id `m`) sends to a session `C` that is neither its invoker's… — in general to ANY
receiver whose own caller id differs from `m` and that has no child with invoke id `m`.  The
event IS enqueued on `C`'s external queue (C15 holds) and is then dropped by `C`'s dequeue
filter, unless its name starts with `done.invoke.`. -/
theorem C15_P13_enqueued_then_dropped (w : World δ) (M C C' : Session δ) (sp : SendSpec δ)
    (sid : Option Str) (m : Str)
    (hm : M.caller = some m) (hc : C.caller.getD [] ≠ m)
    (hch : (C.children.map Prod.fst).contains m = false)
    (hname : doneInvokePrefix.isPrefixOf sp.event = false)
    (hC : C.sid < 4294967296) (hl : lookup w C.sid = some C') (hd : C'.receiverDropped = false) :
    routeSend w M (location C.sid) (buildEvent M sp sid) =
        .done (enqExt w C.sid (stamp M.sid (buildEvent M sp sid))) true ∧
      accepts C (stamp M.sid (buildEvent M sp sid)) = false := by
  refine ⟨location_route_aux w M C.sid C' _ hC hl hd, ?_⟩
  unfold accepts
  simp only [stamp, buildEvent, hname, hm, Bool.false_eq_true, if_false]
  rw [if_pos hc]
  exact hch
#assert_axioms C15_P13_enqueued_then_dropped

/-- what does hold for the filter: events of a sender that was not itself invoked (host-started
session) pass every receiver's filter, and a child's events pass its parent's filter -/
theorem C15_filter_accepts_partial (S R : Session δ) (sp : SendSpec δ) (sid : Option Str) :
    (S.caller = none → accepts R (stamp S.sid (buildEvent S sp sid)) = true) ∧
    (∀ i, S.caller = some i → (R.children.map Prod.fst).contains i = true →
      accepts R (stamp S.sid (buildEvent S sp sid)) = true) := by
  constructor
  · intro h; simp [accepts, stamp, buildEvent, h]
  · intro i h hc
    simp only [accepts, stamp, buildEvent, h]
    split
    · rfl
    · split
      · exact hc
      · rfl
#assert_axioms C15_filter_accepts_partial

end

/-! ## concrete instances (non-vacuity), payload type `Nat` -/

private def mkS (sid : Nat) (parent : Option Nat) (caller : Option Str) (children : List (Str × Nat)) :
    Session Nat :=
  { sid := sid, parent := parent, caller := caller, children := children, receiverDropped := false,
    extQ := [], intQ := [] }
private def ev0 : Event Nat :=
  { name := [101], etype := .external, sendid := some [105], origin := none, originType := none,
    invokeId := none, params := some [([112], 7)], content := none }
-- parent 1 with child 2 (invoke id "c"), sibling 3
private def w0 : World Nat := [mkS 1 none none [([99], 2)], mkS 2 (some 1) (some [99]) [], mkS 3 none none []]

example : (w0.map (·.sid)).Nodup := by decide
example : lookup w0 1 = some (mkS 1 none none [([99], 2)]) := by decide
-- "#_c" reaches session 2's external queue, and nothing else changes
example : (match routeSend w0 (mkS 1 none none [([99], 2)]) [35, 95, 99] ev0 with
    | .done w' ok => (ok, w'.map (fun s => (s.sid, s.extQ.length, s.intQ.length)))
    | .panic _ => (false, [])) = (true, [(1, 0, 0), (2, 1, 0), (3, 0, 0)]) := by decide
-- "#_scxml_3", "#_scxml_+3", "#_scxml_003" all reach session 3 (Rust's parse::<u32>)
example : parseU32 [43, 51] = some 3 ∧ parseU32 [48, 48, 51] = some 3 ∧ parseU32 [45, 51] = none ∧
    parseU32 [43] = none ∧ parseU32 [] = none ∧ parseU32 [51, 32] = none ∧
    parseU32 [52, 50, 57, 52, 57, 54, 55, 50, 57, 54] = none ∧
    parseU32 [52, 50, 57, 52, 57, 54, 55, 50, 57, 53] = some 4294967295 := by decide
example : showNat 0 = [48] ∧ showNat 4711 = [52, 55, 49, 49] := by decide
-- reserved invoke ids
example : reservedInvokeId [112, 97, 114, 101, 110, 116] = true ∧ reservedInvokeId [99] = false := by decide
-- unknown session and malformed session id: error.communication; foreign scheme: error.execution
example : (match routeSend w0 (mkS 3 none none []) (pfxSession ++ [57]) ev0 with
    | .done w' ok => (ok, (lookup w' 3).map (fun s => s.intQ.map (·.name)))
    | .panic _ => (true, none)) = (false, some [errComm]) := by decide
example : (match routeSend w0 (mkS 3 none none []) (pfxSession ++ [120]) ev0 with
    | .done w' ok => (ok, (lookup w' 3).map (fun s => s.intQ.map (·.name)))
    | .panic _ => (true, none)) = (false, some [errComm]) := by decide
example : (match routeSend w0 (mkS 3 none none []) [120] ev0 with
    | .done w' ok => (ok, (lookup w' 3).map (fun s => s.intQ.map (·.name)))
    | .panic _ => (true, none)) = (false, some [errExec]) := by decide
-- a NON-atomic counter hands out the same id twice: atomicity of fetch_add is what (d) rests on
example : runRacy 1 [] [.load 0, .load 1, .store 0, .store 1] = [(0, 1), (1, 1)] := by decide
example : (runCounter 1 [0, 1, 0, 1]).1 = [(0, 1), (1, 2), (0, 3), (1, 4)] := by decide

end Rfsm.Route
