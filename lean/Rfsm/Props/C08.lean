import Rfsm.Audit
import Rfsm.Proofs.HistoryLemmas
import Rfsm.Model.Exec
/-!
# C08 — Executable content runs in document order with SCXML error semantics

Model: `Rfsm.Interp.execItem / execItems / execRegions / foreachLoop / execSend` (M-EXEC,
`src/executable_content.rs`) over an abstract data model `DMOps σ`, and `runContent` (how a block's
effects reach the session).  Theorems hold for every region table, every data model, every fuel.

Where the *code* raises `error.execution` and where it leaves that to the data model is part of
the model (see the header of `Rfsm/Model/Exec.lean`); the correspondence run on the real data
models (rfsm-expression, ECMAScript) shows which evaluation errors end up without an event —
those are recorded as known findings (P11), not proved away.
-/
namespace Rfsm.Interp
open Rfsm.Descriptor (Str)

variable {σ : Type}

/-- document order and abort scope: the elements of a block run left to right; the first element
    that fails ends the block — nothing after it runs — and the failure is reported upwards -/
theorem C08_order (ops : DMOps σ) (rs : Regions) (cfg : List Nat) (caller : Option Str) (f : Nat)
    (it : Item) (rest : List Item) (x : XS σ) :
    execItems ops rs cfg caller (f + 1) [] x = (x, true) ∧
    execItems ops rs cfg caller (f + 1) (it :: rest) x =
      (match execItem ops rs cfg caller f it x with
       | (x', true) => execItems ops rs cfg caller f rest x'
       | (x', false) => (x', false)) := by
  constructor
  · simp [execItems]
  · conv => lhs; unfold execItems
    rfl
#assert_axioms C08_order

/-- `<if>`: the condition is evaluated exactly once; an erroring condition (`none`) counts as
    false; the then-branch runs iff it is true, otherwise the else-branch (which, for
    `<elseif>`, is a region holding the next `<if>`) -/
theorem C08_if (ops : DMOps σ) (rs : Regions) (cfg : List Nat) (caller : Option Str) (f : Nat)
    (c : Str) (t e : Nat) (x : XS σ) :
    execItem ops rs cfg caller (f + 1) (.if_ c t e) x =
      (let r := ops.cond x.dm cfg c
       let x0 := x.absorb r
       let x' := if r.val.isNone then { x0 with raised := x0.raised ++ [errorExecution] } else x0
       if r.val.getD false then
         (if t != 0 then execItems ops rs cfg caller f (regionOf rs t) x' else (x', true))
       else if e != 0 then execItems ops rs cfg caller f (regionOf rs e) x'
       else (x', true)) := by
  conv => lhs; unfold execItem
#assert_axioms C08_if

/-- if / elseif / else built as nested regions executes exactly the first branch whose condition
    is true: here for two conditions (the reader's construction is by the same step) -/
theorem C08_if_elseif_else (ops : DMOps σ) (rs : Regions) (cfg : List Nat) (caller : Option Str) (f : Nat)
    (c1 c2 : Str) (t1 t2 e1 e2 : Nat) (x : XS σ)
    (he1 : e1 ≠ 0) (hr : regionOf rs e1 = [.if_ c2 t2 e2])
    (h1 : (ops.cond x.dm cfg c1).val = some false)
    (h2 : ((ops.cond (x.absorb (ops.cond x.dm cfg c1)).dm cfg c2).val).isSome = true) :
    execItem ops rs cfg caller (f + 3) (.if_ c1 t1 e1) x =
      (let x1 := x.absorb (ops.cond x.dm cfg c1)
       let r2 := ops.cond x1.dm cfg c2
       let x2 := x1.absorb r2
       if r2.val.getD false then
           (if t2 != 0 then execItems ops rs cfg caller f (regionOf rs t2) x2 else (x2, true))
         else if e2 != 0 then execItems ops rs cfg caller f (regionOf rs e2) x2
         else (x2, true)) := by
  rw [C08_if]
  simp only [h1, Option.isNone_some, Option.getD_some, Bool.false_eq_true, ↓reduceIte]
  have : (e1 != 0) = true := by simpa using he1
  simp only [this, ↓reduceIte, hr]
  conv => lhs; unfold execItems
  rw [C08_if]
  have hn : ((ops.cond (x.absorb (ops.cond x.dm cfg c1)).dm cfg c2).val).isNone = false := by
    cases hv : (ops.cond (x.absorb (ops.cond x.dm cfg c1)).dm cfg c2).val with
    | none => rw [hv] at h2; cases h2
    | some _ => rfl
  simp only [hn, Bool.false_eq_true, ↓reduceIte]
  generalize (if (ops.cond (x.absorb (ops.cond x.dm cfg c1)).dm cfg c2).val.getD false = true then _ else _) = r
  obtain ⟨x', b⟩ := r
  cases b <;> simp [execItems]
#assert_axioms C08_if_elseif_else

/-- `<foreach>`: items are visited in order; before each body run `item` is bound to the element and
    `index` to its position; a failing body stops the loop and the enclosing block -/
theorem C08_foreach (ops : DMOps σ) (rs : Regions) (cfg : List Nat) (caller : Option Str) (f : Nat)
    (item index : Str) (body : Nat) (v : Str) (vs : List Str) (i : Nat) (x : XS σ) :
    foreachLoop ops rs cfg caller (f + 1) item index body [] i x = (x, true) ∧
    foreachLoop ops rs cfg caller (f + 1) item index body (v :: vs) i x =
      (let x1 := { x with dm := ops.foreachBind x.dm item index i v }
       let r := if body != 0 then execItems ops rs cfg caller f (regionOf rs body) x1 else (x1, true)
       if r.2 then foreachLoop ops rs cfg caller f item index body vs (i + 1) r.1 else (r.1, false)) := by
  constructor
  · simp [foreachLoop]
  · conv => lhs; unfold foreachLoop
#assert_axioms C08_foreach

/-- `<raise>` appends one internal event with the given name and changes nothing else -/
theorem C08_raise (ops : DMOps σ) (rs : Regions) (cfg : List Nat) (caller : Option Str) (f : Nat)
    (e : Str) (x : XS σ) :
    execItem ops rs cfg caller (f + 1) (.raise e) x =
      ({ x with raised := x.raised ++ [{ name := e, etype := 1 }] }, true) := by
  conv => lhs; unfold execItem
#assert_axioms C08_raise

/-- `<assign>` changes the data only through the data model's `assign`; its verdict decides
    whether the block goes on -/
theorem C08_assign (ops : DMOps σ) (rs : Regions) (cfg : List Nat) (caller : Option Str) (f : Nat)
    (loc e : Str) (x : XS σ) :
    execItem ops rs cfg caller (f + 1) (.assign loc e) x =
      (x.absorb (ops.assign x.dm cfg loc e), (ops.assign x.dm cfg loc e).val) := by
  conv => lhs; unfold execItem
#assert_axioms C08_assign

/-- `<log>` and `<script>` evaluate their expression exactly once; an evaluation error ends the
    block and (since the `fix:` commit for P11) `Expression::execute` / `Log::execute` raise one
    `error.execution` themselves, behind whatever the data model raised -/
theorem C08_log_script (ops : DMOps σ) (rs : Regions) (cfg : List Nat) (caller : Option Str) (f : Nat)
    (label e : Str) (x : XS σ) :
    execItem ops rs cfg caller (f + 1) (.expr e) x =
      ((if (ops.exec x.dm cfg e).val.isNone
        then { (x.absorb (ops.exec x.dm cfg e)) with raised := (x.absorb (ops.exec x.dm cfg e)).raised ++ [errorExecution] }
        else x.absorb (ops.exec x.dm cfg e)), (ops.exec x.dm cfg e).val.isSome) ∧
    execItem ops rs cfg caller (f + 1) (.log label e) x =
      (match (ops.exec x.dm cfg e).val with
       | some msg => ((x.absorb (ops.exec x.dm cfg e)).absorb (ops.log (ops.exec x.dm cfg e).dm msg), true)
       | none => ({ (x.absorb (ops.exec x.dm cfg e)) with
                     raised := (x.absorb (ops.exec x.dm cfg e)).raised ++ [errorExecution] }, false)) := by
  constructor
  · conv => lhs; unfold execItem
  · conv => lhs; unfold execItem
    rfl
#assert_axioms C08_log_script

/-- what a block does to the session: its raised events are appended to the internal queue in the
    order raised, its self-sent events to the external queue; a failure inside the block is not
    propagated — the next block (of the same state, or of the next state) runs regardless -/
theorem C08_block_effects (env : Env σ) (s : Sess σ) (c1 c2 : Nat) (h1 : c1 ≠ 0) :
    (runContent env s c1).iq = s.iq ++ (env.exec s.dm s.cfg c1).raised ∧
    [c1, c2].foldl (runContent env) s = runContent env (runContent env s c1) c2 := by
  constructor
  · unfold runContent
    simp [h1, Sess.absorb, Sess.emit]
  · rfl
#assert_axioms C08_block_effects

/-- error clause, the part the code itself guarantees: a `<send>` with an illegal delay, a delay
    on `#_internal`, or an unsupported type places exactly one `error.execution` (carrying the send
    id) on the internal queue and fails -/
theorem C08_send_illegal_delay (ops : DMOps σ) (cfg : List Nat) (caller : Option Str) (p : SendP) (x : XS σ)
    (hp : p.targetExpr = [] ∧ p.eventExpr = [] ∧ p.idLocation = [] ∧ p.hasContent = false ∧
          p.params = [] ∧ p.nameList = [] ∧ p.delayExpr = [] ∧ p.typeExpr = [])
    (hd : p.delayMs > 0) (ht : p.target = targetInternal) :
    execSend ops cfg caller p x =
      ({ x with raised := x.raised ++ [errExec (if p.name.isEmpty then none else some p.name) caller] }, false) := by
  obtain ⟨h1, h2, h3, h4, h5, h6, h7, _⟩ := hp
  unfold execSend
  simp [altValue, h1, h2, h3, h4, h5, h6, h7, evalParams, nameListValues, ht]
  omega
#assert_axioms C08_send_illegal_delay

/-- error clause for `<if>` (since the `fix:` commit): an erroring condition raises exactly one
    `error.execution` beyond what the data model raises itself, counts as false, and the block goes on -/
theorem C08_if_cond_error (ops : DMOps σ) (rs : Regions) (cfg : List Nat) (caller : Option Str)
    (f : Nat) (c : Str) (x : XS σ) (herr : (ops.cond x.dm cfg c).val = none) :
    (execItem ops rs cfg caller (f + 1) (.if_ c 0 0) x).1.raised =
      x.raised ++ (ops.cond x.dm cfg c).raised ++ [errorExecution] ∧
    (execItem ops rs cfg caller (f + 1) (.if_ c 0 0) x).2 = true := by
  rw [C08_if]
  simp [herr, XS.absorb]
#assert_axioms C08_if_cond_error

/-- error clause for `<script>` and `<log>` (since the `fix:` commit for P11): the events on the
    queue after an erroring element are the old ones, what the data model raised itself, and ONE
    `error.execution` from the element; the block ends -/
theorem C08_script_error (ops : DMOps σ) (rs : Regions) (cfg : List Nat) (caller : Option Str)
    (f : Nat) (l e : Str) (x : XS σ) (herr : (ops.exec x.dm cfg e).val = none) :
    (execItem ops rs cfg caller (f + 1) (.expr e) x).1.raised =
      x.raised ++ (ops.exec x.dm cfg e).raised ++ [errorExecution] ∧
    (execItem ops rs cfg caller (f + 1) (.expr e) x).2 = false ∧
    (execItem ops rs cfg caller (f + 1) (.log l e) x).1.raised =
      x.raised ++ (ops.exec x.dm cfg e).raised ++ [errorExecution] ∧
    (execItem ops rs cfg caller (f + 1) (.log l e) x).2 = false := by
  rw [(C08_log_script ops rs cfg caller f l e x).1, (C08_log_script ops rs cfg caller f l e x).2]
  simp [herr, XS.absorb]
#assert_axioms C08_script_error

/-- the contract the code relies on (both real data models keep it; the oracle on the real data
    models checks it on every run): an evaluation that reports an error raises nothing itself -/
def QuietErrors (ops : DMOps σ) : Prop :=
  ∀ dm cfg e, (ops.exec dm cfg e).val = none → (ops.exec dm cfg e).raised = []

/-- C08 at full strength, error clause: *every* evaluation error of a `<script>` / `<log>` raises
    exactly one `error.execution` (the structural clauses are the theorems above) -/
def C08_full : Prop :=
  ∀ (σ : Type) (ops : DMOps σ) (rs : Regions) (cfg : List Nat) (caller : Option Str) (f : Nat) (l e : Str) (x : XS σ),
    QuietErrors ops → (ops.exec x.dm cfg e).val = none →
      (execItem ops rs cfg caller (f + 1) (.expr e) x).1.raised = x.raised ++ [errorExecution] ∧
      (execItem ops rs cfg caller (f + 1) (.log l e) x).1.raised = x.raised ++ [errorExecution]

theorem C08 : C08_full := by
  intro σ ops rs cfg caller f l e x hq herr
  have h := C08_script_error ops rs cfg caller f l e x herr
  rw [hq _ _ _ herr] at h
  exact ⟨by simpa using h.1, by simpa using h.2.2.1⟩
#assert_axioms C08

/-- without the contract the element's own event comes on top: a data model that raises inside
    `execute` AND reports the error gets two events -/
theorem C08_two_events_without_contract (ops : DMOps σ) (rs : Regions) (cfg : List Nat) (caller : Option Str)
    (f : Nat) (e : Str) (x : XS σ) (herr : (ops.exec x.dm cfg e).val = none)
    (hr : (ops.exec x.dm cfg e).raised = [errorExecution]) :
    (execItem ops rs cfg caller (f + 1) (.expr e) x).1.raised = x.raised ++ [errorExecution, errorExecution] := by
  rw [(C08_script_error ops rs cfg caller f [] e x herr).1, hr]
  simp
#assert_axioms C08_two_events_without_contract

/-- What holds (everything above): order, abort scope, if / elseif / else, foreach, raise, assign,
    log/script, block independence, and the error events `SendParameters::execute` raises itself. -/
theorem C08_partial (ops : DMOps σ) (rs : Regions) (cfg : List Nat) (caller : Option Str) (f : Nat)
    (it : Item) (rest : List Item) (x : XS σ) :
    execItems ops rs cfg caller (f + 1) (it :: rest) x =
      (match execItem ops rs cfg caller f it x with
       | (x', true) => execItems ops rs cfg caller f rest x'
       | (x', false) => (x', false)) :=
  (C08_order ops rs cfg caller f it rest x).2
#assert_axioms C08_partial

end Rfsm.Interp
