import Rfsm.Audit
import Rfsm.Proofs.TimerLemmas
import Rfsm.Proofs.DurationLemmas
/-!
# C16 — Delayed sends fire once, not early, in due-time order, unless cancelled

Model: `Rfsm.Timer` (`lean/Rfsm/Model/Timer.lean`).  A *schedule* is a list of `Op`s: the session
thread's `send` / `cancel` / `assign` / `terminate`, the passage of time `tick t`, `wake` (the
timer thread runs and pops everything that is due — possibly much later than the first due time)
and `stop` (the `Stop` message that the dropped `timer::Timer` sent reaches the scheduler thread;
since the repair of P19 it no longer matters when: `terminate` itself drops every guard).
"For all schedules" is a universal quantifier over `List (Op δ ε)`; the datamodel `δ` and the
event type `ε` are arbitrary types, `mk : δ → ε` is everything a `<send>` evaluates.

Time in the model is the logical clock of one session; the theorems do not depend on the timer
thread waking up promptly.  What is trusted about the crate `timer` is listed in the model's header.
-/
namespace Rfsm.Timer

variable {δ ε : Type}

/-- states reachable from a fresh session (any distance to chrono's last date, any datamodel) -/
def Reachable (t : Timer δ ε) : Prop :=
  ∃ (hr : Nat) (d : δ) (ops : List (Op δ ε)), t = (Timer.initFull hr d).run ops

theorem Reachable.wf {t : Timer δ ε} (h : Reachable t) : WF t := by
  obtain ⟨hr, d, ops, rfl⟩ := h
  exact (WF.initFull hr d).run ops
#assert_axioms Reachable.wf

theorem Reachable.run {t : Timer δ ε} (h : Reachable t) (ops : List (Op δ ε)) : Reachable (t.run ops) := by
  obtain ⟨hr, d, ops0, rfl⟩ := h
  refine ⟨hr, d, ops0 ++ ops, ?_⟩
  have : ∀ (u : Timer δ ε) (a b : List (Op δ ε)), (u.run a).run b = u.run (a ++ b) := by
    intro u a b
    induction a generalizing u with
    | nil => rfl
    | cons o a ih => exact ih (u.step o)
  exact this _ _ _
#assert_axioms Reachable.run

/-! ## The clauses of the property -/

/-- the `<send>` is carried out: the session is running, the delay is not negative, a delayed
send does not target `#_internal` (otherwise `SendParameters::execute` aborts with error.execution),
and `now + delay` is a date `chrono` can represent (otherwise, too, error.execution) -/
def Accepted (t : Timer δ ε) (tg : Str) (delay : Int) : Prop :=
  t.alive = true ∧ 0 ≤ delay ∧ ¬ (0 < delay ∧ tg = internalTarget) ∧ delay.toNat ≤ t.headroom

/-- (e)+(a), parametrised by the side condition on the payload.  A `<send>` executed in state `t`:
whatever happens afterwards (any schedule, in particular any later `assign`), the receiver of a
delivery of *that* send reads the event value built from the data at the time of the send; the
delivery goes to the target evaluated then, and happens no earlier than `delay` after the send.
A send that is not carried out schedules and delivers nothing. -/
def ClauseValueNotEarly (side : ∀ (δ ε : Type), Timer δ ε → (δ → ε) → Prop) : Prop :=
  ∀ (δ ε : Type) (t : Timer δ ε), Reachable t →
  ∀ (id : Option SendId) (tg : Str) (delay : Int) (mk : δ → ε),
  (Accepted t tg delay → side δ ε t mk →
    ∀ (ops : List (Op δ ε)), ∀ d ∈ ((t.send id tg delay mk).run ops).log, d.entry.seq = t.nextSeq →
      d.seen = mk t.data ∧ d.entry.event = mk t.data ∧ d.entry.target = tg ∧ d.entry.sendid = id ∧
      (t.now : Int) + delay ≤ d.time) ∧
  (¬ Accepted t tg delay →
    (t.send id tg delay mk).pending = t.pending ∧ (t.send id tg delay mk).log = t.log ∧
    (t.send id tg delay mk).nextSeq = t.nextSeq)

/-- (a) deliveries by the timer are in (due, order-of-send) order; in particular of two delayed
events the one due earlier is delivered first -/
def ClauseOrdered : Prop :=
  ∀ (δ ε : Type) (t : Timer δ ε), Reachable t →
    (t.log.filter (·.viaTimer)).Pairwise (fun a b => Entry.lt a.entry b.entry)

/-- (b) at most once: no two deliveries stem from the same send -/
def ClauseAtMostOnce : Prop :=
  ∀ (δ ε : Type) (t : Timer δ ε), Reachable t →
    t.log.Pairwise (fun a b => a.entry.seq ≠ b.entry.seq)

/-- (b) exactly once, parametrised by the side condition on the schedule: a pending entry `e` is
delivered — exactly once — by the first `wake` at or after its due time, provided no operation in
between cancels it (`<cancel>` with its id), and the session does not terminate (no `terminate`,
no `stop`).
`side t e ops` is the extra assumption about `<send>`s in `ops`. -/
def ClauseExactlyOnce (side : ∀ (δ ε : Type), Timer δ ε → Entry ε → List (Op δ ε) → Prop) : Prop :=
  ∀ (δ ε : Type) (t : Timer δ ε), Reachable t →
  ∀ e ∈ t.pending, ∀ (ops : List (Op δ ε)),
    (∀ op ∈ ops, ∀ id, op = .cancel id → e.sendid ≠ some id) →
    (∀ op ∈ ops, op ≠ .terminate ∧ op ≠ .stop) →
    side δ ε t e ops →
    e.due ≤ (t.run ops).now →
    (((t.run ops).wake.log.filter (fun d => d.entry.seq = e.seq)).length = 1 ∧
     ∃ d ∈ (t.run ops).wake.log, d.entry = e ∧ d.viaTimer = true)

/-- (c) `<cancel sendid=id>`: exactly the pending entries sent with `id` disappear (ALL of them, if
several sends with that id are pending), nothing is delivered, every other entry stays, exactly the
guards registered under other ids (or under none) stay; the cancelled entries are never delivered later. -/
def ClauseCancel : Prop :=
  ∀ (δ ε : Type) (t : Timer δ ε), Reachable t → t.alive = true → ∀ (id : SendId),
    (t.cancel id).pending = t.pending.filter (fun e => e.sendid ≠ some id) ∧
    (t.cancel id).log = t.log ∧
    (t.cancel id).delayed = t.delayed.filter (fun p => p.1 ≠ some id) ∧
    ∀ (ops : List (Op δ ε)), ∀ e ∈ t.pending, e.sendid = some id →
      ∀ d ∈ ((t.cancel id).run ops).log, d.entry.seq ≠ e.seq

/-- (c) another session is not affected by anything a session does -/
def ClauseOtherSession : Prop :=
  ∀ (δ ε : Type) (w : World δ ε) (op : Op δ ε),
    (w.step .A op).b = w.b ∧ (w.step .B op).a = w.a

/-- (d) as the property states it: a terminated session delivers nothing any more -/
def ClauseTerminate : Prop :=
  ∀ (δ ε : Type) (t : Timer δ ε), Reachable t → ∀ (ops : List (Op δ ε)),
    (t.terminate.run ops).log = t.log

/-- (d) for ANY state (reachable or not): nothing is delivered once the timer's scheduler thread has
processed the `Stop` message that the dropped `Fsm.timer` sent. -/
def ClauseTerminateStop : Prop :=
  ∀ (δ ε : Type) (t : Timer δ ε) (ops : List (Op δ ε)),
    (t.terminate.stop.run ops).log = t.log ∧ (t.terminate.stop.run ops).pending = []

/-- (f) duration syntax: on every text of `\d*(\.\d+)?(ms|s|m|h|d)` (recognised by the independent
`css2`) the result is the grammar's value (saturated at `i64::MAX`), provided an integer literal
fits `i64`; strings that do not start with a number, and unknown units, give the abort value −1. -/
def ClauseDuration : Prop :=
  (∀ (s : Str) (v : Nat), css2 s = some v →
      (∀ ip u, s = css2Text ip [] u → allDigits ip = true → digitsVal ip ≤ i64Max) →
      parseDuration s = ((min v i64Max : Nat) : Int)) ∧
  (∀ (c : Nat) (r : Str), isDigit c = false → c ≠ 45 → c ≠ 43 → c ≠ 46 → isWs c = false →
      parseDuration (c :: r) = -1)

/-- The property at full strength. -/
def C16_full : Prop :=
  ClauseValueNotEarly (fun _ _ _ _ => True) ∧ ClauseOrdered ∧ ClauseAtMostOnce ∧
  ClauseExactlyOnce (fun _ _ _ _ _ => True) ∧
  ClauseCancel ∧ ClauseOtherSession ∧ ClauseTerminate ∧ ClauseDuration

/-! ## Proofs -/

theorem C16_value_not_early : ClauseValueNotEarly (fun _ _ _ _ => True) := by
  intro δ ε t hr id tg delay mk
  have hB : ¬ Accepted t tg delay →
      (t.send id tg delay mk).pending = t.pending ∧ (t.send id tg delay mk).log = t.log ∧
      (t.send id tg delay mk).nextSeq = t.nextSeq := by
    intro hna
    unfold Accepted at hna
    unfold Timer.send
    split
    · exact ⟨rfl, rfl, rfl⟩
    split
    · exact ⟨rfl, rfl, rfl⟩
    split
    · exact ⟨rfl, rfl, rfl⟩
    split
    · exact ⟨rfl, rfl, rfl⟩
    rename_i h1 h2 h3 h4
    exfalso
    apply hna
    refine ⟨by simpa using h1, by omega, h3, by omega⟩
  refine ⟨?_, hB⟩
  intro hacc _ ops d hd hseq
  obtain ⟨halive, hnn, hni, hhead⟩ := hacc
  have hw := hr.wf
  -- the state right after the send
  have hfr := Frame.run (t.send id tg delay mk) ops
  have hwf' := (hw.send id tg delay mk).run ops
  -- what the receiver reads is the captured event (its containers are copies)
  have hseen : d.entry.event = mk t.data → d.seen = mk t.data := by
    intro hev
    rw [hwf'.lseen d hd, hev]
  have htime := hwf'.ltime d hd
  -- what the send itself produced
  have key : (d ∈ (t.send id tg delay mk).log ∨
      (d.entry ∈ (t.send id tg delay mk).pending ∧ d.viaTimer = true) ∨
      (t.send id tg delay mk).nextSeq ≤ d.entry.seq) := hfr.log d hd
  unfold Timer.send at key
  rw [if_neg (by simp [halive]), if_neg (by omega), if_neg hni, if_neg (by omega)] at key
  simp only at key
  split at key
  · -- delay = 0
    rename_i hz
    rcases key with k | ⟨k, _⟩ | k
    · rcases List.mem_append.1 k with k | k
      · have := hw.lseq d k; omega
      · simp only [List.mem_singleton] at k
        subst k
        have h1 := htime.1
        simp only at h1
        exact ⟨hseen rfl, rfl, rfl, rfl, by simp only; omega⟩
    · have := hw.pseq _ k; omega
    · simp only at k; omega
  · rename_i hz
    have hmem : ∀ x, x ∈ insertEntry (⟨t.now + delay.toNat, t.nextSeq, id, tg, mk t.data⟩ : Entry ε) t.pending →
        x.seq = t.nextSeq → x = ⟨t.now + delay.toNat, t.nextSeq, id, tg, mk t.data⟩ := by
      intro x hx hxs
      rcases mem_insertEntry.1 hx with rfl | hx
      · rfl
      · have := hw.pseq x hx; omega
    have fin : d.entry = (⟨t.now + delay.toNat, t.nextSeq, id, tg, mk t.data⟩ : Entry ε) →
        d.seen = mk t.data ∧ d.entry.event = mk t.data ∧ d.entry.target = tg ∧ d.entry.sendid = id ∧
        (t.now : Int) + delay ≤ d.time := by
      intro he
      have h1 := htime.1
      have hs := hseen (by rw [he])
      rw [he] at h1 ⊢
      exact ⟨hs, rfl, rfl, rfl, by simp only at h1 ⊢; omega⟩
    rcases key with k | ⟨k, _⟩ | k
    · have := hw.lseq d k; omega
    · exact fin (hmem _ k hseq)
    · simp only at k; omega
#assert_axioms C16_value_not_early

/-- (a) in its plain form: every delivery happens at or after its due time -/
theorem C16_not_early (t : Timer δ ε) (h : Reachable t) : ∀ d ∈ t.log, d.entry.due ≤ d.time :=
  fun d hd => (h.wf.ltime d hd).1
#assert_axioms C16_not_early

theorem C16_ordered : ClauseOrdered := by
  intro δ ε t hr
  have h := hr.wf.lsorted.filter (fun d => d.viaTimer)
  refine List.Pairwise.imp_of_mem ?_ h
  intro a b ha hb hab
  exact hab (List.mem_filter.1 ha).2 (List.mem_filter.1 hb).2
#assert_axioms C16_ordered

/-- of two timer deliveries the one with the strictly earlier due time comes first in the log -/
theorem C16_due_earlier_first (t : Timer δ ε) (h : Reachable t) (l1 l2 : List (Delivery ε))
    (a b : Delivery ε) (hl : t.log.filter (·.viaTimer) = l1 ++ a :: l2) (hb : b ∈ l2) :
    a.entry.due ≤ b.entry.due := by
  have hs := C16_ordered δ ε t h
  rw [hl] at hs
  have := (List.pairwise_cons.1 (List.pairwise_append.1 hs).2.1).1 b hb
  unfold Entry.lt at this; omega
#assert_axioms C16_due_earlier_first

theorem C16_at_most_once : ClauseAtMostOnce := fun _ _ _ hr => hr.wf.lnodup
#assert_axioms C16_at_most_once

/-- (b) exactly once, with no side condition: later `<send>`s — with whatever id — do not touch the
guard of a pending entry -/
theorem C16_exactly_once : ClauseExactlyOnce (fun _ _ _ _ _ => True) := by
  intro δ ε t hr e he ops hc hterm _ hdue
  refine exactly_once_of_safe_aux t hr.wf e ops ?_ hdue
  exact keep_run hr.wf he ops (fun op hop => Safe.of_no_cancel (hc op hop) (hterm op hop))
#assert_axioms C16_exactly_once

theorem C16_cancel : ClauseCancel := by
  intro δ ε t hr halive id
  have hw := hr.wf
  have hpl : (t.cancel id).pending = t.pending.filter (fun e => e.sendid ≠ some id) ∧
      (t.cancel id).log = t.log := by
    unfold Timer.cancel
    rw [if_neg (by simp [halive])]
    refine ⟨?_, rfl⟩
    simp only
    apply List.filter_congr
    intro e he
    by_cases hs : e.sendid = some id
    · have hm : (some id, e.seq) ∈ t.delayed := by rw [← hs]; exact hw.own e he
      simp [hs, hasGuard_iff.2 hm]
    · have hg : hasGuard t.delayed (some id) e.seq = false := by
        rw [hasGuard_false_iff]
        intro hm
        exact hs (hw.gid _ hm e he rfl)
      simp [hs, hg]
  have hother : (t.cancel id).delayed = t.delayed.filter (fun p => p.1 ≠ some id) := by
    unfold Timer.cancel
    rw [if_neg (by simp [halive])]
  refine ⟨hpl.1, hpl.2, hother, ?_⟩
  intro ops e he hs d hd hseq
  have hfr := (Frame.run (t.cancel id) ops).log d hd
  rcases hfr with k | ⟨k, _⟩ | k
  · rw [hpl.2] at k
    exact hw.ldisj d k e he hseq
  · rw [hpl.1] at k
    have hk := List.mem_filter.1 k
    have : d.entry = e := eq_of_seq_eq_aux t.pending hw.pnodup hk.1 he hseq
    rw [this] at hk
    simp [hs] at hk
  · have hn : (t.cancel id).nextSeq = t.nextSeq := by
      unfold Timer.cancel; split <;> rfl
    rw [hn] at k
    have := hw.pseq e he
    omega
#assert_axioms C16_cancel

theorem C16_other_session : ClauseOtherSession := fun _ _ _ _ => ⟨rfl, rfl⟩
#assert_axioms C16_other_session

/-- (d) as stated: the end of the session thread drops every guard, and every pending entry has one -/
theorem C16_terminate : ClauseTerminate := by
  intro δ ε t hr ops
  exact (dead_run_aux t.terminate rfl (terminate_pending hr.wf) ops).1
#assert_axioms C16_terminate

/-- after termination nothing is pending either, whatever happens later -/
theorem C16_terminate_nothing_pending (t : Timer δ ε) (hr : Reachable t) (ops : List (Op δ ε)) :
    (t.terminate.run ops).pending = [] :=
  (dead_run_aux t.terminate rfl (terminate_pending hr.wf) ops).2
#assert_axioms C16_terminate_nothing_pending

theorem C16_terminate_stop : ClauseTerminateStop := by
  intro δ ε t ops
  have h : t.terminate.stop.alive = false ∧ t.terminate.stop.pending = [] ∧ t.terminate.stop.log = t.log := by
    simp [Timer.stop, Timer.terminate]
  have := dead_run_aux t.terminate.stop h.1 h.2.1 ops
  exact ⟨this.1.trans h.2.2, this.2⟩
#assert_axioms C16_terminate_stop

theorem C16_duration : ClauseDuration := by
  constructor
  · intro s v hs hrange
    obtain ⟨ip, fp, u, m, rfl, hip, hfp, hne, hu, rfl⟩ := css2_some s v hs
    rw [parseDuration_css2Text ip fp u m hip hfp hne hu]
    by_cases hc : fp = [] ∧ i64Max < digitsVal ip
    · have := hrange ip u (by rw [hc.1]) hip
      omega
    · rw [if_neg hc]
  · intro c r hd h45 h43 h46 hws
    unfold parseDuration
    rw [if_neg (by simp)]
    have : nextToken (c :: r) = (if isStop c then ⟨.other, r⟩ else readIdent [c] r) := by
      unfold nextToken
      rw [eatSpace_of_not_ws c r hws]
      simp only
      rw [if_neg (by simp [hd, h45, h43, h46])]
    rw [this]
    by_cases hst : isStop c = true
    · simp [hst]
    · simp only [hst]
      -- an identifier (or keyword) token: never a number
      split
      · rename_i n rest heq
        have h2 : ∀ (buf rest' : Str) (n : Num), (readIdent buf rest').tok ≠ .number n := by
          intro buf rest' n
          induction rest' generalizing buf with
          | nil => unfold readIdent identOf; split <;> simp
          | cons x xs ih =>
            unfold readIdent
            split
            · unfold identOf; split <;> simp
            · exact ih _
        exact absurd (congrArg Lexed.tok heq) (h2 _ _ n)
      · rfl
#assert_axioms C16_duration

/-- every text of the CSS2 language, constructively: all digit lists, all five units -/
theorem C16_duration_all_digit_lists (ip fp u : Str) (m : Nat) (hip : allDigits ip = true)
    (hfp : allDigits fp = true) (hne : ip ≠ [] ∨ fp ≠ []) (hu : (u, m) ∈ css2Units) :
    css2 (css2Text ip fp u) = some (css2Value ip fp m) ∧
    parseDuration (css2Text ip fp u) =
      if fp = [] ∧ i64Max < digitsVal ip then -1 else ((min (css2Value ip fp m) i64Max : Nat) : Int) :=
  ⟨css2_css2Text ip fp u m hip hfp hne hu, parseDuration_css2Text ip fp u m hip hfp hne hu⟩
#assert_axioms C16_duration_all_digit_lists

/-- a number followed by a word of letters that is neither a unit (in the accepted spellings) nor a
keyword and does not start with `e`/`E`: the abort value, for all digit lists and all such words
(`1Sx`, `1sec`, `1mS`, `2.5min`, …) -/
theorem C16_duration_unknown_unit (ip fp : Str) (c : Nat) (r : Str) (hip : allDigits ip = true)
    (hfp : allDigits fp = true) (hne : ip ≠ [] ∨ fp ≠ []) (hu : ∀ x ∈ c :: r, isLetter x)
    (he : c ≠ 69 ∧ c ≠ 101) (hunit : unitMult (c :: r) = none)
    (hkw : c :: r ≠ kwTrue ∧ c :: r ≠ kwFalse ∧ c :: r ≠ kwNull)
    (hrange : fp ≠ [] ∨ digitsVal ip ≤ i64Max) :
    parseDuration (css2Text ip fp (c :: r)) = -1 :=
  parseDuration_unknown_unit ip fp c r hip hfp hne hu he hunit hkw hrange
#assert_axioms C16_duration_unknown_unit

/-! ## The verdict on the repaired code: the property holds as stated -/

theorem C16 : C16_full :=
  ⟨C16_value_not_early, C16_ordered, C16_at_most_once, C16_exactly_once,
   C16_cancel, C16_other_session, C16_terminate, C16_duration⟩
#assert_axioms C16

/-! ## Regression: the schedules that refuted the property before the repairs -/

/-- P15 (repaired): two pending sends with the SAME send id — both are delivered, each at its time. -/
def p15Script : List (Op Nat Nat) :=
  [.send (some [88]) [] 100 (fun _ => 1), .send (some [88]) [] 200 (fun _ => 2), .tick 150, .wake, .tick 300, .wake]

theorem C16_regression_duplicate_sendid :
    (((Timer.init 0 : Timer Nat Nat).run p15Script).log.map (fun d => (d.entry.event, d.time))) = [(1, 150), (2, 300)] := by
  decide
#assert_axioms C16_regression_duplicate_sendid

/-- … and `<cancel>` of that id cancels both. -/
theorem C16_regression_cancel_all_with_id :
    ((Timer.init 0 : Timer Nat Nat).run
      [.send (some [88]) [] 100 (fun _ => 1), .send (some [88]) [] 200 (fun _ => 2), .send none [] 200 (fun _ => 3),
       .cancel [88], .tick 300, .wake]).log.map (fun d => d.entry.event) = [3] := by
  decide
#assert_axioms C16_regression_cancel_all_with_id

/-- P19 (repaired): a send due at 100, the session thread ends at 50, the timer thread wakes at 100
before it has seen `Stop` — nothing is delivered, with or without id. -/
def stopLatencyScript : List (Op Nat Nat) := [.tick 50, .terminate, .tick 100, .wake, .stop]

theorem C16_regression_stop_latency :
    ((Timer.init 0 : Timer Nat Nat).run
      ([.send none [] 100 (fun _ => 1), .send (some [65]) [] 100 (fun _ => 2)] ++ stopLatencyScript)).log = [] := by
  decide
#assert_axioms C16_regression_stop_latency

/-- P18 (repaired): a payload is read as it was built, whatever is assigned afterwards. -/
theorem C16_regression_payload_is_a_copy :
    ((Timer.init 1 : Timer Nat (Bool × Nat)).run
      [.send none [] 200 (fun x => (true, x)), .assign (fun _ => 99), .tick 200, .wake]).log.map (fun d => d.seen)
      = [(true, 1)] := by
  decide
#assert_axioms C16_regression_payload_is_a_copy

/-- C12-huge-delay (repaired): a delay beyond chrono's date range is an illegal delay — error.execution,
nothing scheduled, the session goes on. -/
theorem C16_regression_huge_delay :
    let t := (Timer.init 0 : Timer Nat Nat).run
      [.send none [] 100 (fun _ => 1), .send none [] 9223372036854775807 (fun _ => 2), .send none [] 0 (fun _ => 3),
       .tick 200, .wake]
    t.errors = 1 ∧ t.alive = true ∧ t.log.map (fun d => d.entry.event) = [3, 1] := by
  decide
#assert_axioms C16_regression_huge_delay

/-! ## Non-vacuity: the hypotheses are satisfiable, the operations do something -/

-- two sends with different ids, a data change in between, an unrelated cancel: both are delivered,
-- in due order, each with the value of the data when it was sent
example : ((Timer.init 5 : Timer Nat Nat).run
    [.send (some [65]) [] 200 (fun x => x), .assign (fun _ => 9), .send (some [66]) [] 100 (fun x => x),
     .cancel [67], .tick 150, .wake, .tick 250, .wake]).log.map (fun d => (d.entry.event, d.entry.due, d.time))
    = [(9, 100, 150), (5, 200, 250)] := by decide
-- cancel before the due time prevents delivery; after the due time it is too late
example : ((Timer.init 0 : Timer Nat Nat).run
    [.send (some [65]) [] 100 (fun _ => 1), .tick 50, .cancel [65], .tick 150, .wake]).log.length = 0 := by decide
example : ((Timer.init 0 : Timer Nat Nat).run
    [.send (some [65]) [] 100 (fun _ => 1), .tick 150, .wake, .cancel [65]]).log.length = 1 := by decide
-- termination discards at once; what was due before is delivered
example : ((Timer.init 0 : Timer Nat Nat).run
    [.send none [] 100 (fun _ => 1), .tick 50, .terminate, .tick 150, .wake]).log.length = 0 := by decide
example : ((Timer.init 0 : Timer Nat Nat).run
    [.send none [] 100 (fun _ => 1), .tick 120, .wake, .terminate, .tick 150, .wake]).log.length = 1 := by decide
-- a late timer thread: still due order, still not early
example : ((Timer.init 0 : Timer Nat Nat).run
    [.send none [] 100 (fun _ => 1), .tick 120, .send none [] 10 (fun _ => 2), .tick 500, .wake]).log.map
      (fun d => (d.entry.event, d.time)) = [(1, 500), (2, 500)] := by decide
-- durations ("6.7s", ".5s", "1Sx", "x1S", "5", "1.5.5s")
example : parseDuration [54, 46, 55, 115] = 6700 := by decide
example : parseDuration [46, 53, 115] = 500 := by decide
example : parseDuration [49, 83, 120] = -1 := by decide
example : parseDuration [120, 49, 83] = -1 := by decide
example : parseDuration [53] = 0 := by decide
example : parseDuration [49, 46, 53, 46, 53, 115] = 0 := by decide
example : css2 [54, 46, 55, 115] = some 6700 := by decide

end Rfsm.Timer
