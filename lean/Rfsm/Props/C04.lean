import Rfsm.Audit
import Rfsm.Model.ReaderSpec
import Rfsm.Proofs.ReaderTop
import Rfsm.Proofs.ReaderStatesSim
import Rfsm.Proofs.ReaderKids
/-!
# C04 — The XML reader builds a model that mirrors the SCXML document

Model: `Rfsm.Reader` (`Model/Reader.lean`: the reader's state machine over SAX events;
`Model/ReaderDoc.lean`: document trees, `sax`, `normalise`, `decompile`; `Model/ReaderSpec.lean`:
`saxSrc`, `wfDoc`, lexical respellings).  Descriptor laws ((a) of the design: `e`, `e.`, `e.*`) are
`C19_trailing_dot`, `C19_trailing_dot_star`, `C19_norm_idem`, `C19_equivalent_spellings` in
`Props/C19.lean`; `normalise` uses the same `Rfsm.Descriptor.norm`.
-/
namespace Rfsm.Reader
open Rfsm.Descriptor (Str)

/-- read a SAX list and rebuild the document from the tables -/
def readDoc (es : List Sax) : Option Doc :=
  match read es with
  | .ok f => decompile f
  | .error _ => none

/-- The property at full strength, for the canonical source text of every well-formed document and
its respellings: (1) the tables decompile to the normal form of the document, (2) a namespace prefix
on every element and (3) writing empty elements as start/end pairs do not change the result.
(White space, comments, quoting, attribute escapes, XInclude are below the SAX level: quick-xml, tied
by the metamorphic part of the correspondence check only.) -/
def C04_full : Prop :=
  ∀ d : Doc, wfDoc d = true →
    readDoc (saxSrc d) = some (normalise d) ∧
    (∀ p : Str, noWs p = true → p.all (· ≠ 58) → readDoc (addPrefix p (saxSrc d)) = readDoc (saxSrc d)) ∧
    readDoc (pairForm (saxSrc d)) = readDoc (saxSrc d)

/-! ## (b) the region stack: if / elseif / else / foreach with arbitrarily nested bodies -/

/-- **Region-stack theorem.**  From every reader state that is inside an executable-content region
(`Ready σ es`: current region holds `es`) the SAX events of any block `b` whose leaves are read as
single entries (`OkB`) run without panic, change nothing but the region table and the id / source
counters (`σ.upd`), restore the element stack and the region stack, append entries `new` to the
current region, leave every other existing region alone and allocate exactly the ids
`[σ.nextId, n')`; the appended entries decompile to the normal form of `b` (elseif chains as nested
ifs) in every table that agrees on the new ids, with any fuel ≥ the number of new regions. -/
theorem C04_region_stack (b : Block) (σ : RS) (es : List Exec) (hR : Ready σ es) (hok : OkB b) :
    ∃ g' n' s' new, run (saxB b) σ = .ok (σ.upd g' n' s') ∧ Post σ es new g' n' ∧
      ∀ gg fuel, Agree gg g' σ.nextId n' → n' - σ.nextId ≤ fuel →
        mapO (dEntry (dBlock fuel gg)) new = some (normB b) :=
  content_block b σ es hR hok
#assert_axioms C04_region_stack

/-- **(b) for whole documents.**  For every block `b` of supported content (arbitrarily nested
if / elseif* / else? / foreach, raise, assign, log with expr, script, cancel; child text without
`&` / `<`, see `C04_child_text_roundtrip` for escaped text), reading
`<scxml><state id="s"><onentry>` followed by the SAX events of `b` succeeds and region 1 (the
`<onentry>` block) decompiles — with the fuel `decompile` uses — to the normal form of `b`:
`denote (readContent (saxOf b)) = normalise b`. -/
theorem C04_content (b : Block) (h : supported.supportedB b = true) :
    ∃ σ', run (preOnentry ++ saxB b) {} = .ok σ' ∧
      dBlock (regionFuel σ'.fsm) σ'.fsm.regions 1 = some (normB b) := by
  obtain ⟨h1, h2, h3, h4, h5, h6⟩ := σ0_facts_aux
  obtain ⟨g', n', s', new, hrun, hP, hD⟩ := C04_region_stack b σ0 [] σ0_ready_aux (okB_of_supported b h)
  refine ⟨σ0.upd g' n' s', by rw [run_append, σ0_run_aux]; exact hrun, ?_⟩
  have hreg : rget g' 1 = some new := by have := hP.reg; rw [h3] at this; simpa using this
  have hle : 2 ≤ n' := by have := hP.le; rwa [h4] at this
  have hfuel : n' - 2 ≤ maxKey g' + 1 := by
    by_cases hn : n' = 2
    · omega
    · have := le_maxKey_aux (hP.alloc (n' - 1) (by rw [h4]; omega) (by omega))
      omega
  have := hD g' (maxKey g' + 1) (fun _ _ _ => rfl) (by rw [h4]; exact hfuel)
  show dBlock (maxKey g' + 1 + 1) g' 1 = some (normB b)
  rw [dBlock, hreg]
  exact this
#assert_axioms C04_content

/-! ## (c) state nesting and document order, independent of forward references -/

/-- **Declaration theorem.**  `get_or_create_state_with_attributes` on the view of the state table:
the declared state gets the doc id of the declaration and the declaring state as parent — whether
its name had been referenced before (forward reference: the entry exists already, with a smaller
id) or not — and no other state loses its name, id, parent or doc id. -/
theorem C04_declaration (vs : List V) (h : IdsOk vs) (n : Str) (p d : Nat) (hp : p ≠ 0) :
    Ext [n] vs (vdecl vs n p d).2 ∧
    ∃ v, vfind (vdecl vs n p d).2 n = some (vdecl vs n p d).1 ∧
      vget (vdecl vs n p d).2 (vdecl vs n p d).1 = some v ∧ v.name = n ∧ v.parent = p ∧ v.docId = d := by
  obtain ⟨h1, _, h3⟩ := vdecl_spec h n p d hp
  exact ⟨h1, h3⟩
#assert_axioms C04_declaration

/-- **State nesting and document order.**  For every forest of states with pairwise distinct ids,
whatever their transitions refer to (states declared later, earlier, or never), reading
`<scxml>` followed by the forest succeeds, and in the resulting table every state of the forest
(`GoodF`) has as `parent` the state it is nested in (the `<scxml>` pseudo root, id 1, for the
top-level ones) and as `doc_id` the number of its position in the document (`<scxml>` = 1, then
one id per `<state>` and per `<transition>` in SAX order), so document order is pre-order and does
not depend on the order in which state ids were allocated. -/
theorem C04_state_nesting (ts : List ST) (hnd : (namesF ts).Nodup) :
    ∃ σ', run ([.start t_scxml []] ++ saxSF ts) {} = .ok σ' ∧ GoodF (view σ'.fsm) ts 1 2 ∧
      σ'.nextDoc = 2 + sizeF ts := by
  obtain ⟨hrun, hraw, htag, hcur, hnid, hdoc, hview⟩ := σscxml_facts_aux
  have hok : IdsOk (view σscxml.fsm) := by
    rw [hview]
    intro k v hk
    cases k with
    | zero => simp at hk; subst hk; rfl
    | succ k => simp at hk
  have hSR : SR σscxml 1 :=
    ⟨hraw, Or.inl htag, hcur, by decide, hok, by rw [hview]; decide, by rw [hnid]; decide⟩
  obtain ⟨σ', hs, _, _, _, _, hv, hd⟩ := simF ts σscxml 1 hSR hnd
  obtain ⟨_, hg⟩ := amF_spec ts 1 (view σscxml.fsm) σscxml.nextDoc hok (by decide) hnd
  refine ⟨σ', by rw [run_append, hrun]; exact hs, ?_, by rw [hd, hdoc]⟩
  rw [hv, hdoc] at *
  exact hg
#assert_axioms C04_state_nesting

/-- **Children lists.**  Same setting (any forest of states with distinct ids, none of them the
generated name `__id1` of the `<scxml>` element, arbitrary references): in the table the reader
builds, the `states` list of the `<scxml>` pseudo root is the list of the ids of the top-level
states and (`KidsF`) the `states` list of every state of the forest is the list of the ids of its
child states, in document order — although ids are allocated in order of first reference. -/
theorem C04_state_children (ts : List ST) (hnd : (namesF ts).Nodup)
    (hroot : [95, 95, 105, 100, 49] ∉ namesF ts) :
    ∃ σ' root, run ([.start t_scxml []] ++ saxSF ts) {} = .ok σ' ∧ vget (view σ'.fsm) 1 = some root ∧
      root.kids = ts.map (fun t => idOf (view σ'.fsm) t.name) ∧ KidsF (view σ'.fsm) [1] ts := by
  obtain ⟨hrun, hraw, htag, hcur, hnid, hdoc, hview⟩ := σscxml_facts_aux
  have hok : IdsOk (view σscxml.fsm) := by
    rw [hview]
    intro k v hk
    cases k with
    | zero => simp at hk; subst hk; rfl
    | succ k => simp at hk
  have hSR : SR σscxml 1 :=
    ⟨hraw, Or.inl htag, hcur, by decide, hok, by rw [hview]; decide, by rw [hnid]; decide⟩
  obtain ⟨σ', hs, _, _, _, _, hv, _⟩ := simF ts σscxml 1 hSR hnd
  have hget1 : vget (view σscxml.fsm) 1 = some ⟨1, [95, 95, 105, 100, 49], 0, 1, []⟩ := by rw [hview]; rfl
  have hinv : KInv (view σscxml.fsm) := by
    refine ⟨hok, ?_, ?_⟩ <;> rw [hview]
    · intro j v hj hd
      cases j with
      | zero => simp [vget] at hj
      | succ j => cases j <;> simp [vget] at hj; subst hj; simp at hd
    · intro j v k hj hk
      cases j with
      | zero => simp [vget] at hj
      | succ j => cases j <;> simp [vget] at hj; subst hj; simp at hk
  have hund : ∀ n ∈ namesF ts, Undecl (view σscxml.fsm) n := by
    intro n hn i v hf _
    rw [hview] at hf
    simp only [vfind] at hf
    split at hf
    · rename_i e; exact absurd (e ▸ hn) hroot
    · simp at hf
  have hP := amF_kids ts 1 (view σscxml.fsm) σscxml.nextDoc [1] _ hinv (by rw [hdoc]; decide) hget1 (by decide)
    (by simp) (by intro q hq; simp at hq; subst hq; exact ⟨_, hget1, by decide⟩) hnd hund
  obtain ⟨root, hr, hk, _⟩ := hP.par
  rw [← hv] at hr hk
  refine ⟨σ', root, by rw [run_append, hrun]; exact hs, hr, by simpa using hk, ?_⟩
  rw [hv]; exact hP.good
#assert_axioms C04_state_children

/-- non-vacuity: a forest with a forward reference (`a` targets `c`, declared later inside `b`) and a
backward one satisfies the hypothesis; the state ids are allocated in reference order (a=2, c=3,
b=4) while the doc ids follow the document (a=2, b=4, c=5) — kernel evaluation of the model -/
example : (namesF [.node [97] (some [99]) [], .node [98] none [.node [99] (some [97]) []]]).Nodup := by decide
example : (match read ([.start t_scxml []] ++ saxSF [.node [97] (some [99]) [], .node [98] none [.node [99] (some [97]) []]] ++
      [.stop t_scxml]) with
    | .ok f => f.states.map fun s => s.name ++ [0, s.id, s.parent, s.docId] ++ s.states
    | .error _ => []) =
    [[95, 95, 105, 100, 49, 0, 1, 0, 1, 2, 4], [97, 0, 2, 1, 2], [99, 0, 3, 4, 5], [98, 0, 4, 1, 4, 3]] := by
  decide +kernel

/-! ## child text, namespace prefix, start/end-pair form (repaired in round 2) -/

/-- **Child text round trip.**  `read_content` resolves the character data of the source span
(`resolve_character_data`): for EVERY text `t`, the span `xmlEscape t` (how `saxSrc` writes child
text of `<script> <data> <content> <assign>`: `&` as `&amp;`, `<` as `&lt;`) is read back as `t`. -/
theorem C04_child_text_roundtrip (t : Str) : resolveCharData (xmlEscape t) = some t :=
  resolve_escape t
#assert_axioms C04_child_text_roundtrip

/-- text without references and markup is taken as it is -/
theorem C04_child_text_plain (t : Str) (h : plainText t = true) : resolveCharData t = some t :=
  resolve_plain t h
#assert_axioms C04_child_text_plain

/-- **Namespace prefix on a raw-text element.**  For every prefix `p` (without `:`), every script
text without `&`/`<` and every reader state inside a content region: `<p:script>t</p:script>` is
read exactly like `<script>t</script>` (`read_content` looks for the end tag with the qualified
name of the start tag). -/
theorem C04_ns_prefix_script (p t : Str) (hp : p.all (· != 58) = true) (hpl : plainText t = true)
    (σ : RS) (es : List Exec) (hR : Ready σ es) :
    run (addPrefix p (saxC (.script t))) σ = run (saxC (.script t)) σ :=
  prefix_script p t hp hpl σ es hR
#assert_axioms C04_ns_prefix_script

/-- **Start/end-tag form of a childless `<assign>`.**  From every reader state inside a content
region `<assign location="l" expr="e"></assign>` is read exactly like `<assign location="l" expr="e"/>`
(with or without `expr`). -/
theorem C04_pair_form_assign (l : Str) (e : Option Str) (σ : RS) (es : List Exec) (hR : Ready σ es) :
    run (pairForm (saxC (.assign l e none))) σ = run (saxC (.assign l e none)) σ :=
  pair_assign l e σ es hR
#assert_axioms C04_pair_form_assign

/-- `<scxml><state id="a"><onentry> c </onentry></state></scxml>` -/
def docOnentry (c : Block) : Doc :=
  { root := .mk .state none .none [] [] [] [] [] []
      [.mk .state (some [97]) .none [] [c] [] [] [] [] [] none] none }

/-- the first `<onentry>` block of the first child state -/
def firstOnentry (d : Doc) : Option Block :=
  match d.root with
  | .mk _ _ _ _ _ _ _ _ _ (.mk _ _ _ _ (b :: _) _ _ _ _ _ _ :: _) _ => some b
  | _ => none

def blockTexts : Block → List Str
  | .script t :: r => t :: blockTexts r
  | .assign _ (some e) _ :: r => e :: blockTexts r
  | _ :: r => [] :: blockTexts r
  | [] => []

/-- regression (former finding `C04:raw-child-text`, DESIGN §5 P17): `<script>x&lt;1</script>` is
read as the script `x<1`, the same as the normal form of the document -/
theorem C04_regression_raw_child_text :
    ((readDoc (saxSrc (docOnentry [.script [120, 60, 49]]))).bind firstOnentry).map blockTexts = some [[120, 60, 49]] ∧
    ((some (normalise (docOnentry [.script [120, 60, 49]]))).bind firstOnentry).map blockTexts = some [[120, 60, 49]] := by
  decide +kernel
#assert_axioms C04_regression_raw_child_text

/-- regression (former finding `C04:ns-prefix:raw-text-element`): `<sc:script>x</sc:script>` (every
element prefixed) is read, with the same block as the unprefixed document -/
theorem C04_regression_ns_prefix :
    ((readDoc (addPrefix [115, 99] (saxSrc (docOnentry [.script [120]])))).bind firstOnentry).map blockTexts = some [[120]] ∧
    ((readDoc (saxSrc (docOnentry [.script [120]]))).bind firstOnentry).map blockTexts = some [[120]] := by
  decide +kernel
#assert_axioms C04_regression_ns_prefix

/-- regression (former finding `C04:empty-pair-form`): `<assign location="x" expr="1"></assign>` is
read like `<assign location="x" expr="1"/>` -/
theorem C04_regression_empty_pair_form :
    ((readDoc (pairForm (saxSrc (docOnentry [.assign [120] (some [49]) none])))).bind firstOnentry).map blockTexts =
      some [[49]] ∧
    ((readDoc (saxSrc (docOnentry [.assign [120] (some [49]) none]))).bind firstOnentry).map blockTexts = some [[49]] := by
  decide +kernel
#assert_axioms C04_regression_empty_pair_form

/-! ## what is still missing for `C04_full`: one counterexample -/

/-- `<log label="l"/>` (no `expr`) is dropped by the reader (finding `C04:dropped:log-without-expr`;
its repair needs `Log::execute` in src/executable_content.rs to accept a missing expression) -/
theorem C04_counterexample_log_without_expr : ¬ C04_full := by
  intro h
  have hw : wfDoc (docOnentry [.log [108] none, .log [] (some [49])]) = true := by decide +kernel
  have h1 := (h _ hw).1
  have h2 : ((readDoc (saxSrc (docOnentry [.log [108] none, .log [] (some [49])]))).bind firstOnentry).map List.length =
      some 1 := by decide +kernel
  have h3 : ((some (normalise (docOnentry [.log [108] none, .log [] (some [49])]))).bind firstOnentry).map List.length =
      some 2 := by decide +kernel
  rw [h1, h3] at h2
  exact absurd h2 (by decide)
#assert_axioms C04_counterexample_log_without_expr

/-- non-vacuity: a document with nested content satisfies `wfDoc` and round-trips (a test, by
kernel evaluation) -/
example : wfDoc (docOnentry [.ite [99] [.raise [101]] (.elif [100] [.log [] (some [49])] (.els [.script [120]]))]) = true := by
  decide +kernel

end Rfsm.Reader
