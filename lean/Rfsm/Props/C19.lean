import Rfsm.Audit
import Rfsm.Proofs.DescriptorLemmas
/-!
# C19 — Event descriptors match by whole dot-separated token prefixes, for all names

Model: `Rfsm.Descriptor` (bytes).  `transitionMatches ds name` is what the XML reader's
normalisation of an `event` attribute (already split at white space into `ds`) followed by
`Transition::nameMatch` computes.

The statement is at the byte level.  It coincides with the character-level statement of the
property for every valid UTF-8 string because the byte `0x2E` ('.') and `0x2A` ('*') never occur
inside a multi-byte sequence (all bytes of a multi-byte sequence are ≥ 0x80) — this is the one
fact about UTF-8 that is assumed, not proved.
-/
namespace Rfsm.Descriptor

/-- The property at full strength: a transition declared with descriptors `ds` matches `name`
exactly when some descriptor is `*` (after removing insignificant suffixes) or its tokens are a
prefix of the name's tokens. -/
def C19_full : Prop :=
  ∀ (ds : List Str) (name : Str),
    transitionMatches ds name = true ↔
      ∃ d ∈ ds, norm d = [star] ∨ tokens (norm d) <+: tokens name

theorem C19_nameMatch (wildcard : Bool) (events : List Str) (name : Str) :
    nameMatch wildcard events name = true ↔
      wildcard = true ∨ ∃ e ∈ events, tokens e <+: tokens name := by
  simp [nameMatch, descMatch_iff]
#assert_axioms C19_nameMatch

theorem C19 : C19_full := by
  intro ds name
  simp only [transitionMatches, C19_nameMatch, readWildcard, readEvents, List.contains_eq_mem,
    List.mem_map, decide_eq_true_eq]
  constructor
  · rintro (⟨d, hd, h⟩ | ⟨e, ⟨d, hd, rfl⟩, h⟩)
    · exact ⟨d, hd, Or.inl h⟩
    · exact ⟨d, hd, Or.inr h⟩
  · rintro ⟨d, hd, h | h⟩
    · exact Or.inl ⟨d, hd, h⟩
    · exact Or.inr ⟨norm d, ⟨d, hd, rfl⟩, h⟩
#assert_axioms C19

/-- a trailing `.` is insignificant -/
theorem C19_trailing_dot (d : Str) : norm (d ++ [dot]) = norm d := by
  simp [norm, normRev_dot]
#assert_axioms C19_trailing_dot

/-- a trailing `.*` is insignificant -/
theorem C19_trailing_dot_star (d : Str) : norm (d ++ [dot, star]) = norm d := by
  simp [norm, normRev_star_dot]
#assert_axioms C19_trailing_dot_star

/-- normalisation is idempotent (a stored descriptor never ends in `.` or `.*`) -/
theorem C19_norm_idem (d : Str) : norm (norm d) = norm d := by
  simp [norm, normRev_of_normal (normRev_normal d.reverse)]
#assert_axioms C19_norm_idem

/-- `e`, `e.` and `e.*` are the same descriptor -/
theorem C19_equivalent_spellings (e : Str) (ds : List Str) (name : Str) :
    transitionMatches (e :: ds) name = transitionMatches ((e ++ [dot]) :: ds) name ∧
    transitionMatches (e :: ds) name = transitionMatches ((e ++ [dot, star]) :: ds) name := by
  simp [transitionMatches, readWildcard, readEvents, C19_trailing_dot, C19_trailing_dot_star]
#assert_axioms C19_equivalent_spellings

/-- `*` matches every name -/
theorem C19_star (ds : List Str) (name : Str) (h : [star] ∈ ds) :
    transitionMatches ds name = true := by
  rw [C19]
  exact ⟨[star], h, Or.inl (by decide)⟩
#assert_axioms C19_star

/-- never a partial token: a match of a `*`-free descriptor list means one whole-token prefix;
in particular the name's first `k` tokens *equal* the descriptor's `k` tokens (so matching is
case sensitive: bytes are compared for equality). -/
theorem C19_whole_tokens (ds : List Str) (name : Str)
    (hs : ∀ d ∈ ds, norm d ≠ [star]) (h : transitionMatches ds name = true) :
    ∃ d ∈ ds, (tokens name).take (tokens (norm d)).length = tokens (norm d) := by
  obtain ⟨d, hd, h | h⟩ := (C19 ds name).1 h
  · exact absurd h (hs d hd)
  · exact ⟨d, hd, List.prefix_iff_eq_take.1 h |>.symm⟩
#assert_axioms C19_whole_tokens

/-! Non-vacuity and concrete instances ("error foo" from the Recommendation). -/
-- "error foo" vs error.send.failed
example : transitionMatches [[101, 114, 114, 111, 114], [102, 111, 111]] [101, 114, 114, 111, 114, 46, 115, 101, 110, 100, 46, 102, 97, 105, 108, 101, 100] = true := by decide
-- "error foo" vs errors.my.custom
example : transitionMatches [[101, 114, 114, 111, 114], [102, 111, 111]] [101, 114, 114, 111, 114, 115, 46, 109, 121, 46, 99, 117, 115, 116, 111, 109] = false := by decide
-- "error.*" vs error
example : transitionMatches [[101, 114, 114, 111, 114, 46, 42]] [101, 114, 114, 111, 114] = true := by decide
-- case
example : transitionMatches [[69, 114, 114, 111, 114]] [101, 114, 114, 111, 114] = false := by decide
-- "é" vs é.x (the defect repaired by the fix: commit)
example : transitionMatches [[195, 169]] [195, 169, 46, 120] = true := by decide
-- "é" vs éa.b
example : transitionMatches [[195, 169]] [195, 169, 97, 46, 98] = false := by decide
-- empty token
example : tokens [97, 46, 46, 98] = [[97], [], [98]] := by decide

end Rfsm.Descriptor
