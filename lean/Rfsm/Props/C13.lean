import Rfsm.Audit
import Rfsm.Proofs.QueueLemmas
/-!
# C13 — Concurrent external events are each processed exactly once, in sender order

Model: `Rfsm.Queue` — N producer threads with fixed event lists, the session's external queue
(`BlockingQueue`, an `mpsc` channel) as one linearizable FIFO, the session thread as the single
consumer: `recv` (with the dequeue filter of `mainEventLoop`) and then the macrostep's effects one
at a time.  The interpreter's macrostep is the parameter `step`; the theorems hold for every
`step` and every filter `accept`.  A schedule is an explicit `List Choice`, so "for all
interleavings" is a universal quantifier; a schedule that picks a thread which is not enabled
(finished producer, consumer blocked) is not a run (`run = none`).

Trusted, not proved: `std::sync::mpsc` is a linearizable FIFO (each `send` takes effect
atomically at some point between call and return, `recv` returns the oldest element); the OS
scheduler.  The correspondence harness only SAMPLES real schedules.
-/
namespace Rfsm.Queue

/-- The property at full strength, for every number of producers, every list of events per
producer, every macrostep function, every filter and every schedule that runs to completion:
* `out`, the sequence of dequeued events, is an interleaving of the producers' lists — it is a
  permutation of everything that was sent (each event exactly once) and the positions can be
  attributed to the producers so that each producer's positions spell its list (sender order);
* every dequeued event is processed or dropped exactly as the consumer alone would do when fed
  `out` sequentially (the filter verdicts and the session state agree with the sequential run);
* the observable trace is the concatenation, in dequeue order, of the per-event macrostep
  segments: no effect of one event's macrostep is emitted after the next event was dequeued. -/
def C13_full : Prop :=
  ∀ (σ ε ο : Type) (M : Sys σ ε ο) (ps : List (List ε)) (s0 : σ) (sched : List Choice)
    (st : St σ ε ο),
    run M (init ps s0) sched = some st → complete st →
      IsMergeOf ps (st.deq.map Prod.fst) ∧
      (st.deq.map Prod.fst).Perm ps.flatten ∧
      (∃ owner : List Nat, owner.length = (st.deq.map Prod.fst).length ∧
        (∀ o ∈ owner, o < ps.length) ∧
        ∀ i, i < ps.length → restrict (st.deq.map Prod.fst) owner i = ps[i]?.getD []) ∧
      st.deq.map Prod.snd = verdicts M s0 (st.deq.map Prod.fst) ∧
      st.sess = seqState M s0 (st.deq.map Prod.fst) ∧
      st.trace = (segments M s0 (st.deq.map Prod.fst)).flatten

/-- Invariants of every reachable state (not only completed runs): bookkeeping of the producers,
"dequeued ++ in flight" is an interleaving of what has been sent so far (so the channel holds
exactly sent − dequeued, in an order compatible with every sender), the consumer agrees with the
sequential consumer, and emitted ++ pending effects are the segments in dequeue order. -/
theorem C13_reachable {σ ε ο : Type} (M : Sys σ ε ο) (ps : List (List ε)) (s0 : σ)
    (sched : List Choice) (st : St σ ε ο) (h : run M (init ps s0) sched = some st) :
    Inv M ps s0 st :=
  inv_run M ps s0 sched _ _ (inv_init M ps s0) h
#assert_axioms C13_reachable

theorem C13 : C13_full := by
  intro σ ε ο M ps s0 sched st hrun hc
  have inv := C13_reachable M ps s0 sched st hrun
  obtain ⟨hdone, hfifo, hpend⟩ := hc
  have hsent : st.sent = ps := sent_eq_of_done M ps s0 st inv hdone
  have hm : IsMergeOf ps (st.deq.map Prod.fst) := by
    have := inv.merge
    rw [hfifo, List.append_nil, hsent] at this
    exact this
  refine ⟨hm, hm.perm, hm.owners, inv.verd, inv.sess, ?_⟩
  have := inv.trace
  rw [hpend, List.append_nil] at this
  exact this
#assert_axioms C13

/-- in flight = sent − dequeued, as multisets: nothing is lost or duplicated on the way, in any
reachable state -/
theorem C13_in_flight {σ ε ο : Type} (M : Sys σ ε ο) (ps : List (List ε)) (s0 : σ)
    (sched : List Choice) (st : St σ ε ο) (h : run M (init ps s0) sched = some st) :
    (st.deq.map Prod.fst ++ st.fifo).Perm st.sent.flatten :=
  (C13_reachable M ps s0 sched st h).merge.perm
#assert_axioms C13_in_flight

/-- exactly once, as counts: every event is dequeued as often as it was sent -/
theorem C13_exactly_once {σ ε ο : Type} [DecidableEq ε] (M : Sys σ ε ο) (ps : List (List ε))
    (s0 : σ) (sched : List Choice) (st : St σ ε ο) (h : run M (init ps s0) sched = some st)
    (hc : complete st) (e : ε) :
    (st.deq.map Prod.fst).count e = ps.flatten.count e :=
  ((C13 σ ε ο M ps s0 sched st h hc).2.1).count_eq e
#assert_axioms C13_exactly_once

/-- the consumer dequeues only between macrosteps: a `recv` step is possible only when the
previous macrostep has emitted all of its effects -/
theorem C13_recv_only_when_idle {σ ε ο : Type} (M : Sys σ ε ο) (s s' : St σ ε ο)
    (h : next M s .recv = some s') : s.pending = [] := by
  simp only [next] at h
  split at h
  · assumption
  · simp at h
#assert_axioms C13_recv_only_when_idle

/-- a producer's send never changes the consumer side (session state, pending effects, trace,
dequeued events): sends that happen during a macrostep cannot disturb it -/
theorem C13_send_frame {σ ε ο : Type} (M : Sys σ ε ο) (s s' : St σ ε ο) (i : Nat)
    (h : next M s (.send i) = some s') :
    s'.sess = s.sess ∧ s'.pending = s.pending ∧ s'.trace = s.trace ∧ s'.deq = s.deq := by
  simp only [next] at h
  split at h
  · simp only [Option.some.injEq] at h; subst h; simp
  · simp at h
#assert_axioms C13_send_frame

/-- if the filter accepts everything (no event carries a foreign invoke id), every sent event is
processed: the number of non-empty-or-empty segments equals the number of sent events and every
verdict is `true` -/
theorem C13_all_processed {σ ε ο : Type} (M : Sys σ ε ο) (hacc : ∀ s e, M.accept s e = true)
    (ps : List (List ε)) (s0 : σ) (sched : List Choice) (st : St σ ε ο)
    (h : run M (init ps s0) sched = some st) (hc : complete st) :
    (∀ b ∈ st.deq.map Prod.snd, b = true) ∧ (st.deq.map Prod.snd).length = ps.flatten.length := by
  obtain ⟨_, hperm, _, hv, _, _⟩ := C13 σ ε ο M ps s0 sched st h hc
  constructor
  · rw [hv]
    exact verdicts_all_true M hacc _ _
  · have := hperm.length_eq
    simpa using this
#assert_axioms C13_all_processed

/-- the checker used as the oracle on implementation traces is sound and complete -/
theorem C13_checker {α : Type} [DecidableEq α] (ps : List (List α)) (out : List α) :
    isMergeOfB ps out = true ↔ IsMergeOf ps out :=
  isMergeOfB_iff ps out
#assert_axioms C13_checker

/-- the inductive definition says exactly what the property text says: an owner assignment whose
restrictions are the producers' lists -/
theorem C13_merge_iff_owners {α : Type} (ps : List (List α)) (out : List α) :
    IsMergeOf ps out ↔
      ∃ owner : List Nat, owner.length = out.length ∧ (∀ o ∈ owner, o < ps.length) ∧
        ∀ i, i < ps.length → restrict out owner i = ps[i]?.getD [] :=
  ⟨fun h => h.owners, fun ⟨owner, h1, h2, h3⟩ => isMergeOf_of_owners owner h1 h2 h3⟩
#assert_axioms C13_merge_iff_owners

/-- the model has no deadlock: while something is left to do some thread is enabled -/
theorem C13_progress {σ ε ο : Type} (M : Sys σ ε ο) (s : St σ ε ο) (h : ¬ complete s) :
    ∃ c, (next M s c).isSome = true :=
  progress M s h
#assert_axioms C13_progress

/-- model completeness: EVERY interleaving of the producers' lists is the dequeue order of some
schedule that runs to completion — the universal quantifier over schedules in `C13` ranges over
all interleavings, the transition system does not exclude any -/
theorem C13_every_merge_is_a_run {σ ε ο : Type} (M : Sys σ ε ο) (ps : List (List ε)) (s0 : σ)
    (out : List ε) (h : IsMergeOf ps out) :
    ∃ sched st, run M (init ps s0) sched = some st ∧ complete st ∧ st.deq.map Prod.fst = out := by
  obtain ⟨sched, st, h1, h2, h3⟩ := every_merge_is_a_run M ps out h (init ps s0) rfl rfl rfl
  exact ⟨sched, st, h1, h2, by simpa [init] using h3⟩
#assert_axioms C13_every_merge_is_a_run

/-- the filter of `mainEventLoop`, spelled out: an event is dropped exactly when it is not a
`done.invoke.` event, carries an invoke id, that id is not the session's own caller id and is
not the id of a running child -/
theorem C13_filter (caller : Str) (children : List Str) (e : Ev) :
    acceptRust caller children e = false ↔
      doneInvokePrefix.isPrefixOf e.name = false ∧
        ∃ i, e.invokeId = some i ∧ caller ≠ i ∧ i ∉ children := by
  unfold acceptRust
  cases hp : doneInvokePrefix.isPrefixOf e.name <;> cases hi : e.invokeId <;> simp
#assert_axioms C13_filter

/-! ## Non-vacuity: concrete runs of the harness document's model (two producers) -/

private def ev (n : Nat) : Ev := { name := [n], invokeId := none }
private def s0 : Sess := { caller := [], children := [], count := 0 }

-- producer 0 sends a,b ; producer 1 sends c ; the second send overtakes, sends happen while a
-- macrostep is in progress
example :
    (run docSys (init [[ev 97, ev 98], [ev 99]] s0)
        [.send 0, .recv, .send 1, .tick, .send 0, .tick, .recv, .tick, .tick, .recv, .tick, .tick]).map
      (fun st => (completeB st, st.trace)) =
    some (true, [.ext [97], .mark [97] 0, .ext [99], .mark [99] 1, .ext [98], .mark [98] 2]) := by
  decide
-- a schedule that lets the consumer run while it is blocked is not a run
example : (run docSys (init [[ev 97]] s0) [.recv]).isNone = true := by decide
-- a second dequeue inside a macrostep is not possible
example : (run docSys (init [[ev 97, ev 98]] s0) [.send 0, .send 0, .recv, .recv]).isNone = true := by
  decide
-- the oracle
example : isMergeOfB [[1, 2, 3], [10, 20]] [1, 10, 2, 20, 3] = true := by decide
example : isMergeOfB [[1, 2, 3], [10, 20]] [1, 10, 3, 20, 2] = false := by decide  -- reordered
example : isMergeOfB [[1, 2, 3], [10, 20]] [1, 10, 2, 20] = false := by decide     -- lost
example : isMergeOfB [[1, 2, 3], [10, 20]] [1, 10, 2, 2, 20, 3] = false := by decide -- duplicated
-- the filter: foreign invoke id dropped, own caller id / running child / done.invoke. accepted
example : acceptRust [] [] { name := [97], invokeId := some [120] } = false := by decide
example : acceptRust [] [] { name := [97], invokeId := some [] } = true := by decide
example : acceptRust [] [[120]] { name := [97], invokeId := some [120] } = true := by decide
example : acceptRust [99] [] { name := [97], invokeId := some [99] } = true := by decide
example : acceptRust [] [] { name := doneInvokePrefix ++ [120], invokeId := some [120] } = true := by
  decide

end Rfsm.Queue
