import Rfsm.Audit
import Rfsm.Proofs.ExprOps
import Rfsm.Proofs.ExprLexerLemmas
import Rfsm.Proofs.ExprFuel
import Rfsm.Proofs.ExprEvalLemmas
import Rfsm.Proofs.ExprLivelock
/-!
# C11 — Expression parsing and evaluation always terminate with a value or an error

Model: `Rfsm.Expr`.  Every Rust panic (`i64 % 0`, `i64::MIN % -1`, `i64::MIN.abs()` with overflow
checks, `panic!("Internal error")`), every `lock()` of a `Mutex` the evaluating thread already
holds (`deadlock site`) and the never-ending token stream of an operator character at the very end
of the text (`livelock`) is an explicit outcome of the model.  Termination of lexer, parser and
evaluator *as functions* is what Lean's acceptance of the definitions establishes (structural
recursion; the parser's fuel is shown sufficient in `C11_parser_fuel_sufficient`).

The unchanged code violates the property; `C11_counterexample_*` exhibit it on the model, the
harness replays the same inputs on the real code (DESIGN §5 P3, P4, and the livelock found while
modelling `read_operator`).
-/
namespace Rfsm.Expr

/-- **C11 at full strength**: for every source text and every store, `execute` ends with a value
or an error and holds no data lock afterwards. -/
def C11_full : Prop :=
  ∀ (D : Type) (ops : DoubleOps D) (text : Str) (st : St D), st.held = [] →
    (execute ops text st).2.isValueOrError = true ∧ (execute ops text st).1.held = []

/-! ## Counterexamples on the model of the unchanged code -/

/-- store with one variable `a = 7` -/
def storeA (D : Type) : St D := ⟨[.int 7], [([97], ⟨0, false⟩)], []⟩
/-- store with `a = [7]` (cell 1 holds the array, cell 0 its element) -/
def storeArr (D : Type) : St D := ⟨[.int 7, .array [⟨0, false⟩]], [([97], ⟨1, false⟩)], []⟩

/-- P3: `5 % 0` panics -/
theorem C11_counterexample_rem_by_zero {D : Type} (ops : DoubleOps D) :
    (execute ops [53, 32, 37, 32, 48] ⟨[], [], []⟩).2 = .panic .remByZero := rfl
#assert_axioms C11_counterexample_rem_by_zero

/-- P3: `a % 0` leaves the cell of `a` locked (poisoned) -/
theorem C11_counterexample_rem_poisons {D : Type} (ops : DoubleOps D) :
    (execute ops [97, 32, 37, 32, 48] (storeA D)).2 = .panic .remByZero ∧
    (execute ops [97, 32, 37, 32, 48] (storeA D)).1.held = [1, 0] := ⟨rfl, rfl⟩
#assert_axioms C11_counterexample_rem_poisons

/-- P4: `a = a` blocks on its own mutex -/
theorem C11_counterexample_assign_self {D : Type} (ops : DoubleOps D) :
    (execute ops [97, 32, 61, 32, 97] (storeA D)).2 = .deadlock .assign := rfl
#assert_axioms C11_counterexample_assign_self

/-- P4: `a ?= a` -/
theorem C11_counterexample_assign_undef_self {D : Type} (ops : DoubleOps D) :
    (execute ops [97, 32, 63, 61, 32, 97] (storeA D)).2 = .deadlock .assignUndef := rfl
#assert_axioms C11_counterexample_assign_undef_self

/-- P4: `a[a]` on an array -/
theorem C11_counterexample_index_self {D : Type} (ops : DoubleOps D) :
    (execute ops [97, 91, 97, 93] (storeArr D)).2 = .deadlock .indexArray := rfl
#assert_axioms C11_counterexample_index_self

/-- P4: `a == [a]` with `a = [7]` -/
theorem C11_counterexample_equal_self {D : Type} (ops : DoubleOps D) :
    (execute ops [97, 32, 61, 61, 32, 91, 97, 93] (storeArr D)).2 = .deadlock .equal := rfl
#assert_axioms C11_counterexample_equal_self

/-- an operator character as the very last character: the lexer never reaches the end (`1 <`) -/
theorem C11_counterexample_livelock :
    nextToken [0] [60] = (.operator .less, [60]) ∧ parse [49, 32, 60] = .livelock := ⟨rfl, rfl⟩
#assert_axioms C11_counterexample_livelock

theorem C11_counterexample : ¬ C11_full := by
  intro h
  have := (h Unit ⟨fun _ _ => (), fun _ _ => (), fun _ _ => (), fun _ _ => (), fun _ _ => (),
    fun _ _ => false, fun _ _ => false, fun _ _ => false, fun _ => false, fun _ => (), fun _ => (),
    fun _ => none, fun _ => (), fun _ => []⟩ [53, 32, 37, 32, 48] ⟨[], [], []⟩ rfl).1
  exact absurd this (by decide)
#assert_axioms C11_counterexample

/-! ## What does hold -/

/-- the lexer always makes progress: the remaining input never grows, and it shrinks unless the
token ends the loop of the parser (`eoe`, stop separator, error) or is an operator -/
theorem C11_lexer_progress (stops : List Ch) (inp : Str) :
    (nextToken stops inp).2.length ≤ inp.length ∧
    ((nextToken stops inp).2.length < inp.length ∨ (nextToken stops inp).1.isEoe ∨
      (nextToken stops inp).1.isStopSep stops ∨ (nextToken stops inp).1.isOperator ∨
      (nextToken stops inp).1.isError) :=
  ⟨nextToken_length stops inp, nextToken_progress stops inp⟩
#assert_axioms C11_lexer_progress

/-- the parser never reaches `panic!("Internal error")`: for ALL strings -/
theorem C11_parser_no_panic (text : Str) : parse text ≠ .panic := parse_no_panic text
#assert_axioms C11_parser_no_panic

/-- the same for the three mutually recursive parser functions, any fuel, any input, any stack
that the parser itself can build (`StackOK`: expressions, identifiers, operators, `.`) -/
theorem C11_parser_functions_no_panic (fuel : Nat) :
    (∀ stops inp exprs stack, StackOK stack → parseSub fuel stops inp exprs stack ≠ .panic) ∧
    (∀ stop inp acc, parseArgs fuel stop inp acc ≠ .panic) ∧
    (∀ stop inp acc, parseMembers fuel stop inp acc ≠ .panic) := parser_no_panic fuel
#assert_axioms C11_parser_functions_no_panic

/-- the fuel of the parser model is sufficient: termination of the model's `parse` is real
termination, not an artefact of the fuel (for ALL strings) -/
theorem C11_parser_fuel_sufficient (text : Str) : parse text ≠ .outOfFuel :=
  parse_fuel_sufficient text
#assert_axioms C11_parser_fuel_sufficient

/-- **Parsing, all strings**: an expression, an error, or the end-of-input livelock — nothing else.
Missing for the parsing half of `C11_full`: the `livelock` case, which the unchanged code has
(`C11_counterexample_livelock`). -/
theorem C11_parse_total_partial (text : Str) :
    (∃ e, parse text = .ok e) ∨ (∃ e, parse text = .err e) ∨ parse text = .livelock := by
  have h1 := parse_no_panic text
  have h2 := parse_fuel_sufficient text
  cases h : parse text with
  | ok e => exact Or.inl ⟨e, rfl⟩
  | err e => exact Or.inr (Or.inl ⟨e, rfl⟩)
  | livelock => exact Or.inr (Or.inr rfl)
  | panic => exact absurd h h1
  | outOfFuel => exact absurd h h2
#assert_axioms C11_parse_total_partial

/-- the livelock happens only on texts whose last character is `<`, `>`, `=` or `!` -/
theorem C11_livelock_only_at_trailing_operator (text : Str) (h : parse text = .livelock) :
    ∃ c, (c = 60 ∨ c = 62 ∨ c = 61 ∨ c = 33) ∧ text.getLast? = some c :=
  parse_livelock_ends_bad text h
#assert_axioms C11_livelock_only_at_trailing_operator

/-- **Parsing terminates with an expression or an error for every text that does not end in
`<`, `>`, `=` or `!`** (all strings; no fuel, no panic, no livelock).
Missing for the parsing half of `C11_full`: exactly the texts excluded here, on which the
unchanged code does not terminate (`C11_counterexample_livelock`). -/
theorem C11_parse_terminates_partial (text : Str)
    (h : ∀ c, text.getLast? = some c → c ≠ 60 ∧ c ≠ 62 ∧ c ≠ 61 ∧ c ≠ 33) :
    (∃ e, parse text = .ok e) ∨ (∃ e, parse text = .err e) := by
  rcases C11_parse_total_partial text with h1 | h1 | h1
  · exact Or.inl h1
  · exact Or.inr h1
  · obtain ⟨c, hc, hl⟩ := parse_livelock_ends_bad text h1
    have := h c hl
    rcases hc with rfl | rfl | rfl | rfl <;> simp_all
#assert_axioms C11_parse_terminates_partial

/-- non-vacuity: `1 < 2` satisfies the hypothesis -/
example : ∀ c, ([49, 32, 60, 32, 50] : Str).getLast? = some c → c ≠ 60 ∧ c ≠ 62 ∧ c ≠ 61 ∧ c ≠ 33 := by
  intro c h; simp at h; subst h; decide

/-- `stack_to_expression` shortens its stack on every round: `stack.length + 1` rounds suffice -/
theorem C11_stackToExpr_fuel_sufficient (stack : List Item) :
    stackToExpr (stackFuel stack) stack ≠ .outOfFuel :=
  stackToExpr_fuel _ _ (by simp [stackFuel])
#assert_axioms C11_stackToExpr_fuel_sufficient

/-- **held-lock set empty after every evaluation that returns**: for every expression, flag and
store, if no data lock is held before and the evaluator returns a value or an error, no data lock
is held afterwards -/
theorem C11_locks_released {D : Type} (ops : DoubleOps D) (e : Expr) (au : Bool) (st : St D)
    (h : st.held = []) (ho : (eval ops e au st).2.isValueOrError = true) :
    (eval ops e au st).1.held = [] := eval_held ops e au st h ho
#assert_axioms C11_locks_released

/-- the same for `ExpressionParser::execute` on every source text -/
theorem C11_execute_locks_released {D : Type} (ops : DoubleOps D) (text : Str) (st : St D)
    (h : st.held = []) (ho : (execute ops text st).2.isValueOrError = true) :
    (execute ops text st).1.held = [] := by
  unfold execute at ho ⊢
  split
  · rename_i e he
    simp only [he] at ho
    exact eval_held ops e false st h ho
  all_goals exact h
#assert_axioms C11_execute_locks_released

/-- the evaluator blocks on its own locks only at the four sites where it takes a second lock
while holding one (`index-array`, `assign`, `assign-undef`, `equal`): every `lock()` taken with
nothing else held succeeds -/
theorem C11_deadlock_only_at_second_locks {D : Type} (ops : DoubleOps D) (e : Expr) (au : Bool)
    (st : St D) (h : st.held = []) : (eval ops e au st).2 ≠ .deadlock .other :=
  eval_no_deadlock_other ops e au st h
#assert_axioms C11_deadlock_only_at_second_locks

/-- the evaluator itself never loops: `livelock` is an outcome of parsing only.  (The outcome
`fuelOut` of the model's `==` / `Display` recursion through the heap is not excluded by a theorem:
each level locks a fresh cell, so `cells.length + 1` levels suffice — tier B, never observed in
the differential runs.) -/
theorem C11_evaluator_no_livelock {D : Type} (ops : DoubleOps D) (e : Expr) (au : Bool)
    (st : St D) (h : st.held = []) : (eval ops e au st).2 ≠ .livelock :=
  eval_no_livelock ops e au st h
#assert_axioms C11_evaluator_no_livelock

/-- **no self-deadlock when the operand cells are distinct**: `l = r`, `l ?= r` and `l[i]` do not
block when the two sub-expressions evaluate to different cells.
Missing for "never blocks on its own data locks": equal cells (false on the unchanged code:
`C11_counterexample_assign_self`, `…_assign_undef_self`, `…_index_self`) and `==`/`!=` on
containers that reach an operand cell (`C11_counterexample_equal_self`). -/
theorem C11_no_self_deadlock_distinct_partial {D : Type} (ops : DoubleOps D) (l r : Expr) (au : Bool)
    (st st1 st2 : St D) (a b : Ref) (hst : st.held = []) (s : LockSite) :
    (eval ops r false st = (st1, .ok a) → eval ops l au st1 = (st2, .ok b) → b.id ≠ a.id →
      (eval ops (.assign l r) au st).2 ≠ .deadlock s) ∧
    (eval ops r au st = (st1, .ok a) → eval ops l true st1 = (st2, .ok b) → b.id ≠ a.id →
      (eval ops (.assignUndef l r) au st).2 ≠ .deadlock s) ∧
    (eval ops l au st = (st1, .ok a) → eval ops r au st1 = (st2, .ok b) → b.id ≠ a.id →
      (eval ops (.index l r) au st).2 ≠ .deadlock s) :=
  ⟨fun h1 h2 h3 => assign_no_deadlock ops l r au st st1 st2 a b hst h1 h2 h3 s,
   fun h1 h2 h3 => assignUndef_no_deadlock ops l r au st st1 st2 a b hst h1 h2 h3 s,
   fun h1 h2 h3 => index_no_deadlock ops l r au st st1 st2 a b hst h1 h2 h3 s⟩
#assert_axioms C11_no_self_deadlock_distinct_partial

/-- non-vacuity: `a = b` with two different cells assigns and holds nothing afterwards -/
example {D : Type} (ops : DoubleOps D) :
    (execute ops [97, 32, 61, 32, 98] ⟨[.int 7, .int 8], [([97], ⟨0, false⟩), ([98], ⟨1, false⟩)], []⟩).2
      = .ok ⟨0, false⟩ ∧
    (execute ops [97, 32, 61, 32, 98] ⟨[.int 7, .int 8], [([97], ⟨0, false⟩), ([98], ⟨1, false⟩)], []⟩).1.held
      = [] := ⟨rfl, rfl⟩

/-- no panic from arithmetic other than integer `%` -/
theorem C11_arithmetic_no_panic_partial {D : Type} (ops : DoubleOps D) (cells : Cells D)
    (held : List Nat) (o : Op) (l r : Data D) (ho : o ≠ .modulus) (s : PanicSite) :
    operation ops cells held o l r ≠ .panic s :=
  operation_no_panic ops cells held o l r ho s
#assert_axioms C11_arithmetic_no_panic_partial

/-- integer `%` is total exactly away from the two inputs on which Rust's `%` panics -/
theorem C11_modulus_total_partial {D : Type} (ops : DoubleOps D) (cells : Cells D)
    (held : List Nat) (a b : Int) (hb : b ≠ 0) (hm : ¬ (a = i64Min ∧ b = -1)) :
    operation ops cells held .modulus (.int a) (.int b) = .val (.int (Int.tmod a b)) [] :=
  operation_modulus_int ops cells held a b hb hm
#assert_axioms C11_modulus_total_partial

end Rfsm.Expr
