import Rfsm.Audit
import Rfsm.Proofs.ExprOps
import Rfsm.Proofs.ExprLexerLemmas
import Rfsm.Proofs.ExprFuel
import Rfsm.Proofs.ExprEvalLemmas
import Rfsm.Proofs.ExprLivelock
/-!
# C11 — Expression parsing and evaluation always terminate with a value or an error

Model: `Rfsm.Expr`.  Every Rust panic, every `lock()` of a `Mutex` the evaluating thread already
holds (`deadlock site`) and a never-ending token stream (`livelock`) is an explicit outcome of the
model.  Termination of lexer, parser and evaluator *as functions* is what Lean's acceptance of the
definitions establishes (structural recursion; the parser's fuel is shown sufficient in
`C11_parser_fuel_sufficient`).

State after the repairs of P3 (`%`, `abs`), P4 (`a = a`, `a ?= a`, `a[a]`, `a == [a]`) and of the
lexer livelock (`1 <`): parsing is total (`C11_parse_total`), nothing panics
(`C11_execute_no_panic`), the evaluator takes every lock with nothing else held
(`C11_no_self_deadlock`), and the former witnesses are regression theorems
(`C11_regression_*`).  What is left (`C11_partial`, `C11_counterexample`): `DataArc::eq` still
locks both sides while it descends, so `==` / `!=` on two *cyclic* values (a value that contains
its own cell, which `a[0] = a` can build) blocks on a lock it holds itself.
-/
namespace Rfsm.Expr

/-- **C11 at full strength**: for every source text and every store, `execute` ends with a value
or an error and holds no data lock afterwards. -/
def C11_full : Prop :=
  ∀ (D : Type) (ops : DoubleOps D) (text : Str) (st : St D), st.held = [] →
    (execute ops text st).2.isValueOrError = true ∧ (execute ops text st).1.held = []

/-! ## The former counterexamples, on the model of the repaired code (regression) -/

/-- store with one variable `a = 7` -/
def storeA (D : Type) : St D := ⟨[.int 7], [([97], ⟨0, false⟩)], []⟩
/-- store with `a = [7]` (cell 1 holds the array, cell 0 its element) -/
def storeArr (D : Type) : St D := ⟨[.int 7, .array [⟨0, false⟩]], [([97], ⟨1, false⟩)], []⟩

/-- P3: `5 % 0` is an error value, no panic -/
theorem C11_regression_rem_by_zero {D : Type} (ops : DoubleOps D) :
    (execute ops [53, 32, 37, 32, 48] ⟨[], [], []⟩).2 = .ok ⟨2, false⟩ ∧
    (execute ops [53, 32, 37, 32, 48] ⟨[], [], []⟩).1.get 2 = .error .remUndefined := ⟨rfl, rfl⟩
#assert_axioms C11_regression_rem_by_zero

/-- P3: `a % 0` leaves no cell locked -/
theorem C11_regression_rem_releases {D : Type} (ops : DoubleOps D) :
    (execute ops [97, 32, 37, 32, 48] (storeA D)).2 = .ok ⟨2, false⟩ ∧
    (execute ops [97, 32, 37, 32, 48] (storeA D)).1.held = [] := ⟨rfl, rfl⟩
#assert_axioms C11_regression_rem_releases

/-- P4: `a = a` assigns -/
theorem C11_regression_assign_self {D : Type} (ops : DoubleOps D) :
    (execute ops [97, 32, 61, 32, 97] (storeA D)).2 = .ok ⟨0, false⟩ ∧
    (execute ops [97, 32, 61, 32, 97] (storeA D)).1.held = [] := ⟨rfl, rfl⟩
#assert_axioms C11_regression_assign_self

/-- P4: `a ?= a` -/
theorem C11_regression_assign_undef_self {D : Type} (ops : DoubleOps D) :
    (execute ops [97, 32, 63, 61, 32, 97] (storeA D)).2 = .ok ⟨0, false⟩ ∧
    (execute ops [97, 32, 63, 61, 32, 97] (storeA D)).1.held = [] := ⟨rfl, rfl⟩
#assert_axioms C11_regression_assign_undef_self

/-- P4: `a[a]` on an array is an "Illegal index type" error -/
theorem C11_regression_index_self {D : Type} (ops : DoubleOps D) :
    (execute ops [97, 91, 97, 93] (storeArr D)).2 = .err .illegalIndexType ∧
    (execute ops [97, 91, 97, 93] (storeArr D)).1.held = [] := ⟨rfl, rfl⟩
#assert_axioms C11_regression_index_self

/-- P4: `a == [a]` with `a = [7]` is `false` -/
theorem C11_regression_equal_self {D : Type} (ops : DoubleOps D) :
    (execute ops [97, 32, 61, 61, 32, 91, 97, 93] (storeArr D)).2 = .ok ⟨3, false⟩ ∧
    (execute ops [97, 32, 61, 61, 32, 91, 97, 93] (storeArr D)).1.get 3 = .bool false ∧
    (execute ops [97, 32, 61, 61, 32, 91, 97, 93] (storeArr D)).1.held = [] := ⟨rfl, rfl, rfl⟩
#assert_axioms C11_regression_equal_self

/-- an operator character as the very last character: the lexer reaches the end, `1 <` is a parse
error -/
theorem C11_regression_livelock :
    nextToken [0] [60] = (.operator .less, []) ∧ (∃ e, parse [49, 32, 60] = .err e) :=
  ⟨rfl, ⟨_, rfl⟩⟩
#assert_axioms C11_regression_livelock

/-! ## What is still false: `==` on two cyclic values -/

/-- two cells that each hold a one-element array containing the cell itself (`a[0] = a` builds
such a value from `a = [7]`), `a` and `b` name them -/
def storeCyc (D : Type) : St D :=
  ⟨[.array [⟨0, false⟩], .array [⟨1, false⟩]], [([97], ⟨0, false⟩), ([98], ⟨1, false⟩)], []⟩

/-- `a == b` on two cyclic values: `DataArc::eq` locks both cells, descends and comes back to them -/
theorem C11_counterexample_equal_cyclic {D : Type} (ops : DoubleOps D) :
    (execute ops [97, 32, 61, 61, 32, 98] (storeCyc D)).2 = .deadlock .equal := rfl
#assert_axioms C11_counterexample_equal_cyclic

theorem C11_counterexample : ¬ C11_full := by
  intro h
  have := (h Unit ⟨fun _ _ => (), fun _ _ => (), fun _ _ => (), fun _ _ => (), fun _ _ => (),
    fun _ _ => false, fun _ _ => false, fun _ _ => false, fun _ => false, fun _ => (), fun _ => (),
    fun _ => none, fun _ => (), fun _ => []⟩ [97, 32, 61, 61, 32, 98] (storeCyc Unit) rfl).1
  exact absurd this (by decide)
#assert_axioms C11_counterexample

/-! ## What does hold -/

/-- the lexer always makes progress: the remaining input never grows, and it shrinks unless the
token ends the loop of the parser (`eoe`, stop separator, error) or is an operator -/
theorem C11_lexer_progress (stops : List Ch) (inp : Str) :
    (nextToken stops inp).2.length ≤ inp.length ∧
    ((nextToken stops inp).2.length < inp.length ∨ (nextToken stops inp).1.isEoe ∨
      (nextToken stops inp).1.isStopSep stops ∨ (nextToken stops inp).1.isOperator ∨
      (nextToken stops inp).1.isError) :=
  ⟨nextToken_length stops inp, nextToken_progress stops inp⟩
#assert_axioms C11_lexer_progress

/-- the parser never reaches `panic!("Internal error")`: for ALL strings -/
theorem C11_parser_no_panic (text : Str) : parse text ≠ .panic := parse_no_panic text
#assert_axioms C11_parser_no_panic

/-- the same for the three mutually recursive parser functions, any fuel, any input, any stack
that the parser itself can build (`StackOK`: expressions, identifiers, operators, `.`) -/
theorem C11_parser_functions_no_panic (fuel : Nat) :
    (∀ stops inp exprs stack, StackOK stack → parseSub fuel stops inp exprs stack ≠ .panic) ∧
    (∀ stop inp acc, parseArgs fuel stop inp acc ≠ .panic) ∧
    (∀ stop inp acc, parseMembers fuel stop inp acc ≠ .panic) := parser_no_panic fuel
#assert_axioms C11_parser_functions_no_panic

/-- the fuel of the parser model is sufficient: termination of the model's `parse` is real
termination, not an artefact of the fuel (for ALL strings) -/
theorem C11_parser_fuel_sufficient (text : Str) : parse text ≠ .outOfFuel :=
  parse_fuel_sufficient text
#assert_axioms C11_parser_fuel_sufficient

/-- the parser never reports a livelock: an operator token always consumes its character -/
theorem C11_parser_no_livelock (text : Str) : parse text ≠ .livelock := parse_no_livelock text
#assert_axioms C11_parser_no_livelock

/-- **Parsing, all strings, full strength**: every text parses to an expression or a parse error
(no panic, no livelock, no fuel artefact). -/
theorem C11_parse_total (text : Str) :
    (∃ e, parse text = .ok e) ∨ (∃ e, parse text = .err e) := by
  have h1 := parse_no_panic text
  have h2 := parse_fuel_sufficient text
  have h3 := parse_no_livelock text
  cases h : parse text with
  | ok e => exact Or.inl ⟨e, rfl⟩
  | err e => exact Or.inr ⟨e, rfl⟩
  | livelock => exact absurd h h3
  | panic => exact absurd h h1
  | outOfFuel => exact absurd h h2
#assert_axioms C11_parse_total

/-- `stack_to_expression` shortens its stack on every round: `stack.length + 1` rounds suffice -/
theorem C11_stackToExpr_fuel_sufficient (stack : List Item) :
    stackToExpr (stackFuel stack) stack ≠ .outOfFuel :=
  stackToExpr_fuel _ _ (by simp [stackFuel])
#assert_axioms C11_stackToExpr_fuel_sufficient

/-- **held-lock set empty after every evaluation that returns**: for every expression, flag and
store, if no data lock is held before and the evaluator returns a value or an error, no data lock
is held afterwards -/
theorem C11_locks_released {D : Type} (ops : DoubleOps D) (e : Expr) (au : Bool) (st : St D)
    (h : st.held = []) (ho : (eval ops e au st).2.isValueOrError = true) :
    (eval ops e au st).1.held = [] := eval_held ops e au st h ho
#assert_axioms C11_locks_released

/-- the same for `ExpressionParser::execute` on every source text -/
theorem C11_execute_locks_released {D : Type} (ops : DoubleOps D) (text : Str) (st : St D)
    (h : st.held = []) (ho : (execute ops text st).2.isValueOrError = true) :
    (execute ops text st).1.held = [] := by
  unfold execute at ho ⊢
  split
  · rename_i e he
    simp only [he] at ho
    exact eval_held ops e false st h ho
  all_goals exact h
#assert_axioms C11_execute_locks_released

/-- every `lock()` the evaluator itself performs is taken with nothing else held and succeeds; the
only place an evaluation can block is inside `DataArc::eq` (`==` / `!=`) -/
theorem C11_deadlock_only_in_equality {D : Type} (ops : DoubleOps D) (e : Expr) (au : Bool)
    (st : St D) (h : st.held = []) (s : LockSite) (hd : (eval ops e au st).2 = .deadlock s) :
    s = .equal := eval_deadlock_only_equal ops e au st h s hd
#assert_axioms C11_deadlock_only_in_equality

/-- the evaluator never panics (integer `%` and `abs` were the two sources) -/
theorem C11_evaluator_no_panic {D : Type} (ops : DoubleOps D) (e : Expr) (au : Bool)
    (st : St D) (h : st.held = []) (s : PanicSite) : (eval ops e au st).2 ≠ .panic s :=
  eval_no_panic ops e au st h s
#assert_axioms C11_evaluator_no_panic

/-- **no panic, all texts, all stores** -/
theorem C11_execute_no_panic {D : Type} (ops : DoubleOps D) (text : Str) (st : St D)
    (h : st.held = []) (s : PanicSite) : (execute ops text st).2 ≠ .panic s := by
  unfold execute
  split
  · exact eval_no_panic ops _ false st h s
  · intro hh; cases hh
  · rename_i hp; exact absurd hp (parse_no_panic text)
  · intro hh; cases hh
  · intro hh; cases hh
#assert_axioms C11_execute_no_panic

/-- the evaluator itself never loops: `livelock` is an outcome of parsing only.  (The outcome
`fuelOut` of the model's `==` / `Display` recursion through the heap is not excluded by a theorem:
each level locks a fresh cell, so `cells.length + 1` levels suffice — tier B, never observed in
the differential runs.) -/
theorem C11_evaluator_no_livelock {D : Type} (ops : DoubleOps D) (e : Expr) (au : Bool)
    (st : St D) (h : st.held = []) : (eval ops e au st).2 ≠ .livelock :=
  eval_no_livelock ops e au st h
#assert_axioms C11_evaluator_no_livelock

/-- **no self-deadlock in assignments and index expressions**: `l = r`, `l ?= r` and `l[i]` do not
block, whatever cells the two sub-expressions evaluate to — equal cells included (the side
condition `b.id ≠ a.id` of the former `…_distinct_partial` is gone). -/
theorem C11_no_self_deadlock {D : Type} (ops : DoubleOps D) (l r : Expr) (au : Bool)
    (st st1 st2 : St D) (a b : Ref) (hst : st.held = []) (s : LockSite) :
    (eval ops r false st = (st1, .ok a) → eval ops l au st1 = (st2, .ok b) →
      (eval ops (.assign l r) au st).2 ≠ .deadlock s) ∧
    (eval ops r au st = (st1, .ok a) → eval ops l true st1 = (st2, .ok b) →
      (eval ops (.assignUndef l r) au st).2 ≠ .deadlock s) ∧
    (eval ops l au st = (st1, .ok a) → eval ops r au st1 = (st2, .ok b) →
      (eval ops (.index l r) au st).2 ≠ .deadlock s) :=
  ⟨fun h1 h2 => assign_no_deadlock ops l r au st st1 st2 a b hst h1 h2 s,
   fun h1 h2 => assignUndef_no_deadlock ops l r au st st1 st2 a b hst h1 h2 s,
   fun h1 h2 => index_no_deadlock ops l r au st st1 st2 a b hst h1 h2 s⟩
#assert_axioms C11_no_self_deadlock

/-- non-vacuity: `a = b` with two different cells assigns and holds nothing afterwards -/
example {D : Type} (ops : DoubleOps D) :
    (execute ops [97, 32, 61, 32, 98] ⟨[.int 7, .int 8], [([97], ⟨0, false⟩), ([98], ⟨1, false⟩)], []⟩).2
      = .ok ⟨0, false⟩ ∧
    (execute ops [97, 32, 61, 32, 98] ⟨[.int 7, .int 8], [([97], ⟨0, false⟩), ([98], ⟨1, false⟩)], []⟩).1.held
      = [] := ⟨rfl, rfl⟩

/-- every operator other than `==` / `!=` yields a value or an error value: arithmetic neither
panics nor blocks -/
theorem C11_arithmetic_total {D : Type} (ops : DoubleOps D) (cells : Cells D)
    (held : List Nat) (o : Op) (l r : Data D) (h1 : o ≠ .equal) (h2 : o ≠ .notEqual) :
    ∃ d n, operation ops cells held o l r = .val d n :=
  operation_val ops cells held o l r h1 h2
#assert_axioms C11_arithmetic_total

/-- integer `%` is total: the truncated remainder, an error value for a zero divisor, and
`i64::MIN % -1 = 0` -/
theorem C11_modulus_total {D : Type} (ops : DoubleOps D) (cells : Cells D) (held : List Nat)
    (a b : Int) :
    (b ≠ 0 → operation ops cells held .modulus (.int a) (.int b) = .val (.int (Int.tmod a b)) []) ∧
    operation ops cells held .modulus (.int a) (.int 0) = .val (.error .remUndefined) [] ∧
    operation ops cells held .modulus (.int i64Min) (.int (-1)) = .val (.int 0) [] :=
  ⟨operation_modulus_int ops cells held a b, operation_modulus_zero ops cells held a,
   operation_modulus_min ops cells held⟩
#assert_axioms C11_modulus_total

/-- **C11, what holds for every text and every store**: `execute` ends with a value or an error —
or blocks inside `DataArc::eq` (`deadlock .equal`: cyclic operands of `==` / `!=`,
`C11_counterexample_equal_cyclic`), or the model's heap recursion runs out of fuel (`fuelOut`,
tier B: not excluded by a theorem, never observed); and when it ends with a value or an error no
data lock is held.
Missing for `C11_full`: exactly the two outcomes named here. -/
theorem C11_partial {D : Type} (ops : DoubleOps D) (text : Str) (st : St D) (h : st.held = []) :
    ((execute ops text st).2.isValueOrError = true ∨ (execute ops text st).2 = .deadlock .equal ∨
      (execute ops text st).2 = .fuelOut) ∧
    ((execute ops text st).2.isValueOrError = true → (execute ops text st).1.held = []) := by
  refine ⟨?_, C11_execute_locks_released ops text st h⟩
  unfold execute
  split
  · rename_i e he
    have hp := eval_no_panic ops e false st h
    have hl := eval_no_livelock ops e false st h
    have hd := eval_deadlock_only_equal ops e false st h
    cases ho : (eval ops e false st).2 with
    | ok a => exact Or.inl rfl
    | err e => exact Or.inl rfl
    | panic s => exact absurd ho (hp s)
    | deadlock s => rw [hd s ho]; exact Or.inr (Or.inl rfl)
    | livelock => exact absurd ho hl
    | fuelOut => exact Or.inr (Or.inr rfl)
  · exact Or.inl rfl
  · rename_i hp; exact absurd hp (parse_no_panic text)
  · rename_i hp; exact absurd hp (parse_no_livelock text)
  · rename_i hp; exact absurd hp (parse_fuel_sufficient text)
#assert_axioms C11_partial

end Rfsm.Expr
