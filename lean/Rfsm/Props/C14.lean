import Rfsm.Audit
import Rfsm.Props.C07
/-!
# C14 — Invoked child sessions follow the SCXML invoke life cycle

Model: the invoke bookkeeping of `Rfsm.Interp` — `toInvoke` (`statesToInvoke`), `runInvokes` /
`invokeState` / `invokeOne`, `children` (`GlobalData.child_sessions`), `cancelChildren` in
`exitOne`, the dequeue filter `acceptExternal` / `takeExternal`, `preExternal` (`done.invoke`
bookkeeping, `_event`, `<finalize>`, autoforward) and `exitInterpreter`.

The model follows the code *after* two repairs made while building this check (`fix:` commits in
/repo): every `<invoke>` element has its own document id (all were 0: leaving any invoking state
cancelled every invocation of the machine, and every `<finalize>` of a state ran for each of its
children), and autoforward sends every external event to every active autoforward invocation (it
only echoed a child's own events back to that child).

What the code does NOT guarantee, shown as counterexample theorems and replayed by the harness:
`done.invoke.*`-named events bypass the filter (`C14_counterexample_done_invoke_bypass`, P14), and
the bookkeeping is keyed by the invoke id alone, so with an author-chosen `id` a late event or
`done.invoke` of an earlier invocation is attributed to the re-invoked one
(`C14_counterexample_late_done_unregisters_new_instance`).
-/
namespace Rfsm.Interp
open Rfsm.Descriptor (Str)

variable {σ : Type}

/-! ## (a) which states are invoked: `statesToInvoke` through a microstep -/

theorem foldl_runContent_sameCore (env : Env σ) : ∀ (l : List Nat) (s : Sess σ),
    SameCore s (l.foldl (runContent env) s) := by
  intro l
  induction l with
  | nil => intro s; exact SameCore.refl s
  | cons c l ih =>
    intro s
    simp only [List.foldl_cons]
    refine SameCore.trans ?_ (ih _)
    unfold runContent
    simp only
    split
    · exact sameCore_emit _ _
    · exact (sameCore_emit s _).trans (sameCore_absorb _ _)
#assert_axioms foldl_runContent_sameCore

theorem enterOne_toInvoke (env : Env σ) (d : Doc) (acc : EntryAcc) (s : Sess σ) (sid : Nat) :
    (enterOne env d acc s sid).toInvoke = oadd s.toInvoke sid := by
  unfold enterOne
  have h1 : ∀ s0 : Sess σ, (enterFinal env d s0 sid).toInvoke = s0.toInvoke := by
    intro s0
    unfold enterFinal
    simp only
    split
    · split
      · rfl
      · split <;> rfl
    · rfl
  have h2 := (foldl_runContent_kept env (entryContent d acc sid) (enterInit env d (enterAdd s sid) sid)).toInvoke
  have h3 : (enterInit env d (enterAdd s sid) sid).toInvoke = (enterAdd s sid).toInvoke := by
    unfold enterInit; split <;> rfl
  rw [h1, h2, h3]
  rfl
#assert_axioms enterOne_toInvoke

theorem foldl_enterOne_toInvoke (env : Env σ) (d : Doc) (acc : EntryAcc) : ∀ (l : List Nat) (s : Sess σ),
    (l.foldl (enterOne env d acc) s).toInvoke = l.foldl oadd s.toInvoke := by
  intro l
  induction l with
  | nil => intro s; rfl
  | cons a l ih => intro s; simp only [List.foldl_cons]; rw [ih, enterOne_toInvoke]
#assert_axioms foldl_enterOne_toInvoke

/-- `statesToInvoke` after a microstep = (what it was, minus the exit set) plus the entry set -/
theorem C14_toInvoke_microstep (env : Env σ) (d : Doc) (s : Sess σ) (ts : List Nat) (x : Nat) :
    x ∈ (microstep env d s ts).toInvoke ↔
      (x ∈ s.toInvoke ∧ x ∉ computeExitSet d s.hv s.cfg ts) ∨
      x ∈ (computeEntrySet d (exitStates env d s ts).hv ts).toEnter := by
  unfold microstep enterStates
  simp only
  have hk := executeTransitionContent_kept env d ts (exitStates env d s ts)
  rw [foldl_enterOne_toInvoke, mem_foldl_oadd, mem_sortBy, hk.toInvoke, hk.hv]
  have he : (exitStates env d s ts).toInvoke = (computeExitSet d s.hv s.cfg ts).foldl odel s.toInvoke := by
    unfold exitStates
    rw [(foldl_exitOne env d _ (exitPrepare d s ts)).2.2.2.1]
    rfl
  rw [he, mem_foldl_odel]
#assert_axioms C14_toInvoke_microstep

/-- … so a state that is entered and exited again before the macrostep ends is not invoked, and the
states waiting for their invocation are always active: `statesToInvoke ⊆ configuration` is
preserved by every microstep -/
theorem C14_toInvoke_subset_cfg (env : Env σ) (d : Doc) (s : Sess σ) (ts : List Nat)
    (h : ∀ x, x ∈ s.toInvoke → x ∈ s.cfg) :
    ∀ x, x ∈ (microstep env d s ts).toInvoke → x ∈ (microstep env d s ts).cfg := by
  intro x hx
  rw [C14_toInvoke_microstep] at hx
  unfold microstep
  have hk := executeTransitionContent_kept env d ts (exitStates env d s ts)
  rw [(enterStates_spec env d _ ts).1, hk.cfg, hk.hv]
  cases hx with
  | inl hx => exact Or.inl (((exitStates_spec env d s ts).1 x).2 ⟨h x hx.1, hx.2⟩)
  | inr hx => exact Or.inr hx
#assert_axioms C14_toInvoke_subset_cfg

/-- start-up: exactly the initial configuration waits for invocation -/
theorem C14_toInvoke_start (env : Env σ) (d : Doc) (s0 : Sess σ) (h0 : s0.toInvoke = []) (ts : List Nat) (x : Nat) :
    x ∈ (enterStates env d s0 ts).toInvoke ↔ x ∈ (computeEntrySet d s0.hv ts).toEnter := by
  unfold enterStates
  simp only
  rw [foldl_enterOne_toInvoke, mem_foldl_oadd, mem_sortBy, h0]
  simp
#assert_axioms C14_toInvoke_start

/-! ## (b) the invocation phase at the end of a macrostep -/

/-- the `<invoke>` elements of a state in the order `invokeState` starts them -/
def invokeOrder (d : Doc) (sid : Nat) : List Invoke :=
  (sortBy (fun i => i) ((getState d sid).invokes.map (·.docId))).filterMap
    (fun idoc => (getState d sid).invokes.find? (·.docId == idoc))

theorem invokeOne_trace (env : Env σ) (sid : Nat) (s : Sess σ) (inv : Invoke) :
    (invokeOne env sid s inv).trace = s.trace ++ [.invoke sid inv.docId] ∧
    (invokeOne env sid s inv).toInvoke = s.toInvoke := by
  unfold invokeOne
  simp only
  split <;> exact ⟨rfl, rfl⟩
#assert_axioms invokeOne_trace

theorem invokeState_trace (env : Env σ) (d : Doc) (s : Sess σ) (sid : Nat) :
    (invokeState env d s sid).trace = s.trace ++ (invokeOrder d sid).map (fun inv => Obs.invoke sid inv.docId) ∧
    (invokeState env d s sid).toInvoke = s.toInvoke := by
  unfold invokeState invokeOrder
  simp only
  generalize sortBy (fun i => i) ((getState d sid).invokes.map (·.docId)) = l
  induction l generalizing s with
  | nil => simp
  | cons a l ih =>
    simp only [List.foldl_cons, List.filterMap_cons]
    cases hf : (getState d sid).invokes.find? (·.docId == a) with
    | none => simp only; exact ih s
    | some inv =>
      simp only
      obtain ⟨h1, h2⟩ := ih (invokeOne env sid s inv)
      obtain ⟨i1, i2⟩ := invokeOne_trace env sid s inv
      refine ⟨?_, h2.trans i2⟩
      rw [h1, i1]
      simp
#assert_axioms invokeState_trace

/-- the invocation phase: every state waiting in `statesToInvoke` — each once, in document
(entry) order — has each of its `<invoke>` elements started once, in document order; nothing else
is started; afterwards nothing waits -/
theorem C14_invoke_phase (env : Env σ) (d : Doc) (s : Sess σ) :
    (runInvokes env d s).trace =
      s.trace ++ (sortBy (docIdOf d) s.toInvoke).flatMap
        (fun sid => (invokeOrder d sid).map (fun inv => Obs.invoke sid inv.docId)) ∧
    (runInvokes env d s).toInvoke = [] ∧
    (sortBy (docIdOf d) s.toInvoke).Perm s.toInvoke := by
  refine ⟨?_, rfl, sortBy_perm _ _⟩
  unfold runInvokes
  simp only
  generalize sortBy (docIdOf d) s.toInvoke = l
  induction l generalizing s with
  | nil => simp
  | cons a l ih =>
    simp only [List.foldl_cons, List.flatMap_cons]
    rw [ih, (invokeState_trace env d s a).1]
    simp
#assert_axioms C14_invoke_phase

/-! ## (c) an invocation is cancelled when its state is exited -/

theorem foldl_cancelOne_children : ∀ (hit : List Child) (s : Sess σ),
    (hit.foldl cancelOne s).children = s.children.filter (fun c => !hit.contains c) ∧
    (hit.foldl cancelOne s).trace = s.trace ++ hit.map (fun c => Obs.cancelInvoke c.invokeId) := by
  intro hit
  induction hit with
  | nil => intro s; exact ⟨(List.filter_eq_self.2 (fun _ _ => rfl)).symm, by simp⟩
  | cons c l ih =>
    intro s
    simp only [List.foldl_cons]
    obtain ⟨h1, h2⟩ := ih (cancelOne s c)
    refine ⟨?_, ?_⟩
    · rw [h1]
      simp only [cancelOne, List.filter_filter]
      apply List.filter_congr
      intro x _
      rw [List.contains_cons]
      simp only [bne]
      cases (x == c) <;> cases (l.contains x) <;> rfl
    · rw [h2]; simp [cancelOne]
#assert_axioms foldl_cancelOne_children

/-- leaving a state: every registered invocation started by one of the state's `<invoke>`
elements is cancelled (a `cancelInvoke` for its id, in registration order) and forgotten, before
the state's `onexit` content runs; all other invocations stay registered -/
theorem cancelChildren_children (d : Doc) (s : Sess σ) (sid : Nat) :
    (cancelChildren d s sid).children =
      s.children.filter (fun c => !((getState d sid).invokes.map (·.docId)).contains c.invDoc) := by
  unfold cancelChildren
  simp only
  rw [(foldl_cancelOne_children _ _).1]
  apply List.filter_congr
  intro x hx
  have key : (s.children.filter (fun c => ((getState d sid).invokes.map (·.docId)).contains c.invDoc)).contains x =
      ((getState d sid).invokes.map (·.docId)).contains x.invDoc := by
    apply Bool.eq_iff_iff.2
    rw [List.contains_iff_mem, List.mem_filter]
    exact ⟨fun h => h.2, fun h => ⟨hx, h⟩⟩
  rw [key]
#assert_axioms cancelChildren_children

theorem C14_cancel_on_exit (env : Env σ) (d : Doc) (s : Sess σ) (sid : Nat) :
    let docs := (getState d sid).invokes.map (·.docId)
    (exitOne env d s sid).children = s.children.filter (fun c => !docs.contains c.invDoc) ∧
    (cancelChildren d (s.emit [.exit sid]) sid).trace =
      s.trace ++ [.exit sid] ++
        ((s.children.filter (fun c => docs.contains c.invDoc)).map (fun c => Obs.cancelInvoke c.invokeId)) := by
  simp only
  constructor
  · unfold exitOne
    simp only
    have hk := foldl_runContent_sameCore env (getState d sid).onexit (cancelChildren d (s.emit [.exit sid]) sid)
    have : ∀ s0 : Sess σ, ({ s0 with cfg := odel s0.cfg sid } : Sess σ).children = s0.children := fun _ => rfl
    rw [this, hk.2.2.2.2.2, cancelChildren_children]
    rfl
  · unfold cancelChildren
    simp only
    rw [(foldl_cancelOne_children _ _).2]
    simp [Sess.emit]
#assert_axioms C14_cancel_on_exit

/-! ## (d) the dequeue filter -/

/-- an event that carries the invoke id of an invocation that is not (or no longer) registered, is
not named `done.invoke.*` and is not from the session's own invoker, is never handed to the
interpreter: `takeExternal` discards it -/
theorem C14_filter_drops (caller : Str) (s : Sess σ) (e : Event) (rest : List Event) (iid : Str)
    (hi : e.invokeId = some iid) (hc : caller ≠ iid)
    (hn : doneInvokePrefix.isPrefixOf e.name = false)
    (hr : s.children.any (·.invokeId == iid) = false) :
    acceptExternal caller s e = false ∧
    takeExternal caller s (e :: rest) = takeExternal caller (s.emit [.dropped e.name]) rest := by
  have h : acceptExternal caller s e = false := by
    unfold acceptExternal
    simp [hn, hi, hc, hr]
  refine ⟨h, ?_⟩
  conv => lhs; unfold takeExternal
  simp [h]
#assert_axioms C14_filter_drops

theorem eq_of_nodup_map {α β : Type} (f : α → β) : ∀ (l : List α), (l.map f).Nodup →
    ∀ x ∈ l, ∀ y ∈ l, f x = f y → x = y := by
  intro l
  induction l with
  | nil => intro _ x hx; cases hx
  | cons a l ih =>
    intro hn x hx y hy hxy
    simp only [List.map_cons, List.nodup_cons, List.mem_map, not_exists, not_and] at hn
    simp only [List.mem_cons] at hx hy
    cases hx with
    | inl hx =>
      cases hy with
      | inl hy => rw [hx, hy]
      | inr hy => subst hx; exact absurd hxy.symm (hn.1 y hy)
    | inr hx =>
      cases hy with
      | inl hy => subst hy; exact absurd hxy (hn.1 x hx)
      | inr hy => exact ih hn.2 x hx y hy hxy
#assert_axioms eq_of_nodup_map

/-- after `cancelInvoke c` (ids of registered invocations pairwise distinct) no event carrying
`c`'s invoke id passes the filter — unless it is named `done.invoke.*` -/
theorem C14_no_event_after_cancel_partial (caller : Str) (s : Sess σ) (c : Child) (e : Event)
    (hu : (s.children.map (·.invokeId)).Nodup) (hm : c ∈ s.children)
    (hi : e.invokeId = some c.invokeId) (hc : caller ≠ c.invokeId)
    (hn : doneInvokePrefix.isPrefixOf e.name = false) :
    acceptExternal caller (cancelOne s c) e = false := by
  unfold acceptExternal
  simp only [hn, hi, Bool.false_eq_true, if_false]
  rw [if_pos (by simpa using hc)]
  simp only [cancelOne]
  rw [List.any_eq_false]
  intro x hx
  have hx' := List.mem_filter.1 hx
  have hne : x ≠ c := by simpa using hx'.2
  intro heq
  have heq' : x.invokeId = c.invokeId := by simpa using heq
  -- two different registered children with the same id contradict `Nodup`
  have : x = c := eq_of_nodup_map (·.invokeId) s.children hu x hx'.1 c hm heq'
  exact hne this
#assert_axioms C14_no_event_after_cancel_partial

/-- P14: an event named `done.invoke.<anything>` passes the filter whatever invoke id it carries
— also the one of a cancelled invocation -/
theorem C14_counterexample_done_invoke_bypass (caller : Str) (s : Sess σ) (e : Event)
    (hn : doneInvokePrefix.isPrefixOf e.name = true) : acceptExternal caller s e = true := by
  unfold acceptExternal
  simp [hn]
#assert_axioms C14_counterexample_done_invoke_bypass

/-- "processes no event from a child after cancelling it" at full strength -/
def C14_no_event_after_cancel_full : Prop :=
  ∀ (σ : Type) (caller : Str) (s : Sess σ) (c : Child) (e : Event),
    (s.children.map (·.invokeId)).Nodup → c ∈ s.children → e.invokeId = some c.invokeId →
    caller ≠ c.invokeId → acceptExternal caller (cancelOne s c) e = false

theorem C14_counterexample : ¬ C14_no_event_after_cancel_full := by
  intro h
  have := h Unit [] { dm := (), children := [{ invokeId := [99], state := 2, invDoc := 5 }] }
    { invokeId := [99], state := 2, invDoc := 5 }
    { name := doneInvokePrefix ++ [99], invokeId := some [99] } (by decide) (by simp) rfl (by decide)
  rw [C14_counterexample_done_invoke_bypass] at this
  · cases this
  · simp [List.isPrefixOf_iff_prefix]
#assert_axioms C14_counterexample

/-- the registration is keyed by the invoke id alone: the `done.invoke` of an EARLIER invocation
that used the same (author-chosen) id removes the registration of the current one, whose later
events are then dropped and which is not cancelled when its state is left -/
theorem C14_counterexample_late_done_unregisters_new_instance (s : Sess σ) (cnew : Child) (e : Event)
    (hn : doneInvokePrefix.isPrefixOf e.name = true) (hi : e.invokeId = some cnew.invokeId)
    (hs : s.children = [cnew]) :
    (forgetDoneChild s e).children = [] := by
  unfold forgetDoneChild
  simp [hn, hi, hs]
#assert_axioms C14_counterexample_late_done_unregisters_new_instance

/-! ## (e) `_event`, `<finalize>` before the selection, autoforward -/

/-- processing an accepted external event: first the preliminaries — `done.invoke` bookkeeping,
`_event` (with its `invokeid`), the `<finalize>` blocks, autoforward — and only then the selection
of transitions, in the session the preliminaries produced -/
theorem C14_finalize_before_selection (env : Env σ) (d : Doc) (s : Sess σ) (e : Event) :
    processExternal env d s e =
      (if (select env d (some e.name) (preExternal env d s e)).2.isEmpty
       then (select env d (some e.name) (preExternal env d s e)).1
       else microstep env d (select env d (some e.name) (preExternal env d s e)).1
              (select env d (some e.name) (preExternal env d s e)).2) ∧
    preExternal env d s e =
      (forwardList d (forgetDoneChild (s.emit [.ext e.name]) e) e).foldl (forwardOne e)
        ((finalizeList d (forgetDoneChild (s.emit [.ext e.name]) e) e).foldl (runContent env)
          { forgetDoneChild (s.emit [.ext e.name]) e with
              dm := env.setEvent (forgetDoneChild (s.emit [.ext e.name]) e).dm e }) :=
  ⟨rfl, rfl⟩
#assert_axioms C14_finalize_before_selection

/-- which `<finalize>` runs: the one of the `<invoke>` element that started the sender — none for
an event that does not come from a registered invocation -/
theorem C14_finalize_of_the_sender (d : Doc) (s : Sess σ) (e : Event) :
    (e.invokeId = none → finalizeList d s e = []) ∧
    (∀ iid, e.invokeId = some iid → s.children.find? (·.invokeId == iid) = none → finalizeList d s e = []) ∧
    (∀ iid c, e.invokeId = some iid → s.children.find? (·.invokeId == iid) = some c →
      finalizeList d s e = ((getState d c.state).invokes.filter (·.docId == c.invDoc)).map (·.finalize)) := by
  refine ⟨?_, ?_, ?_⟩
  · intro h; simp [finalizeList, childOf, h]
  · intro iid h1 h2; simp [finalizeList, childOf, h1, h2]
  · intro iid c h1 h2; simp [finalizeList, childOf, h1, h2]
#assert_axioms C14_finalize_of_the_sender

theorem foldl_forwardOne_trace (e : Event) : ∀ (l : List Str) (s : Sess σ),
    (∀ i ∈ l, s.children.any (·.invokeId == i) = true) →
    (l.foldl (forwardOne e) s).trace = s.trace ++ l.map (fun i => Obs.forward i e.name) := by
  intro l
  induction l with
  | nil => intro s _; simp
  | cons a l ih =>
    intro s h
    simp only [List.foldl_cons]
    have ha : s.children.any (·.invokeId == a) = true := h a (by simp)
    have hs : forwardOne e s a = s.emit [.forward a e.name] := by
      unfold forwardOne; simp [ha]
    rw [hs, ih]
    · simp [Sess.emit]
    · intro i hi; exact h i (by simp [hi])
#assert_axioms foldl_forwardOne_trace

/-- autoforward: every external event the session accepts (not one that reports `done.invoke`)
is forwarded — after `<finalize>`, before the selection — to every registered invocation whose
`<invoke>` element has `autoforward`, once each, and to no other -/
theorem C14_autoforward (env : Env σ) (d : Doc) (s : Sess σ) (e : Event)
    (hn : doneInvokePrefix.isPrefixOf e.name = false) :
    ∃ pre : List Obs,
      (preExternal env d s e).trace =
        pre ++ ((s.children.filter (childAutoforward d)).map (fun c => Obs.forward c.invokeId e.name)) := by
  have hf : forgetDoneChild (s.emit [.ext e.name]) e = s.emit [.ext e.name] := by
    unfold forgetDoneChild; simp [hn]
  unfold preExternal
  simp only [hf]
  have hk := foldl_runContent_sameCore env (finalizeList d (s.emit [.ext e.name]) e)
    { s.emit [.ext e.name] with dm := env.setEvent (s.emit [.ext e.name]).dm e }
  have hch : ((finalizeList d (s.emit [.ext e.name]) e).foldl (runContent env)
      { s.emit [.ext e.name] with dm := env.setEvent (s.emit [.ext e.name]).dm e }).children = s.children :=
    hk.2.2.2.2.2
  generalize (finalizeList d (s.emit [.ext e.name]) e).foldl (runContent env)
    { s.emit [.ext e.name] with dm := env.setEvent (s.emit [.ext e.name]).dm e } = X at hch ⊢
  refine ⟨X.trace, ?_⟩
  rw [foldl_forwardOne_trace]
  · simp only [forwardList, Sess.emit, List.map_map]
    rfl
  · intro i hi
    rw [hch]
    simp only [forwardList, Sess.emit, List.mem_map, List.mem_filter] at hi
    obtain ⟨c, ⟨hc, _⟩, rfl⟩ := hi
    rw [List.any_eq_true]
    exact ⟨c, hc, by simp⟩
#assert_axioms C14_autoforward

/-! ## (f) `done.invoke` — see C07: `C07_exit_interpreter`, `C07_done_invoke_only_for_child_sessions` -/

/-- the parent forgets an invocation when its `done.invoke` is accepted -/
theorem C14_done_forgets (s : Sess σ) (e : Event) (iid : Str)
    (hn : doneInvokePrefix.isPrefixOf e.name = true) (hi : e.invokeId = some iid) :
    (forgetDoneChild s e).children = s.children.filter (·.invokeId != iid) := by
  unfold forgetDoneChild
  simp [hn, hi]
#assert_axioms C14_done_forgets


/-- the child's side of "done.invoke after all other events of that child": when the session ends
in a top-level final state `f` (the legal configuration is then `{<scxml>, f}`; the `<scxml>` element
has no `onexit` and is no final state), `done.invoke` is the LAST thing `exitInterpreter` does —
after the final state's own `onexit` content, with nothing after it -/
theorem C14_done_invoke_last (env : Env σ) (d : Doc) (hasParent : Bool) (s : Sess σ) (f : Nat)
    (hcfg : sortByDesc (docIdOf d) s.cfg = [f, d.root])
    (hrx : (getState d d.root).onexit = []) (hrf : isFinalStateId d d.root = false) :
    let s0 := s.children.foldl (fun s c => s.emit [.cancelInvoke c.invokeId]) (s.emit [.finalCfg s.cfg])
    let s1 := (getState d f).onexit.foldl (runContent env) s0
    (exitInterpreter env d hasParent s).trace =
      s1.trace ++ (if isFinalStateId d f && (getState d f).parent == d.root && hasParent then [.doneInvoke] else []) := by
  simp only
  rw [(C07_exit_interpreter env d hasParent s).2.2, hcfg]
  simp only [List.foldl_cons, List.foldl_nil]
  have hroot : ∀ s0 : Sess σ, (exitFinalOne env d hasParent s0 d.root).trace = s0.trace := by
    intro s0
    unfold exitFinalOne
    simp [hrx, hrf]
  rw [hroot]
  unfold exitFinalOne
  simp only
  split <;> simp [Sess.emit]
#assert_axioms C14_done_invoke_last

/-- events raised while invoking (an `<invoke>` whose argument evaluation fails raises
`error.execution`) are handled before the session waits for the next external event: with a
non-empty internal queue after the invocation phase the loop starts the next macrostep at once -/
theorem C14_invoke_errors_handled_first (env : Env σ) (d : Doc) (c : Str) (m f : Nat) (s s1 : Sess σ)
    (feed : List (List Event)) (hr : s.running = true) (hm : macroLoop env d m s = some s1)
    (hr1 : s1.running = true) (hq : (runInvokes env d s1).iq ≠ []) :
    mainLoop env d c m (f + 1) s feed = mainLoop env d c m f (runInvokes env d s1) feed := by
  conv => lhs; unfold mainLoop
  simp [hr, hm, hr1, hq]
#assert_axioms C14_invoke_errors_handled_first

/-- C14 — what is proved for the code as it is (the conjunction of the clauses above) -/
theorem C14_partial (env : Env σ) (d : Doc) (s : Sess σ) (ts : List Nat) :
    ((∀ x, x ∈ s.toInvoke → x ∈ s.cfg) →
      ∀ x, x ∈ (microstep env d s ts).toInvoke → x ∈ (microstep env d s ts).cfg) ∧
    (runInvokes env d s).toInvoke = [] ∧
    (∀ sid, (exitOne env d s sid).children =
      s.children.filter (fun c => !((getState d sid).invokes.map (·.docId)).contains c.invDoc)) :=
  ⟨C14_toInvoke_subset_cfg env d s ts, rfl, fun sid => (C14_cancel_on_exit env d s sid).1⟩
#assert_axioms C14_partial

/-! non-vacuity -/
private def exDoc14 : Doc :=
  { root := 1, states := [
      { id := 1, docId := 1, kids := [2, 3], initial := 0 },
      { id := 2, docId := 2, parent := 1, invokes := [{ docId := 7, autoforward := true, finalize := 0, id := [99] }] },
      { id := 3, docId := 3, parent := 1 }], transitions := [] }
example : invokeOrder exDoc14 2 = [{ docId := 7, autoforward := true, finalize := 0, id := [99] }] := by decide
example : sortByDesc (docIdOf exDoc14) [1, 3] = [3, 1] ∧ (getState exDoc14 1).onexit = [] ∧
    isFinalStateId exDoc14 1 = false := by decide
example : childAutoforward exDoc14 { invokeId := [99], state := 2, invDoc := 7 } = true := by decide

end Rfsm.Interp
