import Rfsm.Audit
import Rfsm.Proofs.HistoryLemmas
import Rfsm.Proofs.HistoryInv
import Rfsm.Props.C01
/-!
# C06 — History states restore exactly what was active when the parent was left

Model: `exitStates` / `exitPrepare` / `historyRecord` / `histVal` (recording), `addDesc` / `addAnc`
(restoring and default), `entryContent` (where the default transition's content runs) of
`Rfsm.Interp`, transcribing `exitStates`, `addDescendantStatesToEnter`, `enterStates` of
`src/fsm.rs`.
-/
namespace Rfsm.Interp

variable {σ : Type}

/-- C06 at full strength: (record) as `C06_record`; (restore) entering a history state with value
    `vs` yields exactly the completion of `vs` (vs, default descendants, ancestors below the
    domain, default completion of parallel siblings); (default) as `C06_default_*`. -/
def C06_full : Prop :=
  ∀ (σ : Type) (env : Env σ) (d : Doc) (s : Sess σ) (ts : List Nat),
    -- record
    (∀ sid h, sid ∈ computeExitSet d s.hv s.cfg ts → h ∈ (getState d sid).history →
      (∀ s2, h ∈ (getState d s2).history → s2 = sid) →
      tget (exitStates env d s ts).hv h = some (histVal d s.cfg sid h)) ∧
    -- restore (soundness half): recorded non-history states are entered
    (∀ (hv : Table) f h acc vs, isHistoryState d h = true → tget hv h = some vs →
      (∀ v ∈ vs, isHistoryState d v = false) → ∀ v ∈ vs, v ∈ (addDesc d hv (f + 2) h acc).toEnter)

/-- (record) when a state owning history child `h` is exited, `h` records the active children
    (shallow) resp. active atomic descendants (deep) of the configuration *before* the exit; history
    states of states that stay active keep their value -/
theorem C06_record (env : Env σ) (d : Doc) (s : Sess σ) (ts : List Nat) :
    (∀ sid h, sid ∈ computeExitSet d s.hv s.cfg ts → h ∈ (getState d sid).history →
      (∀ s2, h ∈ (getState d s2).history → s2 = sid) →
      tget (exitStates env d s ts).hv h = some (histVal d s.cfg sid h)) ∧
    (∀ h, (∀ sid ∈ computeExitSet d s.hv s.cfg ts, h ∉ (getState d sid).history) →
      tget (exitStates env d s ts).hv h = tget s.hv h) :=
  ⟨fun sid h hs hh hu => exitStates_records env d s ts sid h hs hh hu,
   fun h hn => exitStates_keeps env d s ts h hn⟩
#assert_axioms C06_record

/-- what is recorded: shallow = members of the configuration whose parent is the exited state,
    deep = atomic members that are descendants of it; duplicate free, in configuration order -/
theorem C06_recorded_value (d : Doc) (cfg : List Nat) (sid hid x : Nat) :
    x ∈ histVal d cfg sid hid ↔
      x ∈ cfg ∧ (if (getState d hid).histType = 2 then isAtomicStateId d x = true ∧ isDescendant d x sid = true
                 else parentOf d x = sid) := by
  unfold histVal
  by_cases h : (getState d hid).histType = 2
  · simp [h, mem_foldl_oadd]
  · simp [h, mem_foldl_oadd]
#assert_axioms C06_recorded_value

/-- (restore) a transition target that is a history state with a recorded value enters every
    recorded state (and nothing is ever removed from the entry set afterwards) -/
theorem C06_restore (d : Doc) (hv : Table) (f h : Nat) (acc : EntryAcc) (vs : List Nat)
    (hh : isHistoryState d h = true) (hval : tget hv h = some vs)
    (hvs : ∀ v ∈ vs, isHistoryState d v = false) :
    ∀ v ∈ vs, v ∈ (addDesc d hv (f + 2) h acc).toEnter :=
  history_restores hv f h acc vs hh hval hvs
#assert_axioms C06_restore

/-- (restore) with a recorded value the default transition is not used: the step is exactly
    "add descendants of each recorded state, then their ancestors up to the history's parent" and
    `defaultHistoryContent` is not touched at this level -/
theorem C06_restore_step (d : Doc) (hv : Table) (f h : Nat) (acc : EntryAcc) (vs : List Nat)
    (hh : isHistoryState d h = true) (hval : tget hv h = some vs) :
    addDesc d hv (f + 1) h acc =
      vs.foldl (fun a s => addAnc d hv f s (getState d h).parent a)
        (vs.foldl (fun a s => addDesc d hv f s a) acc) := by
  conv => lhs; unfold addDesc
  simp only [hh, ↓reduceIte, hval]
#assert_axioms C06_restore_step

/-- (default) only if nothing was recorded the default transition is followed, and its content is
    registered for the history state's parent -/
theorem C06_default_step (d : Doc) (hv : Table) (f h : Nat) (acc : EntryAcc)
    (hh : isHistoryState d h = true) (hval : tget hv h = none) :
    addDesc d hv (f + 1) h acc =
      let dt := histTransition d h
      let acc1 := { acc with histContent := hcPut acc.histContent (getState d h).parent dt.content }
      dt.target.foldl (fun a s => addAnc d hv f s (getState d h).parent a)
        (dt.target.foldl (fun a s => addDesc d hv f s a) acc1) := by
  conv => lhs; unfold addDesc
  simp only [hh, ↓reduceIte, hval]
#assert_axioms C06_default_step

/-- (default) the registered content runs as part of entering the parent state, after the parent's
    onentry blocks and after the initial transition's content, exactly once per entry -/
theorem C06_default_content_position (d : Doc) (acc : EntryAcc) (sid c : Nat)
    (hc : hcGet acc.histContent sid = some c) :
    entryContent d acc sid =
      ((getState d sid).onentry
        ++ (if acc.defaultEntry.contains sid && (getState d sid).initial > 0
            then [(getTrans d (getState d sid).initial).content] else [])
        ++ [c]).filter (· > 0) := by
  unfold entryContent
  simp only [hc]
#assert_axioms C06_default_content_position

/-- (default) … and not otherwise: without a registration nothing of a history default runs -/
theorem C06_no_default_content (d : Doc) (acc : EntryAcc) (sid : Nat)
    (hc : hcGet acc.histContent sid = none) :
    entryContent d acc sid =
      ((getState d sid).onentry
        ++ (if acc.defaultEntry.contains sid && (getState d sid).initial > 0
            then [(getTrans d (getState d sid).initial).content] else [])).filter (· > 0) := by
  unfold entryContent
  simp only [hc, List.append_nil]
#assert_axioms C06_no_default_content

/-- what a history table may contain for history state `h`: members are proper states (never
    history pseudo-states) that were active together; for a deep history they are atomic descendants
    of `h`'s parent, for a shallow one children of `h`'s parent -/
def GoodValue (d : Doc) (h : Nat) (vs : List Nat) : Prop :=
  ∀ v ∈ vs, isHistoryState d v = false ∧
    (if (getState d h).histType = 2 then
      isAtomicStateId d v = true ∧ isDescendant d v (parentOf d h) = true
     else parentOf d v = parentOf d h)

/-- **Invariant of every reachable session of every conformant document**: each stored history
    value consists of non-history states below the history state's parent (children for shallow,
    atomic descendants for deep history).  This is the "exactly what was active" half of the
    statement lifted from one exit (`C06_record`) to whole runs: whatever a later transition finds in
    the table was recorded by the last exit of the owner and has this shape. -/
theorem C06_stored_values (env : Env σ) (d : Doc) (hc : conformantB d = true) (s : Sess σ)
    (hr : Reach env d s) : ∀ h vs, tget s.hv h = some vs → GoodValue d h vs := by
  induction hr with
  | start s0 hcfg hhv =>
    intro h vs hv
    rw [(enterStates_spec env d s0 (rootInit d)).2.1, hhv] at hv
    simp [tget] at hv
  | same _ _ hhv ih => intro h vs hv; rw [hhv] at hv; exact ih h vs hv
  | @micro s ev hreach ih =>
    intro h vs hv
    have hsc := select_sameCore env d ev s
    have hnoh := (C01_no_duplicates_no_history env d hc s hreach).2
    generalize (select env d ev s).1 = s1 at hsc hv
    generalize (select env d ev s).2 = ts at hv
    have hk := executeTransitionContent_kept env d ts (exitStates env d s1 ts)
    have hn := enterStates_spec env d (executeTransitionContent env d (exitStates env d s1 ts) ts) ts
    unfold microstep at hv
    rw [hn.2.1, hk.hv] at hv
    rcases exitStates_hv_cases env d hc s1 ts h with ⟨_, _, hrec⟩ | hkeep
    · rw [hrec] at hv
      have hvs : vs = histVal d s1.cfg (parentOf d h) h := by simpa using hv.symm
      subst hvs
      intro v hvmem
      have hm := (C06_recorded_value d s1.cfg (parentOf d h) h v).1 hvmem
      refine ⟨hnoh v (by rw [← hsc.1]; exact hm.1), ?_⟩
      exact hm.2
    · rw [hkeep, hsc.2.1] at hv
      exact ih h vs hv
#assert_axioms C06_stored_values

/-- (restore, whole runs) in every reachable session of a conformant document, a transition that
    targets a history state with a stored value enters every stored state — `C06_restore` without
    its side condition, which `C06_stored_values` discharges -/
theorem C06_restore_reachable (env : Env σ) (d : Doc) (hc : conformantB d = true) (s : Sess σ)
    (hr : Reach env d s) (f h : Nat) (acc : EntryAcc) (vs : List Nat)
    (hh : isHistoryState d h = true) (hval : tget s.hv h = some vs) :
    ∀ v ∈ vs, v ∈ (addDesc d s.hv (f + 2) h acc).toEnter :=
  C06_restore d s.hv f h acc vs hh hval (fun v hv => (C06_stored_values env d hc s hr h vs hval v hv).1)
#assert_axioms C06_restore_reachable

/-- (restore, "together with the ancestors") a history target with a stored value also enters, for
    every stored state, all its proper ancestors below the history state's parent — e.g. the
    intermediate compound states of a deep history -/
theorem C06_restore_ancestors (d : Doc) (hv : Table) (f h : Nat) (acc : EntryAcc) (vs : List Nat)
    (hh : isHistoryState d h = true) (hval : tget hv h = some vs) :
    ∀ v ∈ vs, ∀ a ∈ getProperAncestors d v (getState d h).parent,
      a ∈ (addDesc d hv (f + 2) h acc).toEnter :=
  history_restores_ancestors hv f h acc vs hh hval
#assert_axioms C06_restore_ancestors

/-- **exactness half, first case**: in every reachable session of a conformant document, targeting
    a SHALLOW history state whose stored states are plain atomic children re-enters *exactly* the
    stored states — the entry set grows by them and by nothing else (their parent is the history's
    parent, which the transition's own ancestor pass handles).  For stored compound or parallel
    children the default / region completion is entered in addition ("what legality needs"); that
    case and deep history are the part of the exactness half that is still missing. -/
theorem C06_restore_exact_shallow_atomic (env : Env σ) (d : Doc) (hc : conformantB d = true) (s : Sess σ)
    (hr : Reach env d s) (f h : Nat) (acc : EntryAcc) (vs : List Nat)
    (hh : isHistoryState d h = true) (hsh : (getState d h).histType ≠ 2) (hval : tget s.hv h = some vs)
    (hat : ∀ v ∈ vs, isCompoundState d v = false ∧ isParallelState d v = false) :
    ∀ x, x ∈ (addDesc d s.hv (f + 2) h acc).toEnter ↔ x ∈ acc.toEnter ∨ x ∈ vs := by
  apply history_restores_exactly s.hv f h acc vs hh hval
  intro v hv
  have hg := C06_stored_values env d hc s hr h vs hval v hv
  rw [if_neg hsh] at hg
  exact ⟨hg.1, (hat v hv).1, (hat v hv).2, hg.2⟩
#assert_axioms C06_restore_exact_shallow_atomic

/-- What is proved of the statement: record (exact), restore (every recorded state is entered;
    the step equation shows the default is not used), default (used iff no value; content position).
    `C06_restore_ancestors`: the ancestors of the stored states below the history's parent are entered too.
    For whole runs: `C06_stored_values` (every stored value of every reachable session consists of
    non-history children / atomic descendants of the history's parent) and `C06_restore_reachable`.
    Exactness: `C06_restore_exact_shallow_atomic` (shallow history, stored plain atomic children: exactly the stored states).
    **Missing** for the exact characterisation "re-enters exactly the recorded states together with
    the ancestors and parallel siblings needed for a legal configuration": the completeness half
    (nothing else is entered) — it shares the tree lemmas missing for `C01_full`. -/
theorem C06_partial : C06_full := by
  intro σ env d s ts
  exact ⟨(C06_record env d s ts).1, fun hv f h acc vs hh hval hvs => history_restores hv f h acc vs hh hval hvs⟩
#assert_axioms C06_partial

/-! ### Non-vacuity (document `exDoc2`: compound 2 with shallow history 5, children 3 and 4) -/
def exDoc2 : Doc :=
  { root := 1,
    states := [
      { id := 1, docId := 1, kids := [2, 6], initial := 20 },
      { id := 2, docId := 2, parent := 1, kids := [3, 4], initial := 21, history := [5], transitions := [10] },
      { id := 3, docId := 3, parent := 2, transitions := [11] },
      { id := 4, docId := 4, parent := 2 },
      { id := 5, docId := 5, parent := 2, histType := 1, transitions := [12] },
      { id := 6, docId := 6, parent := 1, transitions := [13] }],
    transitions := [
      { id := 10, docId := 10, events := [[120]], source := 2, target := [6] },
      { id := 11, docId := 11, events := [[97]], source := 3, target := [4] },
      { id := 12, docId := 12, source := 5, target := [3], content := 7 },
      { id := 13, docId := 13, events := [[98]], source := 6, target := [5] },
      { id := 20, source := 1, target := [2] }, { id := 21, source := 2, target := [3] }] }

-- leaving state 2 while child 4 is active records [4] for history state 5 …
example : histVal exDoc2 [1, 2, 4] 2 5 = [4] := by decide
-- … and targeting 5 later re-enters 4 (and the parent 2), not the default 3
example : (computeEntrySet exDoc2 [(5, [4])] [13]).toEnter = [4, 2] := by decide
-- without a value the default transition is followed and its content registered for the parent
example : (computeEntrySet exDoc2 [] [13]).toEnter = [3, 2] ∧
          (computeEntrySet exDoc2 [] [13]).histContent = [(2, 7)] := by decide

-- `C06_restore_ancestors` on C01's exDocH (deep history 5 of state 2, stored value [4], 4 ⊂ 3 ⊂ 2): 3 is entered
example : getProperAncestors exDocH 4 (getState exDocH 5).parent = [3] ∧
    3 ∈ (addDesc exDocH [(5, [4])] 3 5 {}).toEnter := by decide

-- `C06_restore_exact_shallow_atomic` on exDoc2: shallow history 5 with stored [4] (4 is a plain atomic child of 2): exactly 4 is added
example : (addDesc exDoc2 [(5, [4])] 3 5 {}).toEnter = [4] ∧ isCompoundState exDoc2 4 = false ∧ isParallelState exDoc2 4 = false ∧
    (getState exDoc2 5).histType ≠ 2 := by decide

-- hypotheses of `C06_stored_values` / `C06_restore_reachable` on a concrete run: exDoc2 is conformant,
-- and after start-up and event "x" (transition 10 leaves state 2 while 3 is active) the reachable
-- session stores [3] for history state 5
example : conformantB exDoc2 = true := by decide +kernel
example :
    let s := startSession unitEnv exDoc2 ()
    let s2 := microstep unitEnv exDoc2 (select unitEnv exDoc2 (some [120]) s).1 (select unitEnv exDoc2 (some [120]) s).2
    tget s2.hv 5 = some [3] ∧ s2.cfg = [1, 6] := by decide +kernel
example : Reach unitEnv exDoc2
    (microstep unitEnv exDoc2 (select unitEnv exDoc2 (some [120]) (startSession unitEnv exDoc2 ())).1
      (select unitEnv exDoc2 (some [120]) (startSession unitEnv exDoc2 ())).2) :=
  Reach.micro _ (startSession_reach unitEnv exDoc2 ())

end Rfsm.Interp
