import Rfsm.Audit
import Rfsm.Proofs.ExprOps
import Rfsm.Proofs.ExprGrouping
import Rfsm.Proofs.ExprLexerLemmas
/-!
# C10 — rfsm-expression evaluation follows the documented language semantics

Model: `Rfsm.Expr` (`ExprLexer`, `ExprParser`, `ExprData`, `ExprEval`), a transcription of
`src/expression_engine/{lexer,parser,expressions}.rs`, the `operation_*` functions of
`src/datamodel/mod.rs` and the compile cache of `src/datamodel/expression_engine.rs`.
Doubles are abstract (`DoubleOps`): nothing below depends on floating point.

State after the repairs: the grouping clause holds at full strength (`C10_grouping`: equal
priorities group left to right, `=`/`?=` to the right; `10 - 4 - 3 = 3` is a regression theorem),
integers are compared exactly (`C10_compare_integers`), `-e` no longer swallows the letter.  Still
false: `1-2` is not `1 - 2` (`C10_counterexample_whitespace`: a `-` directly before a digit is
always the sign of a literal); still unproved: `C10_parens_full` (tested, see below).
-/
namespace Rfsm.Expr

/-! ## Grouping -/

/-
`BTree`, `BTree.toExpr`, `BTree.inorder`, `BTree.topPrio`, `WellGrouped` (documented grouping:
left subtree binds at least as tightly, right subtree strictly tighter; the other way round for
`=`/`?=`) and `chainStack` are defined in `Rfsm.Proofs.ExprGrouping`.
-/

def binaryOps (rest : List (Op × Expr)) : Prop := ∀ p ∈ rest, p.1 ≠ .not

/-- **C10, grouping clause, full strength.** -/
def C10_grouping_full : Prop :=
  ∀ (a0 : Expr) (rest : List (Op × Expr)), binaryOps rest →
    ∃ t : BTree, t.inorder = (a0, rest) ∧ WellGrouped t ∧
      stackToExpr (stackFuel (chainStack a0 rest)) (chainStack a0 rest) = .ok (some t.toExpr) []

/-- cached evaluation = fresh evaluation, as long as a source id determines its text -/
def C10_cache_full : Prop :=
  ∀ (textOf : Nat → Str) (cache : Cache), CacheOK textOf cache → ∀ id,
    (compile cache (textOf id) id).2 = parse (textOf id) ∧
    CacheOK textOf (compile cache (textOf id) id).1

/-- redundant parentheses around a whole expression do not change what is parsed -/
def C10_parens_full : Prop :=
  ∀ (text : Str) (e : Expr), parse text = .ok e → (∀ c ∈ text, c ≠ 0) →
    parse ([40] ++ text ++ [41]) = .ok e

/-- incidental white space, part 1: amount and kind of the white space in front of a token do not
matter -/
def C10_whitespace_gap : Prop :=
  ∀ (stops : List Ch) (ws : Str) (inp : Str), (∀ c ∈ ws, isWhitespace c = true) →
    nextToken stops (ws ++ inp) = nextToken stops inp

/-- incidental white space, part 2: a blank between an operand and a binary operator, or between
the operator and the next operand, may be left out (`a op b` = `a␣op␣b`); stated for integer
operands -/
def C10_whitespace_tight : Prop :=
  ∀ (a b : Nat) (o : Str), o ∈ [[43], [45], [42], [47], [37]] →
    parse (natToStr a ++ o ++ natToStr b) = parse (natToStr a ++ [32] ++ o ++ [32] ++ natToStr b)

def C10_whitespace_full : Prop := C10_whitespace_gap ∧ C10_whitespace_tight

/-- the whole property -/
def C10_full : Prop :=
  C10_grouping_full ∧ C10_cache_full ∧ C10_parens_full ∧ C10_whitespace_full

/-! ### the former counterexamples, on the model of the repaired code (regression) -/

/-- `10 - 4 - 3` -/
def text_10_4_3 : Str := [49, 48, 32, 45, 32, 52, 32, 45, 32, 51]

theorem C10_regression_parse :
    parse text_10_4_3 =
      .ok (.op .minus (.op .minus (.const (.int 10)) (.const (.int 4))) (.const (.int 3))) := rfl
#assert_axioms C10_regression_parse

/-- `10 - 4 - 3` evaluates to 3 (for every `DoubleOps`) -/
theorem C10_regression_value {D : Type} (ops : DoubleOps D) :
    (execute ops text_10_4_3 ⟨[], [], []⟩).2 = .ok ⟨4, false⟩ ∧
    (execute ops text_10_4_3 ⟨[], [], []⟩).1.get 4 = .int 3 := ⟨rfl, rfl⟩
#assert_axioms C10_regression_value

/-- `100 / 10 / 5` parses as `(100 / 10) / 5` -/
theorem C10_regression_divide :
    parse [49, 48, 48, 32, 47, 32, 49, 48, 32, 47, 32, 53] =
      .ok (.op .divide (.op .divide (.const (.int 100)) (.const (.int 10))) (.const (.int 5))) := rfl
#assert_axioms C10_regression_divide

/-- assignments still group to the right: `a = b = 1` is `a = (b = 1)` -/
theorem C10_regression_assign_right :
    parse [97, 32, 61, 32, 98, 32, 61, 32, 49] =
      .ok (.assign (.var [97]) (.assign (.var [98]) (.const (.int 1)))) := rfl
#assert_axioms C10_regression_assign_right

/-! ### the grouping clause -/

/-- **C10, grouping clause, full strength.**  For every infix chain of binary operators over
arbitrary operand expressions (unbounded), `stack_to_expression` returns a tree whose in-order
reading is the chain and which has the documented grouping: priorities are respected, equal
priorities group from left to right, `=` and `?=` from right to left. -/
theorem C10_grouping : C10_grouping_full := by
  intro a0 rest hb
  have hfuel : (leaves rest).length + 1 ≤ stackFuel (chainStack a0 rest) := by
    rw [chainStack_eq_flat, stackFuel, flat_length]; omega
  obtain ⟨t, hst, hin, hwg⟩ := stackToExpr_flat (leaves rest).length
    (stackFuel (chainStack a0 rest)) (.leaf a0) (leaves rest) rfl hfuel
    (by intro o ho
        rw [fops_leaves] at ho
        obtain ⟨p, hp, rfl⟩ := List.mem_map.1 ho
        exact hb p hp)
    (Inv_leaves [] a0 rest)
  rw [inorderF_leaves] at hin
  exact ⟨t, hin, hwg, by rw [chainStack_eq_flat] at hst ⊢; exact hst⟩
#assert_axioms C10_grouping

/-- the tree of `C10_grouping` is *the* well grouped tree of the chain: a well grouped tree is
determined by its in-order reading, so the parser's result is characterised completely -/
theorem C10_grouping_unique (t1 t2 : BTree) (h1 : WellGrouped t1) (h2 : WellGrouped t2)
    (hin : t1.inorder = t2.inorder) : t1 = t2 := wellGrouped_unique t1 t2 h1 h2 hin
#assert_axioms C10_grouping_unique

/-- non-vacuity: `12 + 2 * 4` is grouped `12 + (2 * 4)` -/
example :
    stackToExpr (stackFuel (chainStack (.const (.int 12)) [(.plus, .const (.int 2)), (.multiply, .const (.int 4))]))
      (chainStack (.const (.int 12)) [(.plus, .const (.int 2)), (.multiply, .const (.int 4))]) =
    .ok (some (.op .plus (.const (.int 12)) (.op .multiply (.const (.int 2)) (.const (.int 4))))) [] := rfl

/-! ## The operator table against mathematical integers -/

section table
variable {D : Type} (ops : DoubleOps D) (cells : Cells D) (held : List Nat)

/-- Integer `+ - *` stay Integer and saturate: the result is the exact result clamped to `i64` -/
theorem C10_integer_saturating (a b : Int) :
    operation ops cells held .plus (.int a) (.int b) = .val (.int (clampI64 (a + b))) [] ∧
    operation ops cells held .minus (.int a) (.int b) = .val (.int (clampI64 (a - b))) [] ∧
    operation ops cells held .multiply (.int a) (.int b) = .val (.int (clampI64 (a * b))) [] :=
  ⟨rfl, rfl, rfl⟩
#assert_axioms C10_integer_saturating

/-- clamping is the identity inside the `i64` range and pins to the bounds outside -/
theorem C10_clamp (v : Int) :
    InI64 (clampI64 v) ∧ (InI64 v → clampI64 v = v) ∧
    (i64Max < v → clampI64 v = i64Max) ∧ (v < i64Min → clampI64 v = i64Min) :=
  ⟨clampI64_inI64 v, clampI64_of_inI64, clampI64_above, clampI64_below⟩
#assert_axioms C10_clamp

/-- `%` on integers is the truncated remainder for every non-zero divisor (`i64::MIN % -1` is 0);
a zero divisor yields an error value -/
theorem C10_integer_modulus (a b : Int) (hb : b ≠ 0) :
    operation ops cells held .modulus (.int a) (.int b) = .val (.int (Int.tmod a b)) [] ∧
    operation ops cells held .modulus (.int a) (.int 0) = .val (.error .remUndefined) [] :=
  ⟨operation_modulus_int ops cells held a b hb, operation_modulus_zero ops cells held a⟩
#assert_axioms C10_integer_modulus

/-- division yields a Double (or the NaN error value), never an Integer -/
theorem C10_divide_yields_double (a b : Int) :
    operation ops cells held .divide (.int a) (.int b) =
      if ops.isNaN (ops.div (ops.ofInt a) (ops.ofInt b)) then .val (.error .divideNaN) []
      else .val (.dbl (ops.div (ops.ofInt a) (ops.ofInt b))) [] := rfl
#assert_axioms C10_divide_yields_double

/-- Double contagion -/
theorem C10_double_contagion (a : Int) (b : D) :
    operation ops cells held .plus (.int a) (.dbl b) = .val (.dbl (ops.add (ops.ofInt a) b)) [] ∧
    operation ops cells held .plus (.dbl b) (.int a) = .val (.dbl (ops.add b (ops.ofInt a))) [] ∧
    operation ops cells held .minus (.int a) (.dbl b) = .val (.dbl (ops.sub (ops.ofInt a) b)) [] ∧
    operation ops cells held .minus (.dbl b) (.int a) = .val (.dbl (ops.sub b (ops.ofInt a))) [] ∧
    operation ops cells held .multiply (.int a) (.dbl b) = .val (.dbl (ops.mul (ops.ofInt a) b)) [] ∧
    operation ops cells held .multiply (.dbl b) (.int a) = .val (.dbl (ops.mul b (ops.ofInt a))) [] ∧
    operation ops cells held .modulus (.int a) (.dbl b) = .val (.dbl (ops.rem (ops.ofInt a) b)) [] ∧
    operation ops cells held .modulus (.dbl b) (.int a) = .val (.dbl (ops.rem b (ops.ofInt a))) [] :=
  operation_contagion ops cells held a b
#assert_axioms C10_double_contagion

/-- `+` aggregates strings, arrays (merge / append one element) and maps (right side wins) -/
theorem C10_plus_aggregates (s t : Str) (a1 a2 : List Ref) (m1 m2 : List (Str × Ref)) :
    operation ops cells held .plus (.str s) (.str t) = .val (.str (s ++ t)) [] ∧
    operation ops cells held .plus (.array a1) (.array a2) = .val (.array (a1 ++ a2)) [] ∧
    operation ops cells held .plus (.array a1) (.str t) =
      .val (.array (a1 ++ [⟨cells.length, false⟩])) [.str t] ∧
    operation ops cells held .plus (.map m1) (.map m2) = .val (.map (mapExtend m1 m2)) [] :=
  operation_plus_aggregates ops cells held s t a1 a2 m1 m2
#assert_axioms C10_plus_aggregates

/-- string comparison is the lexicographic order of the code points -/
theorem C10_compare_strings (s t : Str) :
    operation ops cells held .less (.str s) (.str t) = .val (.bool (strLt s t)) [] ∧
    operation ops cells held .greater (.str s) (.str t) = .val (.bool (strLt t s)) [] :=
  ⟨rfl, rfl⟩
#assert_axioms C10_compare_strings

/-- two Integers are compared exactly (the mathematical order, also beyond 2^53); an Integer and a
Double still meet in `f64` -/
theorem C10_compare_integers (a b : Int) :
    operation ops cells held .less (.int a) (.int b) = .val (.bool (decide (a < b))) [] ∧
    operation ops cells held .lessEqual (.int a) (.int b) = .val (.bool (decide (a ≤ b))) [] ∧
    operation ops cells held .greater (.int a) (.int b) = .val (.bool (decide (b < a))) [] ∧
    operation ops cells held .greaterEqual (.int a) (.int b) = .val (.bool (decide (b ≤ a))) [] :=
  operation_compare_int ops cells held a b
#assert_axioms C10_compare_integers

/-- regression: `9007199254740992 < 9007199254740993` -/
theorem C10_regression_int_compare :
    operation ops cells held .less (.int 9007199254740992) (.int 9007199254740993) =
      .val (.bool true) [] := rfl
#assert_axioms C10_regression_int_compare

end table

/-! ## White space and parentheses -/

theorem C10_whitespace_gap_holds : C10_whitespace_gap :=
  fun stops ws inp h => nextToken_skip_ws stops ws inp h
#assert_axioms C10_whitespace_gap_holds

/-- `1-2` is not `1 - 2`: the `-` is lexed as the sign of the literal `-2` -/
theorem C10_counterexample_whitespace : ¬ C10_whitespace_tight := by
  intro h
  have := h 1 2 [45] (by simp)
  have h1 : parse (natToStr 1 ++ [45] ++ natToStr 2) = .err .failedEvaluate := rfl
  have h2 : parse (natToStr 1 ++ [32] ++ [45] ++ [32] ++ natToStr 2) =
      .ok (.op .minus (.const (.int 1)) (.const (.int 2))) := rfl
  rw [h1, h2] at this
  cases this
#assert_axioms C10_counterexample_whitespace

/-- regression: `-e` no longer swallows the letter: `5-e` parses like `5 - e`, `5-ex` like `5 - ex` -/
theorem C10_regression_minus_e :
    parse [53, 45, 101] = parse [53, 32, 45, 32, 101] ∧
    parse [53, 45, 101, 120] = .ok (.op .minus (.const (.int 5)) (.var [101, 120])) := ⟨rfl, rfl⟩
#assert_axioms C10_regression_minus_e

/-- `+ * / %` are fine without blanks (tests on concrete texts, evaluated by the kernel):
`7+2`, `7*2`, `7/2`, `7%2` parse like their spaced forms -/
example : parse [55, 43, 50] = parse [55, 32, 43, 32, 50] := rfl
example : parse [55, 42, 50] = parse [55, 32, 42, 32, 50] := rfl
example : parse [55, 47, 50] = parse [55, 32, 47, 32, 50] := rfl
example : parse [55, 37, 50] = parse [55, 32, 37, 32, 50] := rfl

/-- redundant parentheses (tests on concrete texts, evaluated by the kernel; the universal
statement `C10_parens_full` is not proved — it needs a simulation between the token loops run with
different stop sets; the harness checks it on every generated chain):
`(10 - 4 - 3)`, `((1) + (2))`, `(a.b)` parse like the texts without them -/
example : parse ([40] ++ text_10_4_3 ++ [41]) = parse text_10_4_3 := rfl
example : parse [40, 40, 49, 41, 32, 43, 32, 40, 50, 41, 41] = parse [49, 32, 43, 32, 50] := rfl
example : parse [40, 97, 46, 98, 41] = parse [97, 46, 98] := rfl

/-! ## Compilation cache -/

theorem C10_cache : C10_cache_full := by
  intro textOf cache h id
  exact compile_eq_parse textOf cache h id
#assert_axioms C10_cache

/-- the empty cache of a new session satisfies the invariant -/
example (textOf : Nat → Str) : CacheOK textOf [] := cacheOK_nil textOf

/-- evaluation through the datamodel does not depend on what is cached -/
theorem C10_cached_evaluation {D : Type} (ops : DoubleOps D) (textOf : Nat → Str) (cache : Cache)
    (h : CacheOK textOf cache) (st : St D) (id : Nat) :
    (dmExecute ops ⟨st, cache⟩ (textOf id) id).2 = (dmExecute ops ⟨st, []⟩ (textOf id) id).2 ∧
    (dmExecute ops ⟨st, cache⟩ (textOf id) id).1.st = (dmExecute ops ⟨st, []⟩ (textOf id) id).1.st := by
  have h1 := (compile_eq_parse textOf cache h id).1
  have h2 := (compile_eq_parse textOf [] (cacheOK_nil textOf) id).1
  unfold dmExecute dmExecuteInternal
  generalize hc1 : compile cache (textOf id) id = c1 at h1
  generalize hc2 : compile [] (textOf id) id = c2 at h2
  obtain ⟨k1, p1⟩ := c1
  obtain ⟨k2, p2⟩ := c2
  simp only at h1 h2
  subst h1 h2
  cases parse (textOf id) with
  | ok e =>
    simp only
    cases eval ops e false st with
    | mk st' o =>
      cases o with
      | ok v => cases hd : st'.get v.id <;> simp [hd]
      | _ => simp
  | err e => exact ⟨rfl, rfl⟩
  | panic => exact ⟨rfl, rfl⟩
  | livelock => exact ⟨rfl, rfl⟩
  | outOfFuel => exact ⟨rfl, rfl⟩
#assert_axioms C10_cached_evaluation

/-- **C10, what is proved of `C10_full`**: the grouping clause, the cache clause and the first
white-space clause, each at full strength.
Missing for `C10_full`: `C10_parens_full` (not proved: tested on concrete texts above and by the
harness on every generated chain) and `C10_whitespace_tight`, which is false on the code
(`C10_counterexample_whitespace`: `1-2`). -/
theorem C10_partial : C10_grouping_full ∧ C10_cache_full ∧ C10_whitespace_gap :=
  ⟨C10_grouping, C10_cache, C10_whitespace_gap_holds⟩
#assert_axioms C10_partial

end Rfsm.Expr
