import Rfsm.Audit
import Rfsm.Proofs.SessLemmas
import Rfsm.Proofs.OptimalLemmas
/-!
# C02 — Each microstep takes exactly the W3C optimal transition set, deterministically

Model: `Rfsm.Interp` (M-INT), a transcription of `selectEventlessTransitions`, `selectTransitions`,
`removeConflictingTransitions`, `computeExitSet`, `exitStates`, `enterStates`, `microstep` of
`src/fsm.rs`, generic in the data model (`Env σ`).  Everything below holds for every document
table `d`, every session state `s` (configuration, history, data), every event and every data model.

The clauses of the statement and where they are proved:

* per active atomic state, state before ancestors, document order, matching the event
  (or eventless), first one whose guard holds                     — `C02_candidates`, `C02_candidate_order`,
                                                                     `C02_first_enabled`, `C02_selected`
* atomic states are visited in document order                      — `C02_atomic_states`
* conflicting selections: pre-empted in favour of the earlier one unless the later one's source is
  a descendant                                                     — `C02_conflict_free`, `C02_preempted`, `C02_descendant_wins`
* states exited in reverse document order, entered in document order — `C02_exit_order`, `C02_entry_order`
* the exit set is the active part below the transition domains      — `C02_exit_set`
* the trace is a function of document and event history             — `C02_deterministic`

`C02_full` additionally demands that the *set* returned equals the declarative optimal set of the
Recommendation; what is missing for it is named at `C02_partial`.
-/
namespace Rfsm.Interp
open Rfsm.Descriptor (Str nameMatch)

variable {σ : Type}

/-- matching clause for one transition and an optional event name -/
def matchesEvent (d : Doc) (ev : Option Str) (t : Nat) : Prop :=
  match ev with
  | none => (getTrans d t).events = []
  | some n => (getTrans d t).events ≠ [] ∧ nameMatch (getTrans d t).wildcard (getTrans d t).events n = true

/-- The declarative optimal enabled set (W3C 3.13): `ts` is optimal for `ev` in session `s` when
 (1) each member is, for some active atomic state `a`, the first transition in `a`'s candidate
     chain (own transitions in document order, then the ancestors') that matches and whose guard
     holds;
 (2) members are pairwise conflict free;
 (3) a first-enabled transition of an atomic state is absent only if it is pre-empted: it conflicts
     with a member selected by an atomic state earlier in document order whose source is not an
     ancestor of its own source, or with a member whose source is a descendant of its own. -/
def OptimalSet (env : Env σ) (d : Doc) (ev : Option Str) (s : Sess σ) (ts : List Nat) : Prop :=
  (∀ t ∈ ts, ∃ a ∈ atomicStates d s.cfg,
      (candidates d ev a).find? (guardHolds env d s.dm s.cfg) = some t) ∧
  ConflictFree d s.hv s.cfg ts ∧
  (∀ a ∈ atomicStates d s.cfg, ∀ t, (candidates d ev a).find? (guardHolds env d s.dm s.cfg) = some t →
      t ∈ ts ∨ ∃ t' ∈ ts, conflict d s.hv s.cfg t t' = true)

/-- C02 at full strength: for pure guards the selected set is the optimal set, exits are in
    reverse document order, entries in document order, and the run is a function of its inputs. -/
def C02_full : Prop :=
  ∀ (σ : Type) (env : Env σ) (d : Doc) (ev : Option Str) (s : Sess σ), GuardsPure env →
    OptimalSet env d ev s (select env d ev s).2

/-- every candidate of an atomic state belongs to that state or one of its proper ancestors and
    matches the event (is eventless when there is no event) -/
theorem C02_candidates (d : Doc) (ev : Option Str) (a t : Nat) (h : t ∈ candidates d ev a) :
    (∃ x ∈ a :: getProperAncestors d a 0, t ∈ (getState d x).transitions) ∧ matchesEvent d ev t := by
  have := mem_candidates h
  refine ⟨this.1, ?_⟩
  unfold matchesEvent
  cases ev <;> exact this.2
#assert_axioms C02_candidates

/-- the candidate chain is: the state's own transitions in document order, then each proper
    ancestor's in ancestry order, filtered by the event -/
theorem C02_candidate_order (d : Doc) (ev : Option Str) (a : Nat) :
    (∃ p, candidates d ev a = ((a :: getProperAncestors d a 0).flatMap (transOf d)).filter p) ∧
    ∀ x, (transOf d x).Pairwise (fun t u => (getTrans d t).docId ≤ (getTrans d u).docId) ∧
         ∀ t, t ∈ transOf d x ↔ t ∈ (getState d x).transitions :=
  ⟨⟨_, rfl⟩, fun x => ⟨transOf_sorted d x, fun _ => mem_sortBy⟩⟩
#assert_axioms C02_candidate_order

/-- atomic states are visited in document order and are exactly the atomic members of the
    configuration -/
theorem C02_atomic_states (d : Doc) (cfg : List Nat) :
    (atomicStates d cfg).Pairwise (fun a b => docIdOf d a ≤ docIdOf d b) ∧
    ∀ a, a ∈ atomicStates d cfg ↔ a ∈ cfg ∧ isAtomicStateId d a = true :=
  ⟨atomicStates_sorted d cfg, fun _ => mem_atomicStates⟩
#assert_axioms C02_atomic_states

/-- for guards without side effects on the data, the transition chosen for an atomic state is the
    first candidate whose guard holds (in the data state and configuration at selection time) -/
theorem C02_first_enabled (env : Env σ) (hp : GuardsPure env) (d : Doc) (s : Sess σ) (l : List Nat) :
    (firstEnabled env d s l).2 = l.find? (guardHolds env d s.dm s.cfg) :=
  (firstEnabled_eq_find env hp d l s).1
#assert_axioms C02_first_enabled

/-- every selected transition is a candidate of an active atomic state (any data model) -/
theorem C02_selected (env : Env σ) (d : Doc) (ev : Option Str) (s : Sess σ) :
    ∀ t ∈ (select env d ev s).2, ∃ a ∈ atomicStates d s.cfg, t ∈ candidates d ev a :=
  (select_spec env d ev s).2
#assert_axioms C02_selected

/-- the selected transitions are duplicate free and have pairwise disjoint exit sets -/
theorem C02_conflict_free (env : Env σ) (d : Doc) (ev : Option Str) (s : Sess σ) :
    ConflictFree d s.hv s.cfg (select env d ev s).2 :=
  (select_spec env d ev s).1
#assert_axioms C02_conflict_free

/-- pre-emption in favour of the earlier selection -/
theorem C02_preempted (d : Doc) (hv : Table) (cfg filtered : List Nat) (t1 : Nat)
    (h : ∃ t2 ∈ filtered, conflict d hv cfg t1 t2 = true ∧
      isDescendant d (getTrans d t1).source (getTrans d t2).source = false) :
    rcStep d hv cfg filtered t1 = filtered :=
  rcStep_preempted h
#assert_axioms C02_preempted

/-- … unless the later transition's source is a descendant: then it replaces what it conflicts with -/
theorem C02_descendant_wins (d : Doc) (hv : Table) (cfg filtered : List Nat) (t1 : Nat)
    (h : ∀ t2 ∈ filtered, conflict d hv cfg t1 t2 = true →
      isDescendant d (getTrans d t1).source (getTrans d t2).source = true) :
    t1 ∈ rcStep d hv cfg filtered t1 ∧
    (∀ t2 ∈ filtered, t2 ≠ t1 → conflict d hv cfg t1 t2 = true → t2 ∉ rcStep d hv cfg filtered t1) ∧
    (∀ t2 ∈ filtered, conflict d hv cfg t1 t2 = false → t2 ∈ rcStep d hv cfg filtered t1) :=
  rcStep_kept h
#assert_axioms C02_descendant_wins

/-- `removeConflictingTransitions` is the left fold of that step over the selections in the
    document order of the atomic states that made them -/
theorem C02_filter_is_fold (d : Doc) (hv : Table) (cfg enabled : List Nat) :
    removeConflicting d hv cfg enabled = enabled.foldl (rcStep d hv cfg) [] := rfl
#assert_axioms C02_filter_is_fold

/-- the exit set: the active states that are descendants of the domain of a taken transition with
    targets — nothing else, no duplicates -/
theorem C02_exit_set (d : Doc) (hv : Table) (cfg ts : List Nat) :
    (∀ x, x ∈ computeExitSet d hv cfg ts ↔ x ∈ cfg ∧ ∃ tid ∈ ts, exits d hv tid x) ∧
    (computeExitSet d hv cfg ts).Nodup :=
  ⟨fun _ => mem_computeExitSet, computeExitSet_nodup d hv cfg ts⟩
#assert_axioms C02_exit_set

/-- states are exited in reverse document order: `exitStates` folds its per-state action (trace,
    cancel invocations, onexit blocks, remove from the configuration) over this list -/
theorem C02_exit_order (d : Doc) (s : Sess σ) (ts : List Nat) :
    let order := sortByDesc (docIdOf d) (computeExitSet d s.hv s.cfg ts)
    order.Pairwise (fun a b => docIdOf d b ≤ docIdOf d a) ∧ order.Perm (computeExitSet d s.hv s.cfg ts) :=
  ⟨sortByDesc_sorted _ _, sortByDesc_perm _ _⟩
#assert_axioms C02_exit_order

/-- states are entered in document order: `enterStates` folds `enterOne` over this list -/
theorem C02_entry_order (env : Env σ) (d : Doc) (s : Sess σ) (ts : List Nat) :
    let acc := computeEntrySet d s.hv ts
    let order := sortBy (docIdOf d) acc.toEnter
    order.Pairwise (fun a b => docIdOf d a ≤ docIdOf d b) ∧ order.Perm acc.toEnter ∧
    enterStates env d s ts = order.foldl (enterOne env d acc) s :=
  ⟨sortBy_sorted _ _, sortBy_perm _ _, rfl⟩
#assert_axioms C02_entry_order

/-- a microstep is: exit, transition bodies in selection order, enter -/
theorem C02_microstep (env : Env σ) (d : Doc) (s : Sess σ) (ts : List Nat) :
    microstep env d s ts = enterStates env d (executeTransitionContent env d (exitStates env d s ts) ts) ts ∧
    executeTransitionContent env d s ts =
      ts.foldl (fun s tid => if (getTrans d tid).content > 0 then runContent env s (getTrans d tid).content else s) s :=
  ⟨rfl, rfl⟩
#assert_axioms C02_microstep

/-- determinism: the whole run (trace included) is a function of the document tables, the data
    model, the caller information and the batches of external events.  (Definitional for the
    model; for the implementation it is checked by repeating every run of the correspondence.) -/
theorem C02_deterministic (env : Env σ) (d : Doc) (c : Option Str) (hp : Bool) (dm : σ)
    (feed₁ feed₂ : List (List Event)) (m l : Nat) (h : feed₁ = feed₂) :
    interpret env d c hp dm feed₁ m l = interpret env d c hp dm feed₂ m l := by
  rw [h]
#assert_axioms C02_deterministic

/-- with pure guards the enabled list (what selection collects before conflict removal) consists
    exactly of the first-enabled candidates of the active atomic states, without duplicates -/
theorem C02_enabled_exact (env : Env σ) (hp : GuardsPure env) (d : Doc) (ev : Option Str) (s : Sess σ) :
    (enabledList env d ev s).Nodup ∧
    ∀ t, t ∈ enabledList env d ev s ↔
      ∃ a ∈ atomicStates d s.cfg, (candidates d ev a).find? (guardHolds env d s.dm s.cfg) = some t := by
  unfold enabledList
  rw [selectLoop_pure env hp d ev]
  refine ⟨pickFold_nodup env d ev s.dm s.cfg _ [] List.nodup_nil, fun t => ?_⟩
  rw [mem_pickFold]
  simp
#assert_axioms C02_enabled_exact

/-- clause (1) of `OptimalSet`: every member of the selected set is, for some active atomic state,
    THE first candidate of that state's chain whose guard holds -/
theorem C02_members_first_enabled (env : Env σ) (hp : GuardsPure env) (d : Doc) (ev : Option Str)
    (s : Sess σ) :
    ∀ t ∈ (select env d ev s).2, ∃ a ∈ atomicStates d s.cfg,
      (candidates d ev a).find? (guardHolds env d s.dm s.cfg) = some t := by
  intro t ht
  rw [select_eq_removeConflicting] at ht
  exact ((C02_enabled_exact env hp d ev s).2 t).1 (removeConflicting_subset d s.hv s.cfg _ t ht)
#assert_axioms C02_members_first_enabled

/-- towards clause (3) of `OptimalSet`: a first-enabled transition of an active atomic state is
    absent from the selected set only if it conflicts with a DIFFERENT first-enabled transition (of
    some active atomic state).  Clause (3) itself demands that this other transition is a member of
    the result; see `C02_partial`. -/
theorem C02_absent_only_by_conflict (env : Env σ) (hp : GuardsPure env) (d : Doc) (ev : Option Str)
    (s : Sess σ) (a : Nat) (ha : a ∈ atomicStates d s.cfg) (t : Nat)
    (ht : (candidates d ev a).find? (guardHolds env d s.dm s.cfg) = some t) :
    t ∈ (select env d ev s).2 ∨
    ∃ a' ∈ atomicStates d s.cfg, ∃ t', (candidates d ev a').find? (guardHolds env d s.dm s.cfg) = some t' ∧
      t' ≠ t ∧ conflict d s.hv s.cfg t t' = true := by
  obtain ⟨hnd, hmem⟩ := C02_enabled_exact env hp d ev s
  rw [select_eq_removeConflicting]
  rcases removeConflicting_absent d s.hv s.cfg _ hnd t ((hmem t).2 ⟨a, ha, ht⟩) with h | ⟨t', ht', hne, hc⟩
  · exact Or.inl h
  · obtain ⟨a', ha', hf⟩ := (hmem t').1 ht'
    exact Or.inr ⟨a', ha', t', hf, hne, hc⟩
#assert_axioms C02_absent_only_by_conflict

/-- a transition whose exit set is disjoint from that of every other enabled transition is always
    taken (corollary: in a configuration without conflicts the selected set IS the enabled set) -/
theorem C02_unconflicted_taken (env : Env σ) (hp : GuardsPure env) (d : Doc) (ev : Option Str)
    (s : Sess σ) (t : Nat) (ht : t ∈ enabledList env d ev s)
    (hfree : ∀ t' ∈ enabledList env d ev s, t' ≠ t → conflict d s.hv s.cfg t t' = false) :
    t ∈ (select env d ev s).2 := by
  obtain ⟨hnd, _⟩ := C02_enabled_exact env hp d ev s
  rw [select_eq_removeConflicting]
  rcases removeConflicting_absent d s.hv s.cfg _ hnd t ht with h | ⟨t', ht', hne, hc⟩
  · exact h
  · rw [hfree t' ht' hne] at hc; cases hc
#assert_axioms C02_unconflicted_taken

/-- What is proved of `C02_full` (for pure guards, every document table, session, event, data
    model): clauses (1) and (2) of `OptimalSet` in full — every selected transition is THE first
    candidate whose guard holds of some active atomic state, and the set is duplicate and conflict
    free — and of clause (3) the weaker form `C02_absent_only_by_conflict`: a first-enabled transition
    that is absent conflicts with a different first-enabled transition.
    **Missing** for `C02_full`: clause (3) demands that this other transition is itself a *member* of
    the result.  `conflict` is not transitive, so the fold over `rcStep` alone does not give that: a
    transition pre-empted by `t'` stays dropped when `t'` is later removed by a third one.  On state
    *trees* this cannot happen (the atomic states between two descendants of a state in document
    order are descendants of it too), which needs the pre-order lemmas about `docId` that
    `conformantB` does not provide yet; `C02_full` quantifies over all tables, for which it is not
    expected to hold. -/
theorem C02_partial (env : Env σ) (hp : GuardsPure env) (d : Doc) (ev : Option Str) (s : Sess σ) :
    (∀ t ∈ (select env d ev s).2, ∃ a ∈ atomicStates d s.cfg,
        (candidates d ev a).find? (guardHolds env d s.dm s.cfg) = some t) ∧
    ConflictFree d s.hv s.cfg (select env d ev s).2 ∧
    (∀ a ∈ atomicStates d s.cfg, ∀ t, (candidates d ev a).find? (guardHolds env d s.dm s.cfg) = some t →
        t ∈ (select env d ev s).2 ∨
        ∃ a' ∈ atomicStates d s.cfg, ∃ t', (candidates d ev a').find? (guardHolds env d s.dm s.cfg) = some t' ∧
          t' ≠ t ∧ conflict d s.hv s.cfg t t' = true) :=
  ⟨C02_members_first_enabled env hp d ev s, C02_conflict_free env d ev s,
   fun a ha t ht => C02_absent_only_by_conflict env hp d ev s a ha t ht⟩
#assert_axioms C02_partial

/-! ### Non-vacuity: a concrete parallel document where two regions select conflicting transitions -/

/-- root 1 ⊃ parallel 2 ⊃ regions 3 ⊃ {4}, 5 ⊃ {6}; 7 outside.  t10: 4 → 7 (leaves the parallel),
    t11: 6 → 6. Both on event "e" = [101]. -/
def exDoc : Doc :=
  { root := 1,
    states := [
      { id := 1, docId := 1, kids := [2, 7], initial := 20 },
      { id := 2, docId := 2, parent := 1, kids := [3, 5], isParallel := true },
      { id := 3, docId := 3, parent := 2, kids := [4], initial := 21 },
      { id := 4, docId := 4, parent := 3, transitions := [10] },
      { id := 5, docId := 5, parent := 2, kids := [6], initial := 22 },
      { id := 6, docId := 6, parent := 5, transitions := [11] },
      { id := 7, docId := 7, parent := 1 }],
    transitions := [
      { id := 10, docId := 10, events := [[101]], source := 4, target := [7] },
      { id := 11, docId := 11, events := [[101]], source := 6, target := [6] },
      { id := 20, source := 1, target := [2] }, { id := 21, source := 3, target := [4] },
      { id := 22, source := 5, target := [6] }] }

example : candidates exDoc (some [101]) 4 = [10] ∧ candidates exDoc (some [101]) 6 = [11] := by decide
example : conflict exDoc [] [1, 2, 3, 4, 5, 6] 10 11 = true := by decide
-- the earlier atomic state's transition pre-empts the later one
example : removeConflicting exDoc [] [1, 2, 3, 4, 5, 6] [10, 11] = [10] := by decide
example : sortByDesc (docIdOf exDoc) (computeExitSet exDoc [] [1, 2, 3, 4, 5, 6] [10]) = [6, 5, 4, 3, 2] := by decide

/-- a data model without data: every guard holds, nothing has effects (pure guards) -/
def trivEnv : Env Unit :=
  { cond := fun dm _ _ => ({ dm := dm }, some true), exec := fun dm _ _ => { dm := dm },
    setEvent := fun dm _ => dm, initData := fun dm _ _ => { dm := dm },
    doneData := fun dm _ _ => ({ dm := dm }, []), invoke := fun dm _ _ _ => { dm := dm } }

example : GuardsPure trivEnv := fun _ _ _ => rfl
-- the hypotheses of C02_enabled_exact / C02_absent_only_by_conflict on a concrete session: both
-- regions enable a transition, the later one is absent and conflicts with the earlier, different one
example : enabledList trivEnv exDoc (some [101]) { cfg := [1, 2, 3, 4, 5, 6], dm := () } = [10, 11] := by decide
example : (select trivEnv exDoc (some [101]) { cfg := [1, 2, 3, 4, 5, 6], dm := () }).2 = [10] := by decide
example : (candidates exDoc (some [101]) 6).find? (guardHolds trivEnv exDoc () [1, 2, 3, 4, 5, 6]) = some 11 := by decide

end Rfsm.Interp
