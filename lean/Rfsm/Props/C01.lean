import Rfsm.Audit
import Rfsm.Proofs.ReachLemmas
import Rfsm.Proofs.TreeLemmas
import Rfsm.Proofs.RootLemmas
/-!
# C01 — The active configuration is always a legal SCXML state configuration

Model: `Rfsm.Interp` (M-INT).  `Reach env d s` is the set of sessions the event loop of
`interpret` can produce (start-up, microsteps with selected transitions, and every operation that
leaves configuration and history alone); `run_reach` shows that everything `mainLoop` returns is
in it, so an invariant of `Reach` holds after start-up and after every microstep of every run —
for every conformant document, every event sequence (batches, self-sent events) and every data
model.

`legalB` (Rfsm/Model/Legal.lean) is the decidable legal-configuration predicate; `conformantB` the
decidable structural conformance of the document tables.
-/
namespace Rfsm.Interp

variable {σ : Type}

/-- C01 at full strength: every reachable configuration of a conformant document is legal, and a
    microstep never enters an active state nor exits an inactive one. -/
def C01_full : Prop :=
  ∀ (σ : Type) (env : Env σ) (d : Doc), conformantB d = true →
    (∀ s : Sess σ, Reach env d s → legalB d s.cfg = true) ∧
    (∀ (s : Sess σ) (ev : Option Descriptor.Str), Reach env d s →
      let s1 := (select env d ev s).1
      let ts := (select env d ev s).2
      (∀ x ∈ computeExitSet d s1.hv s1.cfg ts, x ∈ s1.cfg) ∧
      (∀ x ∈ (computeEntrySet d (exitStates env d s1 ts).hv ts).toEnter, x ∉ (exitStates env d s1 ts).cfg))

/-- the configuration after a microstep: what was active and not in the exit set, plus the entry
    set (computed with the history recorded by the exit) -/
theorem C01_microstep_configuration (env : Env σ) (d : Doc) (s : Sess σ) (ts : List Nat) :
    ∀ x, x ∈ (microstep env d s ts).cfg ↔
      (x ∈ s.cfg ∧ x ∉ computeExitSet d s.hv s.cfg ts) ∨
      x ∈ (computeEntrySet d (exitStates env d s ts).hv ts).toEnter := by
  intro x
  unfold microstep
  have he := exitStates_spec env d s ts
  have hk := executeTransitionContent_kept env d ts (exitStates env d s ts)
  have hn := enterStates_spec env d (executeTransitionContent env d (exitStates env d s ts) ts) ts
  rw [hn.1 x, hk.cfg, hk.hv, he.1 x]
#assert_axioms C01_microstep_configuration

/-- no state is exited while inactive: the exit set is a duplicate-free part of the configuration -/
theorem C01_exit_only_active (d : Doc) (hv : Table) (cfg ts : List Nat) :
    (∀ x ∈ computeExitSet d hv cfg ts, x ∈ cfg) ∧ (computeExitSet d hv cfg ts).Nodup :=
  ⟨fun _ hx => (mem_computeExitSet.1 hx).1, computeExitSet_nodup d hv cfg ts⟩
#assert_axioms C01_exit_only_active

/-- the document root is never exited by a microstep -/
theorem C01_root_never_exited (d : Doc) (hv : Table) (cfg ts : List Nat)
    (hroot : parentOf d d.root = 0) : d.root ∉ computeExitSet d hv cfg ts := by
  intro h
  obtain ⟨_, tid, _, _, hd⟩ := mem_computeExitSet.1 h
  unfold isDescendant at hd
  split at hd
  · cases hd
  · have : ancestors d d.root = [] := by
      unfold ancestors ancestorsAux fuelOf
      simp [hroot]
    rw [this] at hd
    simp at hd
#assert_axioms C01_root_never_exited

/-- invariant part 1+2: a reachable configuration never lists a state twice and never contains a
    history pseudo-state -/
theorem C01_no_duplicates_no_history (env : Env σ) (d : Doc) (hc : conformantB d = true)
    (s : Sess σ) (h : Reach env d s) :
    s.cfg.Nodup ∧ ∀ x ∈ s.cfg, isHistoryState d x = false := by
  have hp := conformant_noHistParent hc
  induction h with
  | start s0 hcfg hhv =>
    have hs := enterStates_spec env d s0 (rootInit d)
    refine ⟨hs.2.2 (by rw [hcfg]; exact List.nodup_nil), ?_⟩
    intro x hx
    rcases (hs.1 x).1 hx with h | h
    · rw [hcfg] at h; cases h
    · exact computeEntrySet_noHist _ hp _ x h
  | same _ hcfg _ ih => rw [hcfg]; exact ih
  | @micro s ev _ ih =>
    have hsc := select_sameCore env d ev s
    obtain ⟨ihn, ihh⟩ := ih
    generalize (select env d ev s).1 = s1 at hsc ⊢
    generalize (select env d ev s).2 = ts
    have he := exitStates_spec env d s1 ts
    have hk := executeTransitionContent_kept env d ts (exitStates env d s1 ts)
    have hn := enterStates_spec env d (executeTransitionContent env d (exitStates env d s1 ts) ts) ts
    refine ⟨?_, ?_⟩
    · unfold microstep
      apply hn.2.2
      rw [hk.cfg]
      exact he.2.2.2.2 (by rw [hsc.1]; exact ihn)
    · intro x hx
      rcases (C01_microstep_configuration env d s1 ts x).1 hx with ⟨h, _⟩ | h
      · rw [hsc.1] at h; exact ihh x h
      · exact computeEntrySet_noHist _ hp _ x h
#assert_axioms C01_no_duplicates_no_history

/-- … hence the same holds for every session returned by the event loop of an actual run: after
    start-up and after every macrostep, whatever the external events, batches and data model -/
theorem C01_run (env : Env σ) (d : Doc) (hc : conformantB d = true) (c : Descriptor.Str) (m f : Nat)
    (dm0 : σ) (feed : List (List Event)) (r : Sess σ × Bool)
    (h : mainLoop env d c m f (startSession env d dm0) feed = some r) :
    r.1.cfg.Nodup ∧ ∀ x ∈ r.1.cfg, isHistoryState d x = false :=
  C01_no_duplicates_no_history env d hc r.1 (run_reach env d c m f dm0 feed r h)
#assert_axioms C01_run

/-- the parent pointers of a conformant document form a tree: a parent precedes its children in
    document order, the walk up from every state ends at the root, descent is transitive and
    asymmetric (all within the fuel the interpreter model walks with) -/
theorem C01_tree (d : Doc) (hc : conformantB d = true) :
    TreeLike d ∧
    (∀ x p q, isDescendant d x p = true → isDescendant d p q = true → isDescendant d x q = true) ∧
    (∀ x p, isDescendant d x p = true → isDescendant d p x = false) :=
  ⟨conformant_treeLike hc, fun _ _ _ h1 h2 => isDescendant_trans (conformant_treeLike hc) h1 h2,
   fun _ _ h => isDescendant_asymm (conformant_treeLike hc) h⟩
#assert_axioms C01_tree

/-- **exit half of "every active state's parent is active"**: the exit set of a microstep is closed
    under active descendants — when a state is exited, every active state below it is exited too
    (any history, configuration and transition set) -/
theorem C01_exit_descendant_closed (d : Doc) (hc : conformantB d = true) (hv : Table) (cfg ts : List Nat)
    (p x : Nat) (hp : p ∈ computeExitSet d hv cfg ts) (hx : x ∈ cfg) (hd : isDescendant d x p = true) :
    x ∈ computeExitSet d hv cfg ts :=
  computeExitSet_descendant_closed (conformant_treeLike hc) hv cfg ts hp hx hd
#assert_axioms C01_exit_descendant_closed

/-- … hence among the states that stay active the clause is preserved: a state that is not exited
    and whose parent was active still has an active parent after the exit phase of the microstep -/
theorem C01_kept_parent_active (env : Env σ) (d : Doc) (hc : conformantB d = true) (s : Sess σ)
    (ts : List Nat) (x : Nat) (hx0 : x ≠ 0) (hpar : parentOf d x ≠ 0)
    (hx : x ∈ (exitStates env d s ts).cfg) (hp : parentOf d x ∈ s.cfg) :
    parentOf d x ∈ (exitStates env d s ts).cfg := by
  have he := exitStates_spec env d s ts
  have hx' := (he.1 x).1 hx
  exact (he.1 _).2 ⟨hp, kept_parent_kept (conformant_treeLike hc) s.hv s.cfg ts hx'.1 hx0 hx'.2 hpar⟩
#assert_axioms C01_kept_parent_active

/-- the clause "the document root is active" of `legalB` is preserved by every microstep (for any
    transition set, history and data model): once the root is active it stays active -/
theorem C01_root_stays_active (env : Env σ) (d : Doc) (hroot : parentOf d d.root = 0) (s : Sess σ)
    (ts : List Nat) (h : d.root ∈ s.cfg) : d.root ∈ (microstep env d s ts).cfg :=
  (C01_microstep_configuration env d s ts d.root).2 (Or.inl ⟨h, C01_root_never_exited d s.hv s.cfg ts hroot⟩)
#assert_axioms C01_root_stays_active

/-- … hence for every document whose start-up entry set contains the root (a closed, decidable fact
    about the document alone: `computeEntrySet d [] (rootInit d)`, see the `example` for `exDoc1`
    below) the root is active in EVERY reachable session — the first clause of `legalB` as an
    invariant of whole runs -/
theorem C01_root_active (env : Env σ) (d : Doc) (hroot : parentOf d d.root = 0)
    (h0 : d.root ∈ (computeEntrySet d [] (rootInit d)).toEnter) (s : Sess σ) (hr : Reach env d s) :
    d.root ∈ s.cfg := by
  induction hr with
  | start s0 hcfg hhv =>
    have hs := enterStates_spec env d s0 (rootInit d)
    exact (hs.1 d.root).2 (Or.inr (by rw [hhv]; exact h0))
  | same _ hcfg _ ih => rw [hcfg]; exact ih
  | @micro s ev _ ih =>
    have hsc := select_sameCore env d ev s
    exact C01_root_stays_active env d hroot _ _ (by rw [hsc.1]; exact ih)
#assert_axioms C01_root_active

/-- **the root is active in every reachable session** of every conformant document that has at
    least one state and whose first top-level initial target is a proper state (not a history
    pseudo-state): the start-up entry set contains the root (`computeEntrySet_root`: the initial
    transition starts at the root, so its domain is "no state" and `addAncestorStatesToEnter` walks
    up to and including the root) and no microstep exits it. -/
theorem C01_root_active_conformant (env : Env σ) (d : Doc) (hc : conformantB d = true)
    (hk : (getState d d.root).kids ≠ [])
    (hnh : ∀ t0 ts', (getTrans d (getState d d.root).initial).target = t0 :: ts' → isHistoryState d t0 = false)
    (s : Sess σ) (hr : Reach env d s) : d.root ∈ s.cfg := by
  have ht := conformant_treeLike hc
  obtain ⟨hi, hsrc, hne, hdesc⟩ := conformant_root_initial hc hk
  refine C01_root_active env d ht.rootParent ?_ s hr
  have hri : rootInit d = [(getState d d.root).initial] := by
    unfold rootInit
    simp [hi]
  rw [hri]
  cases htg : (getTrans d (getState d d.root).initial).target with
  | nil => exact absurd htg hne
  | cons t0 ts' =>
    exact computeEntrySet_root ht _ t0 ts' hsrc htg (hnh t0 ts' htg)
      (hdesc t0 (by rw [htg]; exact List.mem_cons_self)) []
#assert_axioms C01_root_active_conformant

/-- **entry half, inclusion part**: after a microstep every proper-state target of every taken
    transition is active, and so is every proper ancestor of each of its effective targets (history
    dereferenced with the values recorded by this microstep's exits) below the transition's domain —
    the ancestors a legal configuration needs are entered, for every document, history and
    transition set (no fuel side condition: the entry recursion always has fuel for its first level) -/
theorem C01_entry_targets_and_ancestors (env : Env σ) (d : Doc) (s : Sess σ) (ts : List Nat)
    (tid : Nat) (htid : tid ∈ ts) :
    let hv' := (exitStates env d s ts).hv
    (∀ t ∈ (getTrans d tid).target, isHistoryState d t = false → t ∈ (microstep env d s ts).cfg) ∧
    (∀ x ∈ effTargets d hv' (getTrans d tid),
      ∀ a ∈ getProperAncestors d x (transDomain d hv' (getTrans d tid)), a ∈ (microstep env d s ts).cfg) := by
  have h := computeEntrySet_adds d (exitStates env d s ts).hv ts tid htid
  exact ⟨fun t ht hn => (C01_microstep_configuration env d s ts t).2 (Or.inr (h.1 t ht hn)),
         fun x hx a ha => (C01_microstep_configuration env d s ts a).2 (Or.inr (h.2 x hx a ha))⟩
#assert_axioms C01_entry_targets_and_ancestors

/-- the part of `legalB` that is proved as an invariant of whole runs: the root is active, no state
    is listed twice, no member is a history pseudo-state -/
def legalCoreB (d : Doc) (cfg : List Nat) : Bool :=
  cfg.contains d.root && nodupB cfg && cfg.all (fun s => (getState d s).histType == 0)

theorem nodupB_iff {l : List Nat} : nodupB l = true ↔ l.Nodup := by
  induction l with
  | nil => simp [nodupB]
  | cons a l ih => simp [nodupB, ih]
#assert_axioms nodupB_iff

/-- `legalCoreB` is a sub-conjunction of `legalB` (so the oracle's `legalB` implies it) … -/
theorem legalCoreB_of_legalB (d : Doc) (cfg : List Nat) (h : legalB d cfg = true) : legalCoreB d cfg = true := by
  unfold legalB at h
  unfold legalCoreB
  simp only [Bool.and_eq_true, List.all_eq_true] at h ⊢
  refine ⟨⟨h.1.1, h.1.2⟩, ?_⟩
  intro x hx
  have := h.2 x hx
  unfold legalAt at this
  simp only [Bool.and_eq_true] at this
  exact this.1.2
#assert_axioms legalCoreB_of_legalB

/-- … and it holds in every reachable session (hypotheses as in `C01_root_active_conformant`) -/
theorem C01_legal_core (env : Env σ) (d : Doc) (hc : conformantB d = true)
    (hk : (getState d d.root).kids ≠ [])
    (hnh : ∀ t0 ts', (getTrans d (getState d d.root).initial).target = t0 :: ts' → isHistoryState d t0 = false)
    (s : Sess σ) (hr : Reach env d s) : legalCoreB d s.cfg = true := by
  have h1 := C01_root_active_conformant env d hc hk hnh s hr
  have h2 := C01_no_duplicates_no_history env d hc s hr
  unfold legalCoreB
  simp only [Bool.and_eq_true, List.all_eq_true]
  refine ⟨⟨by simpa using h1, nodupB_iff.2 h2.1⟩, ?_⟩
  intro x hx
  have := h2.2 x hx
  unfold isHistoryState at this
  simpa using this
#assert_axioms C01_legal_core

/-- **no state is exited while a state below it is still active**: in the order in which
    `exitStates` processes the exit set (reverse document order, `C02_exit_order`), every exited
    descendant of a state stands before that state — together with `C01_exit_descendant_closed`:
    when a state's onexit handlers run, nothing below it is active any more -/
theorem C01_exit_descendants_first (d : Doc) (hc : conformantB d = true) (hv : Table) (cfg ts : List Nat)
    (l1 l2 : List Nat) (p x : Nat)
    (hsplit : sortByDesc (docIdOf d) (computeExitSet d hv cfg ts) = l1 ++ p :: l2)
    (hx : x ∈ cfg) (hd : isDescendant d x p = true) : x ∈ l1 := by
  have ht := conformant_treeLike hc
  have hp : p ∈ computeExitSet d hv cfg ts := by
    apply mem_sortByDesc.1
    rw [hsplit]; simp
  have hxe := computeExitSet_descendant_closed ht hv cfg ts hp hx hd
  exact descendant_before_ancestor ht (sortByDesc_sorted _ _) hsplit (mem_sortByDesc.2 hxe) hd
#assert_axioms C01_exit_descendants_first

/-- What is proved of `C01_full` (all conformant documents, all reachable sessions, all data
    models): no state is exited while inactive; the root is never exited; the configuration after a
    microstep is exactly (old ∖ exit set) ∪ entry set; a configuration never lists a state twice and
    never contains a history pseudo-state; the exit set is closed under active descendants, so the
    states that stay active keep an active parent (`C01_exit_descendant_closed`,
    `C01_kept_parent_active`), and descendants are exited before their ancestors
    (`C01_exit_descendants_first`); the root is active in every reachable session
    (`C01_root_active_conformant`, first clause of `legalB`); targets and the ancestors of effective
    targets below the domain are entered (`C01_entry_targets_and_ancestors`).
    **Missing** for `C01_full`: (i) for the *entered* states the clause "every active state's parent
    is active", and the clauses "exactly one active child of a compound state / of the root", "all
    children of an active parallel state are active" of `legalB`, and (ii) "no state is entered
    while active" (the entry set is disjoint from what remains after the exit) — both need a
    termination measure for the fuel-indexed mutual recursion `addDesc`/`addAnc` (fuel exhaustion
    would add fewer states) on top of the tree lemmas now available (`C01_tree`), an invariant that
    recorded history values lie below the history's parent, and a legal-state-specification clause
    for multi-target transitions in `conformantB`; (ii) is false as stated
    (`C01_counterexample`).  Until then these clauses are checked on every implementation trace by
    the oracle (`legalB`, clean-step). -/
theorem C01_partial (env : Env σ) (d : Doc) (hc : conformantB d = true) :
    (∀ s : Sess σ, Reach env d s → s.cfg.Nodup ∧ ∀ x ∈ s.cfg, isHistoryState d x = false) ∧
    (∀ (hv : Table) (cfg ts : List Nat), ∀ x ∈ computeExitSet d hv cfg ts, x ∈ cfg) ∧
    (∀ (hv : Table) (cfg ts : List Nat) (p x : Nat), p ∈ computeExitSet d hv cfg ts → x ∈ cfg →
      isDescendant d x p = true → x ∈ computeExitSet d hv cfg ts) :=
  ⟨fun s h => C01_no_duplicates_no_history env d hc s h,
   fun hv cfg ts => (C01_exit_only_active d hv cfg ts).1,
   fun hv cfg ts p x hp hx hd => C01_exit_descendant_closed d hc hv cfg ts p x hp hx hd⟩
#assert_axioms C01_partial

/-! ### Non-vacuity: a conformant document with a parallel state, and a legal configuration of it -/

def exDoc1 : Doc :=
  { root := 1,
    states := [
      { id := 1, docId := 1, kids := [2, 7], initial := 20 },
      { id := 2, docId := 2, parent := 1, kids := [3, 5], isParallel := true, history := [8] },
      { id := 3, docId := 3, parent := 2, kids := [4], initial := 21 },
      { id := 4, docId := 4, parent := 3, transitions := [10] },
      { id := 5, docId := 5, parent := 2, kids := [6], initial := 22 },
      { id := 6, docId := 6, parent := 5, transitions := [11] },
      { id := 7, docId := 7, parent := 1 },
      { id := 8, docId := 8, parent := 2, histType := 2, transitions := [12] }],
    transitions := [
      { id := 10, docId := 10, events := [[101]], source := 4, target := [7] },
      { id := 11, docId := 11, events := [[101]], source := 6, target := [6] },
      { id := 12, docId := 12, source := 8, target := [4] },
      { id := 20, source := 1, target := [2] }, { id := 21, source := 3, target := [4] },
      { id := 22, source := 5, target := [6] }] }

example : conformantB exDoc1 = true := by decide
example : legalB exDoc1 [1, 2, 3, 4, 5, 6] = true := by decide
example : legalB exDoc1 [1, 2, 3, 4] = false := by decide      -- a parallel child is missing
example : (computeEntrySet exDoc1 [] [20]).toEnter = [2, 3, 4, 5, 6, 1] := by decide
-- C01_entry_targets_and_ancestors on exDoc1: transition 10 (4 → 7) has effective target 7, domain 1 (root): nothing between
example : effTargets exDoc1 [] (getTrans exDoc1 10) = [7] ∧ transDomain exDoc1 [] (getTrans exDoc1 10) = 1 := by decide
example : legalCoreB exDoc1 [1, 2, 3, 4, 5, 6] = true ∧ legalCoreB exDoc1 [2, 3] = false := by decide
-- hypotheses of C01_root_active / C01_root_active_conformant for exDoc1
example : (getState exDoc1 exDoc1.root).kids ≠ [] ∧ (getTrans exDoc1 (getState exDoc1 exDoc1.root).initial).target = [2] ∧
    isHistoryState exDoc1 2 = false := by decide
example : parentOf exDoc1 exDoc1.root = 0 ∧ exDoc1.root ∈ (computeEntrySet exDoc1 [] (rootInit exDoc1)).toEnter := by decide
-- hypotheses of C01_exit_descendant_closed: transition 10 (4 → 7) exits the parallel 2 and, with it, 6 below it
example : 2 ∈ computeExitSet exDoc1 [] [1, 2, 3, 4, 5, 6] [10] ∧ isDescendant exDoc1 6 2 = true ∧
    6 ∈ computeExitSet exDoc1 [] [1, 2, 3, 4, 5, 6] [10] := by decide
-- … and C01_exit_descendants_first: 6 stands before 2 in the exit order
example : sortByDesc (docIdOf exDoc1) (computeExitSet exDoc1 [] [1, 2, 3, 4, 5, 6] [10]) = [6, 5, 4, 3] ++ 2 :: [] := by decide

end Rfsm.Interp

namespace Rfsm.Interp

/-! ### A genuine violation (finding C01-history-from-inside)

The W3C algorithm, followed literally by `src/fsm.rs`, re-enters states that were never exited when
a transition whose source lies inside the parent of a history state targets that history state:
`addDescendantStatesToEnter` adds the ancestors between the restored (or default) states and the
history's parent, while the transition domain — computed from the *effective* targets — is a
smaller state, so those ancestors were not exited.  Their `onentry` content runs again. -/

/-- root 1 ⊃ compound 2 ⊃ { deep history 5 (default → 4), compound 3 ⊃ { atomic 4 } };
    transition 10 on "b": 4 → history 5 -/
def exDocH : Doc :=
  { root := 1,
    states := [
      { id := 1, docId := 1, kids := [2], initial := 20 },
      { id := 2, docId := 2, parent := 1, kids := [3], initial := 21, history := [5] },
      { id := 3, docId := 3, parent := 2, kids := [4], initial := 22 },
      { id := 4, docId := 4, parent := 3, transitions := [10] },
      { id := 5, docId := 5, parent := 2, histType := 2, transitions := [11] }],
    transitions := [
      { id := 10, docId := 10, events := [[98]], source := 4, target := [5] },
      { id := 11, docId := 11, source := 5, target := [4] },
      { id := 20, source := 1, target := [2] }, { id := 21, source := 2, target := [3] },
      { id := 22, source := 3, target := [4] }] }

/-- the trivial data model -/
def unitEnv : Env Unit :=
  { cond := fun dm _ _ => ({ dm := dm }, some true), exec := fun dm _ _ => { dm := dm },
    setEvent := fun dm _ => dm, initData := fun dm _ _ => { dm := dm },
    doneData := fun dm _ _ => ({ dm := dm }, []), invoke := fun dm _ _ _ => { dm := dm } }

theorem C01_counterexample_document : conformantB exDocH = true := by decide +kernel
#assert_axioms C01_counterexample_document

/-- after start-up the configuration is {2,3,4,1}; event "b" selects transition 10, whose exit set
    is {4} only, while its entry set contains 3 — which is still active -/
theorem C01_counterexample_step :
    let s := startSession unitEnv exDocH ()
    let s1 := (select unitEnv exDocH (some [98]) s).1
    let ts := (select unitEnv exDocH (some [98]) s).2
    ts = [10] ∧ computeExitSet exDocH s1.hv s1.cfg ts = [4] ∧
    3 ∈ (computeEntrySet exDocH (exitStates unitEnv exDocH s1 ts).hv ts).toEnter ∧
    3 ∈ (exitStates unitEnv exDocH s1 ts).cfg := by decide +kernel
#assert_axioms C01_counterexample_step

theorem C01_counterexample : ¬ C01_full := by
  intro h
  obtain ⟨_, h2⟩ := h Unit unitEnv exDocH C01_counterexample_document
  have hr := startSession_reach unitEnv exDocH ()
  have := (h2 (startSession unitEnv exDocH ()) (some [98]) hr).2
  obtain ⟨_, _, h3, h4⟩ := C01_counterexample_step
  exact this 3 h3 h4
#assert_axioms C01_counterexample

end Rfsm.Interp
