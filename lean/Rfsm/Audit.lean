import Lean
/-!
`#assert_axioms thm` — elaboration fails unless `thm` depends on nothing beyond
`propext`, `Classical.choice`, `Quot.sound`.  Every property theorem is followed by one; `bin/check`
counts the `AXIOMS-OK` lines it prints and refuses a property module that has a theorem without one.
-/
open Lean Elab Command

elab "#assert_axioms " id:ident : command => do
  let name ← liftCoreM <| realizeGlobalConstNoOverloadWithInfo id
  let axs ← liftCoreM <| collectAxioms name
  let allowed : List Name := [``propext, ``Classical.choice, ``Quot.sound]
  let bad := axs.toList.filter (fun a => !allowed.contains a)
  if bad.isEmpty then
    logInfo m!"AXIOMS-OK {name} {axs.toList}"
  else
    throwError "AXIOMS-BAD {name} {bad}"
