/-
M-CONC / Route: the SCXML event I/O processor (property C15).

What is transcribed:
  * `ScxmlEventIOProcessor::send`, `::send_to_session`, `::get_location`
                                   (src/event_io_processor/scxml_event_io_processor.rs)  → `routeSend`
  * `FsmExecutor::send_to_session`, `get_session_sender`, `ExecutorState.sessions`
                                   (src/fsm_executor.rs)                                  → `sendToSession`, `World`
  * `SendParameters::execute` after the evaluation of its expressions: send id (literal `id`,
    generated `stateid.platformid` for `idlocation`, else none), payload (content XOR
    params+namelist, `None` when empty), `invoke_id = fsm.caller_invoke_id`, type dispatch of
    `Datamodel::send` / `get_io_processor`, and the extra `error.execution` after a failed send
                                   (src/executable_content.rs, src/datamodel/mod.rs)      → `execSend`
  * `Event::error_communication`, `Event::error_execution` (src/fsm.rs)
  * `SESSION_ID_COUNTER`, `PLATFORM_ID_COUNTER`: `AtomicU32::fetch_add(1)` (src/fsm.rs)   → `fetchAdd`, `runCounter`
  * `u32::to_string` / `str::parse::<u32>` (Rust std: optional leading `+`, digits only, no
    sign alone, overflow is an error)                                                      → `showNat`, `parseU32`

Panic sites are explicit outcomes.  Up to /repo commit 05997b8 the code had two: `todo!("Handling
of unknown session")` in `FsmExecutor::send_to_session` and `parent_session_id.unwrap()` in
`ScxmlEventIOProcessor::send` (defect P9, property C12).  Both were repaired ("fix:" commits
9d6cb1f and bcf85d6: the send fails with `error.communication`); the model follows the code, so
`routeSend` no longer produces `.panic` (theorem `C15_no_panic`); the constructor stays because the
driver protocol and the harness still understand the answer `panic <site>`, which is how a
reintroduced panic shows up as a disagreement.

Strings are `List Nat` (UTF-8 bytes).  The payload type `δ` is abstract (it travels unchanged).
A session's `Receiver` lives in its `GlobalData`, which the executor's session table keeps alive
for ever (`sessions` is never removed from), so `Sender::send` to a registered session cannot
fail in the code as it is; the `Err` arm of `send_to_session` is modelled by the flag
`receiverDropped` that is never set by anything in this model.

Not modelled here: delayed sends (`delay_ms > 0`: outcome `scheduled`, see C16), failures while
evaluating the attribute expressions (the send is abandoned before an event exists), other I/O
processors.
-/
namespace Rfsm.Route

abbrev Str := List Nat

/-- "#_internal" -/
def tInternal : Str := [35, 95, 105, 110, 116, 101, 114, 110, 97, 108]
/-- "#_parent" -/
def tParent : Str := [35, 95, 112, 97, 114, 101, 110, 116]
/-- "#_scxml_" -/
def pfxSession : Str := [35, 95, 115, 99, 120, 109, 108, 95]
/-- "#_" -/
def pfxInvoke : Str := [35, 95]
/-- "http://www.w3.org/TR/scxml/#SCXMLEventProcessor" -/
def procUrl : Str := [104, 116, 116, 112, 58, 47, 47, 119, 119, 119, 46, 119, 51, 46, 111, 114, 103, 47, 84, 82, 47, 115, 99, 120, 109, 108, 47, 35, 83, 67, 88, 77, 76, 69, 118, 101, 110, 116, 80, 114, 111, 99, 101, 115, 115, 111, 114]
/-- "scxml" -/
def procShort : Str := [115, 99, 120, 109, 108]
/-- "error.communication" -/
def errComm : Str := [101, 114, 114, 111, 114, 46, 99, 111, 109, 109, 117, 110, 105, 99, 97, 116, 105, 111, 110]
/-- "error.execution" -/
def errExec : Str := [101, 114, 114, 111, 114, 46, 101, 120, 101, 99, 117, 116, 105, 111, 110]

/-! ## decimal numbers -/

/-- `u32::to_string` (fuel = the number itself is always enough) -/
def showNatAux : Nat → Nat → Str
  | 0, n => [48 + n % 10]
  | f + 1, n => if n < 10 then [48 + n] else showNatAux f (n / 10) ++ [48 + n % 10]

def showNat (n : Nat) : Str := showNatAux n n

/-- value of a digit string, left to right; `none` on a non-digit -/
def digitsVal : Str → Nat → Option Nat
  | [], acc => some acc
  | c :: cs, acc => if 48 ≤ c ∧ c ≤ 57 then digitsVal cs (acc * 10 + (c - 48)) else none

/-- `str::parse::<u32>()`: empty, a lone sign, a non-digit or a value ≥ 2^32 is an error; ONE
leading `+` is accepted, `-` never is (unsigned), leading zeros are accepted -/
def parseU32 (s : Str) : Option Nat :=
  match s with
  | [] => none
  | c :: cs =>
    if cs = [] ∧ (c = 43 ∨ c = 45) then none
    else
      match (if c = 43 then digitsVal cs 0 else digitsVal (c :: cs) 0) with
      | some n => if n < 4294967296 then some n else none
      | none => none

/-! ## events, sessions, the executor's table -/

inductive EType
  | platform | internal | external
  deriving DecidableEq, Repr

structure Event (δ : Type) where
  name : Str
  etype : EType
  sendid : Option Str
  origin : Option Str
  originType : Option Str
  invokeId : Option Str
  params : Option (List (Str × δ))
  content : Option δ
  deriving DecidableEq, Repr

structure Session (δ : Type) where
  sid : Nat
  /-- `GlobalData.parent_session_id` -/
  parent : Option Nat
  /-- `Fsm.caller_invoke_id` -/
  caller : Option Str
  /-- `GlobalData.child_sessions`: invoke id ↦ session id of the child -/
  children : List (Str × Nat)
  /-- see the file header: never `true` in the code as it is -/
  receiverDropped : Bool
  extQ : List (Event δ)
  intQ : List (Event δ)
  deriving DecidableEq, Repr

/-- `ExecutorState.sessions` (a `HashMap` keyed by session id: ids are unique) -/
abbrev World (δ : Type) := List (Session δ)

def lookup {δ : Type} (w : World δ) (sid : Nat) : Option (Session δ) :=
  w.find? (fun s => s.sid == sid)

def modify {δ : Type} (w : World δ) (sid : Nat) (f : Session δ → Session δ) : World δ :=
  w.map fun s => if s.sid = sid then f s else s

def enqExt {δ : Type} (w : World δ) (sid : Nat) (ev : Event δ) : World δ :=
  modify w sid fun s => { s with extQ := s.extQ ++ [ev] }

def enqInt {δ : Type} (w : World δ) (sid : Nat) (ev : Event δ) : World δ :=
  modify w sid fun s => { s with intQ := s.intQ ++ [ev] }

inductive PanicSite
  /-- was `todo!("Handling of unknown session")` in `FsmExecutor::send_to_session` (repaired) -/
  | unknownSession
  /-- was `global_lock.parent_session_id.unwrap()` in `ScxmlEventIOProcessor::send` (repaired) -/
  | noParent
  deriving DecidableEq, Repr

inductive Outcome (δ : Type)
  /-- returned normally with this return value; the world after the call -/
  | done (w : World δ) (ok : Bool)
  /-- the session thread panics (holding its `GlobalData` lock and the processor's lock) -/
  | panic (site : PanicSite)
  deriving Repr

/-- `Event::error_communication(&event)` -/
def errorCommunication {δ : Type} (ev : Event δ) : Event δ :=
  { name := errComm, etype := .platform, sendid := ev.sendid, origin := ev.origin,
    originType := ev.originType, invokeId := ev.invokeId, params := none, content := none }

/-- `Event::error_execution(&send_id, &invoke_id)` -/
def errorExecution {δ : Type} (sendid invokeId : Option Str) : Event δ :=
  { name := errExec, etype := .platform, sendid := sendid, origin := none, originType := none,
    invokeId := invokeId, params := none, content := none }

/-- `ScxmlEventIOProcessor::get_location(id)` = `"#_scxml_" + id` -/
def location (sid : Nat) : Str := pfxSession ++ showNat sid

/-- the first lines of `send`: origintype always, origin only if not yet set -/
def stamp {δ : Type} (sid : Nat) (ev : Event δ) : Event δ :=
  { ev with originType := some procUrl,
            origin := match ev.origin with
              | none => some (location sid)
              | some o => some o }

/-- `ScxmlEventIOProcessor::send_to_session` on top of `FsmExecutor::send_to_session` -/
def sendToSession {δ : Type} (w : World δ) (sender : Nat) (sid : Nat) (ev : Event δ) : Outcome δ :=
  match lookup w sid with
  | none => .done (enqInt w sender (errorCommunication ev)) false
  | some t =>
    if t.receiverDropped then .done (enqInt w sender (errorCommunication ev)) false
    else .done (enqExt w sid ev) true

/-- `ScxmlEventIOProcessor::send(global, target, event)`; `S` is the sending session -/
def routeSend {δ : Type} (w : World δ) (S : Session δ) (target : Str) (ev0 : Event δ) : Outcome δ :=
  let ev := stamp S.sid ev0
  if target = [] then .done (enqExt w S.sid ev) true
  else if target = tInternal then .done (enqInt w S.sid { ev with etype := .internal }) true
  else if target = tParent then
    match S.parent with
    | none => .done (enqInt w S.sid (errorCommunication ev)) false
    | some p => sendToSession w S.sid p ev
  else if pfxSession.isPrefixOf target then
    match parseU32 (target.drop pfxSession.length) with
    | some sid => sendToSession w S.sid sid ev
    | none => .done (enqInt w S.sid (errorCommunication ev)) false
  else if pfxInvoke.isPrefixOf target then
    match S.children.lookup (target.drop pfxInvoke.length) with
    | none => .done (enqInt w S.sid (errorCommunication ev)) false
    | some c => sendToSession w S.sid c ev
  else .done (enqInt w S.sid (errorExecution ev.sendid ev.invokeId)) false

/-! ## `<send>`: construction of the event -/

/-- a `<send>` element after its attribute expressions were evaluated successfully -/
structure SendSpec (δ : Type) where
  /-- value of `target` / `targetexpr` as text (`""` when neither is present) -/
  target : Str
  /-- value of `event` / `eventexpr` -/
  event : Str
  /-- the `id` attribute (`""` = absent) — `SendParameters.name` -/
  idLiteral : Str
  /-- `idlocation` is present — `SendParameters.name_location` non-empty -/
  idLocation : Bool
  /-- `SendParameters.parent_state_name` -/
  stateName : Str
  /-- a `<content>` child exists — `self.content.is_some()` -/
  hasContent : Bool
  /-- its value (`none` when the evaluation failed) -/
  content : Option δ
  /-- evaluated `<param>`s followed by the `namelist` values — `data_vec` -/
  params : List (Str × δ)
  /-- `delay` / `delayexpr` in milliseconds -/
  delayMs : Int
  /-- value of `type` / `typeexpr` (`""` = default) -/
  type : Str

/-- `AtomicU32::fetch_add(1, _)`: returns the old value, stores old+1 modulo 2^32 -/
def fetchAdd (c : Nat) : Nat × Nat := (c, (c + 1) % 4294967296)

/-- `format!("{}.{}", parent_state_name, PLATFORM_ID_COUNTER.fetch_add(1))` -/
def genId (stateName : Str) (n : Nat) : Str := stateName ++ [46] ++ showNat n

inductive ExecOutcome (δ : Type)
  | done (w : World δ) (ctr : Nat) (ok : Bool)
  /-- handed to the timer (C16), nothing is routed now -/
  | scheduled (ctr : Nat)
  | panic (site : PanicSite)
  deriving Repr

/-- the send id and the counter after `SendParameters::execute` has determined it -/
def sendId {δ : Type} (sp : SendSpec δ) (ctr : Nat) : Option Str × Nat :=
  if sp.idLocation then (some (genId sp.stateName (fetchAdd ctr).1), (fetchAdd ctr).2)
  else if sp.idLiteral = [] then (none, ctr)
  else (some sp.idLiteral, ctr)

/-- the event `SendParameters::execute` builds -/
def buildEvent {δ : Type} (S : Session δ) (sp : SendSpec δ) (sid : Option Str) : Event δ :=
  { name := sp.event, etype := .external, sendid := sid, origin := none, originType := none,
    invokeId := S.caller,
    params := if sp.hasContent then none else (if sp.params.isEmpty then none else some sp.params),
    content := if sp.hasContent then sp.content else none }

/-- the types under which `FsmExecutor::new_without_io_processor` registers the processor -/
def procTypes : List Str := [procUrl, procShort]

/-- `SendParameters::execute` from the point where all expressions are evaluated -/
def execSend {δ : Type} (w : World δ) (ctr : Nat) (S : Session δ) (sp : SendSpec δ) : ExecOutcome δ :=
  let (sid, ctr') := sendId sp ctr
  if sp.delayMs < 0 then
    .done (enqInt w S.sid (errorExecution sid S.caller)) ctr' false
  else if sp.delayMs > 0 ∧ sp.target = tInternal then
    .done (enqInt w S.sid (errorExecution sid S.caller)) ctr' false
  else
    let ty := if sp.type = [] then procUrl else sp.type
    let ev := buildEvent S sp sid
    if sp.delayMs > 0 then
      if procTypes.contains ty then .scheduled ctr'
      else .done (enqInt w S.sid (errorExecution sid S.caller)) ctr' false
    else if procTypes.contains ty then
      match routeSend w S sp.target ev with
      | .done w' true => .done w' ctr' true
      | .done w' false => .done (enqInt w' S.sid (errorExecution sid S.caller)) ctr' false
      | .panic site => .panic site
    else .done (enqInt w S.sid (errorExecution sid S.caller)) ctr' false

/-! ## id sources under concurrency -/

/-- any number of threads call `fetch_add` on one counter; the schedule lists which thread's call
is linearized next; result: (thread, value it received) in linearization order, final counter -/
def runCounter (c : Nat) : List Nat → List (Nat × Nat) × Nat
  | [] => ([], c)
  | t :: ts => ((t, (fetchAdd c).1) :: (runCounter (fetchAdd c).2 ts).1, (runCounter (fetchAdd c).2 ts).2)

/-- for contrast: a NON-atomic counter (separate load and store) — thread-local registers -/
inductive RaceOp
  | load (t : Nat)
  | store (t : Nat)
  deriving DecidableEq, Repr

/-- returns the ids handed out: a thread's `store` publishes register+1 and the thread uses its
register as the id -/
def runRacy (c : Nat) (regs : List (Nat × Nat)) : List RaceOp → List (Nat × Nat)
  | [] => []
  | .load t :: r => runRacy c ((t, c) :: regs.filter (fun p => p.1 ≠ t)) r
  | .store t :: r =>
    match regs.lookup t with
    | some v => (t, v) :: runRacy (v + 1) regs r
    | none => runRacy c regs r

/-! ## the dequeue filter applied to a routed event (composition with M-CONC/Queue) -/

/-- "done.invoke." -/
def doneInvokePrefix : Str := [100, 111, 110, 101, 46, 105, 110, 118, 111, 107, 101, 46]

/-- the filter loop of `mainEventLoop` for receiver `R` (same function as `Queue.acceptRust`) -/
def accepts {δ : Type} (R : Session δ) (ev : Event δ) : Bool :=
  if doneInvokePrefix.isPrefixOf ev.name then true
  else match ev.invokeId with
    | some i => if (R.caller.getD []) ≠ i then (R.children.map Prod.fst).contains i else true
    | none => true

end Rfsm.Route
