/-!
# M-CONC / Locks — threads over non-reentrant locks, explicit scheduler (C17)

Core Lean only.  This is the abstract machine the lock-order theorems of `Rfsm.Props.C17` are about.

What is modelled (trusted: `std::sync::Mutex` is a non-reentrant mutual-exclusion lock):

* a **thread** is the rest of its program (`acquire l | release l`, everything else a thread does is
  invisible here) and the list of locks it holds;
* a **system** is a list of threads, thread id = index;  `owner s l` is the thread holding `l`;
* `step s t` lets thread `t` execute its next operation: `acquire l` is enabled only when `l` has no
  owner — *including when the owner is `t` itself*: `Mutex::lock` on a mutex the thread already holds
  never returns, so re-acquisition blocks for ever; `release l` is always enabled;
* the scheduler is explicit: `exec s sched` runs the thread ids of `sched` one after the other and is
  `none` as soon as a scheduled thread is not enabled, `Reach init s` is the reflexive-transitive
  closure of `step`.  "For all interleavings" is an ordinary `∀ sched` / `∀ s, Reach init s → …`.
* `Deadlock s`: a non-empty set of threads each of which is blocked in `acquire l` for a lock `l`
  held by a member of the set (a thread re-acquiring its own lock is the one-element case).

The Rust code the instance in `Rfsm.Gen.LockSites` refers to: every `.lock()` of a
`std::sync::Mutex` in `/repo/src` (see `checks/lock_sites.json`); a guard going out of scope is a
`release`.
-/
namespace Rfsm.Locks

inductive Op (L : Type) where
  | acquire (l : L)
  | release (l : L)
deriving DecidableEq, Repr

structure Thread (L : Type) where
  /-- what the thread still has to do -/
  prog : List (Op L)
  /-- the locks it holds -/
  held : List L
deriving DecidableEq, Repr

abbrev Sys (L : Type) := List (Thread L)

variable {L : Type} [DecidableEq L]

/-- `owner : Lock → Option Thread` (the first thread whose held list contains the lock; in states
reachable from a clean start there is at most one, `Rfsm.Locks.reach_mutex`). -/
def owner (s : Sys L) (l : L) : Option Nat :=
  s.findIdx? (fun th => decide (l ∈ th.held))

/-- thread `t` executes its next operation, `none` = not enabled (finished, unknown, or blocked) -/
def step (s : Sys L) (t : Nat) : Option (Sys L) :=
  match s[t]? with
  | none => none
  | some th =>
    match th.prog with
    | [] => none
    | .acquire l :: rest =>
      if owner s l = none then some (s.set t ⟨rest, l :: th.held⟩) else none
    | .release l :: rest => some (s.set t ⟨rest, th.held.erase l⟩)

/-- strict execution of a schedule: every scheduled thread must be enabled -/
def exec (s : Sys L) : List Nat → Option (Sys L)
  | [] => some s
  | t :: ts =>
    match step s t with
    | some s' => exec s' ts
    | none => none

/-- lenient execution: a scheduled thread that is not enabled is skipped (used by the driver) -/
def run (s : Sys L) : List Nat → Sys L
  | [] => s
  | t :: ts =>
    match step s t with
    | some s' => run s' ts
    | none => run s ts

inductive Reach (init : Sys L) : Sys L → Prop where
  | refl : Reach init init
  | step {s s' : Sys L} {t : Nat} : Reach init s → step s t = some s' → Reach init s'

/-- the lock thread `t` is trying to take next -/
def waitsFor (s : Sys L) (t : Nat) : Option L :=
  match s[t]? with
  | some th =>
    match th.prog with
    | .acquire l :: _ => some l
    | _ => none
  | none => none

def holds (s : Sys L) (u : Nat) (l : L) : Prop :=
  ∃ th, s[u]? = some th ∧ l ∈ th.held

/-- a non-empty set of threads, each blocked on a lock held by a member of the set
(the member may be the thread itself: self-deadlock) -/
def Deadlock (s : Sys L) : Prop :=
  ∃ S : List Nat, S ≠ [] ∧ ∀ t ∈ S, ∃ l, waitsFor s t = some l ∧ ∃ u ∈ S, holds s u l

/-- decidable form of "`S` is a deadlocked set of `s`" -/
def deadlockedSet (s : Sys L) (S : List Nat) : Bool :=
  !S.isEmpty && S.all fun t =>
    match waitsFor s t with
    | some l => S.any fun u =>
        match s[u]? with
        | some th => decide (l ∈ th.held)
        | none => false
    | none => false

def unfinished (s : Sys L) : Prop := ∃ (t : Nat) (th : Thread L), s[t]? = some th ∧ th.prog ≠ []

/-- every thread `u` of `s` satisfies the per-thread predicate `P u held prog` -/
def AllThreads (P : Nat → List L → List (Op L) → Prop) (s : Sys L) : Prop :=
  ∀ (u : Nat) (th : Thread L), s[u]? = some th → P u th.held th.prog

def allFinished (s : Sys L) : Bool := s.all fun (th : Thread L) => th.prog.isEmpty

/-- a system in which no thread has started yet -/
def start (progs : List (List (Op L))) : Sys L := progs.map fun p => ⟨p, []⟩

/-! ### lock-order discipline of a program (static, per thread) -/

/-- every `acquire l` happens while all held locks are `lt`-below `l` -/
def Ordered (lt : L → L → Prop) : List L → List (Op L) → Prop
  | _, [] => True
  | held, .acquire l :: rest => (∀ h ∈ held, lt h l) ∧ Ordered lt (l :: held) rest
  | held, .release l :: rest => Ordered lt (held.erase l) rest

/-- Lock-order discipline with **thread-private locks**.  `pv l = some u` says that only thread `u`
ever touches `l` (nobody else can wait for it or hold it).  Thread `u` may acquire `l` while holding
`h` when `h` is `lt`-below `l`, *or* when `h` is private to `u` and is not `l` itself: a lock nobody
else can wait for cannot be part of a wait cycle, whatever the order says.  Re-acquiring a held lock
is never allowed (`lt` is irreflexive). -/
def OrderedP (lt : L → L → Prop) (pv : L → Option Nat) (u : Nat) : List L → List (Op L) → Prop
  | _, [] => True
  | held, .acquire l :: rest =>
      (pv l = none ∨ pv l = some u) ∧
      (∀ h ∈ held, lt h l ∨ (pv h = some u ∧ h ≠ l)) ∧
      OrderedP lt pv u (l :: held) rest
  | held, .release l :: rest => OrderedP lt pv u (held.erase l) rest

/-- the locks a thread holds are shared or its own -/
def HeldOk (pv : L → Option Nat) (u : Nat) (held : List L) : Prop :=
  ∀ h ∈ held, pv h = none ∨ pv h = some u

/-- the program gives back everything: it ends holding nothing -/
def Balanced : List L → List (Op L) → Prop
  | held, [] => held = []
  | held, .acquire l :: rest => Balanced (l :: held) rest
  | held, .release l :: rest => Balanced (held.erase l) rest

/-- Bool versions (for `decide` on concrete programs and for the driver) -/
def orderedB (lt : L → L → Bool) : List L → List (Op L) → Bool
  | _, [] => true
  | held, .acquire l :: rest => held.all (fun h => lt h l) && orderedB lt (l :: held) rest
  | held, .release l :: rest => orderedB lt (held.erase l) rest

def balancedB : List L → List (Op L) → Bool
  | held, [] => held.isEmpty
  | held, .acquire l :: rest => balancedB (l :: held) rest
  | held, .release l :: rest => balancedB (held.erase l) rest

/-- the *held-while-acquiring* pairs of a program: `(h, l)` whenever `l` is acquired while `h` is
held.  This is what the site table of the code lists and what the instrumented mutex records. -/
def acqEdges : List L → List (Op L) → List (L × L)
  | _, [] => []
  | held, .acquire l :: rest => held.map (fun h => (h, l)) ++ acqEdges (l :: held) rest
  | held, .release l :: rest => acqEdges (held.erase l) rest

end Rfsm.Locks
