/-
M-CONC / Queue: N producers, one FIFO, one consumer (property C13).

What is transcribed (src/fsm.rs):
  * `BlockingQueue` (`enqueue` = `Sender::send`, `dequeue` = `Receiver::recv`) — the channel is
    modelled as ONE linearizable FIFO list: a `send` appends atomically at the tail, `recv`
    removes the head, blocks while the list is empty.  `std::sync::mpsc` itself is NOT verified:
    its linearizability (and per-sender FIFO order) is part of the trusted base.
  * `start_fsm_with_data_and_finish_mode`: every producer holds a clone of the one `Sender`
    (`session.sender.clone()`, `FsmExecutor::get_session_sender`, `send_to_session`), the single
    `Receiver` is owned by the session thread.
  * the external-event part of `Fsm::mainEventLoop`: the loop
        loop { e = recv(); if name.starts_with("done.invoke.") {break}
               if let Some(i) = e.invoke_id { if caller_invoke_id != i
                    { if child_sessions.contains_key(i) {break} else {/* ignore */} } else {break} }
               else {break} }
    is `acceptRust`; a dropped event is a `recv` step without effect.  Everything the interpreter
    does with an accepted event until it comes back to `externalQueue.dequeue` (finalize,
    autoforward, selectTransitions, microsteps, the internal-event loop, invokes) is the abstract
    function `step : σ → ε → σ × List ο` (the interpreter is modelled elsewhere, M-INT).  The
    effects of one macrostep are emitted ONE AT A TIME (`Choice.tick`), interleaved with the
    producers' sends, so that "no overlap" is a statement about the schedule and not built into
    a big atomic step.  The consumer is one thread: it can `recv` only when the previous macrostep
    has emitted all its effects.

Not modelled here: the cancel event (ends the loop), `<send>` without target from the session
itself to its own external queue (the session as an additional producer), delayed sends.

The scheduler is explicit: a schedule is a `List Choice`; "for all schedules" is `∀`.
-/
namespace Rfsm.Queue

abbrev Str := List Nat

/-! ## merges -/

/-- `IsMergeOf ps out`: `out` is an interleaving of the lists `ps` — it uses up every list, and
takes the elements of each list in that list's order. -/
inductive IsMergeOf {α : Type} : List (List α) → List α → Prop
  | done {ps : List (List α)} : (∀ l ∈ ps, l = []) → IsMergeOf ps []
  | take {ps : List (List α)} {out : List α} (i : Nat) (e : α) (t : List α) :
      ps[i]? = some (e :: t) → IsMergeOf (ps.set i t) out → IsMergeOf ps (e :: out)

/-- decidable checker (backtracking over the producers whose head is the next element) -/
def isMergeOfB {α : Type} [DecidableEq α] : List (List α) → List α → Bool
  | ps, [] => ps.all (fun l => l.isEmpty)
  | ps, e :: out => (List.range ps.length).any fun i =>
      match ps[i]? with
      | some (h :: t) => decide (h = e) && isMergeOfB (ps.set i t) out
      | _ => false

/-- the property-text form: there is an assignment of an owner (producer index) to every position
of `out` such that the positions owned by producer `i` spell exactly `ps[i]`. -/
def restrict {α : Type} (out : List α) (owner : List Nat) (i : Nat) : List α :=
  (out.zip owner).filterMap fun p => if p.2 = i then some p.1 else none

/-! ## the transition system -/

structure Sys (σ ε ο : Type) where
  /-- one macrostep of the interpreter for an accepted external event -/
  step   : σ → ε → σ × List ο
  /-- the dequeue filter of `mainEventLoop` -/
  accept : σ → ε → Bool

structure St (σ ε ο : Type) where
  /-- what each producer still has to send -/
  prods   : List (List ε)
  /-- ghost: what each producer has sent so far -/
  sent    : List (List ε)
  /-- the channel, oldest first -/
  fifo    : List ε
  /-- the session (consumer) state -/
  sess    : σ
  /-- effects of the macrostep in progress that are not yet emitted -/
  pending : List ο
  /-- ghost: every event dequeued so far with the filter's verdict -/
  deq     : List (ε × Bool)
  /-- effects emitted so far -/
  trace   : List ο

inductive Choice
  | send (i : Nat)
  | recv
  | tick
  deriving DecidableEq, Repr

def init {σ ε ο : Type} (ps : List (List ε)) (s0 : σ) : St σ ε ο :=
  { prods := ps, sent := ps.map (fun _ => []), fifo := [], sess := s0, pending := [], deq := [],
    trace := [] }

/-- one scheduled step; `none` = the chosen thread is not enabled (producer finished / consumer
blocked on the empty channel or still inside a macrostep / nothing pending) -/
def next {σ ε ο : Type} (M : Sys σ ε ο) (s : St σ ε ο) : Choice → Option (St σ ε ο)
  | .send i =>
    match s.prods[i]? with
    | some (e :: t) =>
      some { s with prods := s.prods.set i t,
                    sent := s.sent.set i ((s.sent[i]?.getD []) ++ [e]),
                    fifo := s.fifo ++ [e] }
    | _ => none
  | .recv =>
    match s.pending, s.fifo with
    | [], e :: q =>
      if M.accept s.sess e then
        some { s with fifo := q, sess := (M.step s.sess e).1, pending := (M.step s.sess e).2,
                      deq := s.deq ++ [(e, true)] }
      else
        some { s with fifo := q, deq := s.deq ++ [(e, false)] }
    | _, _ => none
  | .tick =>
    match s.pending with
    | o :: r => some { s with pending := r, trace := s.trace ++ [o] }
    | [] => none

def run {σ ε ο : Type} (M : Sys σ ε ο) (s : St σ ε ο) : List Choice → Option (St σ ε ο)
  | [] => some s
  | c :: cs =>
    match next M s c with
    | some s' => run M s' cs
    | none => none

/-- every producer is done, the channel is drained, the last macrostep is finished -/
def complete {σ ε ο : Type} (s : St σ ε ο) : Prop :=
  (∀ l ∈ s.prods, l = []) ∧ s.fifo = [] ∧ s.pending = []

def completeB {σ ε ο : Type} (s : St σ ε ο) : Bool :=
  s.prods.all (fun l => l.isEmpty) && s.fifo.isEmpty && s.pending.isEmpty

/-! ## the sequential reference: the consumer alone, fed a list of events -/

def seqState {σ ε ο : Type} (M : Sys σ ε ο) : σ → List ε → σ
  | s, [] => s
  | s, e :: r => if M.accept s e then seqState M (M.step s e).1 r else seqState M s r

/-- one segment per dequeued event: the macrostep's effects, `[]` for an event the filter drops -/
def segments {σ ε ο : Type} (M : Sys σ ε ο) : σ → List ε → List (List ο)
  | _, [] => []
  | s, e :: r =>
    if M.accept s e then (M.step s e).2 :: segments M (M.step s e).1 r else [] :: segments M s r

def verdicts {σ ε ο : Type} (M : Sys σ ε ο) : σ → List ε → List Bool
  | _, [] => []
  | s, e :: r =>
    if M.accept s e then true :: verdicts M (M.step s e).1 r else false :: verdicts M s r

/-! ## the concrete filter and the concrete consumer used by the correspondence harness -/

structure Ev where
  name : Str
  invokeId : Option Str
  deriving DecidableEq, Repr

/-- "done.invoke." -/
def doneInvokePrefix : Str := [100, 111, 110, 101, 46, 105, 110, 118, 111, 107, 101, 46]

/-- the filter loop of `mainEventLoop`; `caller` is `""` when `Fsm.caller_invoke_id` is `None` -/
def acceptRust (caller : Str) (children : List Str) (e : Ev) : Bool :=
  if doneInvokePrefix.isPrefixOf e.name then true
  else match e.invokeId with
    | some i => if caller ≠ i then children.contains i else true
    | none => true

/-- session state of the harness document: the invoke ids in `child_sessions` and the counter
`n` of the document's data model -/
structure Sess where
  caller : Str
  children : List Str
  count : Nat
  deriving DecidableEq, Repr

inductive Obs
  | ext (name : Str)
  | mark (name : Str) (n : Nat)
  deriving DecidableEq, Repr

/-- the harness document: `<transition event="*" target="s">` that calls `mark(_event.name, n)`
and increments `n`; a `done.invoke.` event removes its invoke id from `child_sessions` first -/
def docStep (s : Sess) (e : Ev) : Sess × List Obs :=
  let ch :=
    if doneInvokePrefix.isPrefixOf e.name then
      match e.invokeId with
      | some i => s.children.filter (fun c => c ≠ i)
      | none => s.children
    else s.children
  ({ s with children := ch, count := s.count + 1 }, [.ext e.name, .mark e.name s.count])

def docSys : Sys Sess Ev Obs :=
  { step := docStep, accept := fun s e => acceptRust s.caller s.children e }

end Rfsm.Queue
