/-
M-CODEC: the binary `.rfsm` format (properties C05, C18).

Transcribes, at the level of bytes (`List Nat`, every element < 256):

  * src/serializer/default_protocol_definitions.rs   the type nibbles and flag bits
  * src/serializer/default_protocol_writer.rs        `write_type_and_value`, `write_uint`,
        `write_usize`, `write_u8` (trait default), `write_str`, `write_boolean`,
        `write_option_string`, `write_data`, `close`
  * src/serializer/default_protocol_reader.rs        `error`, `read_additional_number_bytes`,
        `read_type_and_size`, `verify_number_type`, `verify_string_type`, `read_boolean`,
        `read_option_string`, `read_string`, `read_uint`, `read_usize`, `read_data`,
        `read_data_value_payload`, `has_error`
  * src/serializer/protocol_reader.rs                `read_u8`, `read_u16`, `read_u32` (casts)
  * src/serializer/fsm_writer.rs                     `FsmWriter::write` and every `write_*`
  * src/serializer/fsm_reader.rs                     `FsmReader::read` and every `read_*`
  * the persisted fields of `Fsm`, `State`, `Transition`, `Invoke`, `DoneData`, `Parameter`,
    `CommonContent` (src/fsm.rs), the nine executable content kinds (src/executable_content.rs)
    and `Data` (src/datamodel/mod.rs); `Data::is_empty`; `BindingType/HistoryType/
    TransitionType::{ordinal, from_ordinal}`; `i64`/`f64` `to_string`/`parse` as used by
    `write_data`/`read_data_value_payload`.

Conventions for machine arithmetic on `u8`/`u16`/`u32`/`u64` (the values are `Nat` here):
  `x & 0x0F` is `x % 16`, `x & 0xF0` is `x / 16 * 16` (x a byte), `t | n` with `t % 16 = 0` and
  `n < 16` is `t + n`, `x >> k` is `x / 2^k`, `(x << 8) | b` on `u64` is `(x * 256) % 2^64 + b`,
  `x as u8/u16/u32` is `x % 2^8 / 2^16 / 2^32`, `saturating_sub` is `Nat` subtraction.  Flag words are sums of distinct bits and tested with `/ bit % 2`.

What is a parameter rather than modelled: the iteration order of the three `HashMap`s
(`Fsm.transitions`, `Fsm.executableContent`, `State.data`, `Data::Map`): the model value carries
them as lists *in the order the writer iterates* and the reader returns lists in wire order.

Writer.  `FsmWriter` and `DefaultProtocolWriter::write_data` never look at the error flag, so what
they do is a fixed sequence of primitive protocol calls (`Op`): `opsFsm`.  `Op.bytes` is what one
call appends to an ideal sink.  The writer has no panic site (`write_str` hands the whole
`value.as_bytes()` to `write_all`; it used to slice `value[0..len & 0x0FFF]`).  `Rfsm.Model.Sink`
runs the same call sequence against short-writing and failing sinks.

Reader.  `DefaultProtocolReader` is a state machine over the remaining input with the sticky
`ok` flag and the `type_and_value` scratch fields (`type_id`, `number` survive between calls: a
first byte whose high nibble is 0, 2 or 0xF changes nothing, so the *previous* type and
number are seen again — transcribed).  Reader programs are a small free monad (`Prog`) over the
trait methods, so that facts true of every reader program are proved once.  A Rust panic is
recorded in `RState.panic` (first site wins) and the final result is `panic site`; what the
model computes after that point is never observable.
-/
namespace Rfsm.Codec

abbrev Str := List Nat

def two64 : Nat := 18446744073709551616
def two32 : Nat := 4294967296

/-! ## Abstract model values: the persisted fields only -/

inductive Data where
  | integer (v : Int)            -- Data::Integer(i64)
  | double (text : Str)          -- Data::Double(f64), carried as its `to_string()` text
  | string (s : Str)
  | boolean (b : Bool)
  | array (l : List Data)
  | map (l : List (Str × Data))  -- in iteration order
  | null
  | error (s : Str)
  | source (s : Str) (id : Nat)  -- SourceCode { source, source_id }
  | none
  deriving Repr, Inhabited

structure Param where
  name : Str
  expr : Str
  location : Str
  deriving Repr, Inhabited

structure CommonContent where
  content : Option Str
  contentExpr : Option Str
  deriving Repr, Inhabited

structure DoneData where
  content : Option CommonContent
  params : Option (List Param)
  deriving Repr, Inhabited

structure Invoke where
  invokeId : Str
  /-- written and read only when `invokeId` is empty -/
  parentStateName : Str
  docId : Nat
  srcExpr : Data
  src : Data
  typeExpr : Data
  typeName : Data
  externalIdLocation : Str
  autoforward : Bool
  finalize : Nat
  content : Option CommonContent
  params : Option (List Param)
  nameList : List Str
  deriving Repr, Inhabited

inductive TransitionType where
  | internal | external
  deriving Repr, DecidableEq, Inhabited

inductive HistoryType where
  | shallow | deep | none
  deriving Repr, DecidableEq, Inhabited

inductive Binding where
  | early | late
  deriving Repr, DecidableEq, Inhabited

structure Transition where
  id : Nat
  docId : Nat
  source : Nat
  target : List Nat
  events : List Str
  ttype : TransitionType
  wildcard : Bool
  cond : Data
  content : Nat
  deriving Repr, Inhabited

structure State where
  id : Nat
  docId : Nat
  name : Str
  historyType : HistoryType
  isParallel : Bool
  isFinal : Bool
  initial : Nat
  states : List Nat
  onentry : List Nat
  onexit : List Nat
  transitions : List Nat
  invoke : List Invoke
  history : List Nat
  data : List (Str × Data)
  parent : Nat
  donedata : Option DoneData
  deriving Repr, Inhabited

structure Send where
  name : Str
  target : Data
  targetExpr : Data
  content : Option CommonContent
  nameList : List Str
  nameLocation : Str
  params : Option (List Param)
  event : Data
  eventExpr : Data
  typeValue : Data
  typeExpr : Data
  delayMs : Nat
  delayExpr : Data
  deriving Repr, Inhabited

/-- the nine executable content kinds, with `get_type()` ids 0..8 -/
inductive Exec where
  | ifc (cond : Data) (content elseContent : Nat)                 -- 0 If
  | expression (content : Data)                                   -- 1 Expression
  | script (content : List Nat)                                   -- 2 Script
  | log (label : Str) (expr : Data)                               -- 3 Log
  | foreach (content : Nat) (index : Str) (array : Data) (item : Str) -- 4 ForEach
  | send (s : Send)                                               -- 5 SendParameters
  | raise (event : Str)                                           -- 6 Raise
  | cancel (sendId : Str) (sendIdExpr : Data)                     -- 7 Cancel
  | assign (expr location : Data)                                 -- 8 Assign
  deriving Repr, Inhabited

structure Fsm where
  name : Str
  datamodel : Str
  binding : Binding
  pseudoRoot : Nat
  script : Nat
  states : List State
  /-- `fsm.transitions.values()` in iteration order -/
  transitions : List Transition
  /-- `fsm.executableContent` in iteration order -/
  content : List (Nat × List Exec)
  deriving Repr, Inhabited

/-! ## Text forms of numbers (`to_string` / `parse`) -/

/-- decimal digits, most significant first; `fuel` ≥ `n` always suffices -/
def showNatF : Nat → Nat → Str
  | 0, n => [48 + n % 10]
  | fuel + 1, n => if n < 10 then [48 + n] else showNatF fuel (n / 10) ++ [48 + n % 10]

/-- `u64::to_string` -/
def showNat (n : Nat) : Str := showNatF n n

/-- `i64::to_string` -/
def showInt (v : Int) : Str :=
  if v < 0 then 45 :: showNat v.natAbs else showNat v.natAbs

def isDigit (c : Nat) : Bool := 48 ≤ c && c ≤ 57

/-- value of a digit string, `none` if some byte is not a digit (the empty string gives 0) -/
def digitsVal : Nat → Str → Option Nat
  | acc, [] => some acc
  | acc, c :: r => if isDigit c then digitsVal (acc * 10 + (c - 48)) r else none

def maxI64 : Nat := 9223372036854775807

/-- `str::parse::<i64>()`: `[+-]?[0-9]+` with the value in range -/
def parseI64 (s : Str) : Option Int :=
  match s with
  | [] => none
  | 43 :: r =>
    if r.isEmpty then none else
    match digitsVal 0 r with
    | some n => if n ≤ maxI64 then some (Int.ofNat n) else none
    | none => none
  | 45 :: r =>
    if r.isEmpty then none else
    match digitsVal 0 r with
    | some n => if n ≤ maxI64 + 1 then some (- Int.ofNat n) else none
    | none => none
  | _ =>
    match digitsVal 0 s with
    | some n => if n ≤ maxI64 then some (Int.ofNat n) else none
    | none => none

def dropDigits : Str → Str
  | [] => []
  | c :: r => if isDigit c then dropDigits r else c :: r

def lower (c : Nat) : Nat := if 65 ≤ c ∧ c ≤ 90 then c + 32 else c

/-- acceptance of `str::parse::<f64>()` (core::num::dec2flt): an optional sign, then either
    `D* ('.' D*)?` with at least one digit and an optional exponent `[eE][+-]?D+`, or one of
    `nan`, `inf`, `infinity` in any case. Only acceptance is modelled; the value is carried as text. -/
def isF64Text (s : Str) : Bool :=
  match s with
  | [] => false
  | c :: r =>
    let body := if c = 45 ∨ c = 43 then r else s
    if body.isEmpty then false else
    let low := body.map lower
    if low = [110, 97, 110] ∨ low = [105, 110, 102] ∨ low = [105, 110, 102, 105, 110, 105, 116, 121] then true
    else
      let a := dropDigits body
      let nInt := body.length - a.length
      let (b, nFrac) :=
        match a with
        | 46 :: a' => let b := dropDigits a'; (b, a'.length - b.length)
        | _ => (a, 0)
      if nInt + nFrac = 0 then false else
      match b with
      | [] => true
      | e :: b' =>
        if e = 101 ∨ e = 69 then
          let b'' := match b' with
            | 43 :: x => x
            | 45 :: x => x
            | _ => b'
          match b'' with
          | [] => false
          | d :: _ => isDigit d && (dropDigits b'').isEmpty
        else false

/-! ## UTF-8 (`std::str::from_utf8`, `str::is_char_boundary`) -/

def isCont (b : Nat) : Bool := 128 ≤ b && b ≤ 191

/-- `std::str::from_utf8(bytes).is_ok()` -/
def validUtf8 : List Nat → Bool
  | [] => true
  | b0 :: r =>
    if b0 < 128 then validUtf8 r
    else if 194 ≤ b0 ∧ b0 ≤ 223 then
      match r with
      | b1 :: r' => isCont b1 && validUtf8 r'
      | _ => false
    else if 224 ≤ b0 ∧ b0 ≤ 239 then
      match r with
      | b1 :: b2 :: r' =>
        (if b0 = 224 then 160 ≤ b1 && b1 ≤ 191
         else if b0 = 237 then 128 ≤ b1 && b1 ≤ 159
         else isCont b1) && isCont b2 && validUtf8 r'
      | _ => false
    else if 240 ≤ b0 ∧ b0 ≤ 244 then
      match r with
      | b1 :: b2 :: b3 :: r' =>
        (if b0 = 240 then 144 ≤ b1 && b1 ≤ 191
         else if b0 = 244 then 128 ≤ b1 && b1 ≤ 143
         else isCont b1) && isCont b2 && isCont b3 && validUtf8 r'
      | _ => false
    else false

/-! ## The writer as a sequence of primitive protocol calls -/

/-- the bytes `write_type_and_value` emits after the first one:
    `while size > 0 { size = size.saturating_sub(8); write_u8((value >> size) as u8) }`
    (`fuel` ≥ the number of iterations; called with `fuel = size`) -/
def tvTail (v : Nat) : Nat → Nat → List Nat
  | 0, _ => []
  | fuel + 1, size =>
    if size = 0 then [] else (v / 2 ^ (size - 8)) % 256 :: tvTail v fuel (size - 8)

/-- the first nibble of `write_type_and_value` (`size` already reduced by 4):
    `if size >= 64 { 0 } else { ((value >> size) as u8) & 0x0F }` -/
def tvNibble (v size : Nat) : Nat := if size ≥ 64 then 0 else (v / 2 ^ size) % 16

/-- `write_type_and_value(type_id, value, size)` against a sink that accepts everything -/
def tvBytes (tid v size : Nat) : List Nat :=
  (tid + tvNibble v (size - 4)) :: tvTail v (size - 4) (size - 4)

inductive Op where
  /-- `write_type_and_value(type_id, value, size)` -/
  | tv (tid value size : Nat)
  /-- one `if self.ok { eval_result(self.writer.write_u8(b)) }` (`write_boolean`, the `None` arm of
      `write_option_string`) -/
  | byte (b : Nat)
  /-- `write_str(value)` -/
  | str (s : Str)
  /-- `close()` -/
  | flush
  deriving Repr, Inhabited

/-- header of `write_str`: 4 bit length, 12 bit length, or (4096 bytes and more) the type 0xE0 with
    the length as a 64 bit number in the 68 bit form -/
def strHeader (s : Str) : List Nat :=
  if s.length < 16 then tvBytes 0xC0 s.length 4
  else if s.length < 4096 then tvBytes 0xD0 s.length 12
  else tvBytes 0xE0 s.length 68

def Op.bytes : Op → List Nat
  | .tv tid v size => tvBytes tid v size
  | .byte b => [b]
  | .str s => strHeader s ++ s
  | .flush => []

/-- `write_uint` -/
def uintOp (v : Nat) : Op :=
  if v < 2 ^ 4 then .tv 0x30 v 4
  else if v < 2 ^ 12 then .tv 0x40 v 12
  else if v < 2 ^ 20 then .tv 0x50 v 20
  else if v < 2 ^ 28 then .tv 0x60 v 28
  else if v < 2 ^ 36 then .tv 0x70 v 36
  else if v < 2 ^ 44 then .tv 0x80 v 44
  else if v < 2 ^ 52 then .tv 0x90 v 52
  else if v < 2 ^ 60 then .tv 0xA0 v 60
  else .tv 0xB0 v 68

/-- `write_boolean` -/
def boolOp (b : Bool) : Op := .byte (if b then 0x1F else 0x10)

/-- `write_option_string` -/
def optStrOp : Option Str → Op
  | some s => .str s
  | none => .byte 0x10

/-- `Data::is_empty` -/
def Data.isEmpty : Data → Bool
  | .boolean _ | .integer _ | .double _ => false
  | .string s => s.isEmpty
  | .array l => l.isEmpty
  | .map l => l.isEmpty
  | .null => true
  | .error _ => true
  | .source s _ => s.isEmpty
  | .none => true

mutual
  /-- `write_data` -/
  def opsData : Data → List Op
    | .integer v => [uintOp 1, .str (showInt v)]
    | .double t => [uintOp 2, .str t]
    | .string s => [uintOp 3, .str s]
    | .boolean b => [uintOp 4, boolOp b]
    | .array l => uintOp 5 :: uintOp l.length :: opsDataList l
    | .map l => uintOp 6 :: uintOp l.length :: opsDataMap l
    | .error s => [uintOp 7, .str s]
    | .source s id => [uintOp 8, .str s, uintOp id]
    | .none => [uintOp 9]
    | .null => [uintOp 0]
  def opsDataList : List Data → List Op
    | [] => []
    | d :: r => opsData d ++ opsDataList r
  def opsDataMap : List (Str × Data) → List Op
    | [] => []
    | (k, d) :: r => .str k :: (opsData d ++ opsDataMap r)
end

def opsList {α} (f : α → List Op) (l : List α) : List Op :=
  uintOp l.length :: l.flatMap f

def opsIds (l : List Nat) : List Op := opsList (fun i => [uintOp i]) l

/-- `write_string_list` -/
def opsStrList (l : List Str) : List Op := opsList (fun s => [Op.str s]) l

/-- `write_data_map` -/
def opsDataPairs (l : List (Str × Data)) : List Op :=
  opsList (fun kv => Op.str kv.1 :: opsData kv.2) l

/-- `write_common_content` -/
def opsCommon (c : CommonContent) : List Op := [optStrOp c.content, optStrOp c.contentExpr]

/-- `write_parameter` -/
def opsParam (p : Param) : List Op := [.str p.name, .str p.expr, .str p.location]

/-- `write_parameters` -/
def opsParams : Option (List Param) → List Op
  | some ps => opsList opsParam ps
  | none => [uintOp 0]

/-- the `if let Some(cc) { write_boolean(true); write_common_content } else { write_boolean(false) }`
    pattern of `write_invoke`, `write_executable_content_send` and `write_done_data` -/
def opsOptCommon : Option CommonContent → List Op
  | some c => boolOp true :: opsCommon c
  | none => [boolOp false]

/-- `write_done_data` -/
def opsDoneData (d : DoneData) : List Op := opsOptCommon d.content ++ opsParams d.params

/-- `write_invoke` -/
def opsInvoke (i : Invoke) : List Op :=
  [Op.str i.invokeId] ++ (if i.invokeId.isEmpty then [Op.str i.parentStateName] else []) ++
  [uintOp i.docId] ++ opsData i.srcExpr ++ opsData i.src ++ opsData i.typeExpr ++ opsData i.typeName ++
  [Op.str i.externalIdLocation, boolOp i.autoforward, uintOp i.finalize] ++
  opsOptCommon i.content ++ opsParams i.params ++ opsStrList i.nameList

/-- `if state.donedata.is_some() { write_done_data(..) }` -/
def opsOptDoneData : Option DoneData → List Op
  | some d => opsDoneData d
  | none => []

def TransitionType.ordinal : TransitionType → Nat
  | .internal => 0
  | .external => 1

def HistoryType.ordinal : HistoryType → Nat
  | .shallow => 1
  | .deep => 2
  | .none => 0

def Binding.ordinal : Binding → Nat
  | .early => 1
  | .late => 2

def b2n (b : Bool) (bit : Nat) : Nat := if b then bit else 0

def transitionFlags (t : Transition) : Nat :=
  t.ttype.ordinal + b2n t.wildcard 2 + b2n (!t.cond.isEmpty) 4 + b2n (t.content != 0) 8

/-- `write_transition` -/
def opsTransition (t : Transition) : List Op :=
  [uintOp t.id, uintOp t.docId, uintOp t.source] ++ opsIds t.target ++ opsStrList t.events ++
  [uintOp (transitionFlags t)] ++
  (if !t.cond.isEmpty then opsData t.cond else []) ++
  (if t.content != 0 then [uintOp t.content] else [])

def stateFlags (s : State) : Nat :=
  s.historyType.ordinal + b2n (!s.onentry.isEmpty) 0x04 + b2n (!s.onexit.isEmpty) 0x08 +
  b2n (!s.states.isEmpty) 0x10 + b2n s.isFinal 0x20 + b2n s.isParallel 0x40 +
  b2n s.donedata.isSome 0x80 + b2n (!s.invoke.isEmpty) 0x100 + b2n (!s.data.isEmpty) 0x200 +
  b2n (!s.history.isEmpty) 0x400

/-- `write_state` -/
def opsState (s : State) : List Op :=
  [uintOp s.id, uintOp s.docId, Op.str s.name, uintOp (stateFlags s)] ++
  (if !s.states.isEmpty then uintOp s.initial :: opsIds s.states else []) ++
  (if !s.onentry.isEmpty then opsIds s.onentry else []) ++
  (if !s.onexit.isEmpty then opsIds s.onexit else []) ++
  opsIds s.transitions ++
  (if !s.invoke.isEmpty then opsList opsInvoke s.invoke else []) ++
  (if !s.history.isEmpty then opsIds s.history else []) ++
  (if !s.data.isEmpty then opsDataPairs s.data else []) ++
  [uintOp s.parent] ++ opsOptDoneData s.donedata

/-- `write_executable_content_send` -/
def opsSend (s : Send) : List Op :=
  [Op.str s.name] ++ opsData s.target ++ opsData s.targetExpr ++ opsOptCommon s.content ++
  opsStrList s.nameList ++ [Op.str s.nameLocation] ++ opsParams s.params ++
  opsData s.event ++ opsData s.eventExpr ++ opsData s.typeValue ++ opsData s.typeExpr ++
  [uintOp s.delayMs] ++ opsData s.delayExpr

/-- `write_executable_content` (type id, then the kind's fields) -/
def opsExec : Exec → List Op
  | .ifc c a b => [uintOp 0] ++ opsData c ++ [uintOp a, uintOp b]
  | .expression c => [uintOp 1] ++ opsData c
  | .script l => [uintOp 2] ++ opsIds l
  | .log label e => [uintOp 3, Op.str label] ++ opsData e
  | .foreach c idx arr item => [uintOp 4, uintOp c, Op.str idx] ++ opsData arr ++ [Op.str item]
  | .send s => [uintOp 5] ++ opsSend s
  | .raise e => [uintOp 6, Op.str e]
  | .cancel id e => [uintOp 7, Op.str id] ++ opsData e
  | .assign e l => [uintOp 8] ++ opsData e ++ opsData l

/-- `FSM_PROTOCOL_WRITER_VERSION` = `FSM_READER_VERSION` = "fsmW1.1" -/
def versionText : Str := [102, 115, 109, 87, 49, 46, 49]

/-- `FsmWriter::write` -/
def opsFsm (f : Fsm) : List Op :=
  [Op.str versionText, Op.str f.name, Op.str f.datamodel, uintOp f.binding.ordinal,
   uintOp f.pseudoRoot, uintOp f.script] ++
  opsList opsState f.states ++
  opsList opsTransition f.transitions ++
  opsList (fun (c : Nat × List Exec) => uintOp c.1 :: opsList opsExec c.2) f.content

/-- bytes appended to an ideal sink by a call sequence -/
def bytesOf (ops : List Op) : List Nat := ops.flatMap Op.bytes

/-- `FsmWriter::write` then `close` into a `Vec<u8>`: the image -/
def imageOf (f : Fsm) : List Nat := bytesOf (opsFsm f)

/-! ## The reader -/

inductive Site where
  /-- `read_executable_content`: "Unknown Executable Content: {}" -/
  | contentType (n : Nat)
  /-- not a Rust panic: the nesting fuel of the model's `readData` ran out -/
  | modelFuel
  deriving Repr, DecidableEq, Inhabited

structure RState where
  inp : List Nat
  ok : Bool
  tid : Nat
  num : Nat
  panic : Option Site
  deriving Repr, Inhabited

def RState.init (bytes : List Nat) : RState := ⟨bytes, true, 0, 0, none⟩

/-- `DefaultProtocolReader::error` -/
def RState.error (st : RState) : RState :=
  if st.ok then { st with ok := false, tid := 0, num := 0 } else st

def RState.setPanic (st : RState) (s : Site) : RState :=
  match st.panic with
  | some _ => st
  | none => { st with panic := some s }

/-- `read_additional_number_bytes(length)` -/
def readMore : Nat → RState → RState
  | 0, st => st
  | n + 1, st =>
    if st.ok then
      match st.inp with
      | b :: r => readMore n { st with inp := r, num := (st.num * 256) % two64 + b }
      | [] => readMore n st.error
    else st

/-- the three string arms of `read_type_and_size` after the length is known:
    `read_exact(&mut buffer[0..us])` resp. `take(us).read_to_end(..)` (both consume what is there and
    fail when that is less than `us`), `from_utf8` -/
def readStrPayload (us : Nat) (st : RState) : Str × RState :=
  if st.inp.length < us then ([], { st with inp := [] }.error)
  else
    let s := st.inp.take us
    let st := { st with inp := st.inp.drop us }
    if validUtf8 s then (s, st) else ([], st.error)

/-- `if self.ok { us = number; number = 0; take(us).read_to_end(..); from_utf8 }` of the 0xE0 arm -/
def longStrPayload (st : RState) : Str × RState :=
  if st.ok then readStrPayload st.num { st with num := 0 } else ([], st)

/-- the 0xE0 arm of `read_type_and_size` (first byte consumed): eight length bytes, then the payload -/
def readLongStr (st : RState) : Str × RState :=
  longStrPayload (readMore 8 { st with tid := 0xE0, num := 0 })

/-- `read_type_and_size`; returns the content of `type_and_value.string` afterwards -/
def readTypeAndSize (st : RState) : Str × RState :=
  if st.ok then
    match st.inp with
    | [] => ([], st.error)
    | val :: r =>
      let hi := val / 16 * 16
      let lo := val % 16
      let st := { st with inp := r }
      if hi = 0x10 then ([], { st with tid := val })
      else if 0x30 ≤ hi ∧ hi ≤ 0xB0 then
        ([], readMore ((hi - 0x30) / 16) { st with tid := hi, num := lo })
      else if hi = 0xC0 then readStrPayload lo { st with tid := 0xC0, num := 0 }
      else if hi = 0xD0 then
        match r with
        | [] => ([], { st with tid := 0xD0, num := 0 }.error)
        | b :: r' => readStrPayload (lo * 256 + b) { st with inp := r', tid := 0xD0, num := 0 }
      else if hi = 0xE0 then readLongStr st
      else ([], st)
  else ([], st)

/-- `verify_number_type` on the type id -/
def isNumTid (t : Nat) : Bool := 0x30 ≤ t && t ≤ 0xB0 && t % 16 == 0

/-- `read_uint` / `read_usize` -/
def readUIntS (st : RState) : Nat × RState :=
  let (_, st) := readTypeAndSize st
  if st.ok then
    if isNumTid st.tid then (st.num, st) else (0, st.error)
  else (0, st)

/-- `read_string` -/
def readStringS (st : RState) : Str × RState :=
  let (s, st) := readTypeAndSize st
  if st.ok then
    if st.tid = 0xC0 ∨ st.tid = 0xD0 ∨ st.tid = 0xE0 then (s, st) else ([], st.error)
  else ([], st)

/-- `read_boolean` -/
def readBoolS (st : RState) : Bool × RState :=
  if st.ok then
    match st.inp with
    | [] => (false, st.error)
    | b :: r =>
      let st := { st with inp := r }
      if b = 0x1F then (true, st) else if b = 0x10 then (false, st) else (false, st.error)
  else (false, st)

/-- `read_option_string` -/
def readOptStrS (st : RState) : Option Str × RState :=
  if st.ok then
    let (s, st) := readTypeAndSize st
    if st.tid = 0x10 then (none, st)
    else if st.tid = 0xE0 ∨ st.tid = 0xD0 ∨ st.tid = 0xC0 then (some s, st)
    else (none, st.error)
  else (none, st)

/-- the `ProtocolReader` methods the `FsmReader` is written in -/
inductive Prim : Type → Type where
  | bool : Prim Bool
  | optStr : Prim (Option Str)
  | str : Prim Str
  | uint : Prim Nat
  /-- `self.error(..)` (and `self.ok = false`) inside `read_data_value_payload` -/
  | fail : Prim Unit
  /-- `has_error()` -/
  | hasError : Prim Bool
  /-- a `panic!` -/
  | panic (s : Site) : Prim Unit

def Prim.run : Prim α → RState → α × RState
  | .bool, st => readBoolS st
  | .optStr, st => readOptStrS st
  | .str, st => readStringS st
  | .uint, st => readUIntS st
  | .fail, st => ((), st.error)
  | .hasError, st => (!st.ok, st)
  | .panic s, st => ((), st.setPanic s)

inductive Prog : Type → Type 1 where
  | pure : α → Prog α
  | prim : Prim α → Prog α
  | bind : Prog α → (α → Prog β) → Prog β

instance : Monad Prog where
  pure := Prog.pure
  bind := Prog.bind

def Prog.run : Prog α → RState → α × RState
  | .pure a, st => (a, st)
  | .prim p, st => p.run st
  | .bind p f, st =>
    let r := p.run st
    (f r.1).run r.2

def pBool : Prog Bool := .prim .bool
def pOptStr : Prog (Option Str) := .prim .optStr
def pStr : Prog Str := .prim .str
def pUInt : Prog Nat := .prim .uint
def pFail : Prog Unit := .prim .fail
def pHasError : Prog Bool := .prim .hasError
def pPanic (s : Site) : Prog Unit := .prim (.panic s)

/-- `read_u8` (trait default: `read_uint() as u8`) -/
def pU8 : Prog Nat := do let u ← pUInt; pure (u % 256)
/-- `read_u16` -/
def pU16 : Prog Nat := do let u ← pUInt; pure (u % 65536)
/-- `read_state_id` / `read_doc_id` / `read_transition_id` / `read_executable_content_id`:
    `read_uint() as u32` -/
def pId : Prog Nat := do let u ← pUInt; pure (u % two32)

/-- `for _ in 0..n { v.push(p) }` -/
def readN {α} : Nat → Prog α → Prog (List α)
  | 0, _ => pure []
  | n + 1, p => do
    let a ← p
    let r ← readN n p
    pure (a :: r)

/-- `let len = read_usize(); for _ in 0..len { push(p) }` -/
def readList {α} (p : Prog α) : Prog (List α) := do
  let len ← pUInt
  readN len p

/-- nesting fuel of `readData`; the Rust recursion is bounded by the thread's stack only -/
def dataFuel : Nat := 1024

/-- `read_data` = `read_u8` then `read_data_value_payload` -/
def readDataF : Nat → Prog Data
  | 0 => do pPanic .modelFuel; pure .null
  | fuel + 1 => do
    let what ← pU8
    match what with
    | 0 => pure .null
    | 1 => do
      let rv ← pStr
      match parseI64 rv with
      | some v => pure (.integer v)
      | none => do pFail; pure .null
    | 2 => do
      let rv ← pStr
      if isF64Text rv then pure (.double rv) else do pFail; pure .null
    | 3 => do let s ← pStr; pure (.string s)
    | 4 => do let b ← pBool; pure (.boolean b)
    | 5 => do
      let len ← pUInt
      let l ← readN len (readDataF fuel)
      pure (.array l)
    | 6 => do
      let len ← pUInt
      let l ← readN len (do let k ← pStr; let v ← readDataF fuel; pure (k, v))
      pure (.map l)
    | 7 => do let k ← pStr; pure (.error k)
    | 8 => do let k ← pStr; let id ← pUInt; pure (.source k id)
    | 9 => pure .none
    | _ => do pFail; pure .null

def readData : Prog Data := readDataF dataFuel

/-- `read_data_map` -/
def readDataPairs : Prog (List (Str × Data)) :=
  readList (do let k ← pStr; let v ← readData; pure (k, v))

/-- `read_common_content` -/
def readCommon : Prog CommonContent := do
  let c ← pOptStr
  let e ← pOptStr
  pure ⟨c, e⟩

/-- `read_parameter` -/
def readParam : Prog Param := do
  let n ← pStr
  let e ← pStr
  let l ← pStr
  pure ⟨n, e, l⟩

/-- `read_parameters` -/
def readParams : Prog (Option (List Param)) := do
  let len ← pUInt
  if len = 0 then pure none
  else do
    let ps ← readN len readParam
    pure (some ps)

/-- `if read_boolean() { Some(read_common_content) } else { None }` -/
def readOptCommon : Prog (Option CommonContent) := do
  let b ← pBool
  if b then do let c ← readCommon; pure (some c) else pure none

/-- `read_done_data` -/
def readDoneData : Prog DoneData := do
  let c ← readOptCommon
  let ps ← readParams
  pure ⟨c, ps⟩

/-- `read_string_list` -/
def readStrList : Prog (List Str) := readList pStr

/-- `read_invoke` (on a fresh `Invoke::new()`, whose `parent_state_name` is empty) -/
def readInvoke : Prog Invoke := do
  let invokeId ← pStr
  let parentStateName ← (if invokeId.isEmpty then pStr else pure [])
  let docId ← pId
  let srcExpr ← readData
  let src ← readData
  let typeExpr ← readData
  let typeName ← readData
  let externalIdLocation ← pStr
  let autoforward ← pBool
  let finalize ← pId
  let content ← readOptCommon
  let params ← readParams
  let nameList ← readStrList
  pure { invokeId, parentStateName, docId, srcExpr, src, typeExpr, typeName, externalIdLocation,
         autoforward, finalize, content, params, nameList }

/-- `read_transition` -/
def readTransition : Prog Transition := do
  let id ← pId
  let docId ← pId
  let source ← pId
  let target ← readList pId
  let events ← readList pStr
  let flags ← pU8
  let cond ← (if flags / 4 % 2 = 1 then readData else pure Data.null)
  let content ← (if flags / 8 % 2 = 1 then pId else pure 0)
  pure { id, docId, source, target, events,
         ttype := if flags % 2 = 0 then .internal else .external,
         wildcard := flags / 2 % 2 = 1, cond, content }

def HistoryType.fromOrdinal : Nat → HistoryType
  | 1 => .shallow
  | 2 => .deep
  | _ => .none

/-- `read_state` (on a fresh `State::new("")`) -/
def readState : Prog State := do
  let id ← pId
  let docId ← pId
  let name ← pStr
  let flags ← pU16
  let (initial, states) ← (if flags / 0x10 % 2 = 1 then do
      let i ← pId
      let l ← readList pId
      pure (i, l)
    else pure (0, []))
  let onentry ← (if flags / 0x04 % 2 = 1 then readList pId else pure [])
  let onexit ← (if flags / 0x08 % 2 = 1 then readList pId else pure [])
  let transitions ← readList pId
  let invoke ← (if flags / 0x100 % 2 = 1 then readList readInvoke else pure [])
  let history ← (if flags / 0x400 % 2 = 1 then readList pId else pure [])
  let data ← (if flags / 0x200 % 2 = 1 then readDataPairs else pure [])
  let parent ← pId
  let donedata ← (if flags / 0x80 % 2 = 1 then do let d ← readDoneData; pure (some d) else pure none)
  pure { id, docId, name, historyType := HistoryType.fromOrdinal (flags % 4),
         isParallel := flags / 0x40 % 2 = 1, isFinal := flags / 0x20 % 2 = 1,
         initial, states, onentry, onexit, transitions, invoke, history, data, parent, donedata }

/-- `read_executable_content_send` -/
def readSend : Prog Send := do
  let name ← pStr
  let target ← readData
  let targetExpr ← readData
  let content ← readOptCommon
  let nameList ← readStrList
  let nameLocation ← pStr
  let params ← readParams
  let event ← readData
  let eventExpr ← readData
  let typeValue ← readData
  let typeExpr ← readData
  let delayMs ← pUInt
  let delayExpr ← readData
  pure { name, target, targetExpr, content, nameList, nameLocation, params, event, eventExpr,
         typeValue, typeExpr, delayMs, delayExpr }

/-- `read_executable_content` -/
def readExec : Prog Exec := do
  let ty ← pU8
  match ty with
  | 0 => do let c ← readData; let a ← pId; let b ← pId; pure (.ifc c a b)
  | 1 => do let c ← readData; pure (.expression c)
  | 2 => do let l ← readList pId; pure (.script l)
  | 3 => do let label ← pStr; let e ← readData; pure (.log label e)
  | 4 => do
    let c ← pId
    let idx ← pStr
    let arr ← readData
    let item ← pStr
    pure (.foreach c idx arr item)
  | 5 => do let s ← readSend; pure (.send s)
  | 6 => do let e ← pStr; pure (.raise e)
  | 7 => do let id ← pStr; let e ← readData; pure (.cancel id e)
  | 8 => do let e ← readData; let l ← readData; pure (.assign e l)
  | n => do pPanic (.contentType n); pure (.raise [])

inductive ReadResult where
  | ok (f : Fsm)
  /-- `Err("Can't read")` -/
  | errCantRead
  /-- `Err("Version mismatch: ..")` -/
  | errVersion (got : Str)
  | panic (s : Site)
  deriving Repr

/-- the part of `FsmReader::read` after the binding ordinal has been accepted -/
def readFsmRest (name datamodel : Str) (binding : Binding) : Prog Fsm := do
  let pseudoRoot ← pId
  let script ← pId
  let states ← readList readState
  let transitions ← readList readTransition
  let content ← readList (do
    let cid ← pId
    let l ← readList readExec
    pure (cid, l))
  pure { name, datamodel, binding, pseudoRoot, script, states, transitions, content }

/-- `BindingType::from_ordinal` on the ordinals that `FsmReader::read` lets through -/
def Binding.fromOrdinal : Nat → Option Binding
  | 1 => some .early
  | 2 => some .late
  | _ => none

/-- `FsmReader::read`: `has_error()` is consulted after the binding ordinal was read (an error or an
    unknown ordinal is `Err("Can't read")`, `from_ordinal` is not reached) and again before `Ok` -/
def readFsmProg : Prog ReadResult := do
  let version ← pStr
  if version = versionText then do
    let name ← pStr
    let datamodel ← pStr
    let ord ← pU8
    let e ← pHasError
    match (if e then none else Binding.fromOrdinal ord) with
    | none => pure .errCantRead
    | some binding => do
      let f ← readFsmRest name datamodel binding
      let e2 ← pHasError
      if e2 then pure .errCantRead else pure (.ok f)
  else do
    let e ← pHasError
    if e then pure .errCantRead else pure (.errVersion version)

/-- `FsmReader::read` on a byte slice, together with the reader's `has_error()` afterwards
    (meaningless after a panic) -/
def readImageFull (bytes : List Nat) : ReadResult × Bool :=
  let r := readFsmProg.run (RState.init bytes)
  match r.2.panic with
  | some s => (.panic s, !r.2.ok)
  | none => (r.1, !r.2.ok)

def readImage (bytes : List Nat) : ReadResult := (readImageFull bytes).1

end Rfsm.Codec
