import Rfsm.Model.Locks
/-!
# The platform's lock classes and the *held-while-acquiring* edge table (C17)

Core Lean only (the driver uses it).  A lock of the platform is a class and an instance number:

* `E`  the executor state (`FsmExecutor.state`), one per executor;
* `P`  one per I/O processor (`Arc<Mutex<Box<dyn EventIOProcessor>>>`), shared by all sessions;
* `G`  the global data of a running session (`GlobalDataArc`), instance = session id;
  `Gn` the same mutex while the session is being created (only the creating thread can reach it),
  `Gi` the same mutex during `Fsm::interpret`'s initialisation (no timer of the session exists yet):
  the phases do not overlap in time (thread spawn orders them), so they are modelled as different
  locks — see `notes/locks.md`;
* `D`  a data cell (`DataArc`), `A` the action map, `R` the receiver of a session's external queue,
  `DF`, `TF` the `lazy_static` registries.

An `Edge` of the table says: somewhere in the code a lock of class `acq` is requested while a lock of
class `held` is held.  `rel` restricts the instances when both have the same class; `priv` says the
held lock is private to the acquiring thread (nobody else ever locks it).

Transcribed from: nothing — the table itself is generated (`Rfsm.Gen.LockSites`) from
`checks/lock_sites.json`, which `bin/gen/locks.py` checks against every lock site of `/repo/src`.
-/
namespace Rfsm.Locks

inductive Cls where
  | TF | DF | Gn | Gi | P | G | E | D | A | R
deriving DecidableEq, Repr

def Cls.all : List Cls := [.TF, .DF, .Gn, .Gi, .P, .G, .E, .D, .A, .R]

def Cls.name : Cls → String
  | .TF => "TF" | .DF => "DF" | .Gn => "Gn" | .Gi => "Gi" | .P => "P"
  | .G => "G" | .E => "E" | .D => "D" | .A => "A" | .R => "R"

def Cls.ofName? (s : String) : Option Cls := Cls.all.find? (fun c => c.name == s)

def Cls.idx : Cls → Nat
  | .TF => 0 | .DF => 1 | .Gn => 2 | .Gi => 3 | .P => 4
  | .G => 5 | .E => 6 | .D => 7 | .A => 8 | .R => 9

/-- relation between the instance numbers of a held and an acquired lock of the same class -/
inductive Rel where
  | any   -- may even be the same instance (re-locking: self-deadlock)
  | lt    -- held instance created before the acquired one
  | ne    -- different instances, in no particular order
deriving DecidableEq, Repr

structure Edge where
  held : Cls
  acq : Cls
  rel : Rel
  /-- the held lock is private to the acquiring thread -/
  priv : Bool
  /-- id of a lock site of the code exhibiting the edge -/
  site : Nat
deriving DecidableEq, Repr

structure Lk where
  cls : Cls
  idx : Nat
deriving DecidableEq, Repr

def relOk : Rel → Nat → Nat → Bool
  | .any, _, _ => true
  | .lt, i, j => decide (i < j)
  | .ne, i, j => decide (i ≠ j)

/-- the pair (`h` held, `l` acquired) is an instance of table edge `e` -/
def Edge.covers (e : Edge) (h l : Lk) : Bool :=
  e.held == h.cls && e.acq == l.cls && (h.cls != l.cls || relOk e.rel h.idx l.idx)

/-- edges that no order has to justify: a same-class edge that follows the creation order, or an
edge whose held lock is private to the thread and cannot be the acquired lock itself -/
def Edge.exempt (e : Edge) : Bool :=
  (e.held == e.acq && e.rel == .lt) || (e.priv && (e.held != e.acq || e.rel != .any))

/-- `cr` (a rank of the classes) justifies the edge -/
def edgeOk (cr : Cls → Nat) (e : Edge) : Bool :=
  decide (cr e.held < cr e.acq) || e.exempt

/-- the table admits the class rank `cr` -/
def admits (cr : Cls → Nat) (table : List Edge) : Bool := table.all (edgeOk cr)

/-- the lock order induced by a class rank: by class, then (same class) by creation order -/
def ltLk (cr : Cls → Nat) (a b : Lk) : Prop :=
  cr a.cls < cr b.cls ∨ (a.cls = b.cls ∧ a.idx < b.idx)

/-! ### conformance of an abstract program to the table -/

/-- all acquisitions of the program: shared locks or own private locks only -/
def respectsPrivacy (pv : Lk → Option Nat) (u : Nat) (p : List (Op Lk)) : Bool :=
  p.all fun
    | .acquire l => pv l == none || pv l == some u
    | .release _ => true

/-- thread `u` running `p` only ever does what the table says: every held-while-acquiring pair is
an instance of a table edge (and when the edge claims privacy, the held lock is private to `u`) -/
def conformsB (table : List Edge) (pv : Lk → Option Nat) (u : Nat) (p : List (Op Lk)) : Bool :=
  respectsPrivacy pv u p &&
  (acqEdges [] p).all fun hl =>
    table.any fun e => e.covers hl.1 hl.2 && (!e.priv || pv hl.1 == some u)

/-- every thread of the system conforms (thread id = position) -/
def systemConforms (table : List Edge) (pv : Lk → Option Nat) (progs : List (List (Op Lk))) : Bool :=
  (List.range progs.length).all fun u =>
    match progs[u]? with
    | some p => conformsB table pv u p
    | none => true

def systemBalanced (progs : List (List (Op Lk))) : Bool := progs.all (balancedB [])

/-- the program never requests a lock while it is holding that very lock (no re-locking) -/
def noRelockB (p : List (Op Lk)) : Bool := (acqEdges [] p).all fun hl => hl.1 != hl.2

def systemNoRelock (progs : List (List (Op Lk))) : Bool := progs.all noRelockB

/-- `cr` justifies the edge, or the held lock is private to the acquiring thread.  An edge of the
second kind that is not `exempt` (same class, `any`) can only hurt in one way: the thread requests
the private lock it is holding. -/
def edgeOkModRelock (cr : Cls → Nat) (e : Edge) : Bool := edgeOk cr e || e.priv

/-- the table admits the class rank `cr` up to re-locking of thread-private locks -/
def admitsModRelock (cr : Cls → Nat) (table : List Edge) : Bool := table.all (edgeOkModRelock cr)

/-! ### finding a rank or a cycle (driver, and `decide`d instance statements) -/

/-- one relaxation round of longest-path layering over the edges that need an order -/
def relax (table : List Edge) (cr : Cls → Nat) : Cls → Nat := fun c =>
  table.foldl (fun m e => if e.acq == c && !e.exempt then max m (cr e.held + 1) else m) (cr c)

def iterate {α : Type} (f : α → α) : Nat → α → α
  | 0, a => a
  | n + 1, a => iterate f n (f a)

/-- candidate rank: `|classes|` rounds of longest-path relaxation from 0.  `hasRank` checks it with
`admits`, so a positive answer is always a rank; for an acyclic table the rounds suffice because a
longest path has fewer edges than there are classes (not needed by any theorem). -/
def rankOf (table : List Edge) : Cls → Nat := iterate (relax table) Cls.all.length (fun _ => 0)

/-- the rank as a table, so that it can be printed and compared -/
def rankTable (table : List Edge) : List (Cls × Nat) := Cls.all.map fun c => (c, rankOf table c)

def hasRank (table : List Edge) : Bool := admits (rankOf table) table

/-- first edge of the table from `a` to `b` that needs an order -/
def pick (table : List Edge) (a b : Cls) : Option Edge :=
  table.find? fun e => e.held == a && e.acq == b && !e.exempt

/-- `cs = [c0, …, cn]` is a cycle of the table: `c0 → c1 → … → cn → c0` by edges that need an order
(`[c]` is a self-loop: re-locking) -/
def classCycleFrom (table : List Edge) (first : Cls) : List Cls → Bool
  | [] => false
  | [c] => (pick table c first).isSome
  | c :: d :: rest => (pick table c d).isSome && classCycleFrom table first (d :: rest)

def classCycle (table : List Edge) (cs : List Cls) : Bool :=
  match cs with
  | [] => false
  | c :: _ => classCycleFrom table c cs

def succs (table : List Edge) (c : Cls) : List Cls :=
  Cls.all.filter fun d => (pick table c d).isSome

/-- simple cycles through `start` that only visit classes of larger index (each cycle is found once,
from its smallest class) -/
def cyclesFrom (table : List Edge) (start : Cls) : Nat → List Cls → Cls → List (List Cls)
  | 0, _, _ => []
  | fuel + 1, path, cur =>
    (succs table cur).flatMap fun nx =>
      if nx == start then [(cur :: path).reverse]
      else if nx.idx < start.idx || (cur :: path).contains nx then []
      else cyclesFrom table start fuel (cur :: path) nx

def allCycles (table : List Edge) : List (List Cls) :=
  Cls.all.flatMap fun c => cyclesFrom table c Cls.all.length [] c

def subsetOf (a b : List Cls) : Bool := a.all b.contains

/-- the cycles whose class set contains no smaller cycle: one report per independent defect -/
def minimalCycles (table : List Edge) : List (List Cls) :=
  let cs := allCycles table
  cs.filter fun c => cs.all fun d => !(subsetOf d c && d.length < c.length)

/-- rotate a cycle so that it starts with its alphabetically first class -/
def canonCycle (c : List Cls) : List Cls :=
  let rots := (List.range c.length).map fun i => c.drop i ++ c.take i
  match rots with
  | [] => c
  | r :: rs => rs.foldl (fun best x =>
      match x.head?, best.head? with
      | some a, some b => if a.name < b.name then x else best
      | _, _ => best) r

def showCycle (c : List Cls) : String :=
  match canonCycle c with
  | [] => ""
  | a :: rest => ">".intercalate ((a :: rest ++ [a]).map Cls.name)

end Rfsm.Locks
