import Rfsm.Model.ReaderDoc
/-!
Specification-side definitions for C04 (core Lean only, so that the driver can evaluate them):

  * `escapeTexts` — the child texts of `<script> <data> <content> <assign>` as they have to be
    written in an XML source (`&` and `<` escaped); `saxSrc d = sax (escapeTexts d)` is the SAX list
    of the canonical *source text* of `d` (the `text` events carry raw source spans);
  * `wfDoc` — decidable well-formedness of a document tree (what a conformant SCXML document
    satisfies and the round trip needs: distinct ids, declared targets, attribute exclusivity, …);
  * lexical respellings of a SAX list: `addPrefix` (namespace prefix on every element),
    `pairForm` (`<a/>` written `<a></a>`).
-/
namespace Rfsm.Reader
open Rfsm.Descriptor (Str norm star)

/-! ## child text as written in a source file -/

def xmlEscape : Str → Str
  | [] => []
  | c :: cs =>
    if c = 38 then [38, 97, 109, 112, 59] ++ xmlEscape cs
    else if c = 60 then [38, 108, 116, 59] ++ xmlEscape cs
    else c :: xmlEscape cs

def escContentT (c : ContentT) : ContentT := { c with text := c.text.map xmlEscape }

mutual
def escC : Content → Content
  | .assign l e t => .assign l e (t.map xmlEscape)
  | .script t => .script (xmlEscape t)
  | .send s => .send { s with content := s.content.map escContentT }
  | .ite c b t => .ite c (escB b) (escT t)
  | .foreach a i x b => .foreach a i x (escB b)
  | c => c
def escB : List Content → List Content
  | [] => []
  | c :: cs => escC c :: escB cs
def escT : Tail → Tail
  | .none => .none
  | .els b => .els (escB b)
  | .elif c b t => .elif c (escB b) (escT t)
end

def escTrans (t : TransT) : TransT := { t with content := escB t.content }

mutual
def escS : StateT → StateT
  | .mk k id init datas onentry onexit trans invokes hist kids dd =>
    .mk k id
      (match init with
       | .elem tg c => .elem tg (escB c)
       | i => i)
      (datas.map fun d => { d with text := d.text.map xmlEscape })
      (onentry.map escB) (onexit.map escB) (trans.map escTrans)
      (invokes.map fun i => { i with content := i.content.map escContentT, finalize := i.finalize.map escB })
      (hist.map fun h => { h with trans := h.trans.map escTrans })
      (escKids kids)
      (dd.map fun d => { d with content := d.content.map escContentT })
def escKids : List StateT → List StateT
  | [] => []
  | s :: r => escS s :: escKids r
end

def escapeTexts (d : Doc) : Doc := { d with script := d.script.map xmlEscape, root := escS d.root }

/-- SAX list of the canonical source text of `d` -/
def saxSrc (d : Doc) : List Sax := sax (escapeTexts d)

/-! ## lexical respellings of a SAX list -/

def addPrefix (p : Str) : List Sax → List Sax
  | [] => []
  | .start n a :: r => .start (p ++ [58] ++ n) a :: addPrefix p r
  | .empty n a :: r => .empty (p ++ [58] ++ n) a :: addPrefix p r
  | .stop n :: r => .stop (p ++ [58] ++ n) :: addPrefix p r
  | .text t :: r => .text t :: addPrefix p r

def pairForm : List Sax → List Sax
  | [] => []
  | .empty n a :: r => .start n a :: .stop n :: pairForm r
  | e :: r => e :: pairForm r

/-! ## well-formed document trees -/

def noWs (s : Str) : Bool := !s.isEmpty && s.all fun b => !isWs b
def okList (l : List Str) : Bool := l.all noWs
def distinct : List Str → Bool
  | [] => true
  | x :: xs => !xs.contains x && distinct xs

def wfParam (p : ParamT) : Bool := p.expr.isEmpty || p.location.isEmpty
def wfContentT (c : ContentT) : Bool := c.expr.isNone || c.text.isNone

def wfSend (s : SendT) : Bool :=
  (s.event.isNone || s.eventexpr.isNone) && (s.target.isNone || s.targetexpr.isNone) &&
  (s.type.isNone || s.typeexpr.isNone) && (s.id.isEmpty || s.idlocation.isEmpty) &&
  (s.delayMs = 0 || s.delayexpr.isNone) && (s.delayMs = 0 || s.type ≠ some w__internal) &&
  okList s.namelist && s.params.all wfParam &&
  (match s.content with
   | some c => wfContentT c
   | none => true)

mutual
def wfC : Content → Bool
  | .raise _ => true
  | .assign _ e t => e.isNone || t.isNone
  | .log _ _ => true
  | .script _ => true
  | .send s => wfSend s
  | .cancel i e => (i.isSome && e.isNone) || (i.isNone && e.isSome)
  | .ite _ b t => wfB b && wfT t
  | .foreach _ _ _ b => wfB b
def wfB : List Content → Bool
  | [] => true
  | c :: cs => wfC c && wfB cs
def wfT : Tail → Bool
  | .none => true
  | .els b => wfB b
  | .elif _ b t => wfB b && wfT t
end

/-- content that may stand directly inside `<finalize>` -/
def finalizeTop : Content → Bool
  | .raise _ => false
  | .send _ => false
  | .cancel _ _ => false
  | _ => true

def wfTrans (ids : List Str) (t : TransT) : Bool :=
  okList t.events && t.targets.all ids.contains && wfB t.content

def wfInvoke (i : InvokeT) : Bool :=
  okList i.namelist && i.params.all wfParam &&
  (match i.content with
   | some c => wfContentT c
   | none => true) &&
  (match i.finalize with
   | some b => wfB b && b.all finalizeTop
   | none => true)

def genPrefix (s : Str) : Bool := w__id.isPrefixOf s

mutual
/-- all ids declared in a subtree, in document order -/
def idsS : StateT → List Str
  | .mk _ id _ _ _ _ _ _ hist kids _ =>
    (match id with
     | some i => [i]
     | none => []) ++ hist.filterMap (·.id) ++ idsKids kids
def idsKids : List StateT → List Str
  | [] => []
  | s :: r => idsS s ++ idsKids r
end

mutual
def wfS (ids : List Str) : StateT → Bool
  | .mk k _ init datas onentry onexit trans invokes hist kids dd =>
    (match init with
     | .none => true
     | .attr tg => k = .state && !kids.isEmpty && !tg.isEmpty && okList tg && tg.all ids.contains
     | .elem tg c => k = .state && !kids.isEmpty && !tg.isEmpty && tg.all ids.contains && wfB c) &&
    distinct (datas.map (·.id)) && datas.all (fun d => d.expr.isNone || d.text.isNone) &&
    onentry.all wfB && onexit.all wfB && trans.all (wfTrans ids) && invokes.all wfInvoke &&
    hist.all (fun h => h.trans.all (wfTrans ids)) &&
    (if k = .final then kids.isEmpty && trans.isEmpty && invokes.isEmpty && hist.isEmpty && datas.isEmpty
     else dd.isNone) &&
    (match dd with
     | some d => (match d.content with
        | some c => wfContentT c
        | none => true) && d.params.all wfParam
     | none => true) &&
    (if k = .parallel then kids.all fun s => match s with
      | .mk k' .. => k' ≠ .final
     else true) &&
    wfKids ids kids
def wfKids (ids : List Str) : List StateT → Bool
  | [] => true
  | s :: r => wfS ids s && wfKids ids r
end

/-- well-formed document: the root is the `<scxml>` element (no id, no content of its own besides
data, script, `initial` attribute and children), ids are distinct and none looks like a generated
name, every target is declared -/
def wfDoc (d : Doc) : Bool :=
  match d.root with
  | .mk k id init _ onentry onexit trans invokes hist kids dd =>
    let ids := idsKids kids
    k = .state && id.isNone && onentry.isEmpty && onexit.isEmpty && trans.isEmpty && invokes.isEmpty &&
    hist.isEmpty && dd.isNone &&
    (match init with
     | .elem _ _ => false
     | _ => true) &&
    distinct ids && ids.all (fun i => noWs i && !genPrefix i) && wfS ids d.root

end Rfsm.Reader
