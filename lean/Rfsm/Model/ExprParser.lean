import Rfsm.Model.ExprLexer
/-
M-EXPR, part 2: the AST and the stack parser of the rfsm-expression language.

Transcribes `/repo/src/expression_engine/parser.rs`:
  `ExpressionParser::{parse, parse_sub_expression, parse_argument_list, parse_member_list,
   fold_stack_at, stack_to_expression}` and the node kinds of
  `/repo/src/expression_engine/expressions.rs` (`Expression*` structs = constructors of `Expr`).

* The parser stack (`Vec<ExpressionParserItem>`) is a `List Item` in the same order (push = append).
* `stack_to_expression` picks, among the operators on the stack, the one with the *smallest*
  priority number; among equal ones the *first* for the binary operators and the *last* for `!`,
  `=` and `?=` (`prio < best_idx_prio || (right_to_left && prio == best_idx_prio)`: `better`),
  and the first `.` (`2 < best_idx_prio`).  It folds that operator with its two neighbours and
  recurses.  So equal-priority binary operators group to the LEFT, assignments to the right
  (repaired; they all grouped to the right: finding P2 of DESIGN §5).
* `panic!("Internal error")` is the outcome `PRes.panic`.  `PRes.livelock` is the outcome of the
  parser loop when a token is delivered without the input getting shorter and the loop goes on
  (an operator): `Rfsm.Proofs.ExprLivelock` proves it unreachable since `read_operator` no longer
  un-reads at the end of the text.
* Recursion is structural on `fuel`; `Rfsm.Proofs.ExprFuel` proves that the fuel `parse` passes
  is sufficient (`outOfFuel` is never the result).

Core Lean only.
-/
namespace Rfsm.Expr

/-- constants the parser can create (`ExpressionConstant` with `Data::{Null,String,Boolean,Integer,Double}`) -/
inductive Lit
  | int (i : Int)
  | dbl (text : Str)
  | str (s : Str)
  | bool (b : Bool)
  | null
  deriving DecidableEq, Repr, Inhabited

/-- the expression node kinds of `expressions.rs` -/
inductive Expr
  | const (l : Lit)
  | var (name : Str)
  | array (items : List Expr)
  | map (fields : List (Expr × Expr))
  | method (name : Str) (args : List Expr)
  | index (left idx : Expr)
  | member (left : Expr) (name : Str)
  | assign (left right : Expr)
  | assignUndef (left right : Expr)
  | op (o : Op) (left right : Expr)
  | not (right : Expr)
  | seq (es : List Expr)
  deriving Repr, Inhabited

/-- `ExpressionParserItem` -/
inductive Item
  | tok (t : Token)
  | ex (e : Expr)
  deriving Repr, Inhabited

/-- parser error kinds (error texts of parser.rs mapped to kinds) -/
inductive PErr
  | lex (e : LexErr)
  | unexpectedBracket (c : Ch)      -- "Unexpected '{}'"
  | indexArgCount                   -- "index operator '[]' allows only one argument"
  | internalAt (c : Ch)             -- "Internal Error at '{}'"
  | failedEvaluate                  -- "Failed to evaluate expression"
  | failedParse                     -- "Failed to parse"
  | failedAtOperator (o : Op)       -- "Failed to parse at operator '{:?}'"
  | failedAtSep (c : Ch)            -- "Failed to parse at '.'"
  | failedAtItem                    -- "Failed to parse at '{}'" (stack_to_expression, no operator)
  | memberListError                 -- "Error in member list"
  | missingValue                    -- "Missing value expression in member list"
  | argListError                    -- "Error in argument list"
  | missing (c : Ch)                -- "Missing '{}'"
  deriving DecidableEq, Repr, Inhabited

inductive PRes (α : Type)
  | ok (a : α)
  | err (e : PErr)
  | panic            -- `panic!("Internal error")` in stack_to_expression
  | livelock         -- the lexer re-delivers the same operator forever
  | outOfFuel
  deriving Repr, Inhabited

/-- the priority table of `stack_to_expression` -/
def prio : Op → Nat
  | .not => 3
  | .and => 5 | .multiply => 5 | .divide => 5 | .modulus => 5
  | .or => 6 | .plus => 6 | .minus => 6
  | .less => 9 | .lessEqual => 9 | .greater => 9 | .greaterEqual => 9
  | .equal => 10 | .notEqual => 10
  | .assign => 16 | .assignUndefined => 16

/-- `right_to_left` of `stack_to_expression`: `!` and the assignments -/
def rightToLeft (o : Op) : Bool := o == .not || o == .assign || o == .assignUndefined

/-- `prio < best_idx_prio || (right_to_left && prio == best_idx_prio)` -/
def better (o : Op) (bp : Nat) : Bool := decide (prio o < bp) || (rightToLeft o && prio o == bp)

/-- first `while` loop of `stack_to_expression`: identifiers become variables, the best operator
is located.  `none` = `panic!("Internal error")`. -/
def scan : List Item → Nat → Nat → Nat → Option (List Item × Nat × Nat)
  | [], _, bi, bp => some ([], bi, bp)
  | it :: rest, si, bi, bp =>
    match it with
    | .ex e => (scan rest (si + 1) bi bp).map fun (r, i, p) => (.ex e :: r, i, p)
    | .tok (.identifier id) =>
      (scan rest (si + 1) bi bp).map fun (r, i, p) => (.ex (.var id) :: r, i, p)
    | .tok (.separator c) =>
      if c == 46 then
        let (bi', bp') := if 2 < bp then (si, 2) else (bi, bp)
        (scan rest (si + 1) bi' bp').map fun (r, i, p) => (.tok (.separator c) :: r, i, p)
      else none
    | .tok (.operator o) =>
      let (bi', bp') := if better o bp then (si, prio o) else (bi, bp)
      (scan rest (si + 1) bi' bp').map fun (r, i, p) => (.tok (.operator o) :: r, i, p)
    | .tok _ => none

/-- `fold_stack_at`; `none` = returned `false` (the caller then fails) -/
def foldAt (stack : List Item) (idx : Nat) (f : Expr → Expr → Option Expr) : Option (List Item) :=
  if 0 < idx ∧ idx + 1 < stack.length then
    match stack[idx - 1]?, stack[idx + 1]? with
    | some (.ex le), some (.ex re) =>
      match f le re with
      | some e => some (stack.take (idx - 1) ++ .ex e :: stack.drop (idx + 2))
      | none => none
    | _, _ => none
  else none

/-- the closure passed to `fold_stack_at` for `.` -/
def foldMember (le re : Expr) : Option Expr :=
  match re with
  | .var name => some (.member le name)
  | .method m args => some (.method m (le :: args))
  | _ => none

/-- node built for a binary operator token -/
def mkBinary (o : Op) (le re : Expr) : Expr :=
  match o with
  | .assign => .assign le re
  | .assignUndefined => .assignUndef le re
  | o => .op o le re

inductive SRes
  | ok (e : Option Expr) (rest : List Item)
  | err (e : PErr)
  | panic
  | outOfFuel
  deriving Repr, Inhabited

/-- `stack_to_expression`; returns the expression and what is left on the stack -/
def stackToExpr : Nat → List Item → SRes
  | 0, _ => .outOfFuel
  | fuel + 1, stack =>
    if stack.isEmpty then .ok none [] else
    match scan stack 0 0 255 with
    | none => .panic
    | some (stack, bi, bp) =>
      if bp < 255 then
        match stack[bi]? with
        | some (.tok (.operator .not)) =>
          if bi + 1 < stack.length then
            match stack[bi + 1]? with
            | some (.ex re) => stackToExpr fuel (stack.take bi ++ .ex (.not re) :: stack.drop (bi + 2))
            | _ => .err (.failedAtOperator .not)
          else .err (.failedAtOperator .not)
        | some (.tok (.operator o)) =>
          match foldAt stack bi (fun le re => some (mkBinary o le re)) with
          | some stack' => stackToExpr fuel stack'
          | none => .err (.failedAtOperator o)
        | some (.tok (.separator c)) =>
          match foldAt stack bi foldMember with
          | some stack' => stackToExpr fuel stack'
          | none => .err (.failedAtSep c)
        | _ => .err .failedParse
      else
        match stack with
        | .ex e :: rest => .ok (some e) rest
        | _ => .err .failedAtItem

def stackFuel (stack : List Item) : Nat := stack.length + 1

/-- the last lines of `parse_sub_expression`: nothing, the single expression, or a sequence -/
def wrapExprs (stop : Ch) (rest : Str) : List Expr → PRes (Ch × Option Expr × Str)
  | [] => .ok (stop, none, rest)
  | [e] => .ok (stop, some e, rest)
  | es => .ok (stop, some (.seq es), rest)

/-- `if let Some(e) = … { expressions.push(e) }` -/
def addOpt (exprs : List Expr) : Option Expr → List Expr
  | some e => exprs ++ [e]
  | none => exprs

/-- end of `parse_sub_expression` (after the token loop) -/
def finishSub (stop : Ch) (rest : Str) (exprs : List Expr) (stack : List Item) :
    PRes (Ch × Option Expr × Str) :=
  match stackToExpr (stackFuel stack) stack with
  | .panic => .panic
  | .outOfFuel => .outOfFuel
  | .err e => .err e
  | .ok e stack' =>
    if stack'.isEmpty then wrapExprs stop rest (addOpt exprs e) else .err .failedEvaluate

def pushOpt (stack : List Item) : Option Expr → List Item
  | none => stack
  | some e => stack ++ [.ex e]

mutual

/-- the token loop of `parse_sub_expression` -/
def parseSub : Nat → List Ch → Str → List Expr → List Item → PRes (Ch × Option Expr × Str)
  | 0, _, _, _, _ => .outOfFuel
  | fuel + 1, stops, inp, exprs, stack =>
    match nextToken stops inp with
    | (.eoe, rest) => finishSub 0 rest exprs stack
    | (.null, rest) => parseSub fuel stops rest exprs (stack ++ [.ex (.const .null)])
    | (.tstring s, rest) => parseSub fuel stops rest exprs (stack ++ [.ex (.const (.str s))])
    | (.boolean b, rest) => parseSub fuel stops rest exprs (stack ++ [.ex (.const (.bool b))])
    | (.int i, rest) => parseSub fuel stops rest exprs (stack ++ [.ex (.const (.int i))])
    | (.dbl t, rest) => parseSub fuel stops rest exprs (stack ++ [.ex (.const (.dbl t))])
    | (.identifier id, rest) => parseSub fuel stops rest exprs (stack ++ [.tok (.identifier id)])
    | (.operator o, rest) =>
      if inp.length ≤ rest.length then .livelock
      else parseSub fuel stops rest exprs (stack ++ [.tok (.operator o)])
    | (.bracket br, rest) =>
      if br == 40 then
        match stack.getLast? with
        | none =>
          match parseSub fuel [41] rest [] [] with
          | .ok (_, se, rest') => parseSub fuel stops rest' exprs (pushOpt stack.dropLast se)
          | .err e => .err e | .panic => .panic | .livelock => .livelock | .outOfFuel => .outOfFuel
        | some (.tok (.identifier id)) =>
          match parseArgs fuel 41 rest [] with
          | .ok (v, rest') => parseSub fuel stops rest' exprs (stack.dropLast ++ [.ex (.method id v)])
          | .err e => .err e | .panic => .panic | .livelock => .livelock | .outOfFuel => .outOfFuel
        | some (.tok (.operator _)) =>
          match parseSub fuel [41] rest [] [] with
          | .ok (_, se, rest') => parseSub fuel stops rest' exprs (pushOpt stack se)
          | .err e => .err e | .panic => .panic | .livelock => .livelock | .outOfFuel => .outOfFuel
        | some (.tok (.error _)) => parseSub fuel stops rest exprs stack.dropLast
        | some (.tok .eoe) => parseSub fuel stops rest exprs stack.dropLast
        | some (.tok .exprSep) => parseSub fuel stops rest exprs stack.dropLast
        | some (.tok _) => .err (.unexpectedBracket br)
        | some (.ex _) => .err (.unexpectedBracket br)
      else if br == 91 then
        match stack.getLast? with
        | none =>
          match parseArgs fuel 93 rest [] with
          | .ok (v, rest') => parseSub fuel stops rest' exprs (stack.dropLast ++ [.ex (.array v)])
          | .err e => .err e | .panic => .panic | .livelock => .livelock | .outOfFuel => .outOfFuel
        | some (.tok (.identifier id)) =>
          match parseArgs fuel 93 rest [] with
          | .ok ([a], rest') =>
            parseSub fuel stops rest' exprs (stack.dropLast ++ [.ex (.index (.var id) a)])
          | .ok (_, _) => .err .indexArgCount
          | .err e => .err e | .panic => .panic | .livelock => .livelock | .outOfFuel => .outOfFuel
        | some (.tok (.operator _)) =>
          match parseArgs fuel 93 rest [] with
          | .ok (v, rest') => parseSub fuel stops rest' exprs (stack ++ [.ex (.array v)])
          | .err e => .err e | .panic => .panic | .livelock => .livelock | .outOfFuel => .outOfFuel
        | some (.tok .null) => .err (.unexpectedBracket br)
        | some (.tok (.separator _)) => .err (.unexpectedBracket br)
        | some (.tok (.bracket _)) => .err (.unexpectedBracket br)
        | some (.tok (.boolean _)) => .err (.unexpectedBracket br)
        | some (.tok (.tstring _)) => .err (.unexpectedBracket br)
        | some (.tok (.int _)) => .err (.unexpectedBracket br)
        | some (.tok (.dbl _)) => .err (.unexpectedBracket br)
        | some (.tok _) => .err (.internalAt br)
        | some (.ex e) =>
          match parseArgs fuel 93 rest [] with
          | .ok ([a], rest') => parseSub fuel stops rest' exprs (stack.dropLast ++ [.ex (.index e a)])
          | .ok (_, _) => .err .indexArgCount
          | .err e => .err e | .panic => .panic | .livelock => .livelock | .outOfFuel => .outOfFuel
      else if br == 123 then
        match parseMembers fuel 125 rest [] with
        | .ok (v, rest') => parseSub fuel stops rest' exprs (stack ++ [.ex (.map v)])
        | .err e => .err e | .panic => .panic | .livelock => .livelock | .outOfFuel => .outOfFuel
      else if stops.contains br then finishSub br rest exprs stack
      else .err (.unexpectedBracket br)
    | (.separator sep, rest) =>
      if stops.contains sep then finishSub sep rest exprs stack
      else if sep == 46 then parseSub fuel stops rest exprs (stack ++ [.tok (.separator 46)])
      else parseSub fuel stops rest exprs stack
    | (.exprSep, rest) =>
      match stackToExpr (stackFuel stack) stack with
      | .panic => .panic
      | .outOfFuel => .outOfFuel
      | .err e => .err e
      | .ok e stack' =>
        if stack'.isEmpty then parseSub fuel stops rest (addOpt exprs e) []
        else .err .failedEvaluate
    | (.error e, _) => .err (.lex e)

/-- `parse_argument_list` -/
def parseArgs : Nat → Ch → Str → List Expr → PRes (List Expr × Str)
  | 0, _, _, _ => .outOfFuel
  | fuel + 1, stop, inp, acc =>
    match parseSub fuel [44, stop] inp [] [] with
    | .ok (_, none, rest) => if acc.isEmpty then .ok (acc, rest) else .err .argListError
    | .ok (stopc, some e, rest) =>
      if stopc == stop then .ok (acc ++ [e], rest)
      else if stopc == 0 then .err (.missing stop)
      else parseArgs fuel stop rest (acc ++ [e])
    | .err e => .err e | .panic => .panic | .livelock => .livelock | .outOfFuel => .outOfFuel

/-- `parse_member_list` -/
def parseMembers : Nat → Ch → Str → List (Expr × Expr) → PRes (List (Expr × Expr) × Str)
  | 0, _, _, _ => .outOfFuel
  | fuel + 1, stop, inp, acc =>
    match parseSub fuel [58, stop] inp [] [] with
    | .ok (_, none, rest) => if acc.isEmpty then .ok (acc, rest) else .err .memberListError
    | .ok (_, some k, rest) =>
      match parseSub fuel [44, stop] rest [] [] with
      | .ok (_, none, _) => .err .missingValue
      | .ok (stopv, some v, rest') =>
        if stopv == stop then .ok (acc ++ [(k, v)], rest')
        else if stopv == 0 then .err (.missing stop)
        else parseMembers fuel stop rest' (acc ++ [(k, v)])
      | .err e => .err e | .panic => .panic | .livelock => .livelock | .outOfFuel => .outOfFuel
    | .err e => .err e | .panic => .panic | .livelock => .livelock | .outOfFuel => .outOfFuel

end

def parseFuel (text : Str) : Nat := 2 * text.length + 4

/-- `ExpressionParser::parse` -/
def parse (text : Str) : PRes Expr :=
  match parseSub (parseFuel text) [0] text [] [] with
  | .ok (_, none, _) => .err .failedParse
  | .ok (_, some e, _) => .ok e
  | .err e => .err e | .panic => .panic | .livelock => .livelock | .outOfFuel => .outOfFuel

end Rfsm.Expr
