/-
Wire helpers for the line protocol between the Rust harness and the compiled model.
Payload strings travel as lower-case hex of their UTF-8 bytes; `-` stands for the empty payload
so that every field is a non-empty word.  Core Lean only (the driver must link as a `lean_exe`).
-/
namespace Rfsm.Wire

def hexVal (c : Char) : Option Nat :=
  if '0' ≤ c ∧ c ≤ '9' then some (c.toNat - 48)
  else if 'a' ≤ c ∧ c ≤ 'f' then some (c.toNat - 87)
  else none

def hexDigit (n : Nat) : Char :=
  if n < 10 then Char.ofNat (48 + n) else Char.ofNat (87 + n)

/-- decode hex text into bytes; `none` on malformed input -/
def unhexList : List Char → Option (List Nat)
  | [] => some []
  | [_] => none
  | a :: b :: rest =>
    match hexVal a, hexVal b, unhexList rest with
    | some x, some y, some r => some ((x * 16 + y) :: r)
    | _, _, _ => none

def unhex (s : String) : Option (List Nat) :=
  if s = "-" then some [] else unhexList s.toList

def hex (bs : List Nat) : String :=
  if bs.isEmpty then "-" else
  String.ofList (bs.flatMap fun b => [hexDigit (b / 16 % 16), hexDigit (b % 16)])

def words (line : String) : List String :=
  (line.trimAscii.toString.splitOn " ").filter (· ≠ "")

/-- comma separated list of hex payloads; `.` is the empty list -/
def unhexMany (s : String) : Option (List (List Nat)) :=
  if s = "." then some [] else
  (s.splitOn ",").mapM unhex

def hexMany (l : List (List Nat)) : String :=
  if l.isEmpty then "." else ",".intercalate (l.map hex)

def natList (s : String) : Option (List Nat) :=
  if s = "." then some [] else (s.splitOn ",").mapM String.toNat?

def showNatList (l : List Nat) : String :=
  if l.isEmpty then "." else ",".intercalate (l.map toString)

def bytesOfString (s : String) : List Nat := s.toUTF8.toList.map UInt8.toNat

def stringOfBytes (bs : List Nat) : String :=
  match String.fromUTF8? (ByteArray.mk (bs.map UInt8.ofNat).toArray) with
  | some s => s
  | none => "?"

end Rfsm.Wire
