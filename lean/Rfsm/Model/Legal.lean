import Rfsm.Model.Interp
/-!
Decidable form of "legal state configuration" (W3C 3.11) over the flat tables — the oracle of C01
and the invariant of its theorems.
-/
namespace Rfsm.Interp

def nodupB : List Nat → Bool
  | [] => true
  | x :: xs => !xs.contains x && nodupB xs

/-- number of members of `cfg` among `kids` -/
def activeKids (cfg kids : List Nat) : List Nat := kids.filter (cfg.contains ·)

/-- one member of a configuration is locally legal -/
def legalAt (d : Doc) (cfg : List Nat) (s : Nat) : Bool :=
  let st := getState d s
  decide (0 < s) && decide (s ≤ d.states.length)
  && (s == d.root || cfg.contains st.parent)
  && st.histType == 0
  && (if st.isParallel then st.kids.all (cfg.contains ·)
      else if st.kids.isEmpty then true
      else (activeKids cfg st.kids).length == 1)

def legalB (d : Doc) (cfg : List Nat) : Bool :=
  cfg.contains d.root && nodupB cfg && cfg.all (legalAt d cfg)

end Rfsm.Interp
