import Rfsm.Model.Interp
/-!
Decidable form of "legal state configuration" (W3C 3.11) over the flat tables — the oracle of C01
and the invariant of its theorems.
-/
namespace Rfsm.Interp

def nodupB : List Nat → Bool
  | [] => true
  | x :: xs => !xs.contains x && nodupB xs

/-- number of members of `cfg` among `kids` -/
def activeKids (cfg kids : List Nat) : List Nat := kids.filter (cfg.contains ·)

/-- one member of a configuration is locally legal -/
def legalAt (d : Doc) (cfg : List Nat) (s : Nat) : Bool :=
  let st := getState d s
  decide (0 < s) && decide (s ≤ d.states.length)
  && (s == d.root || cfg.contains st.parent)
  && st.histType == 0
  && (if st.isParallel then st.kids.all (cfg.contains ·)
      else if st.kids.isEmpty then true
      else (activeKids cfg st.kids).length == 1)

def legalB (d : Doc) (cfg : List Nat) : Bool :=
  cfg.contains d.root && nodupB cfg && cfg.all (legalAt d cfg)

end Rfsm.Interp

namespace Rfsm.Interp

/-- Decidable structural conformance of the flat tables (what the reader guarantees for a
    conformant document, as far as the theorems need it):
    ids are positions; the root has no parent; every other state's parent is a valid state that
    precedes it in document order and lists it among its `kids` (ordinary states) or `history`
    (history pseudo-states); history states have no children, are never parents, and own exactly
    one transition whose targets are non-history proper descendants of the parent (children for
    shallow history); listed transitions exist and start at the listing state; a `<state>` with
    children has an initial transition that starts at it and whose targets are descendants (history children included);
    every state other than the root has the root among its ancestors (the parent pointers form a
    tree, within the fuel of `ancestors`). -/
def conformantB (d : Doc) : Bool :=
  let n := d.states.length
  let valid := fun (x : Nat) => decide (0 < x) && decide (x ≤ n)
  valid d.root && (getState d d.root).parent == 0 && (getState d d.root).histType == 0
  && (List.range n).all (fun i => (d.states.getD i default).id == i + 1)
  && d.states.all (fun st =>
      let s := st.id
      (s == d.root ||
        (valid st.parent && decide ((getState d st.parent).docId < st.docId)
          && (getState d st.parent).histType == 0
          && (if st.histType == 0 then (getState d st.parent).kids.contains s
              else (getState d st.parent).history.contains s)))
      && st.kids.all (fun k => valid k && (getState d k).parent == s && (getState d k).histType == 0)
      && st.history.all (fun h => valid h && (getState d h).parent == s && (getState d h).histType != 0)
      && st.transitions.all (fun t => (d.transitions.any (·.id == t)) && (getTrans d t).source == s
            && (getTrans d t).target.all valid)
      && (if st.histType != 0 then
            st.kids.isEmpty && st.history.isEmpty && st.transitions.length == 1
            && !(histTransition d s).target.isEmpty
            && (histTransition d s).target.all (fun t => (getState d t).histType == 0
                  && (if st.histType == 1 then (getState d t).parent == st.parent
                      else isDescendant d t st.parent))
          else true)
      && (if isCompoundState d s || (s == d.root && !st.kids.isEmpty) then
            st.initial != 0 && d.transitions.any (·.id == st.initial)
            && (getTrans d st.initial).source == s
            && !(getTrans d st.initial).target.isEmpty
            && (getTrans d st.initial).target.all (fun t => valid t && isDescendant d t s)
          else true))
  -- the parent pointers form a tree below the root: walking up from any state reaches the root
  -- (the reader builds the tables from nested elements, so this holds for every document it reads)
  && d.states.all (fun st => st.id == d.root || (ancestors d st.id).contains d.root)

end Rfsm.Interp
