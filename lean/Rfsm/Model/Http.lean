/-
M-HTTP: the BasicHTTP event I/O processor (property C20).  Core Lean only.

Strings are byte lists (`List UInt8`), so "for all byte strings" is an ordinary ∀ without a
well-formedness hypothesis.  What is transcribed, and from where:

  sending side
  * `encByte`, `encStr`      `form_urlencoded::byte_serialize` / `byte_serialized_unchanged` /
                             `percent_encode_byte` (form_urlencoded-1.2.1, percent-encoding-2.3.1)
  * `appendPair`, `formEncode`  `form_urlencoded::Serializer::{append_pair, extend_pairs}` with
                             `append_separator_if_needed` (start_position = 0), as called by
                             `ureq::Request::send_form` (ureq-2.12.1/src/request.rs)
  * `dataText`               `impl Display for Data` (src/datamodel/mod.rs) and `vec_to_string`
                             (src/fsm.rs); `Double` and `Map` carry their text (`f64` formatting and
                             `HashMap` iteration order are not modelled)
  * `sendForm`               `BasicHTTPEventIOProcessor::send`
                             (src/event_io_processor/http_event_io_processor.rs)
  * `locationOf`             `BasicHTTPEventIOProcessor::{new, get_location}` with the constants of
                             `FsmExecutor::new_with_io_processor` (src/fsm_executor.rs)

  receiving side
  * `splitAtByte`            `RawStr::split_at_byte` (rocket_http-0.5.1/src/raw_str.rs)
  * `pieces`/`rawFields`     the loop of `RawStrParser::next` (rocket-0.5.1/src/form/parser.rs):
                             split at `&`, skip empty fields, split each field at its first `=`
  * `plusToSpace`, `pctDecode`, `urlDecode`   `RawStr::_replace_plus`,
                             `percent_encoding::percent_decode`, `RawStr::url_decode_lossy`
                             WITHOUT the final `from_utf8_lossy` (identity on valid UTF-8; the
                             harness applies it to the model's bytes before comparing)
  * `formDecode`             `RawStrParser` as a whole
  * `firstView`, `viewKey`, `keyIndices`   `NameView::{new, shift, key_lossy, key}`,
                             `Key::indices` (rocket-0.5.1/src/form/name/{view,key}.rs)
  * `mapPush`, `mapFinalize`, `rocketMap`   `MapContext::{push, push_value, finalize}` for
                             `HashMap<String, String>` in lenient mode, with
                             `FromFieldContext::{push_value, finalize}` for `String`
                             (rocket-0.5.1/src/form/{from_form,from_form_field}.rs)
  * `parseSid`               `<u32 as FromParam>` = `u32::from_str` on the path segment
  * `routeBody`              the body of `rocket_receive_event`
  * `receive`                the whole request: path parameter guard, data guard, route body
  * `eventData`              how `set_event` (src/datamodel/expression_engine.rs) fills `_event.data`

Quirks transcribed on purpose:
  * the form is a `HashMap<String,String>`: of two fields with the same key the FIRST value is kept
    (`FromFieldContext::push_value` only stores when empty; lenient mode reports no duplicate);
  * rocket reads field NAMES structurally: only the first key of `a.b`, `a[b]` is used, `[x]` is
    `x`, `k:x=..`/`v:x=..` address key / value of entry `x`, any other `p:x` and an empty first key
    make the whole form fail (status 422) — see `rocketMap`;
  * the route iterates the map in `HashMap` order: the order of `params` is not defined.  The model
    lists them in order of first appearance; every comparison is up to permutation;
  * the session is looked up before the event name is checked, and both answers are 400.
-/
namespace Rfsm.Http

abbrev Bytes := List UInt8

/-! ## sending side: application/x-www-form-urlencoded serializer -/

/-- `byte_serialized_unchanged`: `* - . 0-9 A-Z _ a-z` -/
def unchanged (b : UInt8) : Bool :=
  b == 42 || b == 45 || b == 46 || (48 ≤ b && b ≤ 57) || (65 ≤ b && b ≤ 90) || b == 95
    || (97 ≤ b && b ≤ 122)

/-- upper-case hex digit of a nibble (`percent_encode_byte` table: `%00` … `%FF`) -/
def hexUp (n : UInt8) : UInt8 := if n < 10 then 48 + n else 55 + n

def encByte (b : UInt8) : Bytes :=
  if unchanged b then [b]
  else if b == 32 then [43]
  else [37, hexUp (b >>> 4), hexUp (b &&& 15)]

def encStr (s : Bytes) : Bytes := s.flatMap encByte

/-- `append_pair` on the output so far -/
def appendPair (out : Bytes) (kv : Bytes × Bytes) : Bytes :=
  (if out.isEmpty then out else out ++ [38]) ++ encStr kv.1 ++ [61] ++ encStr kv.2

/-- `Serializer::new(String::new()).extend_pairs(kvs).finish()` -/
def formEncode (kvs : List (Bytes × Bytes)) : Bytes := kvs.foldl appendPair []

/-! ## receiving side: rocket's url-encoded form parser -/

/-- `RawStr::split_at_byte`: split at the first `b` (dropped); no `b` → (all, empty) -/
def splitAtByte (b : UInt8) : Bytes → Bytes × Bytes
  | [] => ([], [])
  | c :: cs => if c == b then ([], cs) else ((c :: (splitAtByte b cs).1), (splitAtByte b cs).2)

/-- all pieces between `&` (including empty ones) -/
def pieces : Bytes → List Bytes
  | [] => [[]]
  | c :: cs =>
    if c == 38 then [] :: pieces cs
    else match pieces cs with
      | f :: fs => (c :: f) :: fs
      | [] => [[c]]

/-- the non-empty fields, each split at its first `=` (still encoded) -/
def rawFields (body : Bytes) : List (Bytes × Bytes) :=
  ((pieces body).filter (fun f => !f.isEmpty)).map (splitAtByte 61)

def plusToSpace (b : UInt8) : UInt8 := if b == 43 then 32 else b

/-- `char::to_digit(16)` on a byte -/
def hexVal (c : UInt8) : Option UInt8 :=
  if 48 ≤ c && c ≤ 57 then some (c - 48)
  else if 65 ≤ c && c ≤ 70 then some (c - 55)
  else if 97 ≤ c && c ≤ 102 then some (c - 87)
  else none

/-- `percent_decode`: `%XY` with two hex digits is one byte, any other `%` stays -/
def pctDecode : Bytes → Bytes
  | [] => []
  | c :: h :: l :: rest2 =>
    if c == 37 then
      match hexVal h, hexVal l with
      | some x, some y => (x * 16 + y) :: pctDecode rest2
      | _, _ => c :: pctDecode (h :: l :: rest2)
    else c :: pctDecode (h :: l :: rest2)
  | c :: rest => c :: pctDecode rest

/-- `url_decode_lossy` without the UTF-8 repair -/
def urlDecode (s : Bytes) : Bytes := pctDecode (s.map plusToSpace)

/-- the fields rocket hands to the form context, in body order -/
def formDecode (body : Bytes) : List (Bytes × Bytes) :=
  (rawFields body).map (fun nv => (urlDecode nv.1, urlDecode nv.2))

/-! ## rocket's `HashMap<String,String>` form context -/

/-- index of the first `.` or `[`, or the length -/
def findDelim : Bytes → Nat
  | [] => 0
  | c :: cs => if c == 46 || c == 91 then 0 else findDelim cs + 1

/-- index just after the first `]`, or the length -/
def afterRbr : Bytes → Nat
  | [] => 0
  | c :: cs => if c == 93 then 1 else afterRbr cs + 1

/-- `NameView::new(name)`: the first view and whether it reaches the end of the name -/
def firstView (name : Bytes) : Bytes × Bool :=
  let n := match name with
    | [] => 0
    | c :: cs =>
      if c == 61 then 0
      else if c == 91 then afterRbr name
      else if c == 46 then findDelim cs + 1
      else findDelim name
  (name.take n, n == name.length)

/-- `NameView::key_lossy` of a view -/
def viewKey (view : Bytes) (atLast : Bool) : Bytes :=
  match view with
  | [] => []
  | c :: cs =>
    if c == 46 then cs
    else if c == 91 then
      if view.getLast? == some 93 then cs.dropLast
      else if atLast then cs
      else view
    else view

/-- `key.indices()`: the first two `:`-separated parts -/
def keyIndices (key : Bytes) : Bytes × Option Bytes :=
  let (a, r) := splitAtByte 58 key
  if key.any (fun c => c == 58) then (a, some (splitAtByte 58 r).1) else (a, none)

/-- one entry of `MapContext`: table key, key context value, value context value -/
structure Entry where
  idx : Bytes
  k : Option Bytes
  v : Option Bytes
deriving Repr, DecidableEq

structure MapCtx where
  entries : List Entry := []
  failed : Bool := false
deriving Repr, DecidableEq

/-- `FromFieldContext::push_value` for `String`: only the first push is stored -/
def pushOpt (o : Option Bytes) (v : Bytes) : Option Bytes :=
  match o with
  | some x => some x
  | none => some v

def hasIdx (es : List Entry) (i : Bytes) : Bool := es.any (fun e => e.idx == i)

/-- update the entry with table key `i` (the caller made sure it exists) -/
def updEntry (es : List Entry) (i : Bytes) (f : Entry → Entry) : List Entry :=
  es.map (fun e => if e.idx == i then f e else e)

/-- `MapContext::ctxt`: make sure the entry exists -/
def ensure (es : List Entry) (i : Bytes) : List Entry :=
  if hasIdx es i then es else es ++ [{ idx := i, k := none, v := none }]

def startsWithK (kind : Bytes) : Bool :=
  match kind with
  | c :: _ => c == 107 || c == 75
  | [] => false

def startsWithV (kind : Bytes) : Bool :=
  match kind with
  | c :: _ => c == 118 || c == 86
  | [] => false

/-- `MapContext::push_value` for one decoded field -/
def mapPush (m : MapCtx) (nv : Bytes × Bytes) : MapCtx :=
  let (view, atLast) := firstView nv.1
  let key := viewKey view atLast
  if key.isEmpty then { m with failed := true }
  else match keyIndices key with
    | (i, none) =>
      let isNew := !hasIdx m.entries i
      let es := ensure m.entries i
      let es := if isNew then updEntry es i (fun e => { e with k := pushOpt e.k i }) else es
      { m with entries := updEntry es i (fun e => { e with v := pushOpt e.v nv.2 }) }
    | (kind, some i) =>
      if startsWithK kind then
        { m with entries := updEntry (ensure m.entries i) i (fun e => { e with k := pushOpt e.k nv.2 }) }
      else if startsWithV kind then
        { m with entries := updEntry (ensure m.entries i) i (fun e => { e with v := pushOpt e.v nv.2 }) }
      else { m with failed := true }

/-- `HashMap::insert` on an association list (a later insert replaces the value in place) -/
def insertKV (acc : List (Bytes × Bytes)) (k v : Bytes) : List (Bytes × Bytes) :=
  if acc.any (fun p => p.1 == k) then acc.map (fun p => if p.1 == k then (k, v) else p)
  else acc ++ [(k, v)]

def finalizeStep (acc : List (Bytes × Bytes)) (e : Entry) : List (Bytes × Bytes) :=
  match e.k, e.v with
  | some k, some v => insertKV acc k v
  | _, _ => acc

/-- `MapContext::finalize` (lenient): every entry needs a key and a value; collect into a map -/
def mapFinalize (m : MapCtx) : Option (List (Bytes × Bytes)) :=
  if m.failed then none
  else if m.entries.any (fun e => e.k.isNone || e.v.isNone) then none
  else some (m.entries.foldl finalizeStep [])

/-- `Form<HashMap<String,String>>` from the decoded fields; `none` = form error (422) -/
def rocketMap (fields : List (Bytes × Bytes)) : Option (List (Bytes × Bytes)) :=
  mapFinalize (fields.foldl mapPush {})

/-! ## events, sessions, the route -/

structure Event where
  name : Bytes
  /-- `param_values` -/
  params : Option (List (Bytes × Bytes))
  /-- `content` (always a `Data::String` on this path) -/
  content : Option Bytes
deriving Repr, DecidableEq

/-- `_event.data` as `set_event` builds it -/
inductive EvData where
  | null
  | text (s : Bytes)
  | map (kvs : List (Bytes × Bytes))
deriving Repr, DecidableEq

def eventData (e : Event) : EvData :=
  match e.params with
  | some pv => .map pv
  | none => match e.content with
    | some c => .text c
    | none => .null

/-- one session of the executor's table with its external queue (oldest first) -/
structure Sess where
  sid : Nat
  queue : List Event
deriving Repr, DecidableEq

abbrev Table := List Sess

def lookup (t : Table) (sid : Nat) : Option Sess := t.find? (fun s => s.sid == sid)

/-- `sender.send(event)` on the session with id `sid` -/
def enqueue (t : Table) (sid : Nat) (e : Event) : Table :=
  t.map (fun s => if s.sid == sid then { s with queue := s.queue ++ [e] } else s)

def scxmlEventName : Bytes := [95, 115, 99, 120, 109, 108, 101, 118, 101, 110, 116, 110, 97, 109, 101]
def scxmlContent : Bytes := [95, 99, 111, 110, 116, 101, 110, 116]

/-- the `for (name, value) in form_data` loop -/
def buildEvent (form : List (Bytes × Bytes)) : Option Bytes × Event :=
  form.foldl (fun (acc : Option Bytes × Event) nv =>
    if nv.1 == scxmlEventName then (some nv.2, acc.2)
    else if nv.1 == scxmlContent then (acc.1, { acc.2 with content := some nv.2 })
    else (acc.1, { acc.2 with params := some ((acc.2.params.getD []) ++ [nv]) }))
    (none, { name := [], params := none, content := none })

/-- the body of `rocket_receive_event` on the parsed form map: status and new table -/
def routeBody (t : Table) (sid : Nat) (form : List (Bytes × Bytes)) : Nat × Table :=
  match lookup t sid with
  | none => (400, t)
  | some _ =>
    match buildEvent form with
    | (none, _) => (400, t)
    | (some n, ev) => (200, enqueue t sid { ev with name := n })

/-- the event the route would enqueue (for the driver and the theorems) -/
def routeEvent (form : List (Bytes × Bytes)) : Option Event :=
  match buildEvent form with
  | (none, _) => none
  | (some n, ev) => some { ev with name := n }

def digitsVal : Bytes → Option Nat
  | [] => some 0
  | c :: cs => if 48 ≤ c && c ≤ 57 then
      (digitsVal cs).map (fun r => (c.toNat - 48) * 10 ^ cs.length + r) else none

def stripPlus : Bytes → Bytes
  | 43 :: r => r
  | s => s

/-- `u32::from_str`: optional `+`, at least one decimal digit, value below 2^32 -/
def parseSid (seg : Bytes) : Option Nat :=
  let ds := stripPlus seg
  if ds.isEmpty then none
  else match digitsVal ds with
    | some n => if n < 4294967296 then some n else none
    | none => none

/-- `handlePost`: a POST whose body was decoded into `fields`, path segment already a number.
    422 when rocket cannot build the map, otherwise the route body. -/
def handlePost (t : Table) (sid : Nat) (fields : List (Bytes × Bytes)) : Nat × Table :=
  match rocketMap fields with
  | none => (422, t)
  | some form => routeBody t sid form

/-- the whole request `POST /scxml/<seg>` with an `application/x-www-form-urlencoded` body.
    rocket percent-decodes the path segment before `u32::from_param`.  A segment that is not a
    `u32` fails the parameter guard: the request is forwarded and, no other route matching,
    answered 422 by rocket 0.5 (status carried by the forward). -/
def receive (t : Table) (seg body : Bytes) : Nat × Table :=
  match parseSid (pctDecode seg) with
  | none => (422, t)
  | some sid => handlePost t sid (formDecode body)

/-- a sequence of requests, each handled atomically (the route holds the executor lock) -/
def receiveAll (t : Table) (reqs : List (Bytes × Bytes)) : Table :=
  reqs.foldl (fun t r => (receive t r.1 r.2).2) t

/-! ## sending side: `BasicHTTPEventIOProcessor::send` -/

/-- the `Data` variants with the text `Display` gives them -/
inductive DataV where
  | int (i : Int)
  | str (s : Bytes)
  | bool (b : Bool)
  | null
  | none
  | error (s : Bytes)
  | source (s : Bytes)
  | array (items : List DataV)
  /-- `Double` / `Map`: text as produced by Rust (not modelled) -/
  | opaque (text : Bytes)

def asciiBytes (s : String) : Bytes := s.toUTF8.toList

mutual
/-- `impl Display for Data` -/
def dataText : DataV → Bytes
  | .int i => asciiBytes (toString i)
  | .str s => s
  | .bool b => if b then [116, 114, 117, 101] else [102, 97, 108, 115, 101]
  | .null => [110, 117, 108, 108]
  | .none => []
  | .error s => [69, 114, 114, 111, 114, 32] ++ s
  | .source s => s
  | .array items => [91] ++ itemsText true items ++ [93]
  | .opaque t => t
/-- `vec_to_string` without the brackets -/
def itemsText (first : Bool) : List DataV → Bytes
  | [] => []
  | d :: ds => (if first then [] else [44]) ++ dataText d ++ itemsText false ds
end

/-- the event handed to an I/O processor by `<send>` -/
structure OutEvent where
  name : Bytes
  params : Option (List (Bytes × DataV))
  content : Option DataV

/-- the pairs `send` passes to `ureq::…send_form` -/
def sendForm (e : OutEvent) : List (Bytes × Bytes) :=
  [(scxmlEventName, e.name)]
    ++ (match e.params with
        | some ps => ps.map (fun p => (p.1, dataText p.2))
        | none => [])
    ++ (match e.content with
        | some c => [(scxmlContent, dataText c)]
        | none => [])

/-- the request body `send` emits -/
def sendBody (e : OutEvent) : Bytes := formEncode (sendForm e)

def digitChar (d : Nat) : UInt8 := UInt8.ofNat (48 + d)

/-- decimal digits of `n` in front of `acc` (`u32::to_string`); `fuel > n` is always enough -/
def decimalAux : Nat → Nat → Bytes → Bytes
  | 0, _, acc => acc
  | fuel + 1, n, acc =>
    if n < 10 then digitChar n :: acc else decimalAux fuel (n / 10) (digitChar (n % 10) :: acc)

def decimal (n : Nat) : Bytes := decimalAux (n + 1) n []

/-- `format!("{}{}", "http://localhost:5555/scxml/", id)` -/
def locationOf (sid : Nat) : Bytes :=
  asciiBytes "http://localhost:5555/scxml/" ++ decimal sid

/-! ## the statement read directly (oracle for implementation output) -/

def fieldValue (fields : List (Bytes × Bytes)) (k : Bytes) : Option Bytes :=
  (fields.find? (fun p => p.1 == k)).map (·.2)

def otherFields (fields : List (Bytes × Bytes)) : List (Bytes × Bytes) :=
  fields.filter (fun p => p.1 != scxmlEventName && p.1 != scxmlContent)

/-- what C20 promises for a POST with these form fields: the event name and `_event.data` -/
def specEvent (fields : List (Bytes × Bytes)) : Option (Bytes × EvData) :=
  match fieldValue fields scxmlEventName with
  | none => none
  | some n =>
    some (n, if (otherFields fields).isEmpty then
               match fieldValue fields scxmlContent with
               | some c => .text c
               | none => .null
             else .map (otherFields fields))

def keysDistinct : List (Bytes × Bytes) → Bool
  | [] => true
  | p :: ps => !(ps.any (fun q => q.1 == p.1)) && keysDistinct ps

/-- equality of `_event.data` values, maps compared as sets of pairs -/
def dataEq : EvData → EvData → Bool
  | .null, .null => true
  | .text a, .text b => a == b
  | .map a, .map b => a.length == b.length && a.all (fun p => b.contains p) && b.all (fun p => a.contains p)
  | _, _ => false

/-- the predicate of C20 on one observed request: `known` = the path names a session of the
    table, `obs` = the events that arrived anywhere because of it (session id, name, data) -/
def oracle (known : Bool) (sid : Nat) (fields : List (Bytes × Bytes)) (status : Nat)
    (obs : List (Nat × Bytes × EvData)) : String :=
  if !keysDistinct fields then "na"
  else match known, specEvent fields with
    | true, some (n, d) =>
      if status != 200 then "fail:status"
      else match obs with
        | [] => "fail:lost"
        | [(s, n', d')] =>
          if s != sid then "fail:session" else if n' != n then "fail:name"
          else if !dataEq d d' then "fail:data" else "ok"
        | _ => "fail:many"
    | _, _ =>
      if status < 400 then "fail:status-ok"
      else if !obs.isEmpty then "fail:enqueued" else "ok"

end Rfsm.Http
