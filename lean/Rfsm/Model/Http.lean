/-
M-HTTP: the BasicHTTP event I/O processor (property C20).  Core Lean only.

Strings are byte lists (`List UInt8`), so "for all byte strings" is an ordinary ∀ without a
well-formedness hypothesis.  What is transcribed, and from where:

  sending side
  * `encByte`, `encStr`      `form_urlencoded::byte_serialize` / `byte_serialized_unchanged` /
                             `percent_encode_byte` (form_urlencoded-1.2.1, percent-encoding-2.3.1)
  * `appendPair`, `formEncode`  `form_urlencoded::Serializer::{append_pair, extend_pairs}` with
                             `append_separator_if_needed` (start_position = 0), as called by
                             `ureq::Request::send_form` (ureq-2.12.1/src/request.rs)
  * `dataText`               `impl Display for Data` (src/datamodel/mod.rs) and `vec_to_string`
                             (src/fsm.rs); `Double` and `Map` carry their text (`f64` formatting and
                             `HashMap` iteration order are not modelled)
  * `sendForm`               `BasicHTTPEventIOProcessor::send`
                             (src/event_io_processor/http_event_io_processor.rs)
  * `locationOf`             `BasicHTTPEventIOProcessor::{new, get_location}` with the constants of
                             `FsmExecutor::new_with_io_processor` (src/fsm_executor.rs)

  receiving side
  * `splitAtByte`            `RawStr::split_at_byte` (rocket_http-0.5.1/src/raw_str.rs)
  * `pieces`/`rawFields`     the loop of `RawStrParser::next` (rocket-0.5.1/src/form/parser.rs):
                             split at `&`, skip empty fields, split each field at its first `=`
  * `plusToSpace`, `pctDecode`, `urlDecode`   `RawStr::_replace_plus`,
                             `percent_encoding::percent_decode`, `RawStr::url_decode_lossy`
                             WITHOUT the final `from_utf8_lossy` (identity on valid UTF-8; the
                             harness applies it to the model's bytes before comparing)
  * `formDecode`             `RawStrParser` as a whole
  * (form guard)            `Form<RawFields>`: `RawFields::push_value` keeps every field the parser
                             yields as `(field.name.source(), field.value)` — the decoded name
                             verbatim — in body order; `finalize` never fails.  So the route sees
                             exactly `formDecode body` (no model function needed)
  * `parseSid`               `<u32 as FromParam>` = `u32::from_str` on the path segment
  * `routeBody`              the body of `rocket_receive_event`
  * `receive`                the whole request: path parameter guard, data guard, route body
  * `eventData`              how `set_event` (src/datamodel/expression_engine.rs) fills `_event.data`

Quirks transcribed on purpose:
  * duplicate fields follow the route's own loop over the fields in body order: a later
    `_scxmleventname` / `_content` replaces an earlier one; every other field is pushed to
    `param_values` (duplicates included) and `set_event` inserts them into a `HashMap` in that order,
    so the LAST value of a repeated parameter name is the one in `_event.data` (`mapOf`);
  * field names are plain text: `a.b`, `a[b]`, `k:x`, `x:y`, the empty name are parameter names like
    any other (before the repair of finding C20-F1 the form was a `HashMap<String,String>` and rocket
    read the names as form paths);
  * the session is looked up before the event name is checked, and both answers are 400.
-/
namespace Rfsm.Http

abbrev Bytes := List UInt8

/-! ## sending side: application/x-www-form-urlencoded serializer -/

/-- `byte_serialized_unchanged`: `* - . 0-9 A-Z _ a-z` -/
def unchanged (b : UInt8) : Bool :=
  b == 42 || b == 45 || b == 46 || (48 ≤ b && b ≤ 57) || (65 ≤ b && b ≤ 90) || b == 95
    || (97 ≤ b && b ≤ 122)

/-- upper-case hex digit of a nibble (`percent_encode_byte` table: `%00` … `%FF`) -/
def hexUp (n : UInt8) : UInt8 := if n < 10 then 48 + n else 55 + n

def encByte (b : UInt8) : Bytes :=
  if unchanged b then [b]
  else if b == 32 then [43]
  else [37, hexUp (b >>> 4), hexUp (b &&& 15)]

def encStr (s : Bytes) : Bytes := s.flatMap encByte

/-- `append_pair` on the output so far -/
def appendPair (out : Bytes) (kv : Bytes × Bytes) : Bytes :=
  (if out.isEmpty then out else out ++ [38]) ++ encStr kv.1 ++ [61] ++ encStr kv.2

/-- `Serializer::new(String::new()).extend_pairs(kvs).finish()` -/
def formEncode (kvs : List (Bytes × Bytes)) : Bytes := kvs.foldl appendPair []

/-! ## receiving side: rocket's url-encoded form parser -/

/-- `RawStr::split_at_byte`: split at the first `b` (dropped); no `b` → (all, empty) -/
def splitAtByte (b : UInt8) : Bytes → Bytes × Bytes
  | [] => ([], [])
  | c :: cs => if c == b then ([], cs) else ((c :: (splitAtByte b cs).1), (splitAtByte b cs).2)

/-- all pieces between `&` (including empty ones) -/
def pieces : Bytes → List Bytes
  | [] => [[]]
  | c :: cs =>
    if c == 38 then [] :: pieces cs
    else match pieces cs with
      | f :: fs => (c :: f) :: fs
      | [] => [[c]]

/-- the non-empty fields, each split at its first `=` (still encoded) -/
def rawFields (body : Bytes) : List (Bytes × Bytes) :=
  ((pieces body).filter (fun f => !f.isEmpty)).map (splitAtByte 61)

def plusToSpace (b : UInt8) : UInt8 := if b == 43 then 32 else b

/-- `char::to_digit(16)` on a byte -/
def hexVal (c : UInt8) : Option UInt8 :=
  if 48 ≤ c && c ≤ 57 then some (c - 48)
  else if 65 ≤ c && c ≤ 70 then some (c - 55)
  else if 97 ≤ c && c ≤ 102 then some (c - 87)
  else none

/-- `percent_decode`: `%XY` with two hex digits is one byte, any other `%` stays -/
def pctDecode : Bytes → Bytes
  | [] => []
  | c :: h :: l :: rest2 =>
    if c == 37 then
      match hexVal h, hexVal l with
      | some x, some y => (x * 16 + y) :: pctDecode rest2
      | _, _ => c :: pctDecode (h :: l :: rest2)
    else c :: pctDecode (h :: l :: rest2)
  | c :: rest => c :: pctDecode rest

/-- `url_decode_lossy` without the UTF-8 repair -/
def urlDecode (s : Bytes) : Bytes := pctDecode (s.map plusToSpace)

/-- the fields rocket hands to the form context, in body order -/
def formDecode (body : Bytes) : List (Bytes × Bytes) :=
  (rawFields body).map (fun nv => (urlDecode nv.1, urlDecode nv.2))

/-! ## events, sessions, the route -/

structure Event where
  name : Bytes
  /-- `param_values` -/
  params : Option (List (Bytes × Bytes))
  /-- `content` (always a `Data::String` on this path) -/
  content : Option Bytes
deriving Repr, DecidableEq

/-- `_event.data` as `set_event` builds it -/
inductive EvData where
  | null
  | text (s : Bytes)
  | map (kvs : List (Bytes × Bytes))
deriving Repr, DecidableEq

/-- `HashMap::insert` on an association list (a later insert replaces the value in place) -/
def insertKV (acc : List (Bytes × Bytes)) (k v : Bytes) : List (Bytes × Bytes) :=
  if acc.any (fun p => p.1 == k) then acc.map (fun p => if p.1 == k then (k, v) else p)
  else acc ++ [(k, v)]

/-- the `for pair in pv { data.insert(pair.name, value) }` loop of `set_event` -/
def mapOf (pv : List (Bytes × Bytes)) : List (Bytes × Bytes) :=
  pv.foldl (fun acc p => insertKV acc p.1 p.2) []

def eventData (e : Event) : EvData :=
  match e.params with
  | some pv => .map (mapOf pv)
  | none => match e.content with
    | some c => .text c
    | none => .null

/-- one session of the executor's table with its external queue (oldest first) -/
structure Sess where
  sid : Nat
  queue : List Event
deriving Repr, DecidableEq

abbrev Table := List Sess

def lookup (t : Table) (sid : Nat) : Option Sess := t.find? (fun s => s.sid == sid)

/-- `sender.send(event)` on the session with id `sid` -/
def enqueue (t : Table) (sid : Nat) (e : Event) : Table :=
  t.map (fun s => if s.sid == sid then { s with queue := s.queue ++ [e] } else s)

def scxmlEventName : Bytes := [95, 115, 99, 120, 109, 108, 101, 118, 101, 110, 116, 110, 97, 109, 101]
def scxmlContent : Bytes := [95, 99, 111, 110, 116, 101, 110, 116]

/-- the `for (name, value) in form_data` loop -/
def buildEvent (form : List (Bytes × Bytes)) : Option Bytes × Event :=
  form.foldl (fun (acc : Option Bytes × Event) nv =>
    if nv.1 == scxmlEventName then (some nv.2, acc.2)
    else if nv.1 == scxmlContent then (acc.1, { acc.2 with content := some nv.2 })
    else (acc.1, { acc.2 with params := some ((acc.2.params.getD []) ++ [nv]) }))
    (none, { name := [], params := none, content := none })

/-- the body of `rocket_receive_event` on the form fields (body order): status and new table -/
def routeBody (t : Table) (sid : Nat) (form : List (Bytes × Bytes)) : Nat × Table :=
  match lookup t sid with
  | none => (400, t)
  | some _ =>
    match buildEvent form with
    | (none, _) => (400, t)
    | (some n, ev) => (200, enqueue t sid { ev with name := n })

/-- the event the route would enqueue (for the driver and the theorems) -/
def routeEvent (form : List (Bytes × Bytes)) : Option Event :=
  match buildEvent form with
  | (none, _) => none
  | (some n, ev) => some { ev with name := n }

def digitsVal : Bytes → Option Nat
  | [] => some 0
  | c :: cs => if 48 ≤ c && c ≤ 57 then
      (digitsVal cs).map (fun r => (c.toNat - 48) * 10 ^ cs.length + r) else none

def stripPlus : Bytes → Bytes
  | 43 :: r => r
  | s => s

/-- `u32::from_str`: optional `+`, at least one decimal digit, value below 2^32 -/
def parseSid (seg : Bytes) : Option Nat :=
  let ds := stripPlus seg
  if ds.isEmpty then none
  else match digitsVal ds with
    | some n => if n < 4294967296 then some n else none
    | none => none

/-- `handlePost`: a POST whose body was decoded into `fields`, path segment already a number.
    The data guard `Form<RawFields>` hands every decoded field to the route with its verbatim
    name, in body order, and cannot fail on a url-encoded body; then the route body. -/
def handlePost (t : Table) (sid : Nat) (fields : List (Bytes × Bytes)) : Nat × Table :=
  routeBody t sid fields

/-- the whole request `POST /scxml/<seg>` with an `application/x-www-form-urlencoded` body.
    rocket percent-decodes the path segment before `u32::from_param`.  A segment that is not a
    `u32` fails the parameter guard: the request is forwarded and, no other route matching,
    answered 422 by rocket 0.5 (status carried by the forward). -/
def receive (t : Table) (seg body : Bytes) : Nat × Table :=
  match parseSid (pctDecode seg) with
  | none => (422, t)
  | some sid => handlePost t sid (formDecode body)

/-- a sequence of requests, each handled atomically (the route holds the executor lock) -/
def receiveAll (t : Table) (reqs : List (Bytes × Bytes)) : Table :=
  reqs.foldl (fun t r => (receive t r.1 r.2).2) t

/-! ## sending side: `BasicHTTPEventIOProcessor::send` -/

/-- the `Data` variants with the text `Display` gives them -/
inductive DataV where
  | int (i : Int)
  | str (s : Bytes)
  | bool (b : Bool)
  | null
  | none
  | error (s : Bytes)
  | source (s : Bytes)
  | array (items : List DataV)
  /-- `Double` / `Map`: text as produced by Rust (not modelled) -/
  | opaque (text : Bytes)

def asciiBytes (s : String) : Bytes := s.toUTF8.toList

mutual
/-- `impl Display for Data` -/
def dataText : DataV → Bytes
  | .int i => asciiBytes (toString i)
  | .str s => s
  | .bool b => if b then [116, 114, 117, 101] else [102, 97, 108, 115, 101]
  | .null => [110, 117, 108, 108]
  | .none => []
  | .error s => [69, 114, 114, 111, 114, 32] ++ s
  | .source s => s
  | .array items => [91] ++ itemsText true items ++ [93]
  | .opaque t => t
/-- `vec_to_string` without the brackets -/
def itemsText (first : Bool) : List DataV → Bytes
  | [] => []
  | d :: ds => (if first then [] else [44]) ++ dataText d ++ itemsText false ds
end

/-- the event handed to an I/O processor by `<send>` -/
structure OutEvent where
  name : Bytes
  params : Option (List (Bytes × DataV))
  content : Option DataV

/-- the pairs `send` passes to `ureq::…send_form` -/
def sendForm (e : OutEvent) : List (Bytes × Bytes) :=
  [(scxmlEventName, e.name)]
    ++ (match e.params with
        | some ps => ps.map (fun p => (p.1, dataText p.2))
        | none => [])
    ++ (match e.content with
        | some c => [(scxmlContent, dataText c)]
        | none => [])

/-- the request body `send` emits -/
def sendBody (e : OutEvent) : Bytes := formEncode (sendForm e)

def digitChar (d : Nat) : UInt8 := UInt8.ofNat (48 + d)

/-- decimal digits of `n` in front of `acc` (`u32::to_string`); `fuel > n` is always enough -/
def decimalAux : Nat → Nat → Bytes → Bytes
  | 0, _, acc => acc
  | fuel + 1, n, acc =>
    if n < 10 then digitChar n :: acc else decimalAux fuel (n / 10) (digitChar (n % 10) :: acc)

def decimal (n : Nat) : Bytes := decimalAux (n + 1) n []

/-- `format!("{}{}", "http://localhost:5555/scxml/", id)` -/
def locationOf (sid : Nat) : Bytes :=
  asciiBytes "http://localhost:5555/scxml/" ++ decimal sid

/-! ## the statement read directly (oracle for implementation output) -/

def fieldValue (fields : List (Bytes × Bytes)) (k : Bytes) : Option Bytes :=
  (fields.find? (fun p => p.1 == k)).map (·.2)

def otherFields (fields : List (Bytes × Bytes)) : List (Bytes × Bytes) :=
  fields.filter (fun p => p.1 != scxmlEventName && p.1 != scxmlContent)

/-- what C20 promises for a POST with these form fields: the event name and `_event.data` -/
def specEvent (fields : List (Bytes × Bytes)) : Option (Bytes × EvData) :=
  match fieldValue fields scxmlEventName with
  | none => none
  | some n =>
    some (n, if (otherFields fields).isEmpty then
               match fieldValue fields scxmlContent with
               | some c => .text c
               | none => .null
             else .map (otherFields fields))

def keysDistinct : List (Bytes × Bytes) → Bool
  | [] => true
  | p :: ps => !(ps.any (fun q => q.1 == p.1)) && keysDistinct ps

/-- equality of `_event.data` values, maps compared as sets of pairs -/
def dataEq : EvData → EvData → Bool
  | .null, .null => true
  | .text a, .text b => a == b
  | .map a, .map b => a.length == b.length && a.all (fun p => b.contains p) && b.all (fun p => a.contains p)
  | _, _ => false

/-- the predicate of C20 on one observed request: `known` = the path names a session of the
    table, `obs` = the events that arrived anywhere because of it (session id, name, data) -/
def oracle (known : Bool) (sid : Nat) (fields : List (Bytes × Bytes)) (status : Nat)
    (obs : List (Nat × Bytes × EvData)) : String :=
  if !keysDistinct fields then "na"
  else match known, specEvent fields with
    | true, some (n, d) =>
      if status != 200 then "fail:status"
      else match obs with
        | [] => "fail:lost"
        | [(s, n', d')] =>
          if s != sid then "fail:session" else if n' != n then "fail:name"
          else if !dataEq d d' then "fail:data" else "ok"
        | _ => "fail:many"
    | _, _ =>
      if status < 400 then "fail:status-ok"
      else if !obs.isEmpty then "fail:enqueued" else "ok"

end Rfsm.Http
