import Rfsm.Model.Descriptor
/-!
# M-INT — the SCXML interpreter of `src/fsm.rs`

A function-by-function transcription of the W3C algorithm *as coded* in `/repo/src/fsm.rs`,
over the same flat tables (`Fsm.states` indexed by id-1, `Fsm.transitions` by id, content
regions by id).  Everything the interpreter does not decide itself — guard evaluation,
executable content, `_event`, data initialisation, donedata, the platform side of `<invoke>` —
is a parameter (`Env σ`), so the theorems about configurations, selection, ordering, queues,
history and termination hold for **every** data model.

| Lean                         | Rust (`impl Fsm`)                                  |
|------------------------------|----------------------------------------------------|
| `getState`, `getTrans`       | `get_state_by_id`, `get_transition_by_id` (these panic on a bad id; the model defaults — every theorem carries `Conformant`, which makes ids valid) |
| `ancestors`                  | the `while currState != 0` walks                   |
| `isDescendant`               | `isDescendant`                                     |
| `getProperAncestors`         | `getProperAncestors` (incl. its `state2 = state1` behaviour) |
| `findLCCA`                   | `findLCCA`                                         |
| `effTargets`                 | `getEffectiveTargetStates`                         |
| `transDomain`                | `getTransitionDomain`                              |
| `computeExitSet`             | `computeExitSet`                                   |
| `addDesc` / `addAnc`         | `addDescendantStatesToEnter` / `addAncestorStatesToEnter` |
| `computeEntrySet`            | `computeEntrySet`                                  |
| `removeConflicting`          | `removeConflictingTransitions`                     |
| `selectEventless`, `selectFor` | `selectEventlessTransitions`, `selectTransitions` |
| `exitStates`, `enterStates`, `microstep` | same names                             |
| `macroLoop`, `afterMacro`, `processExternal`, `mainLoop` | `mainEventLoop`        |
| `exitInterpreter`            | `exitInterpreter` + `returnDoneEvent`              |
| `interpret`                  | `interpret`                                        |

`OrderedSet` = duplicate-free `List` in insertion order (`oadd`, `odel`, `ounion`);
`List.sort` = stable insertion sort (`sortBy`); `HashTable` = association list with overwrite.
Loops that walk parent pointers or recurse through history/initial targets take fuel
(`d.states.length + 1`); the Rust does not terminate where the fuel would run out (cyclic parent
pointers), which `Conformant` excludes.
-/
namespace Rfsm.Interp
open Rfsm.Descriptor (Str nameMatch)

/-! ## Tables -/

structure Invoke where
  docId : Nat
  autoforward : Bool
  finalize : Nat
  /-- the `id` attribute (`[]` = absent: the id is generated from `idlocation`'s counter) -/
  id : Str := []
  /-- the `namelist` attribute (locations whose values the child receives) -/
  nameList : List Str := []
  deriving Repr, DecidableEq, Inhabited

structure State where
  id : Nat := 0
  docId : Nat := 0
  name : Str := []
  parent : Nat := 0
  kids : List Nat := []
  isParallel : Bool := false
  isFinal : Bool := false
  /-- 0 = no history state, 1 = shallow, 2 = deep -/
  histType : Nat := 0
  initial : Nat := 0
  transitions : List Nat := []
  onentry : List Nat := []
  onexit : List Nat := []
  history : List Nat := []
  invokes : List Invoke := []
  deriving Repr, DecidableEq, Inhabited

structure Transition where
  id : Nat := 0
  docId : Nat := 0
  events : List Str := []
  wildcard : Bool := false
  cond : Str := []
  source : Nat := 0
  target : List Nat := []
  internal : Bool := false
  content : Nat := 0
  deriving Repr, DecidableEq, Inhabited

structure Doc where
  states : List State
  transitions : List Transition
  root : Nat
  late : Bool := false
  script : Nat := 0
  deriving Repr, Inhabited

structure Event where
  name : Str
  invokeId : Option Str := none
  /-- 0 platform, 1 internal, 2 external -/
  etype : Nat := 2
  sendid : Option Str := none
  origin : Option Str := none
  originType : Option Str := none
  /-- opaque payload (params / content), meaningful to the data model only -/
  data : Str := []
  deriving Repr, DecidableEq, Inhabited

/-- what a run makes observable (the recording `Tracer` of the harness sees the same) -/
inductive Obs
  | ext (name : Str)                 -- external event dequeued and accepted
  | int (name : Str)                 -- internal event dequeued
  | sel (ts : List Nat)              -- result of a selection (eventless or for an event)
  | exit (s : Nat)
  | enter (s : Nat)
  | content (id : Nat)               -- a content region is run through `Fsm::executeContent`
  | dm (line : Str)                  -- whatever the data model reports while running content
  | isend (name : Str)               -- done.state.* put on the internal queue
  | idle                             -- macrostep complete, blocking on the external queue
  | feed                             -- the environment delivers its next batch of external events
  | invoke (s : Nat) (invDoc : Nat)  -- platform asked to start an invocation
  | cancelInvoke (invokeId : Str)
  | forward (invokeId : Str) (name : Str)
  | dropped (name : Str)             -- external event discarded by the invoke filter
  | doneInvoke                       -- done.invoke sent to the parent session
  | finalCfg (cfg : List Nat)
  deriving Repr, DecidableEq, Inhabited

/-! ## General purpose data types of the algorithm -/

def oadd (l : List Nat) (x : Nat) : List Nat := if l.contains x then l else l ++ [x]
def odel (l : List Nat) (x : Nat) : List Nat := l.filter (· != x)
def ounion (l m : List Nat) : List Nat := m.foldl oadd l
def hasIntersection (l m : List Nat) : Bool := l.any (m.contains ·)

def insertBy (key : Nat → Nat) (x : Nat) : List Nat → List Nat
  | [] => [x]
  | y :: ys => if key y ≤ key x then y :: insertBy key x ys else x :: y :: ys

/-- stable sort, ascending by `key` -/
def sortBy (key : Nat → Nat) (l : List Nat) : List Nat := l.foldl (fun acc x => insertBy key x acc) []

def insertByDesc (key : Nat → Nat) (x : Nat) : List Nat → List Nat
  | [] => [x]
  | y :: ys => if key x ≤ key y then y :: insertByDesc key x ys else x :: y :: ys

/-- stable sort, descending by `key` (the comparator `state_document_order(s2, s1)`) -/
def sortByDesc (key : Nat → Nat) (l : List Nat) : List Nat :=
  l.foldl (fun acc x => insertByDesc key x acc) []

abbrev Table := List (Nat × List Nat)
def tget (t : Table) (k : Nat) : Option (List Nat) := (t.find? (·.1 == k)).map (·.2)
def tput (t : Table) (k : Nat) (v : List Nat) : Table := (k, v) :: t.filter (·.1 != k)

/-! ## Document accessors -/

def getState (d : Doc) (id : Nat) : State :=
  if id = 0 then default else d.states.getD (id - 1) default

def getTrans (d : Doc) (tid : Nat) : Transition :=
  (d.transitions.find? (·.id == tid)).getD default

def docIdOf (d : Doc) (s : Nat) : Nat := (getState d s).docId
def parentOf (d : Doc) (s : Nat) : Nat := (getState d s).parent
def fuelOf (d : Doc) : Nat := d.states.length + 1

def isParallelState (d : Doc) (s : Nat) : Bool := s > 0 && (getState d s).isParallel
def isFinalStateId (d : Doc) (s : Nat) : Bool := (getState d s).isFinal
def isAtomicStateId (d : Doc) (s : Nat) : Bool := (getState d s).kids.isEmpty
def isHistoryState (d : Doc) (s : Nat) : Bool := (getState d s).histType != 0
def isCompoundState (d : Doc) (s : Nat) : Bool :=
  if s != 0 then
    let st := getState d s
    !(st.isFinal || st.isParallel || st.kids.isEmpty)
  else false
def isCompoundOrRoot (d : Doc) (s : Nat) : Bool := if s == d.root then true else isCompoundState d s

/-- parent, grand-parent, … of `s` (never contains 0) -/
def ancestorsAux (d : Doc) : Nat → Nat → List Nat
  | 0, _ => []
  | f + 1, c => if c = 0 then [] else c :: ancestorsAux d f (parentOf d c)

def ancestors (d : Doc) (s : Nat) : List Nat := ancestorsAux d (fuelOf d) (parentOf d s)

def isDescendant (d : Doc) (s1 s2 : Nat) : Bool :=
  if s1 = 0 ∨ s2 = 0 ∨ s1 = s2 then false else (ancestors d s1).contains s2

def getProperAncestors (d : Doc) (s1 s2 : Nat) : List Nat :=
  if !isDescendant d s2 s1 then (ancestors d s1).takeWhile (· != s2) else []

def findLCCA (d : Doc) (l : List Nat) : Nat :=
  match l with
  | [] => 0     -- `stateList.head()` would panic; never called with an empty list
  | h :: tl =>
    match ((getProperAncestors d h 0).filter (isCompoundOrRoot d)).find?
        (fun anc => tl.all (fun s => isDescendant d s anc)) with
    | some a => a
    | none => 0

/-- the single transition of a history state (`*state.transitions.head()`) -/
def histTransition (d : Doc) (h : Nat) : Transition :=
  getTrans d ((getState d h).transitions.headD 0)

def effTargetsAux (d : Doc) (hv : Table) : Nat → List Nat → List Nat
  | 0, _ => []
  | f + 1, targets =>
    targets.foldl (fun acc s =>
      if isHistoryState d s then
        match tget hv s with
        | some v => ounion acc v
        | none => ounion acc (effTargetsAux d hv f (histTransition d s).target)
      else oadd acc s) []

def effTargets (d : Doc) (hv : Table) (t : Transition) : List Nat :=
  effTargetsAux d hv (fuelOf d) t.target

def transDomain (d : Doc) (hv : Table) (t : Transition) : Nat :=
  let ts := effTargets d hv t
  if ts.isEmpty then 0
  else if t.internal && t.source != d.root && isCompoundState d t.source
      && ts.all (fun s => isDescendant d s t.source)
  then t.source
  else findLCCA d (t.source :: ts)

def computeExitSet (d : Doc) (hv : Table) (cfg : List Nat) (ts : List Nat) : List Nat :=
  ts.foldl (fun acc tid =>
    let t := getTrans d tid
    if !t.target.isEmpty then
      let dom := transDomain d hv t
      (cfg.filter (fun s => isDescendant d s dom)).foldl oadd acc
    else acc) []

/-! ## Entry set -/

structure EntryAcc where
  toEnter : List Nat := []
  defaultEntry : List Nat := []
  /-- `defaultHistoryContent`: parent state ↦ content id of the history default transition -/
  histContent : List (Nat × Nat) := []
  deriving Repr, DecidableEq, Inhabited

def hcPut (l : List (Nat × Nat)) (k v : Nat) : List (Nat × Nat) := (k, v) :: l.filter (·.1 != k)
def hcGet (l : List (Nat × Nat)) (k : Nat) : Option Nat := (l.find? (·.1 == k)).map (·.2)

mutual
def addDesc (d : Doc) (hv : Table) : Nat → Nat → EntryAcc → EntryAcc
  | 0, _, acc => acc
  | f + 1, sid, acc =>
    let st := getState d sid
    if isHistoryState d sid then
      match tget hv sid with
      | some vs =>
        let acc := vs.foldl (fun a s => addDesc d hv f s a) acc
        vs.foldl (fun a s => addAnc d hv f s st.parent a) acc
      | none =>
        let dt := histTransition d sid
        let acc := { acc with histContent := hcPut acc.histContent st.parent dt.content }
        let acc := dt.target.foldl (fun a s => addDesc d hv f s a) acc
        dt.target.foldl (fun a s => addAnc d hv f s st.parent a) acc
    else
      let acc := { acc with toEnter := oadd acc.toEnter sid }
      if isCompoundState d sid then
        let acc := { acc with defaultEntry := oadd acc.defaultEntry sid }
        if st.initial != 0 then
          let it := getTrans d st.initial
          let acc := it.target.foldl (fun a s => addDesc d hv f s a) acc
          it.target.foldl (fun a s => addAnc d hv f s sid a) acc
        else acc
      else if isParallelState d sid then
        st.kids.foldl (fun a child =>
          if !a.toEnter.any (fun s => isDescendant d s child) then addDesc d hv f child a else a) acc
      else acc

def addAnc (d : Doc) (hv : Table) : Nat → Nat → Nat → EntryAcc → EntryAcc
  | 0, _, _, acc => acc
  | f + 1, s, ancestor, acc =>
    (getProperAncestors d s ancestor).foldl (fun a anc =>
      let a := { a with toEnter := oadd a.toEnter anc }
      if isParallelState d anc then
        (getState d anc).kids.foldl (fun a child =>
          if !a.toEnter.any (fun s => isDescendant d s child) then addDesc d hv f child a else a) a
      else a) acc
end

/-- fuel for the mutual entry-set recursion: each level of history / initial / parallel
    indirection descends in the tree or follows one history default -/
def entryFuel (d : Doc) : Nat := 2 * d.states.length + 2

def computeEntrySet (d : Doc) (hv : Table) (ts : List Nat) : EntryAcc :=
  ts.foldl (fun acc tid =>
    let t := getTrans d tid
    let acc := t.target.foldl (fun a s => addDesc d hv (entryFuel d) s a) acc
    let anc := transDomain d hv t
    (effTargets d hv t).foldl (fun a s => addAnc d hv (entryFuel d) s anc a) acc) {}

/-! ## Selection -/

def removeConflicting (d : Doc) (hv : Table) (cfg : List Nat) (enabled : List Nat) : List Nat :=
  enabled.foldl (fun filtered t1 =>
    -- scan `filtered` in order; stop at the first conflict that pre-empts t1
    let rec scan : List Nat → List Nat → Option (List Nat)
      | [], toRemove => some toRemove
      | t2 :: rest, toRemove =>
        if hasIntersection (computeExitSet d hv cfg [t1]) (computeExitSet d hv cfg [t2]) then
          if isDescendant d (getTrans d t1).source (getTrans d t2).source then
            scan rest (oadd toRemove t2)
          else none
        else scan rest toRemove
    match scan filtered [] with
    | none => filtered
    | some toRemove => oadd (toRemove.foldl odel filtered) t1) []

/-- transitions of `s` in document order -/
def transOf (d : Doc) (s : Nat) : List Nat :=
  sortBy (fun t => (getTrans d t).docId) (getState d s).transitions

def atomicStates (d : Doc) (cfg : List Nat) : List Nat :=
  sortBy (docIdOf d) (cfg.filter (isAtomicStateId d))

/-- candidate transitions of one atomic state, own transitions before its ancestors' -/
def candidates (d : Doc) (ev : Option Str) (s : Nat) : List Nat :=
  ((s :: getProperAncestors d s 0).flatMap (transOf d)).filter (fun tid =>
    let t := getTrans d tid
    match ev with
    | none => t.events.isEmpty
    | some n => !t.events.isEmpty && nameMatch t.wildcard t.events n)

/-! ## Environment (data model + platform) -/

structure ExecOut (σ : Type) where
  dm : σ
  raised : List Event := []
  obs : List Obs := []
  /-- events the content sent to the session's own external queue -/
  selfExt : List Event := []

structure InvokeOut (σ : Type) where
  dm : σ
  raised : List Event := []
  /-- `some id` = the platform started a child session registered under `id` -/
  started : Option Str := none

structure Env (σ : Type) where
  /-- `execute_condition`; `none` = evaluation error -/
  cond : σ → List Nat → Str → ExecOut σ × Option Bool
  /-- `Datamodel::executeContent(fsm, id)` -/
  exec : σ → List Nat → Nat → ExecOut σ
  /-- `set_event` -/
  setEvent : σ → Event → σ
  /-- `initializeDataModel(fsm, state, set_data)` -/
  initData : σ → Nat → Bool → ExecOut σ
  /-- donedata of a final state: evaluated payload -/
  doneData : σ → List Nat → Nat → ExecOut σ × Str
  invoke : σ → List Nat → Nat → Invoke → InvokeOut σ

structure Child where
  invokeId : Str
  state : Nat
  invDoc : Nat
  deriving Repr, DecidableEq, Inhabited

structure Sess (σ : Type) where
  cfg : List Nat := []
  toInvoke : List Nat := []
  hv : Table := []
  running : Bool := true
  iq : List Event := []
  /-- states already entered once (`!isFirstEntry`) -/
  entered : List Nat := []
  children : List Child := []
  /-- the session's external queue (arrival order) -/
  extq : List Event := []
  dm : σ
  /-- observations so far, newest last -/
  trace : List Obs := []

variable {σ : Type}

def Sess.emit (s : Sess σ) (o : List Obs) : Sess σ := { s with trace := s.trace ++ o }

/-- take over the effects of a data-model / content call -/
def Sess.absorb (s : Sess σ) (o : ExecOut σ) : Sess σ :=
  { s with dm := o.dm, iq := s.iq ++ o.raised, trace := s.trace ++ o.obs, extq := s.extq ++ o.selfExt }

def errorExecution : Event := { name := [101,114,114,111,114,46,101,120,101,99,117,116,105,111,110], etype := 0 }

/-- `conditionMatch` -/
def conditionMatch (env : Env σ) (d : Doc) (s : Sess σ) (tid : Nat) : Sess σ × Bool :=
  let c := (getTrans d tid).cond
  if c.isEmpty then (s, true) else
  match env.cond s.dm s.cfg c with
  | (o, some b) => (s.absorb o, b)
  | (o, none) => let s := s.absorb o; ({ s with iq := s.iq ++ [errorExecution] }, false)

/-- first candidate whose condition holds (conditions are evaluated in order, stopping there) -/
def firstEnabled (env : Env σ) (d : Doc) : Sess σ → List Nat → Sess σ × Option Nat
  | s, [] => (s, none)
  | s, t :: ts =>
    match conditionMatch env d s t with
    | (s', true) => (s', some t)
    | (s', false) => firstEnabled env d s' ts

def selectLoop (env : Env σ) (d : Doc) (ev : Option Str) : Sess σ → List Nat → List Nat → Sess σ × List Nat
  | s, [], acc => (s, acc)
  | s, a :: as, acc =>
    match firstEnabled env d s (candidates d ev a) with
    | (s', some t) => selectLoop env d ev s' as (oadd acc t)
    | (s', none) => selectLoop env d ev s' as acc

/-- `selectEventlessTransitions` (`ev = none`) / `selectTransitions` (`ev = some name`) -/
def select (env : Env σ) (d : Doc) (ev : Option Str) (s : Sess σ) : Sess σ × List Nat :=
  let (s', enabled) := selectLoop env d ev s (atomicStates d s.cfg) []
  let r := removeConflicting d s'.hv s'.cfg enabled
  (s'.emit [.sel r], r)

/-! ## Microstep -/

def runContent (env : Env σ) (s : Sess σ) (cid : Nat) : Sess σ :=
  -- `Fsm::executeContent`: traced, then handed to the data model unless the id is 0
  let s := s.emit [.content cid]
  if cid = 0 then s else
  s.absorb (env.exec s.dm s.cfg cid)

/-- the value recorded for history state `hid` of the exited state `sid`: the active atomic
    descendants of `sid` (deep) or its active children (shallow), in configuration order -/
def histVal (d : Doc) (cfg : List Nat) (sid hid : Nat) : List Nat :=
  if (getState d hid).histType == 2 then
    (cfg.filter (fun s0 => isAtomicStateId d s0 && isDescendant d s0 sid)).foldl oadd []
  else
    (cfg.filter (fun s0 => parentOf d s0 == sid)).foldl oadd []

def historyRecord (d : Doc) (cfg : List Nat) (exitSorted : List Nat) : Table :=
  -- `ahistory`, later `put_all` into historyValue
  exitSorted.foldl (fun tbl sid =>
    (getState d sid).history.foldl (fun tbl hid => tput tbl hid (histVal d cfg sid hid)) tbl) []

/-- `cancelInvoke`: forget the child session and tell the platform to cancel it -/
def cancelOne (s : Sess σ) (c : Child) : Sess σ :=
  { s with children := s.children.filter (· != c), trace := s.trace ++ [.cancelInvoke c.invokeId] }

def cancelChildren (d : Doc) (s : Sess σ) (sid : Nat) : Sess σ :=
  let docs := (getState d sid).invokes.map (·.docId)
  (s.children.filter (fun c => docs.contains c.invDoc)).foldl cancelOne s

/-- what happens for one state of the sorted exit list: trace, cancel its invocations, run its
    onexit blocks, remove it from the configuration -/
def exitOne (env : Env σ) (d : Doc) (s : Sess σ) (sid : Nat) : Sess σ :=
  let s := s.emit [.exit sid]
  let s := cancelChildren d s sid
  let s := (getState d sid).onexit.foldl (runContent env) s
  { s with cfg := odel s.cfg sid }

/-- first part of `exitStates`: the exit set leaves `statesToInvoke`, history values are recorded -/
def exitPrepare (d : Doc) (s : Sess σ) (ts : List Nat) : Sess σ :=
  let toExit := computeExitSet d s.hv s.cfg ts
  let rec_ := historyRecord d s.cfg (sortByDesc (docIdOf d) toExit)
  { s with toInvoke := toExit.foldl odel s.toInvoke,
           hv := rec_.foldr (fun kv tbl => tput tbl kv.1 kv.2) s.hv }

def exitStates (env : Env σ) (d : Doc) (s : Sess σ) (ts : List Nat) : Sess σ :=
  (sortByDesc (docIdOf d) (computeExitSet d s.hv s.cfg ts)).foldl (exitOne env d) (exitPrepare d s ts)

def executeTransitionContent (env : Env σ) (d : Doc) (s : Sess σ) (ts : List Nat) : Sess σ :=
  ts.foldl (fun s tid =>
    let c := (getTrans d tid).content
    if c > 0 then runContent env s c else s) s

def isInFinalStateAux (d : Doc) (cfg : List Nat) : Nat → Nat → Bool
  | 0, _ => false
  | f + 1, s =>
    if isCompoundState d s then
      (getState d s).kids.any (fun c => isFinalStateId d c && cfg.contains c)
    else if isParallelState d s then
      (getState d s).kids.all (fun c => isInFinalStateAux d cfg f c)
    else false

def isInFinalState (d : Doc) (cfg : List Nat) (s : Nat) : Bool := isInFinalStateAux d cfg (fuelOf d) s

def doneStatePrefix : Str := [100,111,110,101,46,115,116,97,116,101,46]

/-- the state joins the configuration and the set of states to invoke -/
def enterAdd (s : Sess σ) (sid : Nat) : Sess σ :=
  let s := s.emit [.enter sid]
  { s with cfg := oadd s.cfg sid, toInvoke := oadd s.toInvoke sid }

/-- late binding: the state's data are initialised at its first entry -/
def enterInit (env : Env σ) (d : Doc) (s : Sess σ) (sid : Nat) : Sess σ :=
  if d.late && !s.entered.contains sid then
    { s with entered := sid :: s.entered }.absorb (env.initData s.dm sid true)
  else s

/-- content blocks run on entry, in this order: onentry blocks, the initial transition's content
    when the state's default initial state is being entered, the default content of a history
    child that was the target and had no recorded value -/
def entryContent (d : Doc) (acc : EntryAcc) (sid : Nat) : List Nat :=
  let st := getState d sid
  (st.onentry
    ++ (if acc.defaultEntry.contains sid && st.initial > 0 then [(getTrans d st.initial).content] else [])
    ++ (match hcGet acc.histContent sid with | some c => [c] | none => [])).filter (· > 0)

/-- final-state handling after the entry content -/
def enterFinal (env : Env σ) (d : Doc) (s : Sess σ) (sid : Nat) : Sess σ :=
  if isFinalStateId d sid then
    let parent := (getState d sid).parent
    if parent == d.root then { s with running := false }
    else
      let (o, payload) := env.doneData s.dm s.cfg sid
      let s := s.absorb o
      let e1 : Event := { name := doneStatePrefix ++ (getState d parent).name, data := payload }
      let s := { s with iq := s.iq ++ [e1], trace := s.trace ++ [.isend e1.name] }
      let gp := (getState d parent).parent
      if isParallelState d gp && (getState d gp).kids.all (isInFinalState d s.cfg) then
        let e2 : Event := { name := doneStatePrefix ++ (getState d gp).name }
        { s with iq := s.iq ++ [e2], trace := s.trace ++ [.isend e2.name] }
      else s
  else s

/-- what happens for one state of the sorted entry list -/
def enterOne (env : Env σ) (d : Doc) (acc : EntryAcc) (s : Sess σ) (sid : Nat) : Sess σ :=
  enterFinal env d ((entryContent d acc sid).foldl (runContent env) (enterInit env d (enterAdd s sid) sid)) sid

def enterStates (env : Env σ) (d : Doc) (s : Sess σ) (ts : List Nat) : Sess σ :=
  let acc := computeEntrySet d s.hv ts
  (sortBy (docIdOf d) acc.toEnter).foldl (enterOne env d acc) s

def microstep (env : Env σ) (d : Doc) (s : Sess σ) (ts : List Nat) : Sess σ :=
  enterStates env d (executeTransitionContent env d (exitStates env d s ts) ts) ts

/-! ## Event loop -/

/-- the inner `while running && !macrostepDone` loop; `none` = fuel exhausted (the document
    diverges — the real interpreter would not return either) -/
def macroLoop (env : Env σ) (d : Doc) : Nat → Sess σ → Option (Sess σ)
  | 0, _ => none
  | f + 1, s =>
    if !s.running then some s else
    let (s, enabled) := select env d none s
    if enabled.isEmpty then
      match s.iq with
      | [] => some s
      | e :: rest =>
        let s := { s with iq := rest, dm := env.setEvent s.dm e, trace := s.trace ++ [.int e.name] }
        let (s, enabled) := select env d (some e.name) s
        if enabled.isEmpty then macroLoop env d f s
        else macroLoop env d f (microstep env d s enabled)
    else macroLoop env d f (microstep env d s enabled)

/-- `Fsm::invoke` for one `<invoke>` element: the platform is asked to start it; on success the
    child session is registered under its invoke id -/
def invokeOne (env : Env σ) (sid : Nat) (s : Sess σ) (inv : Invoke) : Sess σ :=
  let o := env.invoke s.dm s.cfg sid inv
  let s := { s with dm := o.dm, iq := s.iq ++ o.raised, trace := s.trace ++ [.invoke sid inv.docId] }
  match o.started with
  | some iid => { s with children := s.children.filter (·.invokeId != iid) ++ [{ invokeId := iid, state := sid, invDoc := inv.docId }] }
  | none => s

/-- the invokes of one state, in document order -/
def invokeState (env : Env σ) (d : Doc) (s : Sess σ) (sid : Nat) : Sess σ :=
  let invs := (getState d sid).invokes
  (sortBy (fun i => i) (invs.map (·.docId))).foldl (fun s idoc =>
    match invs.find? (·.docId == idoc) with
    | none => s
    | some inv => invokeOne env sid s inv) s

/-- invoke everything in `statesToInvoke` (entry order, invokes in document order) -/
def runInvokes (env : Env σ) (d : Doc) (s : Sess σ) : Sess σ :=
  { (sortBy (docIdOf d) s.toInvoke).foldl (invokeState env d) s with toInvoke := [] }

def cancelName : Str := [101,114,114,111,114,46,112,108,97,116,102,111,114,109,46,99,97,110,99,101,108]
def doneInvokePrefix : Str := [100,111,110,101,46,105,110,118,111,107,101,46]

/-- the dequeue filter: is this external event handed to the interpreter? -/
def acceptExternal (callerInvokeId : Str) (s : Sess σ) (e : Event) : Bool :=
  if doneInvokePrefix.isPrefixOf e.name then true else
  match e.invokeId with
  | some iid => if callerInvokeId != iid then s.children.any (·.invokeId == iid) else true
  | none => true

/-- a child that reports `done.invoke` is forgotten -/
def forgetDoneChild (s : Sess σ) (e : Event) : Sess σ :=
  if doneInvokePrefix.isPrefixOf e.name then
    match e.invokeId with
    | some iid => { s with children := s.children.filter (·.invokeId != iid) }
    | none => s
  else s

/-- the registered child session the event comes from, if any -/
def childOf (s : Sess σ) (e : Event) : Option Child :=
  e.invokeId.bind (fun iid => s.children.find? (·.invokeId == iid))

/-- `<finalize>` blocks to run for the event: those of the `<invoke>` that started its sender -/
def finalizeList (d : Doc) (s : Sess σ) (e : Event) : List Nat :=
  match childOf s e with
  | some c => (((getState d c.state).invokes.filter (·.docId == c.invDoc)).map (·.finalize))
  | none => []

/-- does the invocation `c` (its `<invoke>` element: state `c.state`, document id `c.invDoc`) have
    `autoforward`? -/
def childAutoforward (d : Doc) (c : Child) : Bool :=
  ((getState d c.state).invokes.filter (·.docId == c.invDoc)).any (·.autoforward)

/-- invoke ids the event is forwarded to: every registered invocation with `autoforward` (the
    code walks its `HashMap` of child sessions and sorts the ids) -/
def forwardList (d : Doc) (s : Sess σ) (_e : Event) : List Str :=
  (s.children.filter (childAutoforward d)).map (·.invokeId)

def forwardOne (e : Event) (s : Sess σ) (iid : Str) : Sess σ :=
  if s.children.any (·.invokeId == iid) then s.emit [.forward iid e.name] else s

/-- preliminary processing of an accepted external event: trace, forget a child that reports
    `done.invoke`, `_event`, `<finalize>` of the invocation the event comes from, autoforward -/
def preExternal (env : Env σ) (d : Doc) (s : Sess σ) (e : Event) : Sess σ :=
  let s := forgetDoneChild (s.emit [.ext e.name]) e
  let fin := finalizeList d s e
  let fwd := forwardList d s e
  let s := { s with dm := env.setEvent s.dm e }
  let s := fin.foldl (runContent env) s
  fwd.foldl (forwardOne e) s

/-- one accepted external event that is not the cancel event -/
def processExternal (env : Env σ) (d : Doc) (s : Sess σ) (e : Event) : Sess σ :=
  let s := preExternal env d s e
  let r := select env d (some e.name) s
  if r.2.isEmpty then r.1 else microstep env d r.1 r.2

/-- dequeue from the session's external queue, discarding filtered events -/
def takeExternal (callerInvokeId : Str) : Sess σ → List Event → Sess σ × Option Event
  | s, [] => ({ s with extq := [] }, none)
  | s, e :: rest =>
    if acceptExternal callerInvokeId s e then ({ s with extq := rest }, some e)
    else takeExternal callerInvokeId (s.emit [.dropped e.name]) rest

/-- Blocking on the external queue.  The environment is a list of batches (`feed`): whenever
    the interpreter blocks on an empty queue the next batch arrives (one batch = a burst that is
    queued while the session is idle; singleton batches = one event at a time).  Events the session
    sent to itself are in the same queue, in the order they were sent.  `none` = nothing will ever
    arrive. -/
def awaitExternal (callerInvokeId : Str) : Sess σ → List (List Event) → Sess σ × Option Event × List (List Event)
  | s, feed =>
    match takeExternal callerInvokeId s s.extq, feed with
    | (s, some e), feed => (s, some e, feed)
    | (s, none), [] => (s, none, [])
    | (s, none), b :: rest => awaitExternal callerInvokeId ({ s with extq := b }.emit [.feed]) rest

/-- what the loop does with a dequeued event: the platform cancel event stops the session,
    anything else is processed -/
def handleExternal (env : Env σ) (d : Doc) (s : Sess σ) (e : Event) : Sess σ :=
  if e.name == cancelName then { s with running := false }.emit [.ext e.name]
  else processExternal env d s e

/-- `mainEventLoop`.
    Returns the session when the loop ends (`running = false`), or when it blocks with nothing
    left to arrive (`blocked = true`), or `none` on divergence (fuel exhausted). -/
def mainLoop (env : Env σ) (d : Doc) (callerInvokeId : Str) (macroFuel : Nat) :
    Nat → Sess σ → List (List Event) → Option (Sess σ × Bool)
  | 0, _, _ => none
  | f + 1, s, feed =>
    if !s.running then some (s, false) else
    match macroLoop env d macroFuel s with
    | none => none
    | some s =>
      if !s.running then some (s, false) else
      let s := runInvokes env d s
      if !s.iq.isEmpty then mainLoop env d callerInvokeId macroFuel f s feed else
      match awaitExternal callerInvokeId (s.emit [.idle]) feed with
      | (s, none, _) => some (s, true)
      | (s, some e, feed') => mainLoop env d callerInvokeId macroFuel f (handleExternal env d s e) feed'

/-- `exitInterpreter` (+ `returnDoneEvent` when a top-level final state is left) -/
def exitInterpreter (env : Env σ) (d : Doc) (hasParent : Bool) (s : Sess σ) : Sess σ :=
  let s := s.emit [.finalCfg s.cfg]
  let sorted := sortByDesc (docIdOf d) s.cfg
  let s := s.children.foldl (fun s c => s.emit [.cancelInvoke c.invokeId]) s
  sorted.foldl (fun s sid =>
    let s := (getState d sid).onexit.foldl (runContent env) s
    let s := { s with cfg := odel s.cfg sid }
    if isFinalStateId d sid && (getState d sid).parent == d.root && hasParent then s.emit [.doneInvoke] else s) s

def allStatesPreorder (d : Doc) : Nat → Nat → List Nat
  | 0, _ => []
  | f + 1, s => s :: (getState d s).kids.flatMap (allStatesPreorder d f)

/-- data initialisation (all states, pre-order) and the global script -/
def initSession (env : Env σ) (d : Doc) (dm0 : σ) : Sess σ :=
  let s : Sess σ := { dm := dm0 }
  let s := (allStatesPreorder d (fuelOf d) d.root).foldl (fun s sid =>
    s.absorb (env.initData s.dm sid (!d.late))) s
  if d.script != 0 then s.absorb (env.exec s.dm s.cfg d.script) else s

/-- the session after start-up: `enterStates([doc.initial.transition])` -/
def startSession (env : Env σ) (d : Doc) (dm0 : σ) : Sess σ :=
  let it := (getState d d.root).initial
  enterStates env d (initSession env d dm0) (if it != 0 then [it] else [])

/-- `interpret` after `valid()`: data initialisation, global script, initial configuration,
    main loop, exit. -/
def interpret (env : Env σ) (d : Doc) (callerInvokeId : Option Str) (hasParent : Bool) (dm0 : σ)
    (feed : List (List Event)) (macroFuel loopFuel : Nat) : Option (Sess σ × Bool) :=
  match mainLoop env d (callerInvokeId.getD []) macroFuel loopFuel (startSession env d dm0) feed with
  | none => none
  | some (s, true) => some (s, true)
  | some (s, false) => some (exitInterpreter env d hasParent s, false)

end Rfsm.Interp
