import Rfsm.Model.Reader
/-!
The abstract SCXML document tree (`Doc`), its canonical SAX rendering (`sax`), the reconstruction
of a tree from the reader's tables (`decompile`) and the normal form in which both are compared
(`normalise`):

  * `initial` attribute, `<initial>` element and the default (first child) are one form;
  * event descriptors are stored normalised (`Rfsm.Descriptor.norm`);
  * `<elseif>` chains are nested `if`s in the else branch;
  * `<data expr>` / `<data>text</data>`, `<assign expr>` / `<assign>text</assign>` are one value;
  * header attributes carry their defaults; states without `id` carry the generated name.

`C04_full` (Props/C04.lean) is `decompile (read (sax t)) = some (normalise t)`.
-/
namespace Rfsm.Reader
open Rfsm.Descriptor (Str norm star)

structure ParamT where
  name : Str
  expr : Str := []
  location : Str := []
  deriving DecidableEq, Repr

/-- `<content expr=…/>` or `<content>text</content>` -/
structure ContentT where
  expr : Option Str := none
  text : Option Str := none
  deriving DecidableEq, Repr

structure SendT where
  event : Option Str := none
  eventexpr : Option Str := none
  target : Option Str := none
  targetexpr : Option Str := none
  type : Option Str := none
  typeexpr : Option Str := none
  id : Str := []
  idlocation : Str := []
  delayMs : Nat := 0
  delayexpr : Option Str := none
  namelist : List Str := []
  params : List ParamT := []
  content : Option ContentT := none
  deriving DecidableEq, Repr

mutual
/-- executable content -/
inductive Content where
  | raise (event : Str)
  | assign (location : Str) (expr : Option Str) (text : Option Str)
  | log (label : Str) (expr : Option Str)
  | script (text : Str)
  | send (s : SendT)
  | cancel (sendid sendidexpr : Option Str)
  | ite (cond : Str) (body : List Content) (tail : Tail)
  | foreach (array item index : Str) (body : List Content)
/-- what follows the first branch of an `<if>` -/
inductive Tail where
  | none
  | els (body : List Content)
  | elif (cond : Str) (body : List Content) (tail : Tail)
end

abbrev Block := List Content

structure TransT where
  events : List Str := []
  cond : Option Str := none
  targets : List Str := []
  internal : Bool := false
  content : Block := []

inductive InitT where
  | none
  | attr (targets : List Str)
  | elem (targets : List Str) (content : Block)

structure DataT where
  id : Str
  expr : Option Str := none
  text : Option Str := none
  deriving DecidableEq, Repr

structure InvokeT where
  type : Option Str := none
  typeexpr : Option Str := none
  src : Option Str := none
  srcexpr : Option Str := none
  id : Str := []
  idlocation : Str := []
  namelist : List Str := []
  autoforward : Bool := false
  params : List ParamT := []
  content : Option ContentT := none
  finalize : Option Block := none

structure DoneDataT where
  content : Option ContentT := none
  params : List ParamT := []
  deriving DecidableEq, Repr

structure HistT where
  id : Option Str
  deep : Bool := false
  trans : List TransT := []

inductive Kind where
  | state | parallel | final
  deriving DecidableEq, Repr

/-- `<state>`, `<parallel>`, `<final>` and (kind `state`) the `<scxml>` element itself -/
inductive StateT where
  | mk (kind : Kind) (id : Option Str) (initial : InitT) (datas : List DataT)
       (onentry onexit : List Block) (trans : List TransT) (invokes : List InvokeT)
       (hist : List HistT) (kids : List StateT) (donedata : Option DoneDataT)

structure Doc where
  name : Option Str := none
  datamodel : Option Str := none
  /-- `binding`: `none`, `some false` = early, `some true` = late -/
  binding : Option Bool := none
  version : Option Str := none
  script : Option Str := none
  root : StateT

/-! ## canonical SAX rendering -/

def optA (k : Str) : Option Str → Attrs
  | some v => [(k, v)]
  | none => []

def strA (k v : Str) : Attrs := if v.isEmpty then [] else [(k, v)]

def unwords : List Str → Str
  | [] => []
  | [x] => x
  | x :: xs => x ++ [32] ++ unwords xs

def listA (k : Str) (l : List Str) : Attrs := if l.isEmpty then [] else [(k, unwords l)]

/-- an element with raw child text -/
def rawSax (tag : Str) (a : Attrs) : Option Str → List Sax
  | none => [.empty tag a]
  | some t => [.start tag a] ++ (if t.isEmpty then [] else [.text t]) ++ [.stop tag]

def saxParam (p : ParamT) : Sax :=
  .empty t_param ([(a_name, p.name)] ++ strA a_expr p.expr ++ strA a_location p.location)

def saxContentT (c : ContentT) : List Sax := rawSax t_content (optA a_expr c.expr) c.text

def w_ms : Str := [109, 115]

def sendAttrs (s : SendT) : Attrs :=
  optA a_event s.event ++ optA a_eventexpr s.eventexpr ++ optA a_target s.target ++
  optA a_targetexpr s.targetexpr ++ optA a_type s.type ++ optA a_typeexpr s.typeexpr ++
  strA a_id s.id ++ strA a_idlocation s.idlocation ++
  (if s.delayMs = 0 then [] else [(a_delay, dec s.delayMs ++ w_ms)]) ++
  optA a_delayexpr s.delayexpr ++ listA a_namelist s.namelist

def saxSend (s : SendT) : List Sax :=
  if s.params.isEmpty ∧ s.content.isNone then [.empty t_send (sendAttrs s)]
  else [.start t_send (sendAttrs s)] ++ s.params.map saxParam ++
       (match s.content with
        | some c => saxContentT c
        | none => []) ++ [.stop t_send]

mutual
def saxC : Content → List Sax
  | .raise e => [.empty t_raise [(a_event, e)]]
  | .assign l e t => rawSax t_assign ([(a_location, l)] ++ optA a_expr e) t
  | .log l e => [.empty t_log (strA a_label l ++ optA a_expr e)]
  | .script t => rawSax t_script [] (if t.isEmpty then none else some t)
  | .send s => saxSend s
  | .cancel i e => [.empty t_cancel (optA a_sendid i ++ optA a_sendidexpr e)]
  | .ite c b t => [.start t_if [(a_cond, c)]] ++ saxB b ++ saxT t
  | .foreach a i x b =>
    [.start t_foreach ([(a_array, a), (a_item, i)] ++ strA a_index x)] ++ saxB b ++ [.stop t_foreach]
def saxB : List Content → List Sax
  | [] => []
  | c :: cs => saxC c ++ saxB cs
def saxT : Tail → List Sax
  | .none => [.stop t_if]
  | .els b => [.empty t_else []] ++ saxB b ++ [.stop t_if]
  | .elif c b t => [.empty t_elseif [(a_cond, c)]] ++ saxB b ++ saxT t
end

def wrapSax (tag : Str) (a : Attrs) (inner : List Sax) : List Sax :=
  if inner.isEmpty then [.empty tag a] else [.start tag a] ++ inner ++ [.stop tag]

def saxTrans (t : TransT) : List Sax :=
  wrapSax t_transition
    (listA a_event t.events ++ optA a_cond t.cond ++ listA a_target t.targets ++
     (if t.internal then [(a_type, w_internal)] else [])) (saxB t.content)

def saxData (d : DataT) : List Sax := rawSax t_data ([(a_id, d.id)] ++ optA a_expr d.expr) d.text

def saxInvoke (i : InvokeT) : List Sax :=
  wrapSax t_invoke
    (optA a_type i.type ++ optA a_typeexpr i.typeexpr ++ optA a_src i.src ++ optA a_srcexpr i.srcexpr ++
     strA a_id i.id ++ strA a_idlocation i.idlocation ++ listA a_namelist i.namelist ++
     (if i.autoforward then [(a_autoforward, w_true)] else []))
    (i.params.map saxParam ++
     (match i.content with
      | some c => saxContentT c
      | none => []) ++
     (match i.finalize with
      | some b => wrapSax t_finalize [] (saxB b)
      | none => []))

def saxHist (h : HistT) : List Sax :=
  wrapSax t_history (optA a_id h.id ++ [(a_type, if h.deep then w_deep else w_shallow)])
    (h.trans.flatMap saxTrans)

def saxDoneData (d : DoneDataT) : List Sax :=
  wrapSax t_donedata []
    ((match d.content with
      | some c => saxContentT c
      | none => []) ++ d.params.map saxParam)

def initAttr : InitT → Attrs
  | .attr tg => [(a_initial, unwords tg)]
  | _ => []

def initSax : InitT → List Sax
  | .elem tg c => [.start t_initial []] ++ saxTrans { targets := tg, content := c } ++ [.stop t_initial]
  | _ => []

def Kind.tag : Kind → Str
  | .state => t_state
  | .parallel => t_parallel
  | .final => t_final

/-- children of a state-like element in the canonical order -/
def bodySax (datas : List DataT) (onentry onexit : List Block) (init : InitT) (trans : List TransT)
    (invokes : List InvokeT) (hist : List HistT) (kids : List Sax) (dd : Option DoneDataT) : List Sax :=
  (if datas.isEmpty then [] else [.start t_datamodel []] ++ datas.flatMap saxData ++ [.stop t_datamodel]) ++
  onentry.flatMap (fun b => wrapSax t_onentry [] (saxB b)) ++
  onexit.flatMap (fun b => wrapSax t_onexit [] (saxB b)) ++
  initSax init ++ trans.flatMap saxTrans ++ invokes.flatMap saxInvoke ++ hist.flatMap saxHist ++ kids ++
  (match dd with
   | some d => saxDoneData d
   | none => [])

mutual
def saxS : StateT → List Sax
  | .mk k id init datas onentry onexit trans invokes hist kids dd =>
    wrapSax k.tag (optA a_id id ++ initAttr init)
      (bodySax datas onentry onexit init trans invokes hist (saxKids kids) dd)
def saxKids : List StateT → List Sax
  | [] => []
  | s :: r => saxS s ++ saxKids r
end

/-- the SAX events of the canonical rendering of a document -/
def sax (d : Doc) : List Sax :=
  match d.root with
  | .mk _ _ init datas _ _ _ _ _ kids _ =>
    [.start t_scxml (optA a_name d.name ++ optA a_datamodel d.datamodel ++
       (match d.binding with
        | some true => [(a_binding, w_late)]
        | some false => [(a_binding, w_early)]
        | none => []) ++ optA a_version d.version ++ initAttr init)] ++
    (if datas.isEmpty then [] else [.start t_datamodel []] ++ datas.flatMap saxData ++ [.stop t_datamodel]) ++
    (match d.script with
     | some s => rawSax t_script [] (some s)
     | none => []) ++
    initSax init ++ saxKids kids ++ [.stop t_scxml]

/-! ## normal form -/

/-- child text that is empty after trimming counts as no child text (`<a></a>` = `<a/>`) -/
def normText (t : Option Str) : Option Str :=
  match t with
  | some t => if (trim t).isEmpty then none else some (trim t)
  | none => none

def normContentT (c : ContentT) : ContentT := { c with text := normText c.text }

def normSend (s : SendT) : SendT :=
  { s with
    idlocation := if s.id.isEmpty then s.idlocation else []
    content := match s.content with
      | some c => if c.expr.isNone ∧ (normText c.text).isNone then none else some (normContentT c)
      | none => none }

/-- value of `<assign>`: the `expr` attribute or the quoted child text -/
def assignValue (e t : Option Str) : Option Str :=
  match normText t with
  | some t => some ([34] ++ assignEscape t ++ [34])
  | none => e

mutual
def normC : Content → Content
  | .assign l e t => .assign l (assignValue e t) none
  | .script t => .script (trim t)
  | .send s => .send (normSend s)
  | .ite c b t => .ite c (normB b) (normT t)
  | .foreach a i x b => .foreach a i x (normB b)
  | c => c
def normB : List Content → List Content
  | [] => []
  | c :: cs => normC c :: normB cs
def normT : Tail → Tail
  | .none => .none
  | .els b => .els (normB b)
  | .elif c b t => .els [.ite c (normB b) (normT t)]
end

def normTrans (t : TransT) : TransT :=
  { t with events := t.events.map norm, content := normB t.content }

def normData (d : DataT) : DataT :=
  { id := d.id, text := none
    expr := some (match d.expr, d.text with
      | some e, _ => e
      | none, some t => trim t
      | none, none => []) }

def normInvoke (i : InvokeT) : InvokeT :=
  { i with content := i.content.map normContentT, finalize := i.finalize.map normB }

def normDoneData (d : DoneDataT) : DoneDataT := { d with content := d.content.map normContentT }

def genName (n : Nat) : Str := w__id ++ dec n

/-- names of anonymous histories, in order; returns the next counter -/
def normHists : List HistT → Nat → List HistT × Nat
  | [], n => ([], n)
  | h :: r, n =>
    let (id, n) := match h.id with
      | some i => (i, n)
      | none => (genName (n + 1), n + 1)
    let (r, n) := normHists r n
    ({ h with id := some id, trans := h.trans.map normTrans } :: r, n)

def StateT.id? : StateT → Option Str
  | .mk _ id .. => id

mutual
/-- `n` = number of names generated so far (`ReaderState.id_count`) -/
def normS : StateT → Nat → StateT × Nat
  | .mk k id init datas onentry onexit trans invokes hist kids dd, n =>
    let (id, n) := match id with
      | some i => (i, n)
      | none => (genName (n + 1), n + 1)
    let (hist, n) := normHists hist n
    let (kids, n) := normKids kids n
    let init := match init with
      | .attr tg => InitT.elem tg []
      | .elem tg c => .elem tg (normB c)
      | .none =>
        if k = .parallel ∨ k = .final then .none
        else match kids with
          | [] => .none
          | first :: _ => .elem [first.id?.getD []] []
    (.mk k (some id) init (datas.map normData) (onentry.map normB) (onexit.map normB)
        (trans.map normTrans) (invokes.map normInvoke) hist kids (dd.map normDoneData), n)
def normKids : List StateT → Nat → List StateT × Nat
  | [], n => ([], n)
  | s :: r, n =>
    let (s, n) := normS s n
    let (r, n) := normKids r n
    (s :: r, n)
end

def normalise (d : Doc) : Doc :=
  { name := some (d.name.getD [70, 83, 77])
    datamodel := some (d.datamodel.getD [78, 85, 76, 76])
    binding := some (d.binding.getD false)
    version := some (d.version.getD [49, 46, 48])
    script := d.script.map fun s => trim s
    root := (normS d.root 0).1 }

/-! ## from the tables back to a tree -/

def dData : Data → Option Str
  | .source s _ => some s
  | _ => none

def dParam (p : Param) : ParamT := { name := p.name, expr := p.expr, location := p.location }
def dParams (ps : Option (List Param)) : List ParamT := (ps.getD []).map dParam
def dContentT (c : CContent) : ContentT := { expr := c.expr, text := c.content }

def dSend (p : SendP) : SendT :=
  { event := dData p.event, eventexpr := dData p.eventExpr, target := dData p.target
    targetexpr := dData p.targetExpr, type := dData p.typeValue, typeexpr := dData p.typeExpr
    id := p.name, idlocation := p.nameLocation, delayMs := p.delayMs, delayexpr := dData p.delayExpr
    namelist := p.nameList, params := dParams p.params, content := p.content.map dContentT }

/-- `mapM` for `Option` -/
def mapO {α β} (f : α → Option β) : List α → Option (List β)
  | [] => some []
  | x :: xs =>
    match f x, mapO f xs with
    | some y, some ys => some (y :: ys)
    | _, _ => none

/-- content entries without sub-regions -/
def dLeaf : Exec → Option Content
  | .expression d => (dData d).map Content.script
  | .log l d => (dData d).map fun e => Content.log l (some e)
  | .send p => some (Content.send (dSend p))
  | .raise ev => some (Content.raise ev)
  | .cancel i d => some (Content.cancel (if d = .none then some i else none) (dData d))
  | .assign l e =>
    match dData l with
    | some l => some (Content.assign l (dData e) none)
    | none => none
  | _ => none

/-- one entry; `sub` decompiles a sub-region -/
def dEntry (sub : Nat → Option Block) : Exec → Option Content
  | .ifE c ct el =>
    match dData c, sub ct with
    | some c, some b =>
      if el = 0 then some (Content.ite c b .none)
      else match sub el with
        | some eb => some (Content.ite c b (.els eb))
        | none => none
    | _, _ => none
  | .foreach a i x ct =>
    match dData a, sub ct with
    | some a, some b => some (Content.foreach a i x b)
    | _, _ => none
  | e => dLeaf e

/-- a content region as a block; `fuel` bounds the nesting depth (regions could be cyclic in an
arbitrary table) -/
def dBlock : Nat → Regions → Nat → Option Block
  | 0, _, _ => none
  | fuel + 1, g, rid =>
    match rget g rid with
    | none => none
    | some es => mapO (dEntry (dBlock fuel g)) es

def maxKey : Regions → Nat
  | [] => 0
  | (k, _) :: r => max k (maxKey r)

/-- enough for every acyclic table: the nesting depth is at most the number of regions, the keys are
distinct, so their number is at most the largest key + 1 -/
def regionFuel (f : Fsm) : Nat := maxKey f.regions + 2

def dOptBlock (f : Fsm) (rid : Nat) : Option Block :=
  if rid = 0 then some [] else dBlock (regionFuel f) f.regions rid

def nameOf (f : Fsm) (id : Nat) : Option Str := (getState f id).map (·.name)

def dTrans (f : Fsm) (src : Nat) (tid : Nat) : Option TransT :=
  match tget f.transitions tid with
  | none => none
  | some t =>
    if t.source ≠ src ∨ t.wildcard ≠ t.events.contains [star] then none else
    match t.target.mapM (nameOf f), dOptBlock f t.content with
    | some tg, some b =>
      some { events := t.events, cond := dData t.cond, targets := tg, internal := t.ttype = .internal, content := b }
    | _, _ => none

def dInit (f : Fsm) (s : State) : Option InitT :=
  if s.initial = 0 then some .none else
  match dTrans f s.id s.initial with
  | some t => some (.elem t.targets t.content)
  | none => none

def dInvoke (f : Fsm) (i : Invoke) : Option InvokeT :=
  match (if i.finalize = 0 then some none else (dBlock (regionFuel f) f.regions i.finalize).map some) with
  | none => none
  | some fin =>
    some { type := dData i.typeName, typeexpr := dData i.typeExpr, src := dData i.src, srcexpr := dData i.srcExpr
           id := i.invokeId, idlocation := i.externalIdLocation, namelist := i.nameList
           autoforward := i.autoforward, params := dParams i.params, content := i.content.map dContentT
           finalize := fin }

def dDataDecl (kv : Str × Data) : Option DataT :=
  (dData kv.2).map fun v => { id := kv.1, expr := some v }

def dHist (f : Fsm) (parent : Nat) (id : Nat) : Option HistT :=
  match getState f id with
  | none => none
  | some h =>
    if h.parent ≠ parent ∨ h.historyType = .none ∨ h.id ≠ id then none else
    (h.transitions.mapM (dTrans f id)).map fun ts =>
      { id := some h.name, deep := h.historyType = .deep, trans := ts }

/-- the subtree of state `id`; `fuel` bounds the depth -/
def dState : Nat → Fsm → Nat → Nat → Option StateT
  | 0, _, _, _ => none
  | fuel + 1, f, parent, id =>
    match getState f id with
    | none => none
    | some s =>
      if s.id ≠ id ∨ s.parent ≠ parent ∨ s.historyType ≠ .none ∨ (s.isParallel ∧ s.isFinal) then none else
      match dInit f s, s.data.mapM dDataDecl, s.onentry.mapM (dBlock (regionFuel f) f.regions),
            s.onexit.mapM (dBlock (regionFuel f) f.regions), s.transitions.mapM (dTrans f id),
            s.invoke.mapM (dInvoke f), s.history.mapM (dHist f id), s.states.mapM (dState fuel f id) with
      | some init, some datas, some onentry, some onexit, some trans, some invokes, some hist, some kids =>
        some (.mk (if s.isParallel then .parallel else if s.isFinal then .final else .state) (some s.name)
          init datas onentry onexit trans invokes hist kids
          (s.donedata.map fun d => { content := d.content.map dContentT, params := dParams d.params }))
      | _, _, _, _, _, _, _, _ => none

def dScript (f : Fsm) : Option (Option Str) :=
  if f.script = 0 then some none else
  match rget f.regions f.script with
  | some [.expression (.source s _)] => some (some s)
  | _ => none

/-- rebuild the document from the tables -/
def decompile (f : Fsm) : Option Doc :=
  match dScript f, dState (f.states.length + 1) f 0 f.pseudoRoot with
  | some sc, some root =>
    some { name := some f.name, datamodel := some f.datamodel, binding := some f.bindingLate
           version := some f.version, script := sc, root := root }
  | _, _ => none

/-! ## document order -/

/-- state ids in pre-order (histories and children of a state merged by doc id) -/
def preorder : Nat → Fsm → Nat → List Nat
  | 0, _, _ => []
  | fuel + 1, f, id =>
    match getState f id with
    | none => [id]
    | some s =>
      let docOf (i : Nat) : Nat := ((getState f i).map (·.docId)).getD 0
      let rec merge : Nat → List Nat → List Nat → List Nat
        | 0, a, b => a ++ b
        | _ + 1, [], b => b
        | _ + 1, a, [] => a
        | k + 1, x :: a, y :: b =>
          if docOf x ≤ docOf y then x :: merge k a (y :: b) else y :: merge k (x :: a) b
      id :: (merge (s.history.length + s.states.length) s.history s.states).flatMap (preorder fuel f)

def strictlyIncreasing : List Nat → Bool
  | a :: b :: r => a < b && strictlyIncreasing (b :: r)
  | _ => true

/-- doc ids of states increase strictly in pre-order, every state's transitions carry increasing
doc ids above the state's own -/
def docOrderOk (f : Fsm) : Bool :=
  let po := preorder (f.states.length + 1) f f.pseudoRoot
  strictlyIncreasing (po.map fun i => ((getState f i).map (·.docId)).getD 0) &&
  f.states.all fun s =>
    strictlyIncreasing (s.docId :: s.transitions.map fun t => ((tget f.transitions t).map (·.docId)).getD 0)

end Rfsm.Reader
