import Rfsm.Model.ExprData
/-
M-EXPR, part 3b: the evaluator over an explicit heap, and the datamodel's compile cache.

Transcribes `/repo/src/expression_engine/expressions.rs` (`Expression*::execute`,
`is_assignable`, `ExpressionMethod::eval_arguments`), `DataStore::{get, set_undefined}` of
`/repo/src/datamodel/mod.rs`, the internal actions (`IndexOfAction`, `LengthAction`,
`IsDefinedAction`, `AbsAction`, `ToStringAction`, `LogAction`) and `compile`,
`execute_internal_source`, `execute`, `execute_condition`, `assign_internal` of
`/repo/src/datamodel/expression_engine.rs`, plus `ExpressionParser::execute` (parser.rs).

State `St`: the cells (one per `Arc<Mutex<Data>>`; temporaries are never freed, which is not
observable), the variable store (`DataStore.map`, sorted by name) and `held`, the cells whose
mutex the evaluating thread holds right now.  `lock` of a held cell is the outcome
`deadlock site` (the thread blocks forever on its own mutex); a Rust panic is `panic site`; in
both cases `held` is left as it was at that moment (those mutexes stay locked / are poisoned,
as is the `GlobalData` mutex the caller holds around the evaluation).  Since the repairs of P3/P4
the evaluator takes every lock with nothing else held and releases it before the next one; the
only nested locks left are those of `DataArc::eq` (`eqArc`), which block on cyclic data only.

Core Lean only.
-/
namespace Rfsm.Expr

inductive LockSite
  | equal           -- DataArc::eq inside `==` / `!=` reaches a cell it has locked itself (cyclic data)
  | other           -- a `lock()` the code performs with no other lock held (never blocks)
  deriving DecidableEq, Repr, Inhabited

inductive Out (α : Type)
  | ok (a : α)
  | err (e : EvErr)
  | panic (s : PanicSite)
  | deadlock (s : LockSite)
  | livelock
  | fuelOut
  deriving Repr, Inhabited

structure St (D : Type) where
  cells : Cells D
  vars : List (Str × Ref)
  held : List Nat
  deriving Repr

variable {D : Type}

def St.alloc (st : St D) (d : Data D) : St D × Ref :=
  ({ st with cells := st.cells ++ [d] }, ⟨st.cells.length, false⟩)

def St.setCell (st : St D) (i : Nat) (d : Data D) : St D :=
  { st with cells := st.cells.set i d }

/-- `Mutex::lock`: `none` when this thread already holds the mutex -/
def St.lock (st : St D) (i : Nat) : Option (St D) :=
  if st.held.contains i then none else some { st with held := i :: st.held }

def St.unlock (st : St D) (i : Nat) : St D := { st with held := st.held.erase i }

def St.get (st : St D) (i : Nat) : Data D := getCell st.cells i

/-- `Expression::is_assignable` -/
def assignable : Expr → Bool
  | .var _ => true
  | .index _ _ => true
  | .member _ _ => true
  | _ => false

def litData (ops : DoubleOps D) : Lit → Data D
  | .int i => .int i
  | .dbl t => .dbl (ops.parse t)
  | .str s => .str s
  | .bool b => .bool b
  | .null => .null

/-! ### internal actions -/

def isPrefix : Str → Str → Bool
  | [], _ => true
  | _ :: _, [] => false
  | a :: as, b :: bs => a == b && isPrefix as bs

/-- `str::find`: byte offset of the first occurrence -/
def findBytes (needle : Str) : Str → Nat → Option Nat
  | [], off => if needle.isEmpty then some off else none
  | c :: rest, off =>
    if isPrefix needle (c :: rest) then some off else findBytes needle rest (off + utf8Len c)

def actIndexOf : Str := sOf "indexOf"
def actLength : Str := sOf "length"
def actIsDefined : Str := sOf "isDefined"
def actAbs : Str := sOf "abs"
def actToString : Str := sOf "toString"
def actLog : Str := sOf "log"

/-- `ActionWrapper::execute` with the six internal actions registered
(`add_internal_functions_to_wrapper`) -/
def runAction (ops : DoubleOps D) (cells : Cells D) (name : Str) (args : List (Data D)) :
    Out (Data D) :=
  let toStr (d : Data D) : Except EvErr Str :=
    dataToString ops (arcToString ops cells (cells.length + 1) []) d
  if name == actIndexOf then
    match args with
    | [.str s1, .str s2] =>
      match findBytes s2 s1 0 with
      | some i => .ok (.int i)
      | none => .ok (.int (-1))
    | [_, _] => .err (.actionType 0)
    | _ => .err (.actionArgs 0)
  else if name == actLength then
    match args with
    | [.str s] => .ok (.int (utf8LenStr s))
    | [.array a] => .ok (.int a.length)
    | [.map m] => .ok (.int m.length)
    | [.source s _] => .ok (.int (utf8LenStr s))
    | [_] => .err (.actionType 1)
    | _ => .err (.actionArgs 1)
  else if name == actIsDefined then
    match args with
    | [.error _] => .ok (.bool false)
    | [.none] => .ok (.bool false)
    | [_] => .ok (.bool true)
    | _ => .err (.actionArgs 2)
  else if name == actAbs then
    match args with
    | [.int v] => .ok (.int (if v == i64Min then i64Max else v.natAbs))   -- `saturating_abs`
    | [.dbl v] => .ok (.dbl (ops.abs v))
    | [_] => .err (.actionType 3)
    | _ => .err (.actionArgs 3)
  else if name == actToString then
    match args with
    | [d] => match toStr d with | .ok s => .ok (.str s) | .error e => .err e
    | _ => .err (.actionArgs 4)
  else if name == actLog then
    match args with
    | [d] => match toStr d with | .ok _ => .ok .none | .error e => .err e
    | _ => .err (.actionArgs 5)
  else .err (.actionNotFound name)

/-! ### the evaluator -/

mutual

/-- `Expression::execute(context, allow_undefined)` -/
def eval (ops : DoubleOps D) : Expr → Bool → St D → St D × Out Ref
  | .const l, _, st =>
    let (st, r) := st.alloc (litData ops l)
    (st, .ok r)
  | .var name, au, st =>
    match mapGet st.vars name with
    | some r => (st, .ok r)
    | none =>
      if au then
        let (st, r) := st.alloc .none
        ({ st with vars := mapInsert st.vars name r }, .ok r)
      else (st, .err (.varNotFound name))
  | .array items, au, st =>
    match evalList ops items au st with
    | (st, .ok refs) =>
      let (st, r) := st.alloc (.array refs)
      (st, .ok r)
    | (st, .err e) => (st, .err e)
    | (st, .panic s) => (st, .panic s)
    | (st, .deadlock s) => (st, .deadlock s)
    | (st, .livelock) => (st, .livelock)
    | (st, .fuelOut) => (st, .fuelOut)
  | .map fields, au, st =>
    match evalFields ops fields au st [] with
    | (st, .ok m) =>
      let (st, r) := st.alloc (.map m)
      (st, .ok r)
    | (st, .err e) => (st, .err e)
    | (st, .panic s) => (st, .panic s)
    | (st, .deadlock s) => (st, .deadlock s)
    | (st, .livelock) => (st, .livelock)
    | (st, .fuelOut) => (st, .fuelOut)
  | .method name args, _, st =>
    match evalArgs ops args st with
    | (st, .ok ds) =>
      match runAction ops st.cells name ds with
      | .ok d =>
        let (st, r) := st.alloc d
        (st, .ok r)
      | .err e => (st, .err e)
      | .panic s => (st, .panic s)
      | .deadlock s => (st, .deadlock s)
      | .livelock => (st, .livelock)
      | .fuelOut => (st, .fuelOut)
    | (st, .err e) => (st, .err e)
    | (st, .panic s) => (st, .panic s)
    | (st, .deadlock s) => (st, .deadlock s)
    | (st, .livelock) => (st, .livelock)
    | (st, .fuelOut) => (st, .fuelOut)
  | .index l i, au, st =>
    match eval ops l au st with
    | (st, .panic s) => (st, .panic s)
    | (st, .deadlock s) => (st, .deadlock s)
    | (st, .livelock) => (st, .livelock)
    | (st, .fuelOut) => (st, .fuelOut)
    | (st, lr) =>
      match eval ops i au st with
      | (st, .panic s) => (st, .panic s)
      | (st, .deadlock s) => (st, .deadlock s)
      | (st, .livelock) => (st, .livelock)
      | (st, .fuelOut) => (st, .fuelOut)
      | (st, ir) =>
        match lr, ir with
        | .ok lv, .ok iv =>
          -- the index is read first, under a short lock of its own
          match st.lock iv.id with
          | none => (st, .deadlock .other)
          | some st =>
          let idx := numericToInteger ops (st.get iv.id)
          let st := st.unlock iv.id
          match st.lock lv.id with
          | none => (st, .deadlock .other)
          | some st =>
            match st.get lv.id with
            | .map m =>
              match arcToString ops st.cells (st.cells.length + 1) st.held iv with
              | .ok key =>
                match mapGet m key with
                | some r => (st.unlock lv.id, .ok r)
                | none =>
                  if au then
                    let (st, r) := st.alloc .none
                    ((st.setCell lv.id (.map (mapInsert m key r))).unlock lv.id, .ok r)
                  else (st.unlock lv.id, .err (.indexNotFound key))
              | .error e => (st.unlock lv.id, .err e)
            | .array m =>
              let st := st.unlock lv.id
              match idx with
              | some k =>
                if k < 0 then (st, .err .indexOutOfRange)
                else match m[k.toNat]? with
                  | some r => (st, .ok r)
                  | none => (st, .err .indexOutOfRange)
              | none => (st, .err .illegalIndexType)
            | .error e => (st.unlock lv.id, .err e)
            | _ => (st.unlock lv.id, .err .cantIndex)
        | .err e, _ => (st, .err e)
        | _, .err e => (st, .err e)
        | _, _ => (st, .fuelOut)
  | .member l name, au, st =>
    match eval ops l au st with
    | (st, .ok lv) =>
      match st.lock lv.id with
      | none => (st, .deadlock .other)
      | some st =>
        match st.get lv.id with
        | .map m =>
          match mapGet m name with
          | some r => (st.unlock lv.id, .ok r)
          | none =>
            if au then
              let (st, r) := st.alloc .none
              ((st.setCell lv.id (.map (mapInsert m name r))).unlock lv.id, .ok r)
            else (st.unlock lv.id, .err (.memberNotFound name))
        | .error e => (st.unlock lv.id, .err e)
        | _ => (st.unlock lv.id, .err .noMembers)
    | other => other
  | .assign l r, au, st =>
    if !assignable l then (st, .err .cantAssignTo) else
    match eval ops r false st with
    | (st, .panic s) => (st, .panic s)
    | (st, .deadlock s) => (st, .deadlock s)
    | (st, .livelock) => (st, .livelock)
    | (st, .fuelOut) => (st, .fuelOut)
    | (st, rr) =>
      match eval ops l au st with
      | (st, .ok v) =>
        match rr with
        | .ok ra =>
          -- the right value is copied under a short lock, then the target is locked
          match st.lock ra.id with
          | none => (st, .deadlock .other)
          | some st =>
            let st := st.unlock ra.id
            match st.get ra.id with
            | .error _ => (st, .err .cantAssignFrom)
            | .none => (st, .err .cantAssignFrom)
            | d =>
              if v.ro then (st, .err .readOnly)
              else match st.lock v.id with
                | none => (st, .deadlock .other)
                | some st => ((st.setCell v.id d).unlock v.id, .ok v)
        | .err e => (st, .err e)
        | _ => (st, .fuelOut)
      | other => other
  | .assignUndef l r, au, st =>
    if !assignable l then (st, .err .cantAssignTo) else
    match eval ops r au st with
    | (st, .ok ra) =>
      match eval ops l true st with
      | (st, .ok lv) =>
        -- the right value is copied under a short lock, then the target is locked
        match st.lock ra.id with
        | none => (st, .deadlock .other)
        | some st =>
          let st := st.unlock ra.id
          match st.lock lv.id with
          | none => (st, .deadlock .other)
          | some st => ((st.setCell lv.id (st.get ra.id)).unlock lv.id, .ok lv)
      | other => other
    | other => other
  | .op o l r, au, st =>
    match eval ops l au st with
    | (st, .ok lv) =>
      match eval ops r au st with
      | (st, .ok rv) =>
        -- both contents are cloned, each under a short lock; no lock is held during the operation
        match st.lock lv.id with
        | none => (st, .deadlock .other)
        | some st =>
          let st := st.unlock lv.id
          match st.lock rv.id with
          | none => (st, .deadlock .other)
          | some st =>
            let st := st.unlock rv.id
            match operation ops st.cells st.held o (st.get lv.id) (st.get rv.id) with
            | .val d newCells =>
              let st := { st with cells := st.cells ++ newCells }
              let (st, r) := st.alloc d
              (st, .ok r)
            | .deadlock => (st, .deadlock .equal)
            | .fuelOut => (st, .fuelOut)
      | other => other
    | other => other
  | .not r, au, st =>
    match eval ops r au st with
    | (st, .ok v) =>
      match st.lock v.id with
      | none => (st, .deadlock .other)
      | some st =>
        match st.get v.id with
        | .bool b =>
          let (st, r) := (st.unlock v.id).alloc (.bool (!b))
          (st, .ok r)
        | _ => (st.unlock v.id, .err .notNonBoolean)
    | other => other
  | .seq es, au, st =>
    let (st, r) := st.alloc .none
    evalSeq ops es au st (.ok r)

/-- the loop of `ExpressionArray::execute` -/
def evalList (ops : DoubleOps D) : List Expr → Bool → St D → St D × Out (List Ref)
  | [], _, st => (st, .ok [])
  | e :: rest, au, st =>
    match eval ops e au st with
    | (st, .ok r) =>
      match evalList ops rest au st with
      | (st, .ok rs) => (st, .ok (r :: rs))
      | other => other
    | (st, .err e) => (st, .err e)
    | (st, .panic s) => (st, .panic s)
    | (st, .deadlock s) => (st, .deadlock s)
    | (st, .livelock) => (st, .livelock)
    | (st, .fuelOut) => (st, .fuelOut)

/-- the loop of `ExpressionMap::execute`; keys are `key_val.to_string()` (Display of the `DataArc`) -/
def evalFields (ops : DoubleOps D) : List (Expr × Expr) → Bool → St D → List (Str × Ref) →
    St D × Out (List (Str × Ref))
  | [], _, st, acc => (st, .ok acc)
  | (k, v) :: rest, au, st, acc =>
    match eval ops k au st with
    | (st, .ok kr) =>
      match eval ops v au st with
      | (st, .ok vr) =>
        let key := dispRef ops st.cells (st.cells.length + 1) st.held kr
        evalFields ops rest au st (mapInsert acc key vr)
      | (st, .err e) => (st, .err e)
      | (st, .panic s) => (st, .panic s)
      | (st, .deadlock s) => (st, .deadlock s)
      | (st, .livelock) => (st, .livelock)
      | (st, .fuelOut) => (st, .fuelOut)
    | (st, .err e) => (st, .err e)
    | (st, .panic s) => (st, .panic s)
    | (st, .deadlock s) => (st, .deadlock s)
    | (st, .livelock) => (st, .livelock)
    | (st, .fuelOut) => (st, .fuelOut)

/-- `ExpressionMethod::eval_arguments`: every argument is evaluated with `allow_undefined = false`,
its content is cloned under a short lock; an `Err` becomes `Data::Error` -/
def evalArgs (ops : DoubleOps D) : List Expr → St D → St D × Out (List (Data D))
  | [], st => (st, .ok [])
  | e :: rest, st =>
    match eval ops e false st with
    | (st, .ok r) =>
      match st.lock r.id with
      | none => (st, .deadlock .other)
      | some st1 =>
        let d := st1.get r.id
        match evalArgs ops rest (st1.unlock r.id) with
        | (st, .ok ds) => (st, .ok (d :: ds))
        | other => other
    | (st, .err e) =>
      match evalArgs ops rest st with
      | (st, .ok ds) => (st, .ok (.error e :: ds))
      | other => other
    | (st, .panic s) => (st, .panic s)
    | (st, .deadlock s) => (st, .deadlock s)
    | (st, .livelock) => (st, .livelock)
    | (st, .fuelOut) => (st, .fuelOut)

/-- the loop of `ExpressionSequence::execute`: the last result wins, earlier errors are dropped -/
def evalSeq (ops : DoubleOps D) : List Expr → Bool → St D → Out Ref → St D × Out Ref
  | [], _, st, r => (st, r)
  | e :: rest, au, st, _ =>
    match eval ops e au st with
    | (st, .panic s) => (st, .panic s)
    | (st, .deadlock s) => (st, .deadlock s)
    | (st, .livelock) => (st, .livelock)
    | (st, .fuelOut) => (st, .fuelOut)
    | (st, r) => evalSeq ops rest au st r

end

/-- `ExpressionParser::execute(source, context)` -/
def execute (ops : DoubleOps D) (text : Str) (st : St D) : St D × Out Ref :=
  match parse text with
  | .ok e => eval ops e false st
  | .err e => (st, .err (.parse e))
  | .panic => (st, .panic .parserInternal)
  | .livelock => (st, .livelock)
  | .outOfFuel => (st, .fuelOut)

/-! ### the datamodel: compile cache and entry points -/

abbrev Cache := List (Nat × Expr)

def cacheGet : Cache → Nat → Option Expr
  | [], _ => none
  | (k, e) :: rest, id => if k == id then some e else cacheGet rest id

/-- `RFsmExpressionDatamodel::compile` -/
def compile (cache : Cache) (text : Str) (id : Nat) : Cache × PRes Expr :=
  if id == 0 then (cache, parse text)
  else match cacheGet cache id with
    | some e => (cache, .ok e)
    | none =>
      match parse text with
      | .ok e => ((id, e) :: cache, .ok e)
      | other => (cache, other)

structure DM (D : Type) where
  st : St D
  cache : Cache

/-- `execute_internal_source` (the error event it may raise is not part of this model) -/
def dmExecuteInternal (ops : DoubleOps D) (dm : DM D) (text : Str) (id : Nat) : DM D × Out Ref :=
  match compile dm.cache text id with
  | (cache, .ok e) =>
    match eval ops e false dm.st with
    | (st, .ok v) =>
      match st.get v.id with
      | .error err => ({ st := st, cache := cache }, .err (.scriptError err))
      | _ => ({ st := st, cache := cache }, .ok v)
    | (st, .err err) => ({ st := st, cache := cache }, .err (.scriptError err))
    | (st, other) => ({ st := st, cache := cache }, other)
  | (cache, .err e) => ({ dm with cache := cache }, .err (.parse e))
  | (cache, .panic) => ({ dm with cache := cache }, .panic .parserInternal)
  | (cache, .livelock) => ({ dm with cache := cache }, .livelock)
  | (cache, .outOfFuel) => ({ dm with cache := cache }, .fuelOut)

/-- `Datamodel::execute` for a `Data::Source` script -/
def dmExecute (ops : DoubleOps D) (dm : DM D) (text : Str) (id : Nat) : DM D × Out Ref :=
  match dmExecuteInternal ops dm text id with
  | (dm, .ok r) =>
    match dm.st.get r.id with
    | .array _ => (dm, .err .illegalResultArray)
    | .map _ => (dm, .err .illegalResultMap)
    | .error e => (dm, .err e)
    | _ => (dm, .ok r)
  | other => other

/-- `Datamodel::execute_condition` for a `Data::Source` script -/
def dmCondition (ops : DoubleOps D) (dm : DM D) (text : Str) (id : Nat) : DM D × Out Bool :=
  match dmExecuteInternal ops dm text id with
  | (dm, .ok r) =>
    match dm.st.get r.id with
    | .int v => (dm, .ok (v != 0))
    | .dbl v => (dm, .ok (!(ops.isNaN v || ops.eq (ops.abs v) (ops.ofInt 0))))
    | .source s _ => (dm, .ok (!s.isEmpty))
    | .str s => (dm, .ok (!s.isEmpty))
    | .bool b => (dm, .ok b)
    | .array _ => (dm, .ok true)
    | .map _ => (dm, .ok true)
    | .null => (dm, .ok false)
    | .none => (dm, .ok false)
    | .error e => (dm, .err e)
  | (dm, .err e) => (dm, .err e)
  | (dm, .panic s) => (dm, .panic s)
  | (dm, .deadlock s) => (dm, .deadlock s)
  | (dm, .livelock) => (dm, .livelock)
  | (dm, .fuelOut) => (dm, .fuelOut)

/-- `Datamodel::assign` (`assign_internal`, `allow_undefined = false`) for two `Data::Source`s -/
def dmAssign (ops : DoubleOps D) (dm : DM D) (ltext : Str) (lid : Nat) (rtext : Str) (rid : Nat) :
    DM D × Out Bool :=
  match compile dm.cache ltext lid with
  | (cache, lp) =>
    match compile cache rtext rid with
    | (cache, rp) =>
      let dm := { dm with cache := cache }
      match lp, rp with
      | .ok l, .ok r =>
        match eval ops (.assign l r) false dm.st with
        | (st, .ok _) => ({ dm with st := st }, .ok true)
        | (st, .err _) => ({ dm with st := st }, .ok false)
        | (st, .panic s) => ({ dm with st := st }, .panic s)
        | (st, .deadlock s) => ({ dm with st := st }, .deadlock s)
        | (st, .livelock) => ({ dm with st := st }, .livelock)
        | (st, .fuelOut) => ({ dm with st := st }, .fuelOut)
      | .livelock, _ => (dm, .livelock)
      | _, .livelock => (dm, .livelock)
      | .outOfFuel, _ => (dm, .fuelOut)
      | _, .outOfFuel => (dm, .fuelOut)
      | _, _ => (dm, .ok false)

end Rfsm.Expr
