import Rfsm.Model.Codec
/-
M-CODEC, writer side against an arbitrary byte sink (property C18, clauses "short write" and
"failing write").

Transcribes how `DefaultProtocolWriter` (src/serializer/default_protocol_writer.rs) drives its
`std::io::Write`:

  * `write_type_and_value`: `if self.ok { r = write_u8(first); while size > 0 && r.is_ok() { r =
    write_u8(next) }; eval_result(r) }` — `write_u8` is byteorder's `write_all(&[b])`;
  * `write_boolean` / `None` arm of `write_option_string`: `if self.ok { eval_result(write_u8(b)) }`;
  * `write_str`: `if self.ok { write_type_and_value(..); eval_result(self.writer.write_all(value)) }`
    — the payload goes through `write_all` (issued even when the header just failed);
  * `close`: `if self.ok { eval_result(self.writer.flush()) }`;
  * `std::io::Write::write_all`: `while !buf.is_empty() { match write(buf) { Ok(0) => return
    Err(WriteZero), Ok(n) => buf = &buf[n..], Err(e) => return Err(e) } }` — no call at all for an
    empty buffer (`ErrorKind::Interrupted` is not modelled: the harness sink never produces it).

The sink is a parameter: `resp i len` answers the `i`-th `write` call (0-based, counted over the
whole run) asked to take `len` bytes.  `acc k` accepts `min k len` bytes.
-/
namespace Rfsm.Codec

inductive Resp where
  | acc (k : Nat)
  | err
  deriving Repr, DecidableEq, Inhabited

structure Sink where
  resp : Nat → Nat → Resp
  flushFails : Bool

structure WState where
  /-- bytes the sink has accepted so far -/
  out : List Nat
  /-- `DefaultProtocolWriter.ok` -/
  ok : Bool
  /-- number of `write` calls issued so far -/
  calls : Nat
  /-- some `write`/`flush` call has returned `Err`, or a `write_all` got `Ok(0)` -/
  sawErr : Bool
  /-- some `write` call accepted fewer bytes than it was given without reporting an error -/
  sawShort : Bool
  deriving Repr, Inhabited

def WState.init : WState := ⟨[], true, 0, false, false⟩

/-- one `self.writer.write(buf)` call; `none` = `Err` -/
def sinkWrite (k : Sink) (buf : List Nat) (w : WState) : Option Nat × WState :=
  match k.resp w.calls buf.length with
  | .acc n =>
    let n := min n buf.length
    (some n, { w with out := w.out ++ buf.take n, calls := w.calls + 1,
                      sawShort := w.sawShort || n < buf.length })
  | .err => (none, { w with calls := w.calls + 1, sawErr := true })

/-- `write_u8(b)` = `write_all(&[b])`; `true` = `Ok(())` -/
def writeByte (k : Sink) (b : Nat) (w : WState) : Bool × WState :=
  match sinkWrite k [b] w with
  | (some 0, w) => (false, { w with sawErr := true })
  | (some _, w) => (true, w)
  | (none, w) => (false, w)

/-- `write_all(buf)`; `true` = `Ok(())`.  Every round takes at least one byte or fails, so
    `fuel = buf.length` rounds suffice (the `0` case with a non-empty buffer is never reached) -/
def writeAll (k : Sink) : Nat → List Nat → WState → Bool × WState
  | _, [], w => (true, w)
  | 0, _ :: _, w => (false, w)
  | fuel + 1, b :: r, w =>
    match sinkWrite k (b :: r) w with
    | (some 0, w) => (false, { w with sawErr := true })
    | (some n, w) => writeAll k fuel ((b :: r).drop n) w
    | (none, w) => (false, w)

/-- single-byte writes in sequence until the first failure; `true` = all succeeded -/
def writeBytes (k : Sink) : List Nat → WState → Bool × WState
  | [], w => (true, w)
  | b :: r, w =>
    match writeByte k b w with
    | (true, w) => writeBytes k r w
    | (false, w) => (false, w)

/-- `write_type_and_value` -/
def runTv (k : Sink) (bytes : List Nat) (w : WState) : WState :=
  if w.ok then
    match writeBytes k bytes w with
    | (true, w) => w
    | (false, w) => { w with ok := false }
  else w

/-- one primitive protocol call -/
def Op.run (k : Sink) : Op → WState → WState
  | .tv tid v size, w => runTv k (tvBytes tid v size) w
  | .byte b, w => runTv k [b] w
  | .str s, w =>
    if w.ok then
      let w := runTv k (strHeader s) w
      match writeAll k s.length s w with
      | (true, w) => w
      | (false, w) => { w with ok := false }
    else w
  | .flush, w =>
    if w.ok then
      if k.flushFails then { w with ok := false, sawErr := true } else w
    else w

def runOps (k : Sink) : List Op → WState → WState
  | [], w => w
  | op :: r, w => runOps k r (op.run k w)

/-- the sink of a `Vec<u8>` -/
def idealSink : Sink := ⟨fun _ len => .acc len, false⟩

/-- a sparse script: call `i` is answered by the entry `(i, r)` if there is one (first wins), every
other call is accepted whole -/
def scriptSink (script : List (Nat × Resp)) (flushFails : Bool) : Sink :=
  ⟨fun i len => match script.find? (fun e => e.1 == i) with
    | some e => e.2
    | none => .acc len, flushFails⟩

/-- `FsmWriter::write(fsm); close()` against a sink -/
def writeFsmTo (k : Sink) (f : Fsm) : WState := runOps k (opsFsm f ++ [Op.flush]) WState.init

end Rfsm.Codec
