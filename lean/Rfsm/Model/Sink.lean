import Rfsm.Model.Codec
/-
M-CODEC, writer side against an arbitrary byte sink (property C18, clauses "short write" and
"failing write").

Transcribes how `DefaultProtocolWriter` (src/serializer/default_protocol_writer.rs) drives its
`std::io::Write`:

  * `write_type_and_value`: `if self.ok { r = write_u8(first); while size > 0 && r.is_ok() { r =
    write_u8(next) }; eval_result(r) }` — `write_u8` is byteorder's `write_all(&[b])`;
  * `write_boolean` / `None` arm of `write_option_string`: `if self.ok { eval_result(write_u8(b)) }`;
  * `write_str`: `if self.ok { write_type_and_value(..); r = self.writer.write(value[0..len]);
    if Err → ok = false }` — ONE `write` call whose returned count is ignored, issued even when the
    header just failed, and also for an empty payload;
  * `close`: `if self.ok { eval_result(self.writer.flush()) }`;
  * `std::io::Write::write_all` on a one byte buffer: `Ok(0)` is `Err(WriteZero)`, `Ok(n≥1)` is
    success, `Err(e)` is failure (`ErrorKind::Interrupted` is not modelled: the harness sink
    never produces it).

The sink is a parameter: `resp i len` answers the `i`-th `write` call (0-based, counted over the
whole run) asked to take `len` bytes.  `acc k` accepts `min k len` bytes.
-/
namespace Rfsm.Codec

inductive Resp where
  | acc (k : Nat)
  | err
  deriving Repr, DecidableEq, Inhabited

structure Sink where
  resp : Nat → Nat → Resp
  flushFails : Bool

structure WState where
  /-- bytes the sink has accepted so far -/
  out : List Nat
  /-- `DefaultProtocolWriter.ok` -/
  ok : Bool
  /-- number of `write` calls issued so far -/
  calls : Nat
  /-- some `write`/`flush` call has returned `Err`, or a `write_all` got `Ok(0)` -/
  sawErr : Bool
  /-- some `write` call accepted fewer bytes than it was given without reporting an error -/
  sawShort : Bool
  deriving Repr, Inhabited

def WState.init : WState := ⟨[], true, 0, false, false⟩

/-- one `self.writer.write(buf)` call; `none` = `Err` -/
def sinkWrite (k : Sink) (buf : List Nat) (w : WState) : Option Nat × WState :=
  match k.resp w.calls buf.length with
  | .acc n =>
    let n := min n buf.length
    (some n, { w with out := w.out ++ buf.take n, calls := w.calls + 1,
                      sawShort := w.sawShort || n < buf.length })
  | .err => (none, { w with calls := w.calls + 1, sawErr := true })

/-- `write_u8(b)` = `write_all(&[b])`; `true` = `Ok(())` -/
def writeByte (k : Sink) (b : Nat) (w : WState) : Bool × WState :=
  match sinkWrite k [b] w with
  | (some 0, w) => (false, { w with sawErr := true })
  | (some _, w) => (true, w)
  | (none, w) => (false, w)

/-- single-byte writes in sequence until the first failure; `true` = all succeeded -/
def writeBytes (k : Sink) : List Nat → WState → Bool × WState
  | [], w => (true, w)
  | b :: r, w =>
    match writeByte k b w with
    | (true, w) => writeBytes k r w
    | (false, w) => (false, w)

/-- `write_type_and_value` -/
def runTv (k : Sink) (bytes : List Nat) (w : WState) : WState :=
  if w.ok then
    match writeBytes k bytes w with
    | (true, w) => w
    | (false, w) => { w with ok := false }
  else w

inductive SinkOutcome where
  | done (w : WState)
  /-- the `value[0..len]` slice of `write_str` panicked; `w` is the state at that point -/
  | panic (w : WState)
  deriving Repr

def Op.run (k : Sink) : Op → WState → SinkOutcome
  | .tv tid v size, w => .done (runTv k (tvBytes tid v size) w)
  | .byte b, w => .done (runTv k [b] w)
  | .str s, w =>
    if w.ok then
      let w := runTv k (strHeader s) w
      if strPanics s then .panic w
      else
        match sinkWrite k (s.take (strSliceLen s)) w with
        | (some _, w) => .done w
        | (none, w) => .done { w with ok := false }
    else .done w
  | .flush, w =>
    if w.ok then
      if k.flushFails then .done { w with ok := false, sawErr := true } else .done w
    else .done w

def runOps (k : Sink) : List Op → WState → SinkOutcome
  | [], w => .done w
  | op :: r, w =>
    match op.run k w with
    | .done w => runOps k r w
    | .panic w => .panic w

/-- the sink of a `Vec<u8>` -/
def idealSink : Sink := ⟨fun _ len => .acc len, false⟩

/-- a sparse script: call `i` is answered by the entry `(i, r)` if there is one (first wins), every
other call is accepted whole -/
def scriptSink (script : List (Nat × Resp)) (flushFails : Bool) : Sink :=
  ⟨fun i len => match script.find? (fun e => e.1 == i) with
    | some e => e.2
    | none => .acc len, flushFails⟩

/-- `FsmWriter::write(fsm); close()` against a sink -/
def writeFsmTo (k : Sink) (f : Fsm) : SinkOutcome := runOps k (opsFsm f ++ [Op.flush]) WState.init

end Rfsm.Codec
