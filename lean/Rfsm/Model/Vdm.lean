import Rfsm.Model.Exec
/-!
# VDM — the verification data model

A deliberately tiny data model, implemented twice: here and in `harness/src/vdm.rs` (as a real
`rufsm::datamodel::Datamodel`, registered under the name `vdm`).  It lets the correspondence run
drive the *real* interpreter (`fsm.rs`) and the *real* executable content (`executable_content.rs`)
with guards and effects whose meaning is fixed by construction, and it reports every call it
receives, so the order of data-model calls is part of the compared trace.

The expression language is a subset of rfsm-expression syntax (tokens separated by one space):
  value ::= INT | NAME | NAME + INT | NAME + NAME | 'text'
  cond  ::= true | false | In('state') | value == value | value != value | value < value
  stmt  ::= NAME = value
Anything else is an evaluation error.
-/
namespace Rfsm.Vdm
open Rfsm.Descriptor (Str)
open Rfsm.Interp

structure DoneData where
  state : Nat
  params : List Param
  hasContent : Bool := false
  content : Option Str := none
  contentExpr : Option Str := none
  deriving Repr, Inhabited

/-- static tables the data model reads besides the interpreter's -/
structure Tables where
  names : List (Str × Nat)                -- state name ↦ id (`add_functions`)
  data : List (Nat × List (Str × Str))    -- state ↦ declared data (name, expr text), sorted by name
  donedata : List DoneData
  deriving Repr, Inhabited

structure St where
  vars : List (Str × Option Int) := []
  deriving Repr, Inhabited

def splitSp (s : Str) : List Str :=
  s.foldr (fun c acc => if c = 32 then [] :: acc else match acc with
    | [] => [[c]]
    | t :: ts => (c :: t) :: ts) [[]]

def isDigit (c : Nat) : Bool := 48 ≤ c && c ≤ 57

def parseNat (s : Str) : Option Nat :=
  if s.isEmpty || !s.all isDigit then none else some (s.foldl (fun n c => n * 10 + (c - 48)) 0)

def showNat (n : Nat) : Str := (toString n).toUTF8.toList.map UInt8.toNat
def showInt (i : Int) : Str := (toString i).toUTF8.toList.map UInt8.toNat

def lookup (st : St) (n : Str) : Option (Option Int) := (st.vars.find? (·.1 == n)).map (·.2)

def setVar (st : St) (n : Str) (v : Option Int) : St :=
  if st.vars.any (·.1 == n) then { vars := st.vars.map (fun p => if p.1 == n then (n, v) else p) }
  else { vars := st.vars ++ [(n, v)] }

/-- text values: integers print as decimal; quoted text prints without quotes -/
inductive Val
  | int (i : Int)
  | text (t : Str)
  deriving Repr, DecidableEq

def Val.show : Val → Str
  | .int i => showInt i
  | .text t => t

def atom (st : St) (t : Str) : Option Val :=
  match parseNat t with
  | some n => some (.int n)
  | none =>
    if t.length ≥ 2 && t.head? == some 39 && t.getLast? == some 39 then
      some (.text ((t.drop 1).dropLast))
    else match lookup st t with
      | some (some v) => some (.int v)
      | _ => none

def evalValue (st : St) (toks : List Str) : Option Val :=
  match toks with
  | [a] => atom st a
  | [a, [43], b] =>
    match atom st a, atom st b with
    | some (.int x), some (.int y) => some (.int (x + y))
    | _, _ => none
  | _ => none

def inPrefix : Str := [73, 110, 40, 39]   -- In('
def inSuffix : Str := [39, 41]            -- ')

def evalCond (tb : Tables) (st : St) (cfg : List Nat) (src : Str) : Option Bool :=
  match splitSp src with
  | [[116,114,117,101]] => some true
  | [[102,97,108,115,101]] => some false
  | [t] =>
    if inPrefix.isPrefixOf t && t.length ≥ 6 && (t.drop (t.length - 2)) == inSuffix then
      let nm := (t.drop 4).take (t.length - 6)
      match tb.names.find? (·.1 == nm) with
      | some (_, id) => some (cfg.contains id)
      | none => some false
    else none
  | [a, op, b] =>
    match atom st a, atom st b with
    | some x, some y =>
      if op == [61,61] then some (x == y)
      else if op == [33,61] then some (x != y)
      else if op == [60] then
        match x, y with
        | .int i, .int j => some (i < j)
        | _, _ => none
      else none
    | _, _ => none
  | _ => none

def obsLine (parts : List Str) : Obs := .dm (parts.foldl (fun acc p => if acc.isEmpty then p else acc ++ [32] ++ p) [])

def sE : Str := [69]
def sOk : Str := [111,107]
def sErr : Str := [101,114,114]

/-- `execute` -/
def execute (st : St) (src : Str) : St × Option Str :=
  match splitSp src with
  | n :: [61] :: rest =>
    match lookup st n, evalValue st rest with
    | some _, some (.int v) => (setVar st n (some v), some (showInt v))
    | _, _ => (st, none)
  | toks =>
    match evalValue st toks with
    | some v => (st, some v.show)
    | none => (st, none)

def parseArray (s : Str) : Option (List Str) :=
  if s.head? == some 91 && s.getLast? == some 93 then
    let inner := (s.drop 1).dropLast
    if inner.isEmpty then some [] else
    let parts := inner.foldr (fun c acc => if c = 44 then [] :: acc else match acc with
      | [] => [[c]]
      | t :: ts => (c :: t) :: ts) [[]]
    if parts.all (fun p => (parseNat p).isSome) then some parts else none
  else none

def tagCond : Str := [99,111,110,100]
def tagExec : Str := [101,120,101,99]
def tagAssign : Str := [97,115,115,105,103,110]
def tagLog : Str := [108,111,103]
def tagForeach : Str := [102,111,114,101,97,99,104]
def tagLoc : Str := [108,111,99]
def tagEvent : Str := [101,118,101,110,116]
def tagInit : Str := [105,110,105,116]
def tagIter : Str := [105,116,101,114]
def sT : Str := [84]
def sF : Str := [70]

def ops (tb : Tables) : DMOps St where
  cond st cfg c :=
    let r := evalCond tb st cfg c
    { dm := st, val := r,
      obs := [obsLine [tagCond, c, match r with | some true => sT | some false => sF | none => sE]] }
  exec st _ src :=
    let (st', r) := execute st src
    { dm := st', val := r, obs := [obsLine [tagExec, src, r.getD sE]] }
  assign st _ loc e :=
    match lookup st loc, evalValue st (splitSp e) with
    | some _, some (.int v) =>
      { dm := setVar st loc (some v), val := true, obs := [obsLine [tagAssign, loc, e, sOk]] }
    | _, _ =>
      { dm := st, val := false, raised := [errorExecution], obs := [obsLine [tagAssign, loc, e, sErr]] }
  log st msg := { dm := st, val := (), obs := [obsLine [tagLog, msg]] }
  foreachStart st _ array item _ :=
    match parseArray array with
    | some items =>
      { dm := (if (lookup st item).isSome then st else setVar st item none), val := some items,
        obs := [obsLine [tagForeach, array, showNat items.length]] }
    | none => { dm := st, val := none, obs := [obsLine [tagForeach, array, sE]] }
  foreachBind st item index i v :=
    setVar (setVar st item ((parseNat v).map Int.ofNat)) index (some (Int.ofNat i))
  getByLocation st _ loc :=
    match lookup st loc with
    | some (some v) => { dm := st, val := some (showInt v), obs := [obsLine [tagLoc, loc, showInt v]] }
    | _ => { dm := st, val := none, raised := [errorExecution], obs := [obsLine [tagLoc, loc, sE]] }
  set st name v := setVar st name ((parseNat v).map Int.ofNat)
  setEvent st _ := st
  initData st sid setData :=
    let decls := ((tb.data.find? (·.1 == sid)).map (·.2)).getD []
    decls.foldl (fun (r : DMR St Unit) (nv : Str × Str) =>
      if setData then
        if nv.2.isEmpty then { r with dm := setVar r.dm nv.1 none }
        else match evalValue r.dm (splitSp nv.2) with
          | some (.int v) => { r with dm := setVar r.dm nv.1 (some v) }
          | _ => { r with dm := setVar r.dm nv.1 none, raised := r.raised ++ [errorExecution] }
      else { r with dm := (if (lookup r.dm nv.1).isSome then r.dm else setVar r.dm nv.1 none) })
      { dm := st, val := () }
  doneData st _ sid :=
    match tb.donedata.find? (·.state == sid) with
    | none => { dm := st, val := [] }
    | some _ => { dm := st, val := [] }   -- refined through `doneDataOf` below
  platformSend _ ty target _ :=
    if ty == scxmlProcessor || ty == [115,99,120,109,108] then
      if target.isEmpty then .selfExternal
      else if target == targetInternal then .internal
      else .delivered
    else .noProcessor
  hasProcessor _ ty := ty == scxmlProcessor || ty == [115,99,120,109,108]
  parseDelay s :=
    -- `<digits>ms` or `<digits>s`; anything else −1 (the full grammar is modelled in `Timer`)
    if s.isEmpty then 0 else
    let digits := s.takeWhile isDigit
    let unit := s.dropWhile isDigit
    match parseNat digits with
    | none => -1
    | some n => if unit == [109,115] then n else if unit == [115] then n * 1000 else -1
  -- `Fsm::invoke` with literal `type`, literal inline `<content>` holding a well-formed SCXML
  -- document, no `<param>` / `idlocation` (the only form the c14 templates use): the `namelist`
  -- locations are read one after the other (`get_by_location`); the first one that is not a
  -- declared variable with a value raises `error.execution` and the invoke is abandoned; otherwise
  -- the child session starts under the invoke's `id`.  (The `loc` observations of these reads
  -- are not part of the invoke outcome; the c14 harness leaves them out on both sides.)
  invoke st _ _ inv :=
    match inv.nameList.find? (fun n => match lookup st n with | some (some _) => false | _ => true) with
    | some _ => { dm := st, raised := [errorExecution], started := none }
    | none => { dm := st, started := if inv.id.isEmpty then none else some inv.id }

/-- donedata of a final state: `evaluate_params` then `evaluate_content` of the trait -/
def doneDataOf (tb : Tables) (st : St) (cfg : List Nat) (sid : Nat) : DMR St Str :=
  match tb.donedata.find? (·.state == sid) with
  | none => { dm := st, val := [] }
  | some dd =>
    let (x, pv) := evalParams (ops tb) cfg { dm := st } dd.params []
    if dd.hasContent then
      match dd.contentExpr with
      | none => { dm := x.dm, val := encodePairs pv ++ [124] ++ dd.content.getD [], raised := x.raised, obs := x.obs }
      | some e =>
        let r := (ops tb).exec x.dm cfg e
        let x := x.absorb r
        match r.val with
        | some v => { dm := x.dm, val := encodePairs pv ++ [124] ++ v, raised := x.raised, obs := x.obs }
        | none => { dm := x.dm, val := encodePairs pv ++ [124], raised := x.raised ++ [errorExecution], obs := x.obs }
    else { dm := x.dm, val := encodePairs pv, raised := x.raised, obs := x.obs }

def fullOps (tb : Tables) : DMOps St := { ops tb with doneData := doneDataOf tb }

end Rfsm.Vdm
