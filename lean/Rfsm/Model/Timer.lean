/-
M-CONC / Timer: delayed `<send>`, `<cancel>`, the per-session timer (property C16).

Transcribes
  * `parse_duration_to_milliseconds`                (src/executable_content.rs)
    on top of `ExpressionLexer::next_number`, `next_name`, `next_token_with_stop`, `read_number`,
    `eat_space`, `is_stop`                          (src/expression_engine/lexer.rs)
    — restricted to what `parse_duration_to_milliseconds` can distinguish: a token is a number,
    an identifier, a lexer error, or "something else";
  * the delay branch of `SendParameters::execute`  (src/executable_content.rs): evaluation of the
    event at send time (payload containers copied by `Data::deep_clone`), `delay_ms < 0` / delayed
    `#_internal` / a date `chrono` cannot represent abort with error.execution, `Fsm::schedule`, the
    guard bookkeeping `delayed_send.entry(send_id).or_default().push((serial, guard))` for sends with
    and without id (one guard per pending send, registered before the timer thread can look for it);
  * the scheduled closure (takes its own `(serial, guard)` out of `delayed_send`, then `iop.send(..)`);
  * `Cancel::execute` (`delayed_send.remove(Some(id))`: all guards of the id) (src/executable_content.rs);
  * `Fsm::schedule`; `exitInterpreter` ends with `delayed_send.clear()`; `Fsm.timer` dropped with the
    session thread (src/fsm.rs).

Trusted, not transcribed: crate `timer` 0.2 (a callback never runs before its date; callbacks whose
dates differ run in date order; dropping a `Guard` before the callback is popped prevents it;
dropping the `Timer` *sends a Stop message*; once the scheduler thread has read it, it returns and
the heap is discarded — until then it goes on firing what is due), `str::parse::<i64>` and
`str::parse::<f64>` (modelled as exact decimal arithmetic, see `toMillis`), the OS clock.

Strings are `List Nat` (UTF-8 bytes).  The lexer works on `char`s; every byte of a multi-byte
sequence is ≥ 0x80 and therefore neither a digit, a stop character nor white space, so the byte
level model and the character level code take the same branches.
-/
namespace Rfsm.Timer

abbrev Str := List Nat

/-! ## Part 1 — `parse_duration_to_milliseconds` -/

/-- `ExpressionLexer::is_digit` -/
def isDigit (c : Nat) : Bool := decide (48 ≤ c) && decide (c ≤ 57)

/-- `ExpressionLexer::is_whitespace`: space, `\n`, `\r`, `\t` -/
def isWs (c : Nat) : Bool := c == 32 || c == 10 || c == 13 || c == 9

/-- the non-white-space stop characters of `ExpressionLexer::is_stop`:
`\0 . ! , \ - + / : * & | < > = % ? [ ] ( ) { } " ' ;` -/
def stopChars : List Nat :=
  [0, 46, 33, 44, 92, 45, 43, 47, 58, 42, 38, 124, 60, 62, 61, 37, 63, 91, 93, 40, 41, 123, 125, 34, 39, 59]

/-- `ExpressionLexer::is_stop` -/
def isStop (c : Nat) : Bool := isWs c || stopChars.contains c

/-- value of a digit string (no check) -/
def digitsVal (s : Str) : Nat := s.foldl (fun a c => a * 10 + (c - 48)) 0

def allDigits (s : Str) : Bool := s.all isDigit

/-- a numeric token; a double is kept as the exact decimal `± num / den` (the code holds an `f64`) -/
inductive Num where
  | int (v : Int)
  | dbl (neg : Bool) (num den : Nat)
  deriving DecidableEq, Repr

/-- what `next_number` / `next_name` can tell apart -/
inductive Tok where
  | number (n : Num)
  | ident (name : Str)
  /-- `Token::Error` -/
  | error
  /-- any other token: operator, bracket, separator, string, boolean, null, EOE -/
  | other
  deriving DecidableEq, Repr

structure Lexed where
  tok : Tok
  /-- the input left after the token -/
  rest : Str
  deriving DecidableEq, Repr

def i64Max : Nat := 9223372036854775807

/-- `str::parse::<i64>`: optional sign, at least one digit, in range -/
def parseI64 (s : Str) : Option Int :=
  match s with
  | [] => none
  | 45 :: ds =>
    if ds ≠ [] ∧ allDigits ds = true ∧ digitsVal ds ≤ i64Max + 1 then some (-(digitsVal ds : Int)) else none
  | 43 :: ds =>
    if ds ≠ [] ∧ allDigits ds = true ∧ digitsVal ds ≤ i64Max then some (digitsVal ds : Int) else none
  | ds => if allDigits ds = true ∧ digitsVal ds ≤ i64Max then some (digitsVal ds : Int) else none

/-- leading digits and the rest -/
def spanDigits : Str → Str × Str
  | [] => ([], [])
  | c :: r => if isDigit c then ((spanDigits r).1.cons c, (spanDigits r).2) else ([], c :: r)

/-- an optional leading sign: `(negative, rest)` -/
def stripSign : Str → Bool × Str
  | 45 :: r => (true, r)
  | 43 :: r => (false, r)
  | r => (false, r)

/-- the exponent part of a float literal after the mantissa: `none` = malformed,
`some (negative, e)`; the empty rest is exponent 0 -/
def parseExp (s : Str) : Option (Bool × Nat) :=
  match s with
  | [] => some (false, 0)
  | c :: r =>
    if c = 69 ∨ c = 101 then
      let sg := stripSign r
      if sg.2 ≠ [] ∧ allDigits sg.2 = true then some (sg.1, digitsVal sg.2) else none
    else none

/-- `str::parse::<f64>` on the alphabet `0-9 . + - e E` (what `read_number` can put into its buffer),
as an exact decimal: `[sign] digits* [. digits*] [(e|E) [sign] digits+]`, at least one mantissa digit.
Result `(negative, num, den)` with value `± num/den`. -/
def parseF64 (s : Str) : Option (Bool × Nat × Nat) :=
  let sg := stripSign s
  let ipr := spanDigits sg.2
  let fpr := match ipr.2 with
    | 46 :: r => spanDigits r
    | r => ([], r)
  if ipr.1 = [] ∧ fpr.1 = [] then none else
  let mant := digitsVal (ipr.1 ++ fpr.1)
  let scale := fpr.1.length
  match parseExp fpr.2 with
  | none => none
  | some (eneg, e) =>
    if eneg then some (sg.1, mant, 10 ^ (scale + e)) else some (sg.1, mant * 10 ^ e, 10 ^ scale)

/-- the `match state` after the loop of `read_number` -/
def finishNumber (st : Nat) (buf : Str) (rest : Str) : Lexed :=
  if st = 1 then
    match parseI64 buf with
    | some v => ⟨.number (.int v), rest⟩
    | none => ⟨.error, rest⟩
  else if st = 2 ∨ st = 4 then
    if buf.length = 1 then ⟨.other, rest⟩          -- special case '.': Token::Separator
    else match parseF64 buf with
      | some (neg, n, d) => ⟨.number (.dbl neg n d), rest⟩
      | none => ⟨.error, rest⟩
  else if st = 3 ∨ st = 6 then ⟨.error, rest⟩       -- "missing exponent in number"
  else if st = 5 then ⟨.other, rest⟩                -- Operator::Minus
  else ⟨.error, rest⟩                               -- "internal error"

/-- `ExpressionLexer::read_number`.  The third argument is the input starting with the *current*
character `c`; `[]` is the virtual `'\0'` that `next_char` returns at the end of the text.
States: 0 init, 1 integer part, 2 fraction, 3 after E, 4 exponent, 5 after leading '-', 6 sign after E.
`push_back` = the current character stays in the returned rest. -/
def readNumber : Nat → Str → Str → Lexed
  | st, buf, [] => finishNumber st buf []
  | st, buf, c :: rest =>
    if c = 46 then
      if st = 0 ∨ st = 1 ∨ st = 5 then readNumber 2 (buf ++ [c]) rest
      else finishNumber st buf (c :: rest)
    else if isDigit c then
      readNumber (if st = 0 ∨ st = 5 then 1 else if st = 3 ∨ st = 6 then 4 else st) (buf ++ [c]) rest
    else if c = 43 then
      if st = 0 then ⟨.other, rest⟩                 -- Operator::Plus, '+' consumed
      else if st = 5 then ⟨.other, c :: rest⟩       -- push_back, Operator::Minus
      else if st = 3 then readNumber 6 (buf ++ [c]) rest
      else finishNumber st buf (c :: rest)
    else if c = 45 then
      if st = 0 then readNumber 5 (buf ++ [c]) rest
      else if st = 3 then readNumber 6 (buf ++ [c]) rest
      else if st = 5 then ⟨.other, c :: rest⟩       -- push_back, Operator::Minus
      else finishNumber st buf (c :: rest)
    else if c = 69 ∨ c = 101 then
      if st = 1 ∨ st = 2 then readNumber 3 (buf ++ [c]) rest
      else if st = 5 then ⟨.other, rest⟩            -- Operator::Minus, the 'e' is NOT pushed back
      else finishNumber st buf (c :: rest)
    else
      -- `if c != '\0' { push_back }`: a real NUL character is swallowed
      finishNumber st buf (if c = 0 then rest else c :: rest)

/-- `ExpressionLexer::eat_space` -/
def eatSpace : Str → Str
  | [] => []
  | c :: r => if isWs c then eatSpace r else c :: r

def kwTrue : Str := [116, 114, 117, 101]
def kwFalse : Str := [102, 97, 108, 115, 101]
def kwNull : Str := [110, 117, 108, 108]

/-- the `match self.buffer.as_str()` at the end of an identifier -/
def identOf (buf : Str) (rest : Str) : Lexed :=
  if buf = kwTrue ∨ buf = kwFalse ∨ buf = kwNull then ⟨.other, rest⟩ else ⟨.ident buf, rest⟩

/-- the identifier loop of `next_token_with_stop` (buffer non-empty from the second character on) -/
def readIdent : Str → Str → Lexed
  | buf, [] => identOf buf []
  | buf, c :: rest =>
    if isStop c then identOf buf (if c = 0 then rest else c :: rest)
    else readIdent (buf ++ [c]) rest

/-- `ExpressionLexer::next_token()` as far as `parse_duration_to_milliseconds` can observe it.
A token that starts with a stop character (string, operator, bracket, separator, EOE) is `other`;
the rest of the input after such a token is not tracked because the caller stops there
(`read_string` always terminates: `next_char` yields `'\0'` at the end). -/
def nextToken (s : Str) : Lexed :=
  match eatSpace s with
  | [] => ⟨.other, []⟩                                         -- EOE
  | c :: rest =>
    if isDigit c = true ∨ c = 45 ∨ c = 43 ∨ c = 46 then readNumber 0 [] (c :: rest)
    else if isStop c then ⟨.other, rest⟩
    else readIdent [c] rest

/-- milliseconds per unit; exactly the spellings the `match unit.as_str()` accepts -/
def unitMult (u : Str) : Option Nat :=
  if u = [68] ∨ u = [100] then some 86400000          -- "D" | "d"
  else if u = [72] ∨ u = [104] then some 3600000      -- "H" | "h"
  else if u = [77] ∨ u = [109] then some 60000        -- "M" | "m"
  else if u = [83] ∨ u = [115] then some 1000         -- "S" | "s"
  else if u = [77, 83] ∨ u = [109, 115] then some 1   -- "MS" | "ms"
  else none

/-- `f64::round` (half away from zero) of `num/den`, `den > 0` -/
def roundHalfAway (num den : Nat) : Nat := (2 * num + den) / (2 * den)

/-- `(v * mult).round() as i64` with `as` saturating; exact decimal arithmetic instead of `f64`
(ASSUMPTION of the tie: the harness compares only where both agree, see notes/timer.md). -/
def toMillis (n : Num) (mult : Nat) : Int :=
  match n with
  | .int v =>
    if v ≥ 0 then ((min (v.toNat * mult) i64Max : Nat) : Int)
    else -((min ((-v).toNat * mult) (i64Max + 1) : Nat) : Int)
  | .dbl neg num den =>
    let r := roundHalfAway (num * mult) den
    if neg then -((min r (i64Max + 1) : Nat) : Int) else ((min r i64Max : Nat) : Int)

/-- `parse_duration_to_milliseconds`: empty ⇒ 0; no number ⇒ −1; number but no identifier after
it ⇒ 0 (!); unknown unit ⇒ −1. -/
def parseDuration (d : Str) : Int :=
  if d = [] then 0 else
  match nextToken d with
  | ⟨.number n, rest⟩ =>
    match nextToken rest with
    | ⟨.ident u, _⟩ =>
      match unitMult u with
      | some m => toMillis n m
      | none => -1
    | _ => 0
  | _ => -1

/-! ### The CSS2 time grammar, written independently of the lexer

`\d*(\.\d+)?(ms|s|m|h|d)` with at least one digit (CSS2 `num = [0-9]+ | [0-9]*\.[0-9]+`). -/

def css2Units : List (Str × Nat) :=
  [([109, 115], 1), ([115], 1000), ([109], 60000), ([104], 3600000), ([100], 86400000)]

/-- the duration text for integer digits `ip`, fraction digits `fp` and unit `u` -/
def css2Text (ip fp u : Str) : Str := ip ++ (if fp = [] then [] else 46 :: fp) ++ u

/-- the value the grammar assigns: `ip.fp × unit`, rounded half up, in milliseconds -/
def css2Value (ip fp : Str) (mult : Nat) : Nat :=
  roundHalfAway (digitsVal (ip ++ fp) * mult) (10 ^ fp.length)

/-- the optional fraction `(\.\d+)?`: `(fraction digits, rest, well-formed)` -/
def css2Frac : Str → Str × Str × Bool
  | 46 :: r => (r.takeWhile isDigit, r.dropWhile isDigit, !(r.takeWhile isDigit).isEmpty)
  | r => ([], r, true)

/-- recogniser: `some ms` iff the whole string is in the language -/
def css2 (s : Str) : Option Nat :=
  let ip := s.takeWhile isDigit
  let fr := css2Frac (s.dropWhile isDigit)
  if fr.2.2 && !(ip.isEmpty && fr.1.isEmpty) then
    match css2Units.lookup fr.2.1 with
    | some m => some (css2Value ip fr.1 m)
    | none => none
  else none

/-! ## Part 2 — the per-session timer -/

abbrev SendId := Str

/-- `SCXML_TARGET_INTERNAL` = "#_internal" -/
def internalTarget : Str := [35, 95, 105, 110, 116, 101, 114, 110, 97, 108]

/-- one scheduled closure in the timer's heap -/
structure Entry (ε : Type) where
  /-- `Utc::now() + delay` -/
  due : Nat
  /-- order of scheduling (the model's stand-in for the strictly increasing clock readings) -/
  seq : Nat
  sendid : Option SendId
  target : Str
  /-- the `Event` built when the `<send>` executed and moved into the closure -/
  event : ε
  deriving DecidableEq

structure Delivery (ε : Type) where
  time : Nat
  /-- `true`: the scheduled closure ran on the timer thread; `false`: `delay_ms == 0`, sent directly -/
  viaTimer : Bool
  entry : Entry ε
  /-- what the receiving session reads as the event: the `Data` values of the closure's `Event` are
  deep copies (`Data::deep_clone` in `evaluate_params`, the namelist loop and `<content>`), they share
  no cell with the sender's datamodel, so this is the event as it was built -/
  seen : ε
  deriving DecidableEq

/-- one session's state as far as delayed sends are concerned -/
structure Timer (δ ε : Type) where
  now : Nat
  /-- `false` once the session thread has ended (`exitInterpreter` has dropped every guard; the `Fsm`
  and with it `Fsm.timer` are dropped: `TimerBase::drop` *sends* `Op::Stop` to the timer's threads) -/
  alive : Bool
  /-- `true` once the scheduler thread has taken `Op::Stop` out of its mailbox and returned -/
  stopped : Bool
  nextSeq : Nat
  /-- the datamodel -/
  data : δ
  /-- the timer heap in pop order: sorted by (due, seq) -/
  pending : List (Entry ε)
  /-- `GlobalData.delayed_send`: send id (`none` for a send without id) ↦ the guards of ALL pending
  sends with that id; a guard is named by the serial number of its send = the `seq` of its schedule.
  Flattened to a list of (key, serial). -/
  delayed : List (Option SendId × Nat)
  /-- what was handed to the I/O processor, in order -/
  log : List (Delivery ε)
  /-- `error.execution` raised by `<send>` (negative delay, delayed `#_internal`, a delay that leads
  beyond the last date `chrono` can represent) -/
  errors : Nat
  /-- milliseconds from now to the largest date `chrono` can represent (≈ 8.2·10^15; constant on the
  time scale of the model) -/
  headroom : Nat

def Timer.initFull (headroom : Nat) (d : δ) : Timer δ ε :=
  { now := 0, alive := true, stopped := false, nextSeq := 0, data := d, pending := [], delayed := [], log := [],
    errors := 0, headroom := headroom }

/-- `DateTime::<Utc>::MAX_UTC` (31 Dec 262142) minus September 2026, in ms, rounded down -/
def chronoHeadroom : Nat := 8210000000000000

def Timer.init (d : δ) : Timer δ ε := Timer.initFull chronoHeadroom d

/-- is a guard with serial `g` registered under `key`? -/
def hasGuard (m : List (Option SendId × Nat)) (key : Option SendId) (g : Nat) : Bool := m.contains (key, g)

/-- `BinaryHeap::push` seen through pop order: after every entry that is due no later -/
def insertEntry (e : Entry ε) : List (Entry ε) → List (Entry ε)
  | [] => [e]
  | x :: xs => if x.due ≤ e.due then x :: insertEntry e xs else e :: x :: xs

/-- `SendParameters::execute` from the point where `delay_ms` is known; `mk` is everything that is
evaluated from the datamodel (event name, params, content, target …), `delay` the value of
`parse_duration_to_milliseconds(delayexpr)` or the reader's `delay_ms`. -/
def Timer.send (t : Timer δ ε) (id : Option SendId) (target : Str) (delay : Int) (mk : δ → ε) : Timer δ ε :=
  if t.alive = false then t
  else if delay < 0 then { t with errors := t.errors + 1 }
  else if 0 < delay ∧ target = internalTarget then { t with errors := t.errors + 1 }
  else if t.headroom < delay.toNat then
    -- `Fsm::schedule`: `Utc::now().checked_add_signed(delay)` is `None` ⇒ `Err`, nothing is scheduled,
    -- `<send>` fails with error.execution like any other illegal delay
    { t with errors := t.errors + 1 }
  else
    let ev := mk t.data
    let seq := t.nextSeq
    if delay = 0 then
      { t with nextSeq := seq + 1,
               log := t.log ++ [⟨t.now, false, ⟨t.now, seq, id, target, ev⟩, ev⟩] }
    else
      let e : Entry ε := ⟨t.now + delay.toNat, seq, id, target, ev⟩
      -- `delayed_send.entry(send_id).or_default().push((serial, guard))`: with or without id, next to
      -- whatever is registered under that id already
      { t with nextSeq := seq + 1, pending := insertEntry e t.pending, delayed := (id, seq) :: t.delayed }

/-- `Cancel::execute`: `delayed_send.remove(Some(send_id))` drops every guard registered under the id:
those closures will be skipped -/
def Timer.cancel (t : Timer δ ε) (id : SendId) : Timer δ ε :=
  if t.alive = false then t
  else { t with delayed := t.delayed.filter (fun p => p.1 ≠ some id),
                pending := t.pending.filter (fun e => !hasGuard t.delayed (some id) e.seq) }

/-- the scheduled closure of entry `e` (already popped): it takes its own guard (its serial number
under its send id) out of `delayed_send` — no other — then the event is handed to the I/O processor -/
def fireOne (t : Timer δ ε) (e : Entry ε) (rest : List (Entry ε)) : Timer δ ε :=
  { t with pending := rest, delayed := t.delayed.filter (fun p => p ≠ (e.sendid, e.seq)),
           log := t.log ++ [⟨t.now, true, e, e.event⟩] }

/-- the scheduler loop: pop while the first entry is due -/
def fireLoop : Nat → Timer δ ε → Timer δ ε
  | 0, t => t
  | f + 1, t =>
    match t.pending with
    | [] => t
    | e :: rest => if e.due ≤ t.now then fireLoop f (fireOne t e rest) else t

/-- the timer thread runs (possibly later than the first due time: `now` is whatever it is).
It keeps running after the session thread has ended, until it has seen `Op::Stop`. -/
def Timer.wake (t : Timer δ ε) : Timer δ ε :=
  if t.stopped = true then t else fireLoop t.pending.length t

/-- the session thread ends: the last statement of `exitInterpreter` is `delayed_send.clear()` — every
registered guard is dropped, those closures will be skipped — then the `Fsm` is dropped ⇒
`timer::Timer` dropped ⇒ `Op::Stop` is on its way (through the communication thread) to the
scheduler thread. -/
def Timer.terminate (t : Timer δ ε) : Timer δ ε :=
  { t with alive := false, delayed := [],
           pending := t.pending.filter (fun e => !t.delayed.any (fun p => p.2 = e.seq)) }

/-- the scheduler thread drains its mailbox and finds `Op::Stop` (only ever sent by the drop):
it returns, the heap is discarded -/
def Timer.stop (t : Timer δ ε) : Timer δ ε :=
  if t.alive = true then t else { t with stopped := true, pending := [] }

def Timer.tick (t : Timer δ ε) (t' : Nat) : Timer δ ε := { t with now := max t.now t' }

def Timer.assign (t : Timer δ ε) (f : δ → δ) : Timer δ ε :=
  if t.alive = false then t else { t with data := f t.data }

inductive Op (δ ε : Type) where
  | send (id : Option SendId) (target : Str) (delay : Int) (mk : δ → ε)
  | cancel (id : SendId)
  | assign (f : δ → δ)
  /-- time passes (the timer thread does not run) -/
  | tick (t : Nat)
  /-- the timer thread runs -/
  | wake
  /-- the session thread ends (all guards dropped, the `Stop` message is sent) -/
  | terminate
  /-- the `Stop` message reaches the scheduler thread -/
  | stop

def Timer.step (t : Timer δ ε) : Op δ ε → Timer δ ε
  | .send id tg d f => t.send id tg d f
  | .cancel id => t.cancel id
  | .assign f => t.assign f
  | .tick t' => t.tick t'
  | .wake => t.wake
  | .terminate => t.terminate
  | .stop => t.stop

def Timer.run (t : Timer δ ε) : List (Op δ ε) → Timer δ ε
  | [] => t
  | op :: ops => (t.step op).run ops

/-- an ideal timer: time passes to `t'` and the timer thread runs at once -/
def Op.advance (t' : Nat) : List (Op δ ε) := [.tick t', .wake]

/-! ### Two sessions -/

inductive Sess where
  | A | B
  deriving DecidableEq, Repr

/-- two sessions: each has its own `GlobalData.delayed_send` and its own `Fsm.timer` -/
structure World (δ ε : Type) where
  a : Timer δ ε
  b : Timer δ ε

def World.step (w : World δ ε) (s : Sess) (op : Op δ ε) : World δ ε :=
  match s with
  | .A => { w with a := w.a.step op }
  | .B => { w with b := w.b.step op }

def World.run (w : World δ ε) : List (Sess × Op δ ε) → World δ ε
  | [] => w
  | (s, op) :: r => (w.step s op).run r

end Rfsm.Timer
