import Rfsm.Model.Interp
/-!
# M-EXEC — executable content (`src/executable_content.rs`) over an abstract data model

Transcribes `ExecutableContent::execute` for the nine kinds and the block runner
`Datamodel::executeContent` (as implemented by the rfsm-expression and ECMAScript data models:
run the elements of a region in order, stop at the first one that returns `false`).
What a data model does for `execute`, `execute_condition`, `assign`, `log`, `execute_for_each`,
`get_by_location`, `set` is the parameter `DMOps σ`; what the platform does with a `<send>` is
`platformSend`.  `toEnv` packages a region table and `DMOps` as the `Env` the interpreter needs.

Every evaluation site records whether the *code* raises `error.execution` there:
* `If::execute` — an erroring condition counts as false and one `error.execution` is raised
  (since the `fix:` commit; before, nothing was raised);
* `Expression`/`Log`/`ForEach`/`<send>` argument evaluation — whatever `ops.exec` raises, nothing more;
* `<send>`: illegal delay, delay with `#_internal`, failing type expression, failed dispatch —
  `error.execution` by `SendParameters::execute` itself.
-/
namespace Rfsm.Interp
open Rfsm.Descriptor (Str)

structure Param where
  name : Str
  expr : Str
  location : Str
  deriving Repr, DecidableEq, Inhabited

structure SendP where
  idLocation : Str := []
  name : Str := []
  parentState : Str := []
  event : Str := []
  eventExpr : Str := []
  target : Str := []
  targetExpr : Str := []
  typ : Str := []
  typeExpr : Str := []
  delayMs : Nat := 0
  delayExpr : Str := []
  nameList : List Str := []
  params : List Param := []
  hasContent : Bool := false
  content : Option Str := none
  contentExpr : Option Str := none
  deriving Repr, DecidableEq, Inhabited

inductive Item
  | if_ (cond : Str) (thenR elseR : Nat)
  | expr (src : Str)
  | script (regions : List Nat)
  | log (label expr : Str)
  | foreach (array item index : Str) (body : Nat)
  | send (p : SendP)
  | raise (event : Str)
  | cancel (sendid sendidExpr : Str)
  | assign (loc expr : Str)
  deriving Repr, DecidableEq, Inhabited

abbrev Regions := List (Nat × List Item)

def regionOf (rs : Regions) (id : Nat) : List Item := ((rs.find? (·.1 == id)).map (·.2)).getD []

/-- result of a data-model call made while running content -/
structure DMR (σ α : Type) where
  dm : σ
  val : α
  raised : List Event := []
  obs : List Obs := []

inductive PlatOut
  | internal        -- placed on the sender's internal queue
  | selfExternal    -- placed on the sender's own external queue
  | delivered       -- handed to another session / processor
  | failed (raised : List Event)   -- `send` returned false after raising these
  | noProcessor     -- no I/O processor of that type
  deriving Repr, DecidableEq, Inhabited

structure DMOps (σ : Type) where
  /-- `execute_condition`: `none` = `Err` -/
  cond : σ → List Nat → Str → DMR σ (Option Bool)
  /-- `execute`: `none` = `Err`, `some text` = `Ok(value)` rendered with `to_string` -/
  exec : σ → List Nat → Str → DMR σ (Option Str)
  /-- `assign(location, expr)` -/
  assign : σ → List Nat → Str → Str → DMR σ Bool
  /-- `log(msg)` -/
  log : σ → Str → DMR σ Unit
  /-- `execute_for_each` up to the first body call: `none` = returned `false` without running the
      body, `some (items, ok)` = bind each item in turn; `ok = false` means "not a collection":
      no iteration, returns `true` -/
  foreachStart : σ → List Nat → Str → Str → Str → DMR σ (Option (List Str))
  foreachBind : σ → Str → Str → Nat → Str → σ
  getByLocation : σ → List Nat → Str → DMR σ (Option Str)
  set : σ → Str → Str → σ
  setEvent : σ → Event → σ
  initData : σ → Nat → Bool → DMR σ Unit
  doneData : σ → List Nat → Nat → DMR σ Str
  /-- the platform side of `<send>` with delay 0 -/
  platformSend : σ → Str → Str → Event → PlatOut
  /-- does an I/O processor of that type exist (delayed sends only look it up) -/
  hasProcessor : σ → Str → Bool
  parseDelay : Str → Int
  invoke : σ → List Nat → Nat → Invoke → InvokeOut σ

/-- state threaded through content execution -/
structure XS (σ : Type) where
  dm : σ
  raised : List Event := []
  obs : List Obs := []
  /-- events sent to the session's own external queue -/
  selfExt : List Event := []

variable {σ : Type}

def XS.absorb {α : Type} (x : XS σ) (r : DMR σ α) : XS σ :=
  { x with dm := r.dm, raised := x.raised ++ r.raised, obs := x.obs ++ r.obs }

def scxmlProcessor : Str :=
  [104,116,116,112,58,47,47,119,119,119,46,119,51,46,111,114,103,47,84,82,47,115,99,120,109,108,47,35,83,67,88,77,76,69,118,101,110,116,80,114,111,99,101,115,115,111,114]
def targetInternal : Str := [35,95,105,110,116,101,114,110,97,108]

/-- `get_expression_alternative_value` -/
def altValue (ops : DMOps σ) (cfg : List Nat) (x : XS σ) (value expr : Str) : XS σ × Option Str :=
  if expr.isEmpty then (x, some value) else
  let r := ops.exec x.dm cfg expr
  (x.absorb r, r.val)

def errExec (sendid : Option Str) (caller : Option Str) : Event :=
  { errorExecution with sendid := sendid, invokeId := caller }

/-- `evaluate_params` (errors are skipped; `get_by_location` / `execute` raise what they raise,
    and for `expr` the trait adds one `error.execution`) -/
def evalParams (ops : DMOps σ) (cfg : List Nat) : XS σ → List Param → List (Str × Str) → XS σ × List (Str × Str)
  | x, [], acc => (x, acc)
  | x, p :: ps, acc =>
    if !p.location.isEmpty then
      let r := ops.getByLocation x.dm cfg p.location
      match r.val with
      | some v => evalParams ops cfg (x.absorb r) ps (acc ++ [(p.name, v)])
      | none => evalParams ops cfg (x.absorb r) ps acc
    else if !p.expr.isEmpty then
      let r := ops.exec x.dm cfg p.expr
      match r.val with
      | some v => evalParams ops cfg (x.absorb r) ps (acc ++ [(p.name, v)])
      | none => evalParams ops cfg { (x.absorb r) with raised := (x.absorb r).raised ++ [errorExecution] } ps acc
    else evalParams ops cfg x ps acc

def nameListValues (ops : DMOps σ) (cfg : List Nat) : XS σ → List Str → List (Str × Str) → XS σ × Option (List (Str × Str))
  | x, [], acc => (x, some acc)
  | x, n :: ns, acc =>
    let r := ops.getByLocation x.dm cfg n
    match r.val with
    | some v => nameListValues ops cfg (x.absorb r) ns (acc ++ [(n, v)])
    | none => (x.absorb r, none)

def encodePairs (l : List (Str × Str)) : Str :=
  l.flatMap (fun (k, v) => k ++ [61] ++ v ++ [59])

/-- `SendParameters::execute`; returns the events for the sender's own external queue as well -/
def execSend (ops : DMOps σ) (cfg : List Nat) (caller : Option Str) (p : SendP) (x : XS σ) : XS σ × Bool :=
  match altValue ops cfg x p.target p.targetExpr with
  | (x, none) => ({ x with raised := x.raised ++ [errorExecution] }, false)
  | (x, some target) =>
  match altValue ops cfg x p.event p.eventExpr with
  | (x, none) => ({ x with raised := x.raised ++ [errorExecution] }, false)
  | (x, some evName) =>
  -- generated ids (idlocation) come from a global counter: the id is reported, not predicted
  let (x, sendid) : XS σ × Option Str :=
    if p.idLocation.isEmpty then (x, if p.name.isEmpty then none else some p.name)
    else ({ x with dm := ops.set x.dm p.idLocation (p.parentState ++ [46, 63]) }, some (p.parentState ++ [46, 63]))
  let step4 : XS σ × Option (Str) :=
    if p.hasContent then
      match p.contentExpr with
      | none => (x, some (p.content.getD []))
      | some e =>
        let r := ops.exec x.dm cfg e
        match r.val with
        | some v => (x.absorb r, some v)
        | none => ({ (x.absorb r) with raised := (x.absorb r).raised ++ [errorExecution] }, some [])
    else
      let (x, pv) := evalParams ops cfg x p.params []
      match nameListValues ops cfg x p.nameList pv with
      | (x, none) => (x, none)
      | (x, some all) => (x, some (encodePairs all))
  match step4 with
  | (x, none) => (x, false)
  | (x, some payload) =>
  let step5 : XS σ × Option Int :=
    if !p.delayExpr.isEmpty then
      let r := ops.exec x.dm cfg p.delayExpr
      match r.val with
      | none => (x.absorb r, none)
      | some v => (x.absorb r, some (ops.parseDelay v))
    else (x, some (Int.ofNat p.delayMs))
  match step5 with
  | (x, none) => ({ x with raised := x.raised ++ [errExec sendid caller] }, false)
  | (x, some delay) =>
  if delay < 0 then ({ x with raised := x.raised ++ [errExec sendid caller] }, false)
  else if delay > 0 && target == targetInternal then ({ x with raised := x.raised ++ [errExec sendid caller] }, false)
  else
  match altValue ops cfg x p.typ p.typeExpr with
  | (x, none) => ({ x with raised := x.raised ++ [errExec sendid caller] }, false)
  | (x, some ty) =>
  let ty := if ty.isEmpty then scxmlProcessor else ty
  let ev : Event := { name := evName, etype := 2, sendid := sendid, invokeId := caller, data := payload }
  if delay > 0 then
    if ops.hasProcessor x.dm ty then
      (x, true)
    else ({ x with raised := x.raised ++ [errExec sendid caller] }, false)
  else
    match ops.platformSend x.dm ty target ev with
    | .internal => ({ x with raised := x.raised ++ [{ ev with etype := 1, originType := some scxmlProcessor }] }, true)
    | .selfExternal => ({ x with selfExt := x.selfExt ++ [{ ev with originType := some scxmlProcessor }] }, true)
    | .delivered => (x, true)
    | .failed raised => ({ x with raised := x.raised ++ raised ++ [errExec sendid caller] }, false)
    | .noProcessor => ({ x with raised := x.raised ++ [errExec sendid caller] }, false)

mutual
/-- one element; `false` aborts the enclosing block -/
def execItem (ops : DMOps σ) (rs : Regions) (cfg : List Nat) (caller : Option Str) :
    Nat → Item → XS σ → XS σ × Bool
  | 0, _, x => (x, true)
  | f + 1, it, x =>
    match it with
    | .if_ c thenR elseR =>
      let r := ops.cond x.dm cfg c
      let x := x.absorb r
      -- an erroring condition counts as false and `If::execute` raises error.execution
      let x := if r.val.isNone then { x with raised := x.raised ++ [errorExecution] } else x
      if r.val.getD false then
        if thenR != 0 then execItems ops rs cfg caller f (regionOf rs thenR) x else (x, true)
      else if elseR != 0 then execItems ops rs cfg caller f (regionOf rs elseR) x
      else (x, true)
    | .expr src =>
      let r := ops.exec x.dm cfg src
      -- `Expression::execute` raises error.execution itself when the data model reports an error
      let x := x.absorb r
      (if r.val.isNone then { x with raised := x.raised ++ [errorExecution] } else x, r.val.isSome)
    | .script regions => execRegions ops rs cfg caller f regions x
    | .log _ e =>
      let r := ops.exec x.dm cfg e
      match r.val with
      | some msg => ((x.absorb r).absorb (ops.log r.dm msg), true)
      | none => ({ (x.absorb r) with raised := (x.absorb r).raised ++ [errorExecution] }, false)
    | .foreach array item index body =>
      let idx := if index.isEmpty then [95,95,36,105,110,100,101,120] else index
      let r := ops.foreachStart x.dm cfg array item idx
      let x := x.absorb r
      match r.val with
      | none => (x, false)
      | some items => foreachLoop ops rs cfg caller f item idx body items 0 x
    | .send p => execSend ops cfg caller p x
    | .raise e => ({ x with raised := x.raised ++ [{ name := e, etype := 1 }] }, true)
    | .cancel sendid sendidExpr =>
      match altValue ops cfg x sendid sendidExpr with
      -- removes the guard of the delayed send registered under that id (invisible here)
      | (x, some _) => (x, true)
      | (x, none) => ({ x with raised := x.raised ++ [errorExecution] }, true)
    | .assign loc e =>
      let r := ops.assign x.dm cfg loc e
      (x.absorb r, r.val)

/-- elements in order, stopping at the first `false` -/
def execItems (ops : DMOps σ) (rs : Regions) (cfg : List Nat) (caller : Option Str) :
    Nat → List Item → XS σ → XS σ × Bool
  | 0, _, x => (x, true)
  | _ + 1, [], x => (x, true)
  | f + 1, it :: rest, x =>
    match execItem ops rs cfg caller f it x with
    | (x, true) => execItems ops rs cfg caller f rest x
    | (x, false) => (x, false)

/-- `Script::execute`: regions by id through `Datamodel::executeContent` -/
def execRegions (ops : DMOps σ) (rs : Regions) (cfg : List Nat) (caller : Option Str) :
    Nat → List Nat → XS σ → XS σ × Bool
  | 0, _, x => (x, true)
  | _ + 1, [], x => (x, true)
  | f + 1, r :: rest, x =>
    match execItems ops rs cfg caller f (regionOf rs r) x with
    | (x, true) => execRegions ops rs cfg caller f rest x
    | (x, false) => (x, false)

def foreachLoop (ops : DMOps σ) (rs : Regions) (cfg : List Nat) (caller : Option Str) :
    Nat → Str → Str → Nat → List Str → Nat → XS σ → XS σ × Bool
  | 0, _, _, _, _, _, x => (x, true)
  | _ + 1, _, _, _, [], _, x => (x, true)
  | f + 1, item, index, body, v :: vs, i, x =>
    let x := { x with dm := ops.foreachBind x.dm item index i v }
    let (x, ok) := if body != 0 then execItems ops rs cfg caller f (regionOf rs body) x else (x, true)
    if ok then foreachLoop ops rs cfg caller f item index body vs (i + 1) x else (x, false)
end

/-- fuel that always suffices for a region table without cyclic references:
    every unfolding consumes one of (items + nesting) -/
def execFuel (rs : Regions) : Nat := 4 * (rs.foldl (fun n r => n + r.2.length + 1) 0) + 64

/-- `Datamodel::executeContent(fsm, id)` -/
def execContent (ops : DMOps σ) (rs : Regions) (caller : Option Str) (dm : σ) (cfg : List Nat) (id : Nat) : ExecOut σ :=
  let (x, _) := execItems ops rs cfg caller (execFuel rs) (regionOf rs id) { dm := dm }
  { dm := x.dm, raised := x.raised, obs := x.obs, selfExt := x.selfExt }

def toEnv (ops : DMOps σ) (rs : Regions) (caller : Option Str) : Env σ where
  cond dm cfg c :=
    let r := ops.cond dm cfg c
    ({ dm := r.dm, raised := r.raised, obs := r.obs }, r.val)
  exec := execContent ops rs caller
  setEvent := ops.setEvent
  initData dm s b := let r := ops.initData dm s b; { dm := r.dm, raised := r.raised, obs := r.obs }
  doneData dm cfg s := let r := ops.doneData dm cfg s; ({ dm := r.dm, raised := r.raised, obs := r.obs }, r.val)
  invoke := ops.invoke

end Rfsm.Interp
