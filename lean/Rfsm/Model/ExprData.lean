import Rfsm.Model.ExprParser
/-
M-EXPR, part 3a: values, the heap of cells, and the operator functions.

Transcribes from `/repo/src/datamodel/mod.rs`:
  `Data`, `DataArc` (`Ref` = cell id + the handle's `flags`), `create_data_arc`,
  `PartialEq for Data`, `PartialEq for DataArc`, `Display for Data` / `DataArc::print`,
  `data_to_string` / `data_arc_to_string`, `Data::{is_numeric, as_number}`, `numeric_to_integer`,
  `operation_{plus,minus,multiply,divide,modulus,and,or,less,less_equal,greater,greater_equal,
  equal,not_equal}` and `ExpressionOperator::operation` (expressions.rs).

A cell is one `Arc<Mutex<Data>>`.  `held` is the set of cells whose mutex the evaluating thread
holds: `lock()` on a held cell is the outcome `deadlock` (std `Mutex` is not re-entrant),
`try_lock()` on a held cell fails (`<locked arc>` / `Err("locked")`).  Integer `%` panics like Rust
(`x % 0`, `i64::MIN % -1`).  Doubles go through an abstract `DoubleOps`.

Maps (`HashMap<String, DataArc>`) are association lists kept sorted by key; the iteration order of
the Rust `HashMap` is unspecified, so text made from a map with ≥ 2 entries is only determined up
to the order of the entries (the harness compares such text modulo entry order).

Core Lean only.
-/
namespace Rfsm.Expr

/-- `f64` as far as the expression engine uses it -/
structure DoubleOps (D : Type) where
  add : D → D → D
  sub : D → D → D
  mul : D → D → D
  div : D → D → D
  rem : D → D → D
  lt : D → D → Bool
  le : D → D → Bool
  eq : D → D → Bool
  isNaN : D → Bool
  abs : D → D
  ofInt : Int → D
  /-- `numeric_to_integer` on a Double: `fract().abs() < 0.001` and in `i64` range → `as i64` -/
  toIndex : D → Option Int
  /-- `str::parse::<f64>` on a literal the lexer accepted -/
  parse : Str → D
  /-- `f64::to_string` -/
  toStr : D → Str

def sOf (s : String) : Str := s.toList.map Char.toNat

/-- error kinds: both `Err(String)` results of `execute` and payloads of `Data::Error` -/
inductive EvErr
  | parse (e : PErr)
  | varNotFound (name : Str)
  | cantIndex | indexNotFound (key : Str) | locked | indexOutOfRange | illegalIndexType
  | noMembers | memberNotFound (name : Str)
  | readOnly | cantAssignFrom | cantAssignTo
  | notNonBoolean
  | actionNotFound (name : Str)
  | actionArgs (name : Nat)          -- "Wrong (number of) arguments for '<action>'"
  | actionType (name : Nat)          -- "Illegal / wrong argument type(s) for '<action>'"
  | opInternal (o : Op)              -- "Internal Error in '<op>' operation"
  | opWrongTypes (o : Op)            -- "Wrong argument types for '<op>'"
  | divideNaN                        -- "Result of '/' is NaN"
  | remUndefined                     -- "Result of '%' is undefined (division by zero)"
  | greaterUnsupported               -- "'>' supports only numeric or string types"
  | internal                         -- "Internal Error"
  | illegalResultArray | illegalResultMap
  | scriptError (inner : EvErr)      -- "Script Error: <src> => <inner>"
  | text (s : Str)                   -- any other text (initial store contents)
  deriving DecidableEq, Repr, Inhabited

/-- `DataArc`: which cell, and the handle's read-only flag -/
structure Ref where
  id : Nat
  ro : Bool
  deriving DecidableEq, Repr, Inhabited

/-- `enum Data` -/
inductive Data (D : Type)
  | int (i : Int)
  | dbl (d : D)
  | str (s : Str)
  | bool (b : Bool)
  | array (items : List Ref)
  | map (fields : List (Str × Ref))
  | null
  | error (e : EvErr)
  | source (text : Str) (id : Nat)
  | none
  deriving Repr, Inhabited

abbrev Cells (D : Type) := List (Data D)

def getCell {D} (cells : Cells D) (i : Nat) : Data D := cells.getD i .none

/-! ### strings and maps -/

def strLt : Str → Str → Bool
  | [], [] => false
  | [], _ :: _ => true
  | _ :: _, [] => false
  | a :: as, b :: bs => if a < b then true else if b < a then false else strLt as bs

def strLe (a b : Str) : Bool := !strLt b a

def mapGet (m : List (Str × Ref)) (k : Str) : Option Ref :=
  match m with
  | [] => none
  | (k', v) :: rest => if k' == k then some v else mapGet rest k

/-- `HashMap::insert` on the sorted association list -/
def mapInsert (m : List (Str × Ref)) (k : Str) (v : Ref) : List (Str × Ref) :=
  match m with
  | [] => [(k, v)]
  | (k', v') :: rest =>
    if k' == k then (k, v) :: rest
    else if strLt k k' then (k, v) :: (k', v') :: rest
    else (k', v') :: mapInsert rest k v

/-- `HashMap::extend` -/
def mapExtend (m : List (Str × Ref)) : List (Str × Ref) → List (Str × Ref)
  | [] => m
  | (k, v) :: rest => mapExtend (mapInsert m k v) rest

def natToStr (n : Nat) : Str := (Nat.toDigits 10 n).map Char.toNat

def intToStr (i : Int) : Str :=
  if i < 0 then 45 :: natToStr i.natAbs else natToStr i.natAbs

def joinWith (sep : Str) : List Str → Str
  | [] => []
  | [x] => x
  | x :: rest => x ++ sep ++ joinWith sep rest

def utf8Len (c : Ch) : Nat := if c < 128 then 1 else if c < 2048 then 2 else if c < 65536 then 3 else 4
def utf8LenStr (s : Str) : Nat := (s.map utf8Len).foldl (· + ·) 0

def opText : Op → Str
  | .plus => [43] | .minus => [45] | .multiply => [42] | .divide => [47] | .modulus => [37]
  | .and => [38] | .or => [124] | _ => [63]

/-- text of the fixed-text errors (used only when an error value is printed) -/
def EvErr.toText : EvErr → Str
  | .opInternal o => sOf "Internal Error in '" ++ opText o ++ sOf "' operation"
  | .opWrongTypes o => sOf "Wrong argument types for '" ++ opText o ++ sOf "'"
  | .divideNaN => sOf "Result of '/' is NaN"
  | .remUndefined => sOf "Result of '%' is undefined (division by zero)"
  | .greaterUnsupported => sOf "'>' supports only numeric or string types"
  | .internal => sOf "Internal Error"
  | .text s => s
  | .varNotFound n => sOf "Variable '" ++ n ++ sOf "' not found"
  | .locked => sOf "locked"
  | _ => sOf "?"

/-! ### Display and data_to_string -/

def lockedArc : Str := sOf "<locked arc>"

/-- `Display for Data`; `rec held r` prints a `DataArc` (`try_lock`) -/
def dispData {D} (ops : DoubleOps D) (rec : Ref → Str) : Data D → Str
  | .int i => intToStr i
  | .dbl d => ops.toStr d
  | .str s => s
  | .bool b => if b then sOf "true" else sOf "false"
  | .array items => [91] ++ joinWith [44] (items.map rec) ++ [93]
  | .map fields =>
    [123] ++ joinWith [44] (fields.map fun (k, v) => [39] ++ k ++ [39, 58] ++ rec v) ++ [125]
  | .null => sOf "null"
  | .error e => sOf "Error " ++ e.toText
  | .source t _ => t
  | .none => []

/-- `DataArc::print`: `try_lock`, the guard is held while the content is printed -/
def dispRef {D} (ops : DoubleOps D) (cells : Cells D) : Nat → List Nat → Ref → Str
  | 0, _, _ => lockedArc
  | fuel + 1, held, r =>
    if held.contains r.id then lockedArc
    else dispData ops (dispRef ops cells fuel (r.id :: held)) (getCell cells r.id)

/-- `Data::to_string()` of a value the thread already has access to -/
def dispTop {D} (ops : DoubleOps D) (cells : Cells D) (held : List Nat) (d : Data D) : Str :=
  dispData ops (dispRef ops cells (cells.length + 1) held) d

def seqExcept {ε α} : List (Except ε α) → Except ε (List α)
  | [] => .ok []
  | .error e :: _ => .error e
  | .ok a :: rest => match seqExcept rest with | .ok l => .ok (a :: l) | .error e => .error e

/-- `data_to_string`; `rec` is `data_arc_to_string` -/
def dataToString {D} (ops : DoubleOps D) (rec : Ref → Except EvErr Str) : Data D → Except EvErr Str
  | .error e => .error e
  | .none => .ok (sOf "none")
  | .null => .ok (sOf "null")
  | .str s => .ok s
  | .source t _ => .ok t
  | .int i => .ok (intToStr i)
  | .dbl d => .ok (ops.toStr d)
  | .bool b => .ok (if b then sOf "true" else sOf "false")
  | .array items =>
    match seqExcept (items.map rec) with
    | .ok l => .ok (joinWith [44] l)
    | .error e => .error e
  | .map fields =>
    match seqExcept (fields.map fun (k, v) => (rec v).map fun s => k ++ [58] ++ s) with
    | .ok l => .ok (joinWith [44] l)
    | .error e => .error e

/-- `data_arc_to_string`: `try_lock` or `Err("locked")` -/
def arcToString {D} (ops : DoubleOps D) (cells : Cells D) : Nat → List Nat → Ref → Except EvErr Str
  | 0, _, _ => .error .locked
  | fuel + 1, held, r =>
    if held.contains r.id then .error .locked
    else dataToString ops (arcToString ops cells fuel (r.id :: held)) (getCell cells r.id)

/-! ### equality -/

inductive Cmp
  | yes | no | deadlock | fuelOut
  deriving DecidableEq, Repr, Inhabited

/-- conjunction with early exit, as the `for` loops with `return false` -/
def allCmp : List (Unit → Cmp) → Cmp
  | [] => .yes
  | f :: rest => match f () with | .yes => allCmp rest | r => r

def zipRefs : List Ref → List Ref → List (Ref × Ref)
  | a :: as, b :: bs => (a, b) :: zipRefs as bs
  | _, _ => []

/-- `PartialEq for Data`; `rec` is `DataArc::eq` -/
def eqData {D} (ops : DoubleOps D) (rec : Ref → Ref → Cmp) (a b : Data D) : Cmp :=
  let ofB (x : Bool) : Cmp := if x then .yes else .no
  match a, b with
  | .int x, .dbl y => ofB (ops.eq (ops.ofInt x) y)
  | .int x, .int y => ofB (x == y)
  | .dbl x, .dbl y => ofB (ops.eq x y)
  | .dbl x, .int y => ofB (ops.eq x (ops.ofInt y))
  | .str x, .str y => ofB (x == y)
  | .bool x, .bool y => ofB (x == y)
  | .array x, .array y =>
    if x.length != y.length then .no
    else allCmp ((zipRefs x y).map fun (p, q) => fun _ => rec p q)
  | .map x, .map y =>
    if x.length != y.length then .no
    else allCmp (x.map fun (k, v) => fun _ =>
      match mapGet y k with
      | some w => rec v w
      | none => .no)
  | .null, .null => .yes
  | .error x, .error y => ofB (x == y)
  | .source x _, .source y _ => ofB (x == y)
  | .none, .none => .yes
  | _, _ => .no

/-- `PartialEq for DataArc`: same `Arc` or lock both and compare -/
def eqArc {D} (ops : DoubleOps D) (cells : Cells D) : Nat → List Nat → Ref → Ref → Cmp
  | 0, _, _, _ => .fuelOut
  | fuel + 1, held, x, y =>
    if x.id == y.id then .yes
    else if held.contains x.id || held.contains y.id then .deadlock
    else eqData ops (eqArc ops cells fuel (x.id :: y.id :: held)) (getCell cells x.id) (getCell cells y.id)

/-! ### integers -/

def clampI64 (v : Int) : Int := if v < i64Min then i64Min else if i64Max < v then i64Max else v
def satAdd (a b : Int) : Int := clampI64 (a + b)
def satSub (a b : Int) : Int := clampI64 (a - b)
def satMul (a b : Int) : Int := clampI64 (a * b)

/-! ### the operator functions -/

inductive PanicSite
  | parserInternal   -- `panic!("Internal error")` in stack_to_expression
  deriving DecidableEq, Repr, Inhabited

inductive OpRes (D : Type)
  | val (d : Data D) (newCells : List (Data D))
  | deadlock
  | fuelOut
  deriving Repr

def isNumeric {D} : Data D → Bool
  | .int _ => true | .dbl _ => true | .null => true | _ => false

/-- `as_number` restricted to the numeric kinds (the only ones it is called on by the operators) -/
def asNumber {D} (ops : DoubleOps D) : Data D → D
  | .int i => ops.ofInt i
  | .dbl d => d
  | _ => ops.ofInt 0

def isTextual {D} : Data D → Bool
  | .str _ => true | .source _ _ => true | _ => false

/-- `numeric_to_integer` -/
def numericToInteger {D} (ops : DoubleOps D) : Data D → Option Int
  | .int i => some i
  | .dbl d => ops.toIndex d
  | _ => none

/-- arithmetic on two numeric operands: the four-way match of `operation_{plus,minus,multiply,modulus}` -/
def arith {D} (ops : DoubleOps D) (o : Op) (fd : D → D → D) (fi : Int → Int → OpRes D)
    (l r : Data D) : OpRes D :=
  match l, r with
  | .dbl a, .dbl b => .val (.dbl (fd a b)) []
  | .int a, .dbl b => .val (.dbl (fd (ops.ofInt a) b)) []
  | .dbl a, .int b => .val (.dbl (fd a (ops.ofInt b))) []
  | .int a, .int b => fi a b
  | _, _ => .val (.error (.opInternal o)) []

/-- `(Integer(_), Integer(0)) => Error`, otherwise `i1.wrapping_rem(i2)`: the truncated remainder
(`i64::MIN.wrapping_rem(-1)` is `0 = Int.tmod i64Min (-1)`) -/
def remI64 {D} (a b : Int) : OpRes D :=
  if b == 0 then .val (.error .remUndefined) []
  else .val (.int (Int.tmod a b)) []

/-- `ExpressionOperator::operation`.  `held` are the cells locked by the caller (none since the
operator works on copies of its operands), `n` is the number of cells (a new cell made by `+`
gets id `n`). -/
def operation {D} (ops : DoubleOps D) (cells : Cells D) (held : List Nat) (o : Op)
    (l r : Data D) : OpRes D :=
  let fuel := cells.length + 1
  let disp := dispTop ops cells held
  let cmp (int : Int → Int → Bool) (num : D → D → Bool) (txt : Str → Str → Bool) (other : Data D) :
      OpRes D :=
    -- two Integers are compared exactly, everything else numeric through `as_number`
    if let (.int a, .int b) := (l, r) then .val (.bool (int a b)) []
    else if isNumeric l && isNumeric r then .val (.bool (num (asNumber ops l) (asNumber ops r))) []
    else if isTextual l && isTextual r then .val (.bool (txt (disp l) (disp r))) []
    else .val other []
  match o with
  | .plus =>
    if isNumeric l && isNumeric r then
      arith ops .plus ops.add (fun a b => .val (.int (satAdd a b)) []) l r
    else
      match l, r with
      | _, .error e => .val (.error e) []
      | .error e, _ => .val (.error e) []
      | .str s, _ => .val (.str (s ++ disp r)) []
      | .source s _, _ => .val (.source (s ++ disp r) 0) []
      | .array a1, .array a2 => .val (.array (a1 ++ a2)) []
      | .array a1, _ => .val (.array (a1 ++ [⟨cells.length, false⟩])) [r]
      | _, .str s => .val (.str (disp l ++ s)) []
      | _, .source s _ => .val (.source (disp l ++ s) 0) []
      | .map m1, .map m2 => .val (.map (mapExtend m1 m2)) []
      | .bool b1, .bool b2 => .val (.bool (b1 && b2)) []
      | _, _ => .val (.error (.opWrongTypes .plus)) []
  | .and =>
    match l, r with
    | _, .error e => .val (.error e) []
    | .error e, _ => .val (.error e) []
    | .bool b1, .bool b2 => .val (.bool (b1 && b2)) []
    | _, _ => .val (.error (.opWrongTypes .and)) []
  | .or =>
    match l, r with
    | _, .error e => .val (.error e) []
    | .error e, _ => .val (.error e) []
    | .bool b1, .bool b2 => .val (.bool (b1 || b2)) []
    | _, _ => .val (.error (.opWrongTypes .or)) []
  | .minus =>
    if isNumeric l && isNumeric r then
      arith ops .minus ops.sub (fun a b => .val (.int (satSub a b)) []) l r
    else .val (.error (.opWrongTypes .minus)) []
  | .multiply =>
    if isNumeric l && isNumeric r then
      arith ops .multiply ops.mul (fun a b => .val (.int (satMul a b)) []) l r
    else .val (.error (.opWrongTypes .multiply)) []
  | .divide =>
    if isNumeric l && isNumeric r then
      let q := ops.div (asNumber ops l) (asNumber ops r)
      if ops.isNaN q then .val (.error .divideNaN) [] else .val (.dbl q) []
    else .val (.error (.opWrongTypes .divide)) []
  | .modulus =>
    if isNumeric l && isNumeric r then arith ops .modulus ops.rem remI64 l r
    else .val (.error (.opWrongTypes .modulus)) []
  | .less => cmp (fun a b => decide (a < b)) ops.lt strLt (.bool false)
  | .lessEqual => cmp (fun a b => decide (a ≤ b)) ops.le strLe (.bool false)
  | .greater => cmp (fun a b => decide (b < a)) (fun a b => ops.lt b a) (fun a b => strLt b a)
      (.error .greaterUnsupported)
  | .greaterEqual => cmp (fun a b => decide (b ≤ a)) (fun a b => ops.le b a) (fun a b => strLe b a)
      (.bool false)
  | .equal =>
    match eqData ops (eqArc ops cells fuel held) l r with
    | .yes => .val (.bool true) []
    | .no => .val (.bool false) []
    | .deadlock => .deadlock
    | .fuelOut => .fuelOut
  | .notEqual =>
    match eqData ops (eqArc ops cells fuel held) l r with
    | .yes => .val (.bool false) []
    | .no => .val (.bool true) []
    | .deadlock => .deadlock
    | .fuelOut => .fuelOut
  | .assign => .val (.error .internal) []
  | .assignUndefined => .val (.error .internal) []
  | .not => .val (.error .internal) []

end Rfsm.Expr
