/-
M-EXPR, part 1: the character-level lexer of the rfsm-expression language.

Transcribes `/repo/src/expression_engine/lexer.rs`:
  `ExpressionLexer::{next_char, push_back, is_stop, is_whitespace, is_digit, is_string_delimiter,
   eat_space, read_string, read_operator, read_number, next_token_with_stop}`.

Characters are Unicode scalar values as `Nat` (kernel friendly).  The lexer state of the Rust code
is `(text : Vec<char>, pos)`; here it is the *remaining* input `text[pos..]`.  `next_char` on an
exhausted input returns NUL without advancing; `push_back` un-reads the character just read.
`read_operator` does not un-read when `next_char` hit the end of the input (repaired: it used to
move `pos` back onto the operator character itself, so that `<`, `>`, `=`, `!` as the very last
character were delivered for ever): `readOperator`, case `[]`, leaves the empty input.

Core Lean only.
-/
namespace Rfsm.Expr

abbrev Ch := Nat
abbrev Str := List Nat

/-- `lexer.rs: enum Operator` -/
inductive Op
  | multiply | divide | plus | minus | less | lessEqual | greater | greaterEqual
  | assign | assignUndefined | equal | notEqual | and | or | modulus | not
  deriving DecidableEq, Repr, Inhabited

/-- kinds of `Token::Error` the lexer can produce (error *texts* are mapped to kinds) -/
inductive LexErr
  | missingStringDelimiter | illegalUSequence | illegalEscape | internalError
  | intParse | floatParse | missingExponent | internalNumber
  deriving DecidableEq, Repr, Inhabited

/-- `lexer.rs: enum Token`; a Double literal keeps its text (the conversion is `DoubleOps.parse`) -/
inductive Token
  | int (i : Int)
  | dbl (text : Str)
  | identifier (s : Str)
  | tstring (s : Str)
  | boolean (b : Bool)
  | operator (o : Op)
  | bracket (c : Ch)
  | separator (c : Ch)
  | exprSep
  | null
  | error (e : LexErr)
  | eoe
  deriving DecidableEq, Repr, Inhabited

def isWhitespace (c : Ch) : Bool := c == 32 || c == 10 || c == 13 || c == 9
def isDigit (c : Ch) : Bool := 48 ≤ c && c ≤ 57
def isStringDelimiter (c : Ch) : Bool := c == 39 || c == 34

/-- operator start characters of `next_token_with_stop`:  ? + - * < > = % / : ! & | -/
def isOperatorChar (c : Ch) : Bool :=
  c == 63 || c == 43 || c == 45 || c == 42 || c == 60 || c == 62 || c == 61 || c == 37 ||
  c == 47 || c == 58 || c == 33 || c == 38 || c == 124

/-- { } ( ) [ ] -/
def isBracketChar (c : Ch) : Bool :=
  c == 123 || c == 125 || c == 40 || c == 41 || c == 91 || c == 93

/-- `ExpressionLexer::is_stop` -/
def isStop (c : Ch) : Bool :=
  isWhitespace c || c == 0 || c == 46 || c == 33 || c == 44 || c == 92 ||
  c == 45 || c == 43 || c == 47 || c == 58 || c == 42 || c == 38 || c == 124 ||
  c == 60 || c == 62 || c == 61 || c == 37 || c == 63 ||
  isBracketChar c || isStringDelimiter c || c == 59

/-- `eat_space` -/
def eatSpace : Str → Str
  | [] => []
  | c :: rest => if isWhitespace c then eatSpace rest else c :: rest

/-! ### strings -/

/-- where `read_string` is inside the literal -/
inductive SMode
  | normal
  | esc
  | uni (left : Nat) (val : Nat)

/-- `read_string`: `acc` is the buffer reversed.  Returns the token and the remaining input. -/
def readString (delim : Ch) : SMode → Str → Str → Token × Str
  | .uni _ _, [], _ => (.error .illegalUSequence, [])
  | _, [], _ => (.error .missingStringDelimiter, [])
  | .uni left val, c :: rest, acc =>
    if isDigit c then
      let v := val * 16 + (c - 48)
      if left ≤ 1 then readString delim .normal rest (v :: acc)
      else readString delim (.uni (left - 1) v) rest acc
    else (.error .illegalUSequence, rest)
  | .esc, c :: rest, acc =>
    if c == 0 then (.error .missingStringDelimiter, rest)
    else if c == 34 || c == 92 || c == 47 then readString delim .normal rest (c :: acc)
    else if c == 98 then readString delim .normal rest (8 :: acc)
    else if c == 102 then readString delim .normal rest (12 :: acc)
    else if c == 110 then readString delim .normal rest (10 :: acc)
    else if c == 114 then readString delim .normal rest (13 :: acc)
    else if c == 116 then readString delim .normal rest (9 :: acc)
    else if c == 117 then readString delim (.uni 4 0) rest acc
    else (.error .illegalEscape, rest)
  | .normal, c :: rest, acc =>
    if c == 0 then (.error .missingStringDelimiter, rest)
    else if c == 92 then readString delim .esc rest acc
    else if c == delim then (.tstring acc.reverse, rest)
    else readString delim .normal rest (c :: acc)

/-! ### operators -/

/-- `read_operator`, second character is not `=`: the one-character operators `< > = !` -/
def opSingle (first : Ch) (back : Str) : Token × Str :=
  if first == 60 then (.operator .less, back)
  else if first == 62 then (.operator .greater, back)
  else if first == 61 then (.operator .assign, back)
  else if first == 33 then (.operator .not, back)
  else (.error .internalError, back)

/-- `read_operator`, second character is `=`: `?= <= >= == !=` -/
def opDouble (first : Ch) (r : Str) : Token × Str :=
  if first == 63 then (.operator .assignUndefined, r)
  else if first == 60 then (.operator .lessEqual, r)
  else if first == 62 then (.operator .greaterEqual, r)
  else if first == 61 then (.operator .equal, r)
  else if first == 33 then (.operator .notEqual, r)
  else (.error .internalError, r)

/-- `read_operator`; `rest` is the input after `first`. -/
def readOperator (first : Ch) (rest : Str) : Token × Str :=
  if first == 45 then (.operator .minus, rest)
  else if first == 43 then (.operator .plus, rest)
  else if first == 42 then (.operator .multiply, rest)
  else if first == 58 || first == 47 then (.operator .divide, rest)
  else if first == 38 then (.operator .and, rest)
  else if first == 124 then (.operator .or, rest)
  else if first == 37 then (.operator .modulus, rest)
  else
    match rest with
    | [] =>
      -- `next_char` returned NUL without advancing; no `push_back` then (`!has_next()`)
      opSingle first []
    | second :: r =>
      if second == 61 then opDouble first r
      -- `second != '\0' || self.has_next()`: a NUL character that ends the text is not un-read
      else if second == 0 && r.isEmpty then opSingle first []
      else opSingle first (second :: r)

/-! ### numbers -/

def i64Min : Int := -9223372036854775808
def i64Max : Int := 9223372036854775807

def digitsToNat : Str → Nat → Nat
  | [], acc => acc
  | c :: rest, acc => digitsToNat rest (acc * 10 + (c - 48))

/-- `buffer.parse::<i64>()` for a buffer of the form `-?[0-9]+` (all the state machine produces
in state 1) -/
def parseI64 (buf : Str) : Token :=
  let v : Int := match buf with
    | 45 :: ds => - (digitsToNat ds 0 : Int)
    | ds => (digitsToNat ds 0 : Int)
  if i64Min ≤ v && v ≤ i64Max then .int v else .error .intParse

/-- does the literal have a digit before the exponent?  (`f64::from_str` needs one) -/
def hasMantissaDigit : Str → Bool
  | [] => false
  | c :: rest => if c == 69 || c == 101 then false else if isDigit c then true else hasMantissaDigit rest

/-- the final `match state` of `read_number`; `buf` is the buffer in order -/
def finishNumber (state : Nat) (buf : Str) : Token :=
  if state == 1 then parseI64 buf
  else if state == 2 || state == 4 then
    if buf.length == 1 then .separator 46
    else if hasMantissaDigit buf then .dbl buf else .error .floatParse
  else if state == 3 || state == 6 then .error .missingExponent
  else if state == 5 then .operator .minus
  else .error .internalNumber

/-- the loop of `read_number`; the head of the input is the current character `c`, `acc` is the
buffer reversed.  An exhausted input is `c = NUL` without push-back. -/
def readNumber : Nat → Str → Str → Token × Str
  | state, [], acc => (finishNumber state acc.reverse, [])
  | state, c :: rest, acc =>
    let brk : Token × Str := (finishNumber state acc.reverse, c :: rest)
    if c == 46 then
      if state == 0 || state == 1 || state == 5 then readNumber 2 rest (c :: acc) else brk
    else if isDigit c then
      let st := if state == 0 || state == 5 then 1 else if state == 3 || state == 6 then 4 else state
      readNumber st rest (c :: acc)
    else if c == 43 then
      if state == 0 then (.operator .plus, rest)
      else if state == 5 then (.operator .minus, c :: rest)
      else if state == 3 then readNumber 6 rest (c :: acc)
      else brk
    else if c == 45 then
      if state == 0 then readNumber 5 rest (c :: acc)
      else if state == 3 then readNumber 6 rest (c :: acc)
      else if state == 5 then (.operator .minus, c :: rest)
      else brk
    else if c == 69 || c == 101 then
      if state == 1 || state == 2 then readNumber 3 rest (c :: acc)
      else if state == 5 then (.operator .minus, c :: rest)   -- `-e`: the letter is un-read
      else brk
    else if c == 0 then (finishNumber state acc.reverse, rest)   -- a real NUL is not pushed back
    else brk

/-! ### next token -/

def isTrue (s : Str) : Bool := s == [116, 114, 117, 101]
def isFalse (s : Str) : Bool := s == [102, 97, 108, 115, 101]
def isNull (s : Str) : Bool := s == [110, 117, 108, 108]

def classifyWord (buf : Str) : Token :=
  if isTrue buf then .boolean true
  else if isFalse buf then .boolean false
  else if isNull buf then .null
  else .identifier buf

/-- a stop character met with an empty buffer -/
def stopToken (stops : List Ch) (c : Ch) (rest : Str) : Token × Str :=
  if isStringDelimiter c then readString c .normal rest []
  else if stops.contains c then (.separator c, rest)
  else if c == 0 then (.eoe, rest)
  else if isOperatorChar c then readOperator c rest
  else if isBracketChar c then (.bracket c, rest)
  else if c == 59 then (.exprSep, rest)
  else (.separator c, rest)

/-- the identifier loop of `next_token_with_stop`; `acc` is the buffer reversed -/
def readWord (stops : List Ch) : Str → Str → Token × Str
  | [], acc =>
    if acc.isEmpty then (if stops.contains 0 then (.separator 0, []) else (.eoe, []))
    else (classifyWord acc.reverse, [])
  | c :: rest, acc =>
    if isStop c then
      if acc.isEmpty then stopToken stops c rest
      else (classifyWord acc.reverse, if c == 0 then rest else c :: rest)
    else readWord stops rest (c :: acc)

/-- `next_token_with_stop` -/
def nextToken (stops : List Ch) (inp : Str) : Token × Str :=
  match eatSpace inp with
  | [] => readWord stops [] []
  | c :: rest =>
    if isDigit c || c == 45 || c == 43 || c == 46 then readNumber 0 (c :: rest) []
    else readWord stops (c :: rest) []

/-- all tokens up to and including the first `eoe`/`error`/NUL separator, at most `fuel` of them; the flag says
whether the stream was cut by `fuel` -/
def tokens (stops : List Ch) : Nat → Str → List Token × Bool
  | 0, _ => ([], true)
  | fuel + 1, inp =>
    match nextToken stops inp with
    | (.eoe, _) => ([.eoe], false)
    | (.error e, _) => ([.error e], false)
    | (.separator 0, _) => ([.separator 0], false)
    | (t, rest) =>
      let (ts, cut) := tokens stops fuel rest
      (t :: ts, cut)

end Rfsm.Expr
