/-
M-DESC: event descriptors (property C19).

Transcribes, at the level of UTF-8 *bytes*:
  * `Transition::nameMatch`            (src/fsm.rs)
  * the descriptor strip loop and the `wildcard` flag of `start_transition` (src/scxml_reader.rs)

Strings are `List Nat` (bytes).  `dot = 46`, `star = 42`.
-/
namespace Rfsm.Descriptor

abbrev Str := List Nat

def dot : Nat := 46
def star : Nat := 42

/-- `rt.strip_suffix(".*")` / `rt.strip_suffix(".")` repeated until neither applies,
    written on the reversed string (a suffix of `s` is a prefix of `s.reverse`). -/
def normRev : Str → Str
  | a :: b :: r => if a = star ∧ b = dot then normRev r
                   else if a = dot then normRev (b :: r) else a :: b :: r
  | [a] => if a = dot then [] else [a]
  | [] => []

/-- the descriptor as stored in `Transition.events` -/
def norm (d : Str) : Str := (normRev d.reverse).reverse

/-- one descriptor against a name: `name.starts_with(e)` and then either equal length or the
    byte of `name` at index `e.len()` is `.` -/
def descMatch (e name : Str) : Bool :=
  e.isPrefixOf name && (name.length == e.length || name[e.length]? == some dot)

/-- `Transition::nameMatch` -/
def nameMatch (wildcard : Bool) (events : List Str) (name : Str) : Bool :=
  wildcard || events.any (fun e => descMatch e name)

/-- what the reader stores for an `event` attribute already split at white space -/
def readEvents (ds : List Str) : List Str := ds.map norm

def readWildcard (ds : List Str) : Bool := (readEvents ds).contains [star]

/-- reader + matcher: does a transition declared with descriptors `ds` match `name`? -/
def transitionMatches (ds : List Str) (name : Str) : Bool :=
  nameMatch (readWildcard ds) (readEvents ds) name

/-- dot-separated tokens of a string (always at least one token) -/
def tokens : Str → List Str
  | [] => [[]]
  | c :: cs =>
    if c = dot then [] :: tokens cs
    else match tokens cs with
      | [] => [[c]]
      | t :: ts => (c :: t) :: ts

end Rfsm.Descriptor
