import Rfsm.Model.ExprLexer
/-!
Progress lemmas for the lexer model: every `nextToken` returns a suffix that is not longer than
its input, and strictly shorter unless the token is `eoe`, an `error`, a stop separator, or the
re-queued operator at the very end of the input (the livelock quirk of `read_operator`).
-/
namespace Rfsm.Expr

theorem eatSpace_length (s : Str) : (eatSpace s).length ≤ s.length := by
  induction s with
  | nil => simp [eatSpace]
  | cons c rest ih =>
    simp only [eatSpace]
    split
    · simp only [List.length_cons]; omega
    · simp

theorem readString_length (d : Ch) (m : SMode) (s acc : Str) :
    (readString d m s acc).2.length ≤ s.length := by
  induction s generalizing m acc with
  | nil => cases m <;> simp [readString]
  | cons c rest ih =>
    cases m with
    | normal =>
      simp only [readString]
      repeat' split
      all_goals first
        | (simp only [List.length_cons]; omega)
        | (have := ih .normal (c :: acc); simp only [List.length_cons]; omega)
        | (have := ih .esc acc; simp only [List.length_cons]; omega)
    | esc =>
      simp only [readString]
      repeat' split
      all_goals first
        | (simp only [List.length_cons]; omega)
        | (have := ih .normal (c :: acc); simp only [List.length_cons]; omega)
        | (have := ih .normal (8 :: acc); simp only [List.length_cons]; omega)
        | (have := ih .normal (12 :: acc); simp only [List.length_cons]; omega)
        | (have := ih .normal (10 :: acc); simp only [List.length_cons]; omega)
        | (have := ih .normal (13 :: acc); simp only [List.length_cons]; omega)
        | (have := ih .normal (9 :: acc); simp only [List.length_cons]; omega)
        | (have := ih (.uni 4 0) acc; simp only [List.length_cons]; omega)
    | uni left val =>
      simp only [readString]
      repeat' split
      all_goals first
        | (simp only [List.length_cons]; omega)
        | (have := ih .normal ((val * 16 + (c - 48)) :: acc); simp only [List.length_cons]; omega)
        | (have := ih (.uni (left - 1) (val * 16 + (c - 48))) acc; simp only [List.length_cons]; omega)

def Token.isOperator : Token → Bool
  | .operator _ => true
  | _ => false

def Token.isError : Token → Bool
  | .error _ => true
  | _ => false

def OpOk (rest : Str) (x : Token × Str) : Prop :=
  x.2.length ≤ rest.length + 1 ∧
  (x.2.length ≤ rest.length ∨ (rest = [] ∧ (x.1.isOperator = true ∨ x.1.isError = true)))

theorem opSingle_snd (first : Ch) (back : Str) : (opSingle first back).2 = back := by
  unfold opSingle; repeat' split
  all_goals rfl

theorem opSingle_fst (first : Ch) (back : Str) :
    (opSingle first back).1.isOperator = true ∨ (opSingle first back).1.isError = true := by
  unfold opSingle; repeat' split
  all_goals simp [Token.isOperator, Token.isError]

theorem opDouble_snd (first : Ch) (back : Str) : (opDouble first back).2 = back := by
  unfold opDouble; repeat' split
  all_goals rfl

theorem readOperator_ok (first : Ch) (rest : Str) : OpOk rest (readOperator first rest) := by
  cases rest with
  | nil =>
    simp only [readOperator]
    repeat' split
    all_goals first
      | (simp [OpOk]; done)
      | exact ⟨by simp [opSingle_snd], Or.inr ⟨rfl, opSingle_fst _ _⟩⟩
  | cons s r =>
    simp only [readOperator]
    repeat' split
    all_goals first
      | (simp [OpOk]; done)
      | (refine ⟨?_, Or.inl ?_⟩ <;> simp [opSingle_snd, opDouble_snd] <;> omega)
      | (refine ⟨?_, Or.inl ?_⟩ <;> simp [opSingle_snd, opDouble_snd])

/-- `read_operator` consumes `first` (and maybe `=`), except at the very end of the input -/
theorem readOperator_length (first : Ch) (rest : Str) :
    (readOperator first rest).2.length ≤ rest.length + 1 ∧
    ((readOperator first rest).2.length ≤ rest.length ∨
      (rest = [] ∧ ((readOperator first rest).1.isOperator ∨ (readOperator first rest).1.isError))) :=
  readOperator_ok first rest

theorem readNumber_length (st : Nat) (s acc : Str) :
    (readNumber st s acc).2.length ≤ s.length := by
  induction s generalizing st acc with
  | nil => simp [readNumber]
  | cons c rest ih =>
    simp only [readNumber]
    repeat' split
    all_goals first
      | (simp only [List.length_cons]; omega)
      | (have := ih 2 (c :: acc); simp only [List.length_cons]; omega)
      | (have := ih 3 (c :: acc); simp only [List.length_cons]; omega)
      | (have := ih 5 (c :: acc); simp only [List.length_cons]; omega)
      | (have := ih 6 (c :: acc); simp only [List.length_cons]; omega)
      | (have := ih 1 (c :: acc); simp only [List.length_cons]; omega)
      | (have := ih 4 (c :: acc); simp only [List.length_cons]; omega)
      | (have := ih st (c :: acc); simp only [List.length_cons]; omega)
      | (simp_all; done)

/-- the call `read_number(c)` of `next_token_with_stop` always consumes its first character -/
theorem readNumber_start (c : Ch) (rest : Str)
    (h : (isDigit c || c == 45 || c == 43 || c == 46) = true) :
    (readNumber 0 (c :: rest) []).2.length ≤ rest.length := by
  simp only [readNumber]
  repeat' split
  all_goals first
    | (simp only [List.length_cons]; omega)
    | exact readNumber_length _ _ _
    | (simp_all; done)

theorem stopToken_length (stops : List Ch) (c : Ch) (rest : Str) :
    (stopToken stops c rest).2.length ≤ rest.length + 1 ∧
    ((stopToken stops c rest).2.length ≤ rest.length ∨
      (stopToken stops c rest).1.isOperator ∨ (stopToken stops c rest).1.isError) := by
  unfold stopToken
  repeat' split
  all_goals first
    | (have := readString_length c .normal rest []; exact ⟨by omega, Or.inl (by omega)⟩)
    | (have := readOperator_length c rest
       refine ⟨this.1, ?_⟩
       rcases this.2 with h | ⟨_, h⟩
       · left; exact h
       · right; exact h)
    | simp

/-- `acc ≠ []` or the input is non-empty ⇒ progress relative to the input *after* `acc` -/
theorem readWord_length (stops : List Ch) (s acc : Str) :
    (readWord stops s acc).2.length ≤ s.length := by
  induction s generalizing acc with
  | nil =>
    rw [readWord]
    repeat' split
    all_goals exact Nat.le_refl _
  | cons c rest ih =>
    rw [readWord]
    split
    · split
      · have := (stopToken_length stops c rest).1
        simpa using this
      · split <;> simp
    · have := ih (c :: acc)
      simp only [List.length_cons]; omega

def Token.isEoe : Token → Bool
  | .eoe => true
  | _ => false

def Token.isStopSep (stops : List Ch) : Token → Bool
  | .separator c => stops.contains c
  | _ => false

/-- strict progress of the word loop started with an empty buffer on a non-empty input -/
theorem readWord_progress (stops : List Ch) (c : Ch) (rest : Str) :
    (readWord stops (c :: rest) []).2.length ≤ rest.length ∨
    (readWord stops (c :: rest) []).1.isOperator ∨ (readWord stops (c :: rest) []).1.isError := by
  rw [readWord]
  split
  · simp only [List.isEmpty_nil, if_true]
    exact (stopToken_length stops c rest).2
  · left
    exact readWord_length stops rest [c]

theorem nextToken_length (stops : List Ch) (inp : Str) :
    (nextToken stops inp).2.length ≤ inp.length := by
  have h := eatSpace_length inp
  unfold nextToken
  split
  · rename_i heq
    rw [readWord]; cases hs : stops.contains 0 <;> simp
  · rename_i c rest heq
    rw [heq] at h
    simp only [List.length_cons] at h
    split
    · have := readNumber_length 0 (c :: rest) []
      simp only [List.length_cons] at this
      omega
    · have := readWord_length stops (c :: rest) []
      simp only [List.length_cons] at this
      omega

/-- every token consumes input, except `eoe`, the NUL stop separator of an exhausted input,
an error, or an operator -/
theorem nextToken_progress' (stops : List Ch) (inp : Str) :
    (nextToken stops inp).2.length < inp.length ∨ (nextToken stops inp).1.isEoe ∨
    ((nextToken stops inp).1 = .separator 0 ∧ stops.contains 0 = true) ∨
    (nextToken stops inp).1.isOperator ∨ (nextToken stops inp).1.isError := by
  have h := eatSpace_length inp
  unfold nextToken
  split
  · rename_i heq
    rw [readWord]; cases hs : stops.contains 0 <;> simp_all [Token.isEoe]
  · rename_i c rest heq
    rw [heq] at h
    simp only [List.length_cons] at h
    split
    · rename_i hc
      have := readNumber_start c rest hc
      left; omega
    · rcases readWord_progress stops c rest with h1 | h1 | h1
      · left; omega
      · right; right; right; left; exact h1
      · right; right; right; right; exact h1

theorem nextToken_progress (stops : List Ch) (inp : Str) :
    (nextToken stops inp).2.length < inp.length ∨ (nextToken stops inp).1.isEoe ∨
    (nextToken stops inp).1.isStopSep stops ∨ (nextToken stops inp).1.isOperator ∨
    (nextToken stops inp).1.isError := by
  rcases nextToken_progress' stops inp with h | h | ⟨h1, h2⟩ | h | h
  · exact Or.inl h
  · exact Or.inr (Or.inl h)
  · right; right; left; rw [h1]; exact h2
  · exact Or.inr (Or.inr (Or.inr (Or.inl h)))
  · exact Or.inr (Or.inr (Or.inr (Or.inr h)))

theorem eatSpace_append_ws (ws inp : Str) (h : ∀ c ∈ ws, isWhitespace c = true) :
    eatSpace (ws ++ inp) = eatSpace inp := by
  induction ws with
  | nil => rfl
  | cons c rest ih =>
    have hc := h c List.mem_cons_self
    simp only [List.cons_append, eatSpace, hc, if_true]
    exact ih (fun x hx => h x (List.mem_cons_of_mem _ hx))

/-- white space in front of a token is skipped: amount and kind (blank, tab, newline, CR) of the
gap before a token do not matter -/
theorem nextToken_skip_ws (stops : List Ch) (ws inp : Str) (h : ∀ c ∈ ws, isWhitespace c = true) :
    nextToken stops (ws ++ inp) = nextToken stops inp := by
  unfold nextToken
  rw [eatSpace_append_ws ws inp h]

end Rfsm.Expr
