import Rfsm.Proofs.CodecState
import Rfsm.Proofs.CodecMono
/-! Round trips of the nine executable content kinds and of the whole image. -/
namespace Rfsm.Codec

def wfSend (L : Lim) (s : Send) : Bool :=
  wfStr L s.name && wfD L s.target && wfD L s.targetExpr && wfOptCommon L s.content && wfStrs L s.nameList &&
  wfStr L s.nameLocation && wfParams L s.params && wfD L s.event && wfD L s.eventExpr && wfD L s.typeValue &&
  wfD L s.typeExpr && wfU L s.delayMs && wfD L s.delayExpr

theorem Reads.send {s : Send} (h : wfSend typeLim s = true) : Reads readSend (bytesOf (opsSend s)) s := by
  obtain ⟨name, target, targetExpr, content, nameList, nameLocation, params, event, eventExpr, typeValue,
    typeExpr, delayMs, delayExpr⟩ := s
  simp only [wfSend, Bool.and_eq_true] at h
  obtain ⟨⟨⟨⟨⟨⟨⟨⟨⟨⟨⟨⟨h1, h2⟩, h3⟩, h4⟩, h5⟩, h6⟩, h7⟩, h8⟩, h9⟩, h10⟩, h11⟩, h12⟩, h13⟩ := h
  unfold opsSend readSend
  norm_bytes
  exact Reads.bind (Reads.wstr h1) <| Reads.bind (Reads.wdata h2) <| Reads.bind (Reads.wdata h3) <|
    Reads.bind (Reads.optCommon h4) <| Reads.bind (Reads.strs h5) <| Reads.bind (Reads.wstr h6) <|
    Reads.bind (Reads.params h7) <| Reads.bind (Reads.wdata h8) <| Reads.bind (Reads.wdata h9) <|
    Reads.bind (Reads.wdata h10) <| Reads.bind (Reads.wdata h11) <| Reads.bind (Reads.wuint h12) <|
    Reads.bind_pure (Reads.wdata h13) rfl

def wfExec (L : Lim) : Exec → Bool
  | .ifc c a b => wfD L c && wfId a && wfId b
  | .expression c => wfD L c
  | .script l => wfIds L l
  | .log label e => wfStr L label && wfD L e
  | .foreach c idx arr item => wfId c && wfStr L idx && wfD L arr && wfStr L item
  | .send s => wfSend L s
  | .raise e => wfStr L e
  | .cancel id e => wfStr L id && wfD L e
  | .assign e l => wfD L e && wfD L l

theorem Reads.exec {e : Exec} (h : wfExec typeLim e = true) : Reads readExec (bytesOf (opsExec e)) e := by
  unfold readExec
  cases e with
  | ifc c a b =>
    simp only [wfExec, Bool.and_eq_true] at h
    simp only [opsExec]; norm_bytes
    exact Reads.bind (Reads.u8 0 (by omega)) <| Reads.bind (Reads.wdata h.1.1) <| Reads.bind (Reads.wid h.1.2) <|
      Reads.bind_pure (Reads.wid h.2) rfl
  | expression c =>
    simp only [wfExec] at h
    simp only [opsExec]; norm_bytes
    exact Reads.bind (Reads.u8 1 (by omega)) <| Reads.bind_pure (Reads.wdata h) rfl
  | script l =>
    simp only [wfExec] at h
    simp only [opsExec]; norm_bytes
    exact Reads.bind (Reads.u8 2 (by omega)) <| Reads.bind_pure (Reads.ids h) rfl
  | log label ex =>
    simp only [wfExec, Bool.and_eq_true] at h
    simp only [opsExec]; norm_bytes
    exact Reads.bind (Reads.u8 3 (by omega)) <| Reads.bind (Reads.wstr h.1) <| Reads.bind_pure (Reads.wdata h.2) rfl
  | foreach c idx arr item =>
    simp only [wfExec, Bool.and_eq_true] at h
    simp only [opsExec]; norm_bytes
    exact Reads.bind (Reads.u8 4 (by omega)) <| Reads.bind (Reads.wid h.1.1.1) <| Reads.bind (Reads.wstr h.1.1.2) <|
      Reads.bind (Reads.wdata h.1.2) <| Reads.bind_pure (Reads.wstr h.2) rfl
  | send s =>
    simp only [wfExec] at h
    simp only [opsExec]; norm_bytes
    exact Reads.bind (Reads.u8 5 (by omega)) <| Reads.bind_pure (Reads.send h) rfl
  | raise ev =>
    simp only [wfExec] at h
    simp only [opsExec]; norm_bytes
    exact Reads.bind (Reads.u8 6 (by omega)) <| Reads.bind_pure (Reads.wstr h) rfl
  | cancel id ex =>
    simp only [wfExec, Bool.and_eq_true] at h
    simp only [opsExec]; norm_bytes
    exact Reads.bind (Reads.u8 7 (by omega)) <| Reads.bind (Reads.wstr h.1) <| Reads.bind_pure (Reads.wdata h.2) rfl
  | assign ex l =>
    simp only [wfExec, Bool.and_eq_true] at h
    simp only [opsExec]; norm_bytes
    exact Reads.bind (Reads.u8 8 (by omega)) <| Reads.bind (Reads.wdata h.1) <| Reads.bind_pure (Reads.wdata h.2) rfl

def wfRegion (L : Lim) (c : Nat × List Exec) : Bool := wfId c.1 && wfU L c.2.length && c.2.all (wfExec L)

/-- everything a model must satisfy for the round-trip claim under limits `L` -/
def wfFsm (L : Lim) (f : Fsm) : Bool :=
  wfStr L f.name && wfStr L f.datamodel && wfId f.pseudoRoot && wfId f.script &&
  wfU L f.states.length && f.states.all (wfState L) &&
  wfU L f.transitions.length && f.transitions.all (wfTransition L) &&
  wfU L f.content.length && f.content.all (wfRegion L)

def regionReader : Prog (Nat × List Exec) := do
  let cid ← pId
  let l ← readList readExec
  pure (cid, l)

theorem Reads.region {c : Nat × List Exec} (h : wfRegion typeLim c = true) :
    Reads regionReader (bytesOf (uintOp c.1 :: Rfsm.Codec.opsList opsExec c.2)) c := by
  obtain ⟨cid, l⟩ := c
  simp only [wfRegion, Bool.and_eq_true, List.all_eq_true] at h
  rw [bytesOf_cons]
  exact Reads.bind (Reads.wid h.1.1) <|
    Reads.bind_pure (Reads.opsList l h.1.2 (fun a ha => Reads.exec (h.2 a ha))) rfl

theorem versionText_wf : wfStr typeLim versionText = true := by decide

/-- the part of `FsmReader::read` after the binding ordinal, on the rest of the image -/
theorem Reads.fsmRest {f : Fsm} (h : wfFsm typeLim f = true) :
    Reads (readFsmRest f.name f.datamodel f.binding) (bytesOf ((opsFsm f).drop 4)) f := by
  obtain ⟨name, datamodel, binding, pseudoRoot, script, states, transitions, content⟩ := f
  simp only [wfFsm, Bool.and_eq_true, List.all_eq_true] at h
  obtain ⟨⟨⟨⟨⟨⟨⟨⟨⟨h1, h2⟩, h3⟩, h4⟩, h5⟩, h6⟩, h7⟩, h8⟩, h9⟩, h10⟩ := h
  unfold opsFsm readFsmRest
  simp only [List.cons_append, List.drop_succ_cons, List.drop_zero]
  norm_bytes
  exact Reads.bind (Reads.wid h3) <| Reads.bind (Reads.wid h4) <|
    Reads.bind (Reads.opsList states h5 (fun a ha => Reads.state (h6 a ha))) <|
    Reads.bind (Reads.opsList transitions h7 (fun a ha => Reads.transition (h8 a ha))) <|
    Reads.bind_pure (Reads.opsList content h9 (fun a ha => Reads.region (h10 a ha))) rfl

theorem Reads.hasError : Reads pHasError [] false := by
  intro rest t n pn
  exact ⟨t, n, rfl⟩

theorem fromOrdinal_ordinal (b : Binding) : Binding.fromOrdinal b.ordinal = some b := by
  cases b <;> rfl

theorem image_split (f : Fsm) : imageOf f = (Op.str versionText).bytes ++ bytesOf ((opsFsm f).drop 1) := by
  simp [imageOf, opsFsm]

theorem image_split4 (f : Fsm) : imageOf f = (Op.str versionText).bytes ++ ((Op.str f.name).bytes ++
    ((Op.str f.datamodel).bytes ++ ((uintOp f.binding.ordinal).bytes ++ bytesOf ((opsFsm f).drop 4)))) := by
  simp [imageOf, opsFsm]

/-- `FsmReader::read` decodes the image of a well-formed model exactly, whatever follows it -/
theorem Reads.fsm {f : Fsm} (h : wfFsm typeLim f = true) : Reads readFsmProg (imageOf f) (ReadResult.ok f) := by
  have hw := h
  simp only [wfFsm, Bool.and_eq_true] at hw
  obtain ⟨⟨⟨⟨⟨⟨⟨⟨⟨h1, h2⟩, _⟩, _⟩, _⟩, _⟩, _⟩, _⟩, _⟩, _⟩ := hw
  have hb : f.binding.ordinal < 256 := by cases f.binding <;> simp [Binding.ordinal]
  rw [image_split4]
  unfold readFsmProg
  refine Reads.bind (Reads.wstr versionText_wf) ?_
  simp only [if_true]
  refine Reads.bind (Reads.wstr h1) <| Reads.bind (Reads.wstr h2) <| Reads.bind (Reads.u8 _ hb) <|
    Reads.bind (b1 := []) Reads.hasError ?_
  simp only [Bool.false_eq_true, if_false, fromOrdinal_ordinal]
  exact Reads.of_eq (Reads.bind (Reads.fsmRest h) (Reads.bind_pure Reads.hasError rfl)) (List.append_nil _)

theorem readImageFull_image {f : Fsm} (h : wfFsm typeLim f = true) :
    readImageFull (imageOf f) = (ReadResult.ok f, false) := by
  obtain ⟨t, n, hr⟩ := Reads.fsm h [] 0 0 none
  simp only [List.append_nil] at hr
  simp [readImageFull, RState.init, hr]

/-- every strict prefix of the image of a well-formed model leaves the protocol reader in its error
state (`has_error()` is true when `FsmReader::read` returns — if it returns) -/
theorem prefix_has_error {f : Fsm} (h : wfFsm typeLim f = true) (k : Nat) (hk : k < (imageOf f).length) :
    (readFsmProg.run (RState.init ((imageOf f).take k))).2.ok = false :=
  prefix_sets_error readFsmProg (imageOf f) (ReadResult.ok f) (Reads.fsm h) k hk 0 0 none

end Rfsm.Codec
