import Rfsm.Proofs.SelectLemmas
/-! Lemmas about the session-threading part of selection (M-INT). -/
namespace Rfsm.Interp

variable {σ : Type}

/-- the part of a session that guard evaluation and content never touch directly -/
def SameCore (s s' : Sess σ) : Prop :=
  s'.cfg = s.cfg ∧ s'.hv = s.hv ∧ s'.running = s.running ∧ s'.toInvoke = s.toInvoke ∧
  s'.entered = s.entered ∧ s'.children = s.children

theorem SameCore.refl (s : Sess σ) : SameCore s s := ⟨rfl, rfl, rfl, rfl, rfl, rfl⟩

theorem SameCore.trans {a b c : Sess σ} (h1 : SameCore a b) (h2 : SameCore b c) : SameCore a c := by
  obtain ⟨a1, a2, a3, a4, a5, a6⟩ := h1
  obtain ⟨b1, b2, b3, b4, b5, b6⟩ := h2
  exact ⟨b1.trans a1, b2.trans a2, b3.trans a3, b4.trans a4, b5.trans a5, b6.trans a6⟩

theorem sameCore_absorb (s : Sess σ) (o : ExecOut σ) : SameCore s (s.absorb o) :=
  ⟨rfl, rfl, rfl, rfl, rfl, rfl⟩

theorem sameCore_emit (s : Sess σ) (o : List Obs) : SameCore s (s.emit o) :=
  ⟨rfl, rfl, rfl, rfl, rfl, rfl⟩

theorem conditionMatch_sameCore (env : Env σ) (d : Doc) (s : Sess σ) (t : Nat) :
    SameCore s (conditionMatch env d s t).1 := by
  unfold conditionMatch
  simp only
  split
  · exact SameCore.refl s
  · split <;> exact ⟨rfl, rfl, rfl, rfl, rfl, rfl⟩

theorem firstEnabled_sameCore (env : Env σ) (d : Doc) :
    ∀ (l : List Nat) (s : Sess σ), SameCore s (firstEnabled env d s l).1 := by
  intro l
  induction l with
  | nil => intro s; exact SameCore.refl s
  | cons t ts ih =>
    intro s
    unfold firstEnabled
    have h := conditionMatch_sameCore env d s t
    split
    · rename_i s' heq; rw [heq] at h; exact h
    · rename_i s' heq; rw [heq] at h; exact h.trans (ih s')

theorem firstEnabled_mem (env : Env σ) (d : Doc) :
    ∀ (l : List Nat) (s : Sess σ) (t : Nat), (firstEnabled env d s l).2 = some t → t ∈ l := by
  intro l
  induction l with
  | nil => intro s t h; simp [firstEnabled] at h
  | cons a ts ih =>
    intro s t h
    unfold firstEnabled at h
    split at h
    · simp at h; simp [h]
    · exact List.mem_cons_of_mem _ (ih _ _ h)

theorem selectLoop_sameCore (env : Env σ) (d : Doc) (ev : Option Descriptor.Str) :
    ∀ (as : List Nat) (s : Sess σ) (acc : List Nat), SameCore s (selectLoop env d ev s as acc).1 := by
  intro as
  induction as with
  | nil => intro s acc; exact SameCore.refl s
  | cons a as ih =>
    intro s acc
    unfold selectLoop
    have h := firstEnabled_sameCore env d (candidates d ev a) s
    split
    · rename_i s' t heq; rw [heq] at h; exact h.trans (ih s' _)
    · rename_i s' heq; rw [heq] at h; exact h.trans (ih s' _)

/-- every transition that selection collects is a candidate of one of the given atomic states -/
theorem selectLoop_mem (env : Env σ) (d : Doc) (ev : Option Descriptor.Str) :
    ∀ (as : List Nat) (s : Sess σ) (acc : List Nat) (t : Nat),
      t ∈ (selectLoop env d ev s as acc).2 → t ∈ acc ∨ ∃ a ∈ as, t ∈ candidates d ev a := by
  intro as
  induction as with
  | nil => intro s acc t h; exact Or.inl (by simpa [selectLoop] using h)
  | cons a as ih =>
    intro s acc t h
    unfold selectLoop at h
    split at h
    · rename_i s' u heq
      rcases ih _ _ _ h with h | ⟨b, hb, hc⟩
      · rcases mem_oadd.1 h with h | rfl
        · exact Or.inl h
        · have : (firstEnabled env d s (candidates d ev a)).2 = some t := by rw [heq]
          exact Or.inr ⟨a, List.mem_cons_self, firstEnabled_mem env d _ _ _ this⟩
      · exact Or.inr ⟨b, List.mem_cons_of_mem _ hb, hc⟩
    · rcases ih _ _ _ h with h | ⟨b, hb, hc⟩
      · exact Or.inl h
      · exact Or.inr ⟨b, List.mem_cons_of_mem _ hb, hc⟩

theorem select_sameCore (env : Env σ) (d : Doc) (ev : Option Descriptor.Str) (s : Sess σ) :
    SameCore s (select env d ev s).1 := by
  unfold select
  have h := selectLoop_sameCore env d ev (atomicStates d s.cfg) s []
  split
  rename_i s' enabled heq
  rw [heq] at h
  exact h.trans (sameCore_emit _ _)

/-- selection returns a conflict-free subset of the candidates of the active atomic states -/
theorem select_spec (env : Env σ) (d : Doc) (ev : Option Descriptor.Str) (s : Sess σ) :
    ConflictFree d s.hv s.cfg (select env d ev s).2 ∧
    ∀ t ∈ (select env d ev s).2, ∃ a ∈ atomicStates d s.cfg, t ∈ candidates d ev a := by
  unfold select
  have hc := selectLoop_sameCore env d ev (atomicStates d s.cfg) s []
  have hm := selectLoop_mem env d ev (atomicStates d s.cfg) s []
  split
  rename_i s' enabled heq
  rw [heq] at hc hm
  simp only
  rw [hc.1, hc.2.1]
  refine ⟨removeConflicting_conflictFree d s.hv s.cfg enabled, ?_⟩
  intro t ht
  rcases hm t (removeConflicting_subset d s.hv s.cfg enabled t ht) with h | h
  · cases h
  · exact h

/-! ### candidates -/

theorem mem_atomicStates {d : Doc} {cfg : List Nat} {a : Nat} :
    a ∈ atomicStates d cfg ↔ a ∈ cfg ∧ isAtomicStateId d a = true := by
  simp [atomicStates, mem_sortBy]

theorem atomicStates_sorted (d : Doc) (cfg : List Nat) :
    (atomicStates d cfg).Pairwise (fun a b => docIdOf d a ≤ docIdOf d b) :=
  sortBy_sorted _ _

theorem mem_candidates {d : Doc} {ev : Option Descriptor.Str} {a t : Nat} (h : t ∈ candidates d ev a) :
    (∃ x ∈ a :: getProperAncestors d a 0, t ∈ (getState d x).transitions) ∧
    (match ev with
     | none => (getTrans d t).events = []
     | some n => (getTrans d t).events ≠ [] ∧
                 Descriptor.nameMatch (getTrans d t).wildcard (getTrans d t).events n = true) := by
  unfold candidates at h
  rw [List.mem_filter, List.mem_flatMap] at h
  obtain ⟨⟨x, hx, ht⟩, hp⟩ := h
  refine ⟨⟨x, hx, by simpa [transOf, mem_sortBy] using ht⟩, ?_⟩
  cases ev with
  | none => simpa using hp
  | some n => simpa using hp

/-- within one state, candidates appear in document order -/
theorem transOf_sorted (d : Doc) (s : Nat) :
    (transOf d s).Pairwise (fun a b => (getTrans d a).docId ≤ (getTrans d b).docId) :=
  sortBy_sorted _ _

/-! ### "first enabled" for guards that do not modify the data model -/

/-- guard evaluation leaves the data model unchanged (what the Recommendation requires of
    conditional expressions) -/
def GuardsPure (env : Env σ) : Prop := ∀ dm cfg c, (env.cond dm cfg c).1.dm = dm

/-- the boolean a guard evaluates to in data state `dm` and configuration `cfg` -/
def guardHolds (env : Env σ) (d : Doc) (dm : σ) (cfg : List Nat) (t : Nat) : Bool :=
  let c := (getTrans d t).cond
  if c.isEmpty then true else ((env.cond dm cfg c).2).getD false

theorem conditionMatch_val (env : Env σ) (d : Doc) (s : Sess σ) (t : Nat) :
    (conditionMatch env d s t).2 = guardHolds env d s.dm s.cfg t := by
  unfold conditionMatch guardHolds
  simp only
  split
  · rfl
  · split <;> simp_all

theorem conditionMatch_dm (env : Env σ) (hp : GuardsPure env) (d : Doc) (s : Sess σ) (t : Nat) :
    (conditionMatch env d s t).1.dm = s.dm := by
  unfold conditionMatch
  simp only
  split
  · rfl
  · have := hp s.dm s.cfg (getTrans d t).cond
    split <;> simp_all [Sess.absorb]

/-- with pure guards, `firstEnabled` is `find?`: the first candidate whose guard holds in the
    data state and configuration in which selection started -/
theorem firstEnabled_eq_find (env : Env σ) (hp : GuardsPure env) (d : Doc) :
    ∀ (l : List Nat) (s : Sess σ),
      (firstEnabled env d s l).2 = l.find? (guardHolds env d s.dm s.cfg) ∧
      (firstEnabled env d s l).1.dm = s.dm := by
  intro l
  induction l with
  | nil => intro s; simp [firstEnabled]
  | cons t ts ih =>
    intro s
    unfold firstEnabled
    have hv := conditionMatch_val env d s t
    have hd := conditionMatch_dm env hp d s t
    have hc := (conditionMatch_sameCore env d s t).1
    split
    · rename_i s' heq
      rw [heq] at hv hd
      simp only at hv hd
      simp [List.find?, ← hv, hd]
    · rename_i s' heq
      rw [heq] at hv hd hc
      simp only at hv hd hc
      have := ih s'
      rw [hd, hc] at this
      simp [List.find?, ← hv, this]

end Rfsm.Interp
