import Rfsm.Proofs.StepLemmas
import Rfsm.Model.Legal
/-! Invariants of the entry-set computation (`addDesc` / `addAnc`, mutual, fuel-indexed). -/
namespace Rfsm.Interp

/-- no state has a history pseudo-state as its parent -/
def NoHistParent (d : Doc) : Prop :=
  ∀ x, parentOf d x ≠ 0 → isHistoryState d (parentOf d x) = false

theorem ancestorsAux_noHist {d : Doc} (h : NoHistParent d) :
    ∀ (f x : Nat) (a : Nat), a ∈ ancestorsAux d f (parentOf d x) → isHistoryState d a = false := by
  intro f
  induction f with
  | zero => intro x a ha; simp [ancestorsAux] at ha
  | succ f ih =>
    intro x a ha
    unfold ancestorsAux at ha
    split at ha
    · simp at ha
    · rename_i hne
      rcases List.mem_cons.1 ha with rfl | ha
      · exact h x hne
      · exact ih (parentOf d x) a ha

theorem getProperAncestors_noHist {d : Doc} (h : NoHistParent d) (s anc a : Nat)
    (ha : a ∈ getProperAncestors d s anc) : isHistoryState d a = false := by
  unfold getProperAncestors at ha
  split at ha
  · exact ancestorsAux_noHist h _ s a ((List.takeWhile_sublist _).subset ha)
  · simp at ha

/-- the invariant: nothing in `toEnter` is a history pseudo-state -/
def NoHistIn (d : Doc) (acc : EntryAcc) : Prop := ∀ x ∈ acc.toEnter, isHistoryState d x = false

theorem foldl_inv {α β : Type} (P : β → Prop) (f : β → α → β) (hf : ∀ b a, P b → P (f b a)) :
    ∀ (l : List α) (b : β), P b → P (l.foldl f b) := by
  intro l
  induction l with
  | nil => intro b h; exact h
  | cons a l ih => intro b h; exact ih _ (hf b a h)

theorem noHistIn_oadd {d : Doc} {acc : EntryAcc} {x : Nat} (h : NoHistIn d acc)
    (hx : isHistoryState d x = false) : NoHistIn d { acc with toEnter := oadd acc.toEnter x } := by
  intro y hy
  rcases mem_oadd.1 hy with hy | rfl
  · exact h y hy
  · exact hx

theorem entry_noHist {d : Doc} (hv : Table) (hp : NoHistParent d) :
    ∀ (f : Nat),
      (∀ sid acc, NoHistIn d acc → NoHistIn d (addDesc d hv f sid acc)) ∧
      (∀ s anc acc, NoHistIn d acc → NoHistIn d (addAnc d hv f s anc acc)) := by
  intro f
  induction f with
  | zero => exact ⟨fun _ _ h => by simpa [addDesc] using h, fun _ _ _ h => by simpa [addAnc] using h⟩
  | succ f ih =>
    obtain ⟨ihD, ihA⟩ := ih
    have kidsStep : ∀ (kids : List Nat) (acc : EntryAcc), NoHistIn d acc →
        NoHistIn d (kids.foldl (fun a child =>
          if !a.toEnter.any (fun s => isDescendant d s child) then addDesc d hv f child a else a) acc) := by
      intro kids acc h
      refine foldl_inv (NoHistIn d) _ ?_ kids acc h
      intro b a hb
      split
      · exact ihD a b hb
      · exact hb
    refine ⟨?_, ?_⟩
    · intro sid acc h
      unfold addDesc
      simp only
      split
      · -- history state
        split
        · rename_i vs _
          refine foldl_inv (NoHistIn d) _ (fun b a hb => ihA a _ b hb) vs _ ?_
          exact foldl_inv (NoHistIn d) _ (fun b a hb => ihD a b hb) vs _ h
        · refine foldl_inv (NoHistIn d) _ (fun b a hb => ihA a _ b hb) _ _ ?_
          refine foldl_inv (NoHistIn d) _ (fun b a hb => ihD a b hb) _ _ ?_
          exact h
      · rename_i hnh
        have hx : isHistoryState d sid = false := by simpa using hnh
        have h1 := noHistIn_oadd h hx
        split
        · split
          · refine foldl_inv (NoHistIn d) _ (fun b a hb => ihA a _ b hb) _ _ ?_
            refine foldl_inv (NoHistIn d) _ (fun b a hb => ihD a b hb) _ _ ?_
            exact h1
          · exact h1
        · split
          · exact kidsStep _ _ h1
          · exact h1
    · intro s anc acc h
      unfold addAnc
      refine foldl_inv' (l0 := getProperAncestors d s anc) ?_ _ (fun _ hx => hx) acc h
      intro b a ha hb
      have hx := getProperAncestors_noHist hp s anc a ha
      have h1 := noHistIn_oadd hb hx
      simp only
      split
      · exact kidsStep _ _ h1
      · exact h1
where
  foldl_inv' {d : Doc} {l0 : List Nat} {g : EntryAcc → Nat → EntryAcc}
      (hg : ∀ b a, a ∈ l0 → NoHistIn d b → NoHistIn d (g b a)) :
      ∀ (l : List Nat), (∀ a ∈ l, a ∈ l0) → ∀ b, NoHistIn d b → NoHistIn d (l.foldl g b) := by
    intro l
    induction l with
    | nil => intro _ b h; exact h
    | cons a l ih =>
      intro hl b h
      exact ih (fun x hx => hl x (List.mem_cons_of_mem _ hx)) _ (hg b a (hl a List.mem_cons_self) h)

end Rfsm.Interp
