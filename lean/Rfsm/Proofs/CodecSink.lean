import Rfsm.Model.Sink
import Rfsm.Proofs.CodecData
/-! The writer against arbitrary sinks: ideal sink = the pure image; a failing call is always visible
in the error flag; short writes are silent and lose exactly string payload bytes. -/
namespace Rfsm.Codec

/-- the error flag reflects every failure seen so far -/
def WInv (w : WState) : Prop := w.sawErr = true → w.ok = false

theorem writeByte_cases (k : Sink) (b : Nat) (w : WState) :
    (∃ w', writeByte k b w = (true, w') ∧ w'.ok = w.ok ∧ w'.sawErr = w.sawErr) ∨
    (∃ w', writeByte k b w = (false, w') ∧ w'.ok = w.ok ∧ w'.sawErr = true) := by
  unfold writeByte sinkWrite
  simp only [List.length_singleton]
  cases hr : k.resp w.calls 1 with
  | err => exact Or.inr ⟨_, rfl, rfl, rfl⟩
  | acc n =>
    cases n with
    | zero => exact Or.inr ⟨_, rfl, rfl, rfl⟩
    | succ m =>
      have hm : min (m + 1) 1 = 1 := by omega
      simp only [hm]
      exact Or.inl ⟨_, rfl, rfl, rfl⟩

theorem writeBytes_spec (k : Sink) (bs : List Nat) (w : WState) :
    (∃ w', writeBytes k bs w = (true, w') ∧ w'.ok = w.ok ∧ w'.sawErr = w.sawErr) ∨
    (∃ w', writeBytes k bs w = (false, w') ∧ w'.ok = w.ok ∧ w'.sawErr = true) := by
  induction bs generalizing w with
  | nil => exact Or.inl ⟨w, rfl, rfl, rfl⟩
  | cons b r ih =>
    unfold writeBytes
    rcases writeByte_cases k b w with ⟨w1, hb, h1, h2⟩ | ⟨w1, hb, h1, h2⟩
    · simp only [hb]
      rcases ih w1 with ⟨w', e, a, c⟩ | ⟨w', e, a, c⟩
      · exact Or.inl ⟨w', e, by rw [a, h1], by rw [c, h2]⟩
      · exact Or.inr ⟨w', e, by rw [a, h1], c⟩
    · simp only [hb]
      exact Or.inr ⟨w1, rfl, h1, h2⟩

theorem runTv_inv (k : Sink) (bs : List Nat) (w : WState) (h : WInv w) : WInv (runTv k bs w) := by
  unfold runTv
  split
  · rename_i hok
    rcases writeBytes_spec k bs w with ⟨w', e, a, c⟩ | ⟨w', e, a, c⟩
    · simp only [e]
      intro hs
      rw [c] at hs
      rw [a]; exact h hs
    · simp only [e]
      intro _; rfl
  · exact h

def SinkOutcome.state : SinkOutcome → WState
  | .done w => w
  | .panic w => w

theorem sinkWrite_spec (k : Sink) (buf : List Nat) (w : WState) :
    (∃ n w', sinkWrite k buf w = (some n, w') ∧ w'.ok = w.ok ∧ w'.sawErr = w.sawErr) ∨
    (∃ w', sinkWrite k buf w = (none, w') ∧ w'.ok = w.ok ∧ w'.sawErr = true) := by
  unfold sinkWrite
  cases k.resp w.calls buf.length with
  | acc n => exact Or.inl ⟨_, _, rfl, rfl, rfl⟩
  | err => exact Or.inr ⟨_, rfl, rfl, rfl⟩

theorem Op.run_inv (k : Sink) (op : Op) (w : WState) (h : WInv w) : WInv (op.run k w).state := by
  cases op with
  | tv tid v size => exact runTv_inv k _ w h
  | byte b => exact runTv_inv k _ w h
  | flush =>
    simp only [Op.run]
    split
    · split
      · intro _; rfl
      · exact h
    · exact h
  | str s =>
    simp only [Op.run]
    split
    · have h1 := runTv_inv k (strHeader s) w h
      split
      · exact h1
      · rcases sinkWrite_spec k (s.take (strSliceLen s)) (runTv k (strHeader s) w) with
          ⟨n, w', e, a, c⟩ | ⟨w', e, a, c⟩
        · simp only [e, SinkOutcome.state]
          intro hs
          rw [c] at hs; rw [a]; exact h1 hs
        · simp only [e, SinkOutcome.state]
          intro _; rfl
    · exact h

/-- whatever the sink does: if some call failed, `has_error()` is true afterwards -/
theorem runOps_inv (k : Sink) (ops : List Op) (w : WState) (h : WInv w) : WInv (runOps k ops w).state := by
  induction ops generalizing w with
  | nil => exact h
  | cons op r ih =>
    unfold runOps
    have := Op.run_inv k op w h
    cases hr : op.run k w with
    | done w1 => rw [hr] at this; exact ih w1 this
    | panic w1 => rw [hr] at this; exact this

/-! ### sinks that never fail -/

/-- the sink never reports an error and takes at least `m` bytes of every call (all of a shorter one) -/
def AcceptsUpTo (k : Sink) (m : Nat) : Prop :=
  k.flushFails = false ∧ ∀ i len, ∃ n, k.resp i len = .acc n ∧ min len m ≤ n

def payloadLen : Op → Nat
  | .str s => strSliceLen s
  | _ => 0

theorem writeByte_ok (k : Sink) (m : Nat) (hm : 1 ≤ m) (hk : AcceptsUpTo k m) (b : Nat) (w : WState) :
    ∃ w', writeByte k b w = (true, w') ∧ w'.out = w.out ++ [b] ∧ w'.ok = w.ok ∧ w'.sawErr = w.sawErr := by
  obtain ⟨n, hr, hn⟩ := hk.2 w.calls 1
  unfold writeByte sinkWrite
  simp only [List.length_singleton, hr]
  cases n with
  | zero => exfalso; have : min 1 m = 1 := by omega
            omega
  | succ j =>
    have hj : min (j + 1) 1 = 1 := by omega
    simp only [hj]
    exact ⟨_, rfl, by simp, rfl, rfl⟩

theorem writeBytes_ok (k : Sink) (m : Nat) (hm : 1 ≤ m) (hk : AcceptsUpTo k m) (bs : List Nat) (w : WState) :
    ∃ w', writeBytes k bs w = (true, w') ∧ w'.out = w.out ++ bs ∧ w'.ok = w.ok ∧ w'.sawErr = w.sawErr := by
  induction bs generalizing w with
  | nil => exact ⟨w, rfl, by simp, rfl, rfl⟩
  | cons b r ih =>
    obtain ⟨w1, e1, o1, k1, s1⟩ := writeByte_ok k m hm hk b w
    obtain ⟨w2, e2, o2, k2, s2⟩ := ih w1
    refine ⟨w2, by simp [writeBytes, e1, e2], ?_, by rw [k2, k1], by rw [s2, s1]⟩
    rw [o2, o1]; simp

theorem runTv_ok (k : Sink) (m : Nat) (hm : 1 ≤ m) (hk : AcceptsUpTo k m) (bs : List Nat) (w : WState)
    (hw : w.ok = true) :
    (runTv k bs w).out = w.out ++ bs ∧ (runTv k bs w).ok = true ∧ (runTv k bs w).sawErr = w.sawErr := by
  obtain ⟨w', e, o, a, c⟩ := writeBytes_ok k m hm hk bs w
  simp [runTv, hw, e, o, a, c]

/-- one call against a never-failing sink: no error is ever recorded; the bytes are complete when the
string payload (if any) is not longer than what the sink takes at once -/
theorem Op.run_ok (k : Sink) (m : Nat) (hm : 1 ≤ m) (hk : AcceptsUpTo k m) (op : Op) (w : WState)
    (hw : w.ok = true) (hp : op.panics = false) :
    ∃ w', op.run k w = .done w' ∧ w'.ok = true ∧ w'.sawErr = w.sawErr ∧
      (payloadLen op ≤ m → w'.out = w.out ++ op.bytes) := by
  cases op with
  | tv tid v size =>
    obtain ⟨o, a, c⟩ := runTv_ok k m hm hk (tvBytes tid v size) w hw
    exact ⟨_, rfl, a, c, fun _ => o⟩
  | byte b =>
    obtain ⟨o, a, c⟩ := runTv_ok k m hm hk [b] w hw
    exact ⟨_, rfl, a, c, fun _ => o⟩
  | flush => exact ⟨w, by simp [Op.run, hw, hk.1], hw, rfl, fun _ => by simp [Op.bytes]⟩
  | str s =>
    obtain ⟨o, a, c⟩ := runTv_ok k m hm hk (strHeader s) w hw
    have hp' : strPanics s = false := hp
    obtain ⟨n, hr, hn⟩ := hk.2 (runTv k (strHeader s) w).calls (s.take (strSliceLen s)).length
    simp only [Op.run, hw, if_true, hp', Bool.false_eq_true, if_false, sinkWrite, hr]
    refine ⟨_, rfl, a, c, ?_⟩
    intro hpl
    simp only [payloadLen] at hpl
    have hl : (s.take (strSliceLen s)).length ≤ strSliceLen s := by simp; omega
    have : min n (s.take (strSliceLen s)).length = (s.take (strSliceLen s)).length := by omega
    simp only [this, List.take_length, o, Op.bytes, List.append_assoc]

theorem runOps_ok (k : Sink) (m : Nat) (hm : 1 ≤ m) (hk : AcceptsUpTo k m) (ops : List Op) (w : WState)
    (hw : w.ok = true) (hp : anyPanics ops = false) :
    ∃ w', runOps k ops w = .done w' ∧ w'.ok = true ∧ w'.sawErr = w.sawErr ∧
      ((∀ op ∈ ops, payloadLen op ≤ m) → w'.out = w.out ++ bytesOf ops) := by
  induction ops generalizing w with
  | nil => exact ⟨w, rfl, hw, rfl, fun _ => by simp⟩
  | cons op r ih =>
    simp only [anyPanics, List.any_cons, Bool.or_eq_false_iff] at hp
    obtain ⟨w1, e1, k1, s1, o1⟩ := Op.run_ok k m hm hk op w hw hp.1
    obtain ⟨w2, e2, k2, s2, o2⟩ := ih w1 k1 hp.2
    refine ⟨w2, by simp [runOps, e1, e2], k2, by rw [s2, s1], ?_⟩
    intro hall
    rw [o2 (fun x hx => hall x (by simp [hx])), o1 (hall op (by simp))]
    simp

theorem payload_le_max (ops : List Op) : ∀ op ∈ ops, payloadLen op ≤ (ops.map payloadLen).foldr max 0 := by
  induction ops with
  | nil => simp
  | cons a r ih =>
    intro op hop
    simp only [List.mem_cons] at hop
    simp only [List.map_cons, List.foldr_cons]
    rcases hop with rfl | h
    · omega
    · have := ih op h; omega

theorem idealSink_accepts (m : Nat) : AcceptsUpTo idealSink m :=
  ⟨rfl, fun _ len => ⟨len, rfl, by omega⟩⟩

end Rfsm.Codec
