import Rfsm.Model.Sink
import Rfsm.Proofs.CodecData
/-! The writer against arbitrary sinks: ideal sink = the pure image; a failing call is always visible
in the error flag; a sink that takes only part of a call (but at least one byte) still gets everything. -/
namespace Rfsm.Codec

/-- the error flag reflects every failure seen so far -/
def WInv (w : WState) : Prop := w.sawErr = true → w.ok = false

theorem writeByte_cases (k : Sink) (b : Nat) (w : WState) :
    (∃ w', writeByte k b w = (true, w') ∧ w'.ok = w.ok ∧ w'.sawErr = w.sawErr) ∨
    (∃ w', writeByte k b w = (false, w') ∧ w'.ok = w.ok ∧ w'.sawErr = true) := by
  unfold writeByte sinkWrite
  simp only [List.length_singleton]
  cases hr : k.resp w.calls 1 with
  | err => exact Or.inr ⟨_, rfl, rfl, rfl⟩
  | acc n =>
    cases n with
    | zero => exact Or.inr ⟨_, rfl, rfl, rfl⟩
    | succ m =>
      have hm : min (m + 1) 1 = 1 := by omega
      simp only [hm]
      exact Or.inl ⟨_, rfl, rfl, rfl⟩

theorem writeBytes_spec (k : Sink) (bs : List Nat) (w : WState) :
    (∃ w', writeBytes k bs w = (true, w') ∧ w'.ok = w.ok ∧ w'.sawErr = w.sawErr) ∨
    (∃ w', writeBytes k bs w = (false, w') ∧ w'.ok = w.ok ∧ w'.sawErr = true) := by
  induction bs generalizing w with
  | nil => exact Or.inl ⟨w, rfl, rfl, rfl⟩
  | cons b r ih =>
    unfold writeBytes
    rcases writeByte_cases k b w with ⟨w1, hb, h1, h2⟩ | ⟨w1, hb, h1, h2⟩
    · simp only [hb]
      rcases ih w1 with ⟨w', e, a, c⟩ | ⟨w', e, a, c⟩
      · exact Or.inl ⟨w', e, by rw [a, h1], by rw [c, h2]⟩
      · exact Or.inr ⟨w', e, by rw [a, h1], c⟩
    · simp only [hb]
      exact Or.inr ⟨w1, rfl, h1, h2⟩

theorem runTv_inv (k : Sink) (bs : List Nat) (w : WState) (h : WInv w) : WInv (runTv k bs w) := by
  unfold runTv
  split
  · rename_i hok
    rcases writeBytes_spec k bs w with ⟨w', e, a, c⟩ | ⟨w', e, a, c⟩
    · simp only [e]
      intro hs
      rw [c] at hs
      rw [a]; exact h hs
    · simp only [e]
      intro _; rfl
  · exact h

theorem sinkWrite_spec (k : Sink) (buf : List Nat) (w : WState) :
    (∃ n w', sinkWrite k buf w = (some n, w') ∧ w'.ok = w.ok ∧ w'.sawErr = w.sawErr) ∨
    (∃ w', sinkWrite k buf w = (none, w') ∧ w'.ok = w.ok ∧ w'.sawErr = true) := by
  unfold sinkWrite
  cases k.resp w.calls buf.length with
  | acc n => exact Or.inl ⟨_, _, rfl, rfl, rfl⟩
  | err => exact Or.inr ⟨_, rfl, rfl, rfl⟩

/-- `write_all`: the flag of the writer is untouched; a `false` answer means a failure was seen -/
theorem writeAll_spec (k : Sink) (fuel : Nat) (buf : List Nat) (w : WState) (hf : buf.length ≤ fuel) :
    (∃ w', writeAll k fuel buf w = (true, w') ∧ w'.ok = w.ok ∧ w'.sawErr = w.sawErr) ∨
    (∃ w', writeAll k fuel buf w = (false, w') ∧ w'.ok = w.ok ∧ w'.sawErr = true) := by
  induction fuel generalizing buf w with
  | zero =>
    cases buf with
    | nil => exact Or.inl ⟨w, by simp [writeAll], rfl, rfl⟩
    | cons b r => simp at hf
  | succ fuel ih =>
    cases buf with
    | nil => exact Or.inl ⟨w, by simp [writeAll], rfl, rfl⟩
    | cons b r =>
      simp only [writeAll]
      rcases sinkWrite_spec k (b :: r) w with ⟨n, w1, e, a, c⟩ | ⟨w1, e, a, c⟩
      · rw [e]
        cases n with
        | zero => exact Or.inr ⟨_, rfl, a, rfl⟩
        | succ m =>
          simp only
          have hl : ((b :: r).drop (m + 1)).length ≤ fuel := by
            simp only [List.length_drop, List.length_cons] at hf ⊢; omega
          rcases ih ((b :: r).drop (m + 1)) w1 hl with ⟨w', e', a', c'⟩ | ⟨w', e', a', c'⟩
          · exact Or.inl ⟨w', e', by rw [a', a], by rw [c', c]⟩
          · exact Or.inr ⟨w', e', by rw [a', a], c'⟩
      · rw [e]
        exact Or.inr ⟨w1, rfl, a, c⟩

theorem Op.run_inv (k : Sink) (op : Op) (w : WState) (h : WInv w) : WInv (op.run k w) := by
  cases op with
  | tv tid v size => exact runTv_inv k _ w h
  | byte b => exact runTv_inv k _ w h
  | flush =>
    simp only [Op.run]
    split
    · split
      · intro _; rfl
      · exact h
    · exact h
  | str s =>
    simp only [Op.run]
    split
    · have h1 := runTv_inv k (strHeader s) w h
      rcases writeAll_spec k s.length s (runTv k (strHeader s) w) (Nat.le_refl _) with
        ⟨w', e, a, c⟩ | ⟨w', e, a, c⟩
      · simp only [e]
        intro hs
        rw [c] at hs; rw [a]; exact h1 hs
      · simp only [e]
        intro _; rfl
    · exact h

/-- whatever the sink does: if some call failed, `has_error()` is true afterwards -/
theorem runOps_inv (k : Sink) (ops : List Op) (w : WState) (h : WInv w) : WInv (runOps k ops w) := by
  induction ops generalizing w with
  | nil => exact h
  | cons op r ih =>
    unfold runOps
    exact ih _ (Op.run_inv k op w h)

/-! ### sinks that never fail -/

/-- the sink never reports an error and takes at least `m` bytes of every call (all of a shorter one) -/
def AcceptsUpTo (k : Sink) (m : Nat) : Prop :=
  k.flushFails = false ∧ ∀ i len, ∃ n, k.resp i len = .acc n ∧ min len m ≤ n

theorem writeByte_ok (k : Sink) (m : Nat) (hm : 1 ≤ m) (hk : AcceptsUpTo k m) (b : Nat) (w : WState) :
    ∃ w', writeByte k b w = (true, w') ∧ w'.out = w.out ++ [b] ∧ w'.ok = w.ok ∧ w'.sawErr = w.sawErr := by
  obtain ⟨n, hr, hn⟩ := hk.2 w.calls 1
  unfold writeByte sinkWrite
  simp only [List.length_singleton, hr]
  cases n with
  | zero => exfalso; have : min 1 m = 1 := by omega
            omega
  | succ j =>
    have hj : min (j + 1) 1 = 1 := by omega
    simp only [hj]
    exact ⟨_, rfl, by simp, rfl, rfl⟩

theorem writeBytes_ok (k : Sink) (m : Nat) (hm : 1 ≤ m) (hk : AcceptsUpTo k m) (bs : List Nat) (w : WState) :
    ∃ w', writeBytes k bs w = (true, w') ∧ w'.out = w.out ++ bs ∧ w'.ok = w.ok ∧ w'.sawErr = w.sawErr := by
  induction bs generalizing w with
  | nil => exact ⟨w, rfl, by simp, rfl, rfl⟩
  | cons b r ih =>
    obtain ⟨w1, e1, o1, k1, s1⟩ := writeByte_ok k m hm hk b w
    obtain ⟨w2, e2, o2, k2, s2⟩ := ih w1
    refine ⟨w2, by simp [writeBytes, e1, e2], ?_, by rw [k2, k1], by rw [s2, s1]⟩
    rw [o2, o1]; simp

theorem runTv_ok (k : Sink) (m : Nat) (hm : 1 ≤ m) (hk : AcceptsUpTo k m) (bs : List Nat) (w : WState)
    (hw : w.ok = true) :
    (runTv k bs w).out = w.out ++ bs ∧ (runTv k bs w).ok = true ∧ (runTv k bs w).sawErr = w.sawErr := by
  obtain ⟨w', e, o, a, c⟩ := writeBytes_ok k m hm hk bs w
  simp [runTv, hw, e, o, a, c]

/-- `write_all` against a never-failing sink that takes at least one byte per call: everything arrives -/
theorem writeAll_ok (k : Sink) (m : Nat) (hm : 1 ≤ m) (hk : AcceptsUpTo k m) (fuel : Nat) (buf : List Nat)
    (w : WState) (hf : buf.length ≤ fuel) :
    ∃ w', writeAll k fuel buf w = (true, w') ∧ w'.out = w.out ++ buf ∧ w'.ok = w.ok ∧ w'.sawErr = w.sawErr := by
  induction fuel generalizing buf w with
  | zero =>
    cases buf with
    | nil => exact ⟨w, by simp [writeAll], by simp, rfl, rfl⟩
    | cons b r => simp at hf
  | succ fuel ih =>
    cases buf with
    | nil => exact ⟨w, by simp [writeAll], by simp, rfl, rfl⟩
    | cons b r =>
      obtain ⟨n, hr, hn⟩ := hk.2 w.calls (b :: r).length
      simp only [writeAll, sinkWrite, hr]
      have hpos : 1 ≤ min n (b :: r).length := by
        simp only [List.length_cons] at hn ⊢; omega
      obtain ⟨j, hj⟩ : ∃ j, min n (b :: r).length = j + 1 := ⟨min n (b :: r).length - 1, by omega⟩
      rw [hj]
      simp only
      have hl : ((b :: r).drop (j + 1)).length ≤ fuel := by
        simp only [List.length_drop, List.length_cons] at hf ⊢; omega
      obtain ⟨w', e', o', a', c'⟩ := ih ((b :: r).drop (j + 1))
        { w with out := w.out ++ (b :: r).take (j + 1), calls := w.calls + 1,
                 sawShort := w.sawShort || decide (j + 1 < (b :: r).length) } hl
      refine ⟨w', e', ?_, a', c'⟩
      rw [o']
      simp only [List.append_assoc, List.take_append_drop]

/-- one call against a never-failing sink that takes at least one byte per call: no error is
recorded and all bytes of the call arrive -/
theorem Op.run_ok (k : Sink) (m : Nat) (hm : 1 ≤ m) (hk : AcceptsUpTo k m) (op : Op) (w : WState)
    (hw : w.ok = true) :
    (op.run k w).ok = true ∧ (op.run k w).sawErr = w.sawErr ∧ (op.run k w).out = w.out ++ op.bytes := by
  cases op with
  | tv tid v size =>
    obtain ⟨o, a, c⟩ := runTv_ok k m hm hk (tvBytes tid v size) w hw
    exact ⟨a, c, o⟩
  | byte b =>
    obtain ⟨o, a, c⟩ := runTv_ok k m hm hk [b] w hw
    exact ⟨a, c, o⟩
  | flush => simp [Op.run, hw, hk.1, Op.bytes]
  | str s =>
    obtain ⟨o, a, c⟩ := runTv_ok k m hm hk (strHeader s) w hw
    obtain ⟨w', e', o', a', c'⟩ := writeAll_ok k m hm hk s.length s (runTv k (strHeader s) w) (Nat.le_refl _)
    simp only [Op.run, hw, if_true, e']
    refine ⟨by rw [a', a], by rw [c', c], ?_⟩
    rw [o', o]
    simp [Op.bytes]

theorem runOps_ok (k : Sink) (m : Nat) (hm : 1 ≤ m) (hk : AcceptsUpTo k m) (ops : List Op) (w : WState)
    (hw : w.ok = true) :
    (runOps k ops w).ok = true ∧ (runOps k ops w).sawErr = w.sawErr ∧
      (runOps k ops w).out = w.out ++ bytesOf ops := by
  induction ops generalizing w with
  | nil => exact ⟨hw, rfl, by simp [runOps]⟩
  | cons op r ih =>
    obtain ⟨k1, s1, o1⟩ := Op.run_ok k m hm hk op w hw
    obtain ⟨k2, s2, o2⟩ := ih (op.run k w) k1
    refine ⟨by simpa [runOps] using k2, by simp only [runOps]; rw [s2, s1], ?_⟩
    simp only [runOps]
    rw [o2, o1]
    simp

theorem idealSink_accepts (m : Nat) : AcceptsUpTo idealSink m :=
  ⟨rfl, fun _ len => ⟨len, rfl, by omega⟩⟩

end Rfsm.Codec
