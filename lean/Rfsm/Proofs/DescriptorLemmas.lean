import Rfsm.Model.Descriptor
/-! Helper lemmas for C19 (core Lean only). -/
namespace Rfsm.Descriptor

/-- inverse of `tokens` -/
def join : List Str → Str
  | [] => []
  | [t] => t
  | t :: u :: ts => t ++ dot :: join (u :: ts)

theorem tokens_ne_nil (s : Str) : tokens s ≠ [] := by
  induction s with
  | nil => simp [tokens]
  | cons c cs ih =>
    unfold tokens
    split
    · simp
    · split <;> simp

theorem join_tokens (s : Str) : join (tokens s) = s := by
  induction s with
  | nil => simp [tokens, join]
  | cons c cs ih =>
    unfold tokens
    split
    · rename_i h
      have hne := tokens_ne_nil cs
      cases hts : tokens cs with
      | nil => exact absurd hts hne
      | cons t ts => rw [hts] at ih; simp [join, ih, h]
    · cases hts : tokens cs with
      | nil => exact absurd hts (tokens_ne_nil cs)
      | cons t ts =>
        rw [hts] at ih
        cases ts with
        | nil => simp [join] at ih ⊢; exact ih
        | cons u us => simp [join] at ih ⊢; exact ih

theorem tokens_cons_dot (cs : Str) : tokens (dot :: cs) = [] :: tokens cs := by
  simp [tokens]

theorem tokens_cons_ne {c : Nat} (h : c ≠ dot) (cs : Str) {t : Str} {ts : List Str}
    (hts : tokens cs = t :: ts) : tokens (c :: cs) = (c :: t) :: ts := by
  rw [tokens, if_neg h, hts]

theorem tokens_append_dot (e r : Str) : tokens (e ++ dot :: r) = tokens e ++ tokens r := by
  induction e with
  | nil => simp [tokens]
  | cons c cs ih =>
    simp only [List.cons_append]
    by_cases h : c = dot
    · subst h; rw [tokens_cons_dot, tokens_cons_dot, ih]; simp
    · cases hts : tokens cs with
      | nil => exact absurd hts (tokens_ne_nil cs)
      | cons t ts =>
        rw [tokens_cons_ne h cs hts, tokens_cons_ne h (cs ++ dot :: r) (t := t) (ts := ts ++ tokens r)]
        · simp
        · rw [ih, hts]; simp

theorem join_append {a b : List Str} (ha : a ≠ []) (hb : b ≠ []) :
    join (a ++ b) = join a ++ dot :: join b := by
  induction a with
  | nil => exact absurd rfl ha
  | cons t ts ih =>
    cases ts with
    | nil =>
      cases b with
      | nil => exact absurd rfl hb
      | cons u us => simp [join]
    | cons u us =>
      have := ih (by simp)
      simp only [List.cons_append] at this ⊢
      simp [join, this]

theorem isPrefixOf_append_self (e r : Str) : e.isPrefixOf (e ++ r) = true := by
  induction e with
  | nil => simp [List.isPrefixOf]
  | cons c cs ih => simp [List.isPrefixOf, ih]

theorem isPrefixOf_eq_true {e n : Str} (h : e.isPrefixOf n = true) : ∃ r, n = e ++ r := by
  induction e generalizing n with
  | nil => exact ⟨n, rfl⟩
  | cons c cs ih =>
    cases n with
    | nil => simp [List.isPrefixOf] at h
    | cons d ds =>
      simp [List.isPrefixOf] at h
      obtain ⟨r, hr⟩ := ih (n := ds) (by simpa using h.2)
      exact ⟨r, by simp [h.1, hr]⟩

theorem descMatch_iff (e name : Str) :
    descMatch e name = true ↔ tokens e <+: tokens name := by
  constructor
  · intro h
    simp only [descMatch, Bool.and_eq_true, Bool.or_eq_true, beq_iff_eq] at h
    obtain ⟨hp, hb⟩ := h
    obtain ⟨r, rfl⟩ := isPrefixOf_eq_true hp
    cases r with
    | nil => simp
    | cons c cs =>
      rcases hb with hb | hb
      · simp at hb
      · have : c = dot := by simpa using hb
        subst this
        rw [tokens_append_dot]
        exact List.prefix_append _ _
  · intro ⟨ts, hts⟩
    have hn : name = join (tokens e ++ ts) := by rw [hts, join_tokens]
    cases ts with
    | nil =>
      simp [join_tokens] at hn
      subst hn
      simp [descMatch]
    | cons t ts =>
      rw [join_append (tokens_ne_nil e) (by simp), join_tokens] at hn
      subst hn
      simp only [descMatch, Bool.and_eq_true, Bool.or_eq_true, beq_iff_eq]
      refine ⟨isPrefixOf_append_self _ _, Or.inr ?_⟩
      simp

theorem normRev_dot (r : Str) : normRev (dot :: r) = normRev r := by
  cases r with
  | nil => simp [normRev]
  | cons b r => simp [normRev, dot, star]

theorem normRev_star_dot (r : Str) : normRev (star :: dot :: r) = normRev r := by
  simp [normRev]

/-- a normalised descriptor does not end in `.` or `.*` -/
def Normal : Str → Prop
  | a :: b :: _ => ¬ (a = star ∧ b = dot) ∧ a ≠ dot
  | [a] => a ≠ dot
  | [] => True

theorem normRev_normal (r : Str) : Normal (normRev r) := by
  fun_induction normRev r <;> simp_all [Normal]

theorem normRev_of_normal {r : Str} (h : Normal r) : normRev r = r := by
  match r, h with
  | a :: b :: r, h =>
    simp only [Normal] at h
    unfold normRev
    rw [if_neg h.1, if_neg h.2]
  | [a], h => simp [Normal] at h; simp [normRev, h]
  | [], _ => simp [normRev]

end Rfsm.Descriptor
