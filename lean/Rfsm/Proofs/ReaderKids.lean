import Rfsm.Proofs.ReaderStates
/-!
C04 (c), children lists on views: `vdecl_kids` (a declaration appends the declared state exactly once
to the children of the declaring state and touches nothing else) and `amF_kids` (for every forest of
states with distinct, not yet declared names the `kids` list of every state is the list of the ids
of its child states in document order — whatever is referenced in between).
-/
namespace Rfsm.Reader
open Rfsm.Descriptor (Str)

/-- the name has not been declared: its entry, if any, carries no doc id -/
def Undecl (vs : List V) (n : Str) : Prop := ∀ i v, vfind vs n = some i → vget vs i = some v → v.docId = 0

/-- ids are positions; only declared states have children; all children are declared -/
structure KInv (vs : List V) : Prop where
  ok : IdsOk vs
  nokids : ∀ j v, vget vs j = some v → v.docId = 0 → v.kids = []
  kidsDecl : ∀ j v k, vget vs j = some v → k ∈ v.kids → ∃ w, vget vs k = some w ∧ w.docId ≠ 0

theorem vget_append_new (vs : List V) (w : V) : vget (vs ++ [w]) (vs.length + 1) = some w := by
  simp [vget]

theorem vget_append_cases {vs : List V} {w : V} {j : Nat} {v : V} (h : vget (vs ++ [w]) j = some v) :
    vget vs j = some v ∨ (j = vs.length + 1 ∧ v = w) := by
  unfold vget at *
  by_cases h0 : j = 0
  · simp [h0] at h
  · simp only [h0, if_false] at h ⊢
    by_cases hlt : j - 1 < vs.length
    · rw [List.getElem?_append_left hlt] at h; exact Or.inl h
    · have hge : vs.length ≤ j - 1 := by omega
      rw [List.getElem?_append_right hge] at h
      have : j - 1 - vs.length = 0 := by
        cases hh : j - 1 - vs.length with
        | zero => rfl
        | succ m => rw [hh] at h; simp at h
      have hj : j = vs.length + 1 := by omega
      rw [this] at h; simp at h
      exact Or.inr ⟨hj, h.symm⟩

theorem vref_kinv {vs : List V} (h : KInv vs) (n : Str) : KInv (vref vs n) := by
  unfold vref
  cases hf : vfind vs n with
  | some i => exact h
  | none =>
    refine ⟨idsOk_append h.ok n, ?_, ?_⟩
    · intro j v hv hd
      rcases vget_append_cases hv with hv | ⟨_, rfl⟩
      · exact h.nokids j v hv hd
      · rfl
    · intro j v k hv hk
      rcases vget_append_cases hv with hv | ⟨_, rfl⟩
      · obtain ⟨w, hw, hwd⟩ := h.kidsDecl j v k hv hk
        exact ⟨w, vget_append_left _ hw, hwd⟩
      · simp at hk

/-- every old entry is still there, unchanged, after a reference -/
theorem vref_keep {vs : List V} (n : Str) {j : Nat} {v : V} (hv : vget vs j = some v) : vget (vref vs n) j = some v := by
  unfold vref
  cases hf : vfind vs n with
  | some i => exact hv
  | none => exact vget_append_left _ hv

theorem vref_undecl {vs : List V} (hok : IdsOk vs) (n m : Str) (h : Undecl vs m) : Undecl (vref vs n) m := by
  unfold vref
  cases hf : vfind vs n with
  | some i => exact h
  | none =>
    intro i v hfi hv
    rw [vfind_append] at hfi
    cases hm : vfind vs m with
    | some j =>
      rw [hm] at hfi; simp at hfi; subst hfi
      obtain ⟨w, hw, _, _⟩ := vfind_some hm hok
      have := vget_append_left (⟨vs.length + 1, n, 0, 0, []⟩ : V) hw
      rw [this] at hv; simp at hv; subst hv
      exact h j w hm hw
    | none =>
      rw [hm] at hfi
      by_cases hnm : n = m
      · simp [hnm] at hfi; subst hfi
        rw [vget_append_new] at hv; simp at hv; subst hv; rfl
      · simp [hnm] at hfi


/-- the declaration of an undeclared name inside a declared state `p`: `p` gets exactly one more
child, the declared entry has no children yet, every other entry is untouched -/
theorem vdecl_kids {vs : List V} (h : KInv vs) (n : Str) (p d : Nat) (hd : d ≠ 0) {vp : V}
    (hp : vget vs p = some vp) (hpd : vp.docId ≠ 0) (hu : Undecl vs n) :
    KInv (vdecl vs n p d).2 ∧ (vdecl vs n p d).1 ≠ p ∧
    (∃ vp', vget (vdecl vs n p d).2 p = some vp' ∧ vp'.kids = vp.kids ++ [(vdecl vs n p d).1] ∧ vp'.docId = vp.docId) ∧
    (∃ vi, vget (vdecl vs n p d).2 (vdecl vs n p d).1 = some vi ∧ vi.kids = [] ∧ vi.docId = d) ∧
    (∀ j v, vget vs j = some v → j ≠ p → v.docId ≠ 0 → vget (vdecl vs n p d).2 j = some v) ∧
    (∀ m, m ≠ n → Undecl vs m → Undecl (vdecl vs n p d).2 m) ∧
    (∀ v, vget vs (vdecl vs n p d).1 = some v → v.docId = 0) := by
  have hp0 : p ≠ 0 := (le_of_vget hp).1
  obtain ⟨i, hi⟩ := vref_find vs n
  have h1 := vref_kinv h n
  obtain ⟨v0, hv0, hn0, hid0⟩ := vfind_some hi h1.ok
  have hi0 : i ≠ 0 := (le_of_vget hv0).1
  have hp1 : vget (vref vs n) p = some vp := vref_keep n hp
  -- the entry that gets declared carries no doc id
  have hd0 : v0.docId = 0 := vref_undecl h.ok n n hu i v0 hi hv0
  have hk0 : v0.kids = [] := h1.nokids i v0 hv0 hd0
  have hip : i ≠ p := by
    intro e; subst e; rw [hv0] at hp1; simp at hp1; subst hp1; exact hpd hd0
  have hnotin : ¬ i ∈ vp.kids := by
    intro hin
    obtain ⟨w, hw, hwd⟩ := h1.kidsDecl p vp i hp1 hin
    rw [hv0] at hw; simp at hw; subst hw; exact hwd hd0
  have hcont : vp.kids.contains i = false := by simpa using hnotin
  have e1 : (vdecl vs n p d).1 = i := by simp [vdecl, hi]
  have e2 : (vdecl vs n p d).2 = vmod (vmod (vref vs n) i fun v => { v with docId := d, parent := p }) p
      fun v => { v with kids := if v.kids.contains i then v.kids else v.kids ++ [i] } := by
    simp [vdecl, hi, hp0]
  rw [e1, e2]
  -- all entries afterwards
  have hget : ∀ j, vget (vmod (vmod (vref vs n) i fun v => { v with docId := d, parent := p }) p
      fun v => { v with kids := if v.kids.contains i then v.kids else v.kids ++ [i] }) j =
      if j = p then some { vp with kids := vp.kids ++ [i] }
      else if j = i then some { v0 with docId := d, parent := p } else vget (vref vs n) j := by
    intro j
    rw [vget_vmod, vget_vmod]
    by_cases hjp : j = p
    · subst hjp; simp [hip.symm, hp1, hcont, hnotin]
    · by_cases hji : j = i
      · subst hji; simp [hjp, hv0]
      · simp [hjp, hji]
  have hfind : ∀ m, vfind (vmod (vmod (vref vs n) i fun v => { v with docId := d, parent := p }) p
      fun v => { v with kids := if v.kids.contains i then v.kids else v.kids ++ [i] }) m = vfind (vref vs n) m := by
    intro m
    rw [vfind_vmod _ _ _ (by intro v; exact ⟨rfl, rfl⟩), vfind_vmod _ _ _ (by intro v; exact ⟨rfl, rfl⟩)]
  refine ⟨⟨?_, ?_, ?_⟩, hip, ⟨{ vp with kids := vp.kids ++ [i] }, by rw [hget]; simp, rfl, rfl⟩,
    ⟨{ v0 with docId := d, parent := p }, by rw [hget]; simp [hip], hk0, rfl⟩, ?_, ?_, ?_⟩
  · exact idsOk_vmod (idsOk_vmod h1.ok _ _ (by intro v; rfl)) _ _ (by intro v; rfl)
  · intro j v hv hdz
    rw [hget] at hv
    by_cases hjp : j = p
    · rw [if_pos hjp] at hv; simp at hv; subst hv; exact absurd hdz hpd
    · by_cases hji : j = i
      · rw [if_neg hjp, if_pos hji] at hv; simp at hv; subst hv; exact absurd hdz hd
      · rw [if_neg hjp, if_neg hji] at hv; exact h1.nokids j v hv hdz
  · intro j v k hv hk
    -- the entry of `k` afterwards is declared
    have hdecl : ∀ k w, vget (vref vs n) k = some w → w.docId ≠ 0 →
        ∃ w', vget (vmod (vmod (vref vs n) i fun v => { v with docId := d, parent := p }) p
          fun v => { v with kids := if v.kids.contains i then v.kids else v.kids ++ [i] }) k = some w' ∧ w'.docId ≠ 0 := by
      intro k w hw hwd
      rw [hget]
      by_cases hkp : k = p
      · rw [if_pos hkp]; exact ⟨_, rfl, hpd⟩
      · by_cases hki : k = i
        · subst hki; rw [hv0] at hw; simp at hw; subst hw; exact absurd hd0 hwd
        · rw [if_neg hkp, if_neg hki]; exact ⟨w, hw, hwd⟩
    rw [hget] at hv
    by_cases hjp : j = p
    · rw [if_pos hjp] at hv; simp at hv; subst hv
      simp at hk
      rcases hk with hk | hk
      · obtain ⟨w, hw, hwd⟩ := h1.kidsDecl p vp k hp1 hk
        exact hdecl k w hw hwd
      · subst hk; exact ⟨{ v0 with docId := d, parent := p }, by rw [hget, if_neg hip, if_pos rfl], hd⟩
    · by_cases hji : j = i
      · rw [if_neg hjp, if_pos hji] at hv; simp at hv; subst hv; simp [hk0] at hk
      · rw [if_neg hjp, if_neg hji] at hv
        obtain ⟨w, hw, hwd⟩ := h1.kidsDecl j v k hv hk
        exact hdecl k w hw hwd
  · intro j v hv hjp hvd
    rw [hget]
    have hv1 : vget (vref vs n) j = some v := vref_keep n hv
    have hji : j ≠ i := by
      intro e; subst e; rw [hv0] at hv1; simp at hv1; subst hv1; exact hvd hd0
    rw [if_neg hjp, if_neg hji]; exact hv1
  · intro m hmn hum i' v' hfi hv'
    rw [hfind] at hfi
    have hum1 := vref_undecl h.ok n m hum
    obtain ⟨w, hw, hwn, _⟩ := vfind_some hfi h1.ok
    have hwd : w.docId = 0 := hum1 i' w hfi hw
    rw [hget] at hv'
    by_cases hjp : i' = p
    · subst hjp; rw [hp1] at hw; simp at hw; subst hw; exact absurd hwd hpd
    · by_cases hji : i' = i
      · subst hji; rw [hv0] at hw; simp at hw; subst hw; exact absurd (hn0.symm.trans hwn).symm hmn
      · rw [if_neg hjp, if_neg hji, hw] at hv'; simp at hv'; subst hv'; exact hwd
  · intro v hv
    have := vref_keep n hv
    rw [hv0] at this; simp at this; subst this; exact hd0


theorem vrefs_kinv {vs : List V} (h : KInv vs) (ns : List Str) : KInv (ns.foldl vref vs) := by
  induction ns generalizing vs with
  | nil => exact h
  | cons n r ih => exact ih (vref_kinv h n)

theorem vrefs_keep {vs : List V} (ns : List Str) {j : Nat} {v : V} (hv : vget vs j = some v) :
    vget (ns.foldl vref vs) j = some v := by
  induction ns generalizing vs with
  | nil => exact hv
  | cons n r ih => exact ih (vref_keep n hv)

theorem vrefs_undecl {vs : List V} (hok : IdsOk vs) (ns : List Str) (m : Str) (h : Undecl vs m) :
    Undecl (ns.foldl vref vs) m := by
  induction ns generalizing vs with
  | nil => exact h
  | cons n r ih => exact ih (vref_ext hok n).ok (vref_undecl hok n m h)

def ST.name : ST → Str
  | .node n _ _ => n

def idOf (vs : List V) (n : Str) : Nat := (vfind vs n).getD 0

mutual
/-- every state of the tree is declared, is none of the indices `Q`, and its children list is the
list of the ids of its child states, in document order -/
def KidsT (vs : List V) (Q : List Nat) : ST → Prop
  | .node n _ ks =>
    ∃ i v, vfind vs n = some i ∧ vget vs i = some v ∧ v.docId ≠ 0 ∧ i ∉ Q ∧
      v.kids = ks.map (fun t => idOf vs t.name) ∧ KidsF vs Q ks
def KidsF (vs : List V) (Q : List Nat) : List ST → Prop
  | [] => True
  | t :: r => KidsT vs Q t ∧ KidsF vs Q r
end

/-- names keep their ids; declared entries other than `q` are untouched -/
structure KExt (q : Nat) (vs vs' : List V) : Prop where
  find : ∀ m j, vfind vs m = some j → vfind vs' m = some j
  keep : ∀ j v, vget vs j = some v → v.docId ≠ 0 → j ≠ q → vget vs' j = some v

theorem idOf_stable {vs vs' : List V} (hf : ∀ m j, vfind vs m = some j → vfind vs' m = some j) {n : Str} {i : Nat}
    (h : vfind vs n = some i) : idOf vs' n = idOf vs n := by
  simp [idOf, h, hf n i h]

mutual
theorem KidsT.ext {q : Nat} {vs vs' : List V} {Q : List Nat} (he : KExt q vs vs') (hq : q ∈ Q) :
    (t : ST) → KidsT vs Q t → KidsT vs' Q t ∧ idOf vs' t.name = idOf vs t.name
  | .node n tg ks, hg => by
    simp only [KidsT] at *
    obtain ⟨i, v, hf, hv, hd, hiQ, hk, hks⟩ := hg
    obtain ⟨hks', hids⟩ := KidsF.ext he hq ks hks
    refine ⟨⟨i, v, he.find n i hf, he.keep i v hv hd (fun e => hiQ (e ▸ hq)), hd, hiQ, ?_, hks'⟩, ?_⟩
    · rw [hk]; exact hids.symm
    · simp [ST.name, idOf_stable he.find hf]
theorem KidsF.ext {q : Nat} {vs vs' : List V} {Q : List Nat} (he : KExt q vs vs') (hq : q ∈ Q) :
    (ts : List ST) → KidsF vs Q ts →
      KidsF vs' Q ts ∧ ts.map (fun t => idOf vs' t.name) = ts.map (fun t => idOf vs t.name)
  | [], _ => by simp [KidsF]
  | t :: r, hg => by
    simp only [KidsF] at *
    obtain ⟨h1, e1⟩ := KidsT.ext he hq t hg.1
    obtain ⟨h2, e2⟩ := KidsF.ext he hq r hg.2
    exact ⟨⟨h1, h2⟩, by simp [e1, e2]⟩
end


/-- the references made by the optional transition -/
def vtrans (tg : Option Str) (vs : List V) : List V :=
  match tg with
  | some t => (splitAsciiWs t).foldl vref vs
  | none => vs

theorem vtrans_kinv {vs : List V} (h : KInv vs) (tg : Option Str) : KInv (vtrans tg vs) := by
  cases tg with
  | none => exact h
  | some t => exact vrefs_kinv h _

theorem vtrans_keep {vs : List V} (tg : Option Str) {j : Nat} {v : V} (hv : vget vs j = some v) :
    vget (vtrans tg vs) j = some v := by
  cases tg with
  | none => exact hv
  | some t => exact vrefs_keep _ hv

theorem vtrans_find {vs : List V} (hok : IdsOk vs) (tg : Option Str) {m : Str} {j : Nat} (h : vfind vs m = some j) :
    vfind (vtrans tg vs) m = some j := by
  cases tg with
  | none => exact h
  | some t => exact (vrefs_ext hok _).find m j h

theorem vtrans_undecl {vs : List V} (hok : IdsOk vs) (tg : Option Str) (m : Str) (h : Undecl vs m) :
    Undecl (vtrans tg vs) m := by
  cases tg with
  | none => exact h
  | some t => exact vrefs_undecl hok _ m h

mutual
theorem KidsT.mono {vs : List V} {Q Q' : List Nat} (h : ∀ q ∈ Q', q ∈ Q) : (t : ST) → KidsT vs Q t → KidsT vs Q' t
  | .node n tg ks, hg => by
    simp only [KidsT] at *
    obtain ⟨i, v, hf, hv, hd, hiQ, hk, hks⟩ := hg
    exact ⟨i, v, hf, hv, hd, fun hi => hiQ (h i hi), hk, KidsF.mono h ks hks⟩
theorem KidsF.mono {vs : List V} {Q Q' : List Nat} (h : ∀ q ∈ Q', q ∈ Q) : (ts : List ST) → KidsF vs Q ts → KidsF vs Q' ts
  | [], _ => by simp [KidsF]
  | t :: r, hg => by
    simp only [KidsF] at *
    exact ⟨KidsT.mono h t hg.1, KidsF.mono h r hg.2⟩
end

theorem KExt.trans {q : Nat} {a b c : List V} (h1 : KExt q a b) (h2 : KExt q b c) : KExt q a c :=
  ⟨fun m j h => h2.find m j (h1.find m j h), fun j v hv hd hj => h2.keep j v (h1.keep j v hv hd hj) hd hj⟩

/-- what reading a forest inside the declared state `p` establishes about children lists -/
structure KPost (Q : List Nat) (p : Nat) (vp : V) (vs vs' : List V) (ts : List ST) (un : List Str) : Prop where
  inv : KInv vs'
  ext : KExt p vs vs'
  par : ∃ vp', vget vs' p = some vp' ∧ vp'.kids = vp.kids ++ ts.map (fun t => idOf vs' t.name) ∧ vp'.docId = vp.docId
  good : KidsF vs' Q ts
  und : ∀ m, m ∉ un → Undecl vs m → Undecl vs' m

mutual
theorem amT_kids : (t : ST) → (p : Nat) → (vs : List V) → (d : Nat) → (Q : List Nat) → (vp : V) →
    KInv vs → d ≠ 0 → vget vs p = some vp → vp.docId ≠ 0 →
    (∀ q ∈ Q, ∃ w, vget vs q = some w ∧ w.docId ≠ 0) → (namesT t).Nodup → (∀ n ∈ namesT t, Undecl vs n) →
    KPost Q p vp vs (amT t p vs d) [t] (namesT t)
  | .node n tg ks, p, vs, d, Q, vp, h, hd, hp, hpd, hQ, hnd, hun => by
    simp only [namesT, List.nodup_cons] at hnd
    have hp0 : p ≠ 0 := (le_of_vget hp).1
    obtain ⟨hk1, hip, ⟨vp1, hvp1, hkids1, hdoc1⟩, ⟨vi, hvi, hvik, hvid⟩, hkeep1, hund1, hiund⟩ :=
      vdecl_kids h n p d hd hp hpd (hun n (by simp [namesT]))
    obtain ⟨he1, _, _, hf1, _⟩ := vdecl_spec h.ok n p d hp0
    -- the references of the transition
    have hk2 : KInv (vtrans tg (vdecl vs n p d).2) := vtrans_kinv hk1 tg
    have hkeep2 : ∀ j v, vget (vdecl vs n p d).2 j = some v → vget (vtrans tg (vdecl vs n p d).2) j = some v :=
      fun j v hv => vtrans_keep tg hv
    have hfind2 : ∀ m j, vfind (vdecl vs n p d).2 m = some j → vfind (vtrans tg (vdecl vs n p d).2) m = some j :=
      fun m j hm => vtrans_find hk1.ok tg hm
    have hund2 : ∀ m, Undecl (vdecl vs n p d).2 m → Undecl (vtrans tg (vdecl vs n p d).2) m :=
      fun m hm => vtrans_undecl hk1.ok tg m hm
    have hamT : amT (.node n tg ks) p vs d =
        amF ks (vdecl vs n p d).1 (vtrans tg (vdecl vs n p d).2) (d + if tg.isSome then 2 else 1) := by
      simp only [amT, vtrans]; rfl
    -- the children, inside the new state
    have hQ2 : ∀ q ∈ (vdecl vs n p d).1 :: Q, ∃ w, vget (vtrans tg (vdecl vs n p d).2) q = some w ∧ w.docId ≠ 0 := by
      intro q hq
      simp only [List.mem_cons] at hq
      rcases hq with hq | hq
      · subst hq; exact ⟨vi, hkeep2 _ _ hvi, by rw [hvid]; exact hd⟩
      · obtain ⟨w, hw, hwd⟩ := hQ q hq
        by_cases hqp : q = p
        · subst hqp; exact ⟨vp1, hkeep2 _ _ hvp1, by rw [hdoc1]; exact hpd⟩
        · exact ⟨w, hkeep2 _ _ (hkeep1 q w hw hqp hwd), hwd⟩
    have hP := amF_kids ks (vdecl vs n p d).1 (vtrans tg (vdecl vs n p d).2) (d + if tg.isSome then 2 else 1) ((vdecl vs n p d).1 :: Q) vi hk2
      (by split <;> omega) (hkeep2 _ _ hvi) (by rw [hvid]; exact hd) (by simp) hQ2 hnd.2
      (fun m hm => hund2 m (hund1 m (fun e => hnd.1 (e ▸ hm)) (hun m (by simp [namesT, hm]))))
    obtain ⟨vi3, hvi3, hvi3k, hvi3d⟩ := hP.par
    have hfind : ∀ m j, vfind vs m = some j → vfind (amT (.node n tg ks) p vs d) m = some j := by
      intro m j hm
      rw [hamT]
      exact hP.ext.find m j (hfind2 m j (he1.find m j hm))
    have hfn : vfind (amT (.node n tg ks) p vs d) n = some (vdecl vs n p d).1 := by
      rw [hamT]
      exact hP.ext.find n _ (hfind2 n _ hf1)
    have hiQ : (vdecl vs n p d).1 ∉ Q := by
      intro hi
      obtain ⟨w, hw, hwd⟩ := hQ _ hi
      exact hwd (hiund w hw)
    refine ⟨by rw [hamT]; exact hP.inv, ⟨hfind, ?_⟩, ?_, ?_, ?_⟩
    · intro j v hv hvd hjp
      rw [hamT]
      refine hP.ext.keep j v (hkeep2 _ _ (hkeep1 j v hv hjp hvd)) hvd ?_
      intro e; subst e; exact hvd (hiund v hv)
    · refine ⟨vp1, ?_, ?_, hdoc1⟩
      · rw [hamT]
        exact hP.ext.keep p vp1 (hkeep2 _ _ hvp1) (by rw [hdoc1]; exact hpd) (fun e => hip e.symm)
      · simp [hkids1, ST.name, idOf, hfn]
    · simp only [KidsF, and_true, KidsT]
      refine ⟨_, vi3, hfn, by rw [hamT]; exact hvi3, by rw [hvi3d, hvid]; exact hd, hiQ, ?_, ?_⟩
      · rw [hamT]; rw [hvi3k, hvik]; simp
      · rw [hamT]; exact KidsF.mono (fun q hq => List.mem_cons_of_mem _ hq) ks hP.good
    · intro m hm hum
      simp only [namesT, List.mem_cons, not_or] at hm
      rw [hamT]
      exact hP.und m hm.2 (hund2 m (hund1 m hm.1 hum))
theorem amF_kids : (ts : List ST) → (p : Nat) → (vs : List V) → (d : Nat) → (Q : List Nat) → (vp : V) →
    KInv vs → d ≠ 0 → vget vs p = some vp → vp.docId ≠ 0 → p ∈ Q →
    (∀ q ∈ Q, ∃ w, vget vs q = some w ∧ w.docId ≠ 0) → (namesF ts).Nodup → (∀ n ∈ namesF ts, Undecl vs n) →
    KPost Q p vp vs (amF ts p vs d) ts (namesF ts)
  | [], p, vs, d, Q, vp, h, _, hp, _, _, _, _, _ =>
    ⟨by simpa [amF] using h, ⟨fun _ _ h => by simpa [amF] using h, fun _ _ hv _ _ => by simpa [amF] using hv⟩,
      ⟨vp, by simpa [amF] using hp, by simp, rfl⟩, by simp [KidsF], fun _ _ hu => by simpa [amF] using hu⟩
  | t :: r, p, vs, d, Q, vp, h, hd, hp, hpd, hpQ, hQ, hnd, hun => by
    simp only [namesF, List.nodup_append] at hnd
    have h1 := amT_kids t p vs d Q vp h hd hp hpd hQ hnd.1 (fun n hn => hun n (by simp [namesF, hn]))
    obtain ⟨vp1, hvp1, hk1, hd1⟩ := h1.par
    have hQ1 : ∀ q ∈ Q, ∃ w, vget (amT t p vs d) q = some w ∧ w.docId ≠ 0 := by
      intro q hq
      obtain ⟨w, hw, hwd⟩ := hQ q hq
      by_cases hqp : q = p
      · subst hqp; exact ⟨vp1, hvp1, by rw [hd1]; exact hpd⟩
      · exact ⟨w, h1.ext.keep q w hw hwd hqp, hwd⟩
    have h2 := amF_kids r p (amT t p vs d) (d + sizeT t) Q vp1 h1.inv (by omega) hvp1 (by rw [hd1]; exact hpd) hpQ hQ1
      hnd.2.1 (fun n hn => h1.und n (fun hn' => hnd.2.2 n hn' n hn rfl) (hun n (by simp [namesF, hn])))
    obtain ⟨vp2, hvp2, hk2, hd2⟩ := h2.par
    have hgood1 : KidsF (amT t p vs d) Q [t] := h1.good
    simp only [KidsF, and_true] at hgood1
    obtain ⟨hg1, hid1⟩ := KidsT.ext h2.ext hpQ t hgood1
    refine ⟨by simp only [amF]; exact h2.inv, by simp only [amF]; exact h1.ext.trans h2.ext, ?_, ?_, ?_⟩
    · refine ⟨vp2, by simp only [amF]; exact hvp2, ?_, by rw [hd2, hd1]⟩
      simp only [amF]
      rw [hk2, hk1]
      simp [hid1]
    · simp only [amF, KidsF]; exact ⟨hg1, h2.good⟩
    · intro m hm hum
      simp only [namesF, List.mem_append, not_or] at hm
      simp only [amF]
      exact h2.und m hm.2 (h1.und m hm.1 hum)
end

end Rfsm.Reader
