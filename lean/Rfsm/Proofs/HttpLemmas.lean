import Rfsm.Model.Http
/-!
Helper lemmas for C20: the percent-encoding round trip for every byte, the `&`/`=` framing,
rocket's map context on plain field names, the route's fold.
-/
namespace Rfsm.Http

/-! ### all 256 bytes -/

theorem byte_all (P : UInt8 → Bool)
    (h : (List.range 256).all (fun n => P (UInt8.ofNat n)) = true) : ∀ b, P b = true := by
  intro b
  have h2 := List.all_eq_true.mp h b.toNat (by simp [List.mem_range]; exact b.toNat_lt)
  simpa using h2

/-- bytes that pass through the serializer are none of `% + & =` -/
def PUnch (b : UInt8) : Bool :=
  !unchanged b || (b != 37 && b != 43 && b != 38 && b != 61)

/-- an escaped byte: both hex digits are none of `% + & =`, and they decode to the byte -/
def PEsc (b : UInt8) : Bool :=
  let h := hexUp (b >>> 4)
  let l := hexUp (b &&& 15)
  h != 43 && l != 43 && h != 38 && l != 38 && h != 61 && l != 61 && h != 37 && l != 37 &&
  (match hexVal h, hexVal l with
   | some x, some y => x * 16 + y == b
   | _, _ => false)

theorem pUnch : ∀ b, PUnch b = true := byte_all PUnch (by decide +kernel)
theorem pEsc : ∀ b, PEsc b = true := byte_all PEsc (by decide +kernel)

/-! ### percent decoding -/

theorem pctDecode_cons_ne (c : UInt8) (r : Bytes) (h : c ≠ 37) :
    pctDecode (c :: r) = c :: pctDecode r := by
  match r with
  | [] => simp [pctDecode]
  | [_] => simp [pctDecode]
  | a :: b :: r => simp [pctDecode, h]

theorem pctDecode_esc (h l x y : UInt8) (r : Bytes) (hh : hexVal h = some x) (hl : hexVal l = some y) :
    pctDecode (37 :: h :: l :: r) = (x * 16 + y) :: pctDecode r := by
  simp [pctDecode, hh, hl]

/-- one encoded byte, followed by anything, decodes to the byte followed by the rest -/
theorem decode_encByte (b : UInt8) (r : Bytes) :
    pctDecode ((encByte b).map plusToSpace ++ r) = b :: pctDecode r := by
  unfold encByte
  by_cases hu : unchanged b = true
  · have := pUnch b
    simp [PUnch, hu] at this
    obtain ⟨⟨⟨h37, h43⟩, _⟩, _⟩ := this
    simp [hu, plusToSpace, h43]
    exact pctDecode_cons_ne b r h37
  · simp only [hu]
    by_cases hs : b = 32
    · subst hs
      simp [plusToSpace]
      exact pctDecode_cons_ne 32 r (by decide)
    · have := pEsc b
      simp only [PEsc, Bool.and_eq_true, bne_iff_ne, ne_eq] at this
      obtain ⟨⟨⟨⟨⟨⟨⟨⟨h1, h2⟩, _⟩, _⟩, _⟩, _⟩, _⟩, _⟩, hd⟩ := this
      have hs' : (b == 32) = false := by simp [hs]
      simp only [hs', Bool.false_eq_true, ↓reduceIte, List.map_cons, List.map_nil, List.cons_append,
        List.nil_append]
      have e1 : plusToSpace 37 = 37 := by decide
      have e2 : plusToSpace (hexUp (b >>> 4)) = hexUp (b >>> 4) := by simp [plusToSpace, h1]
      have e3 : plusToSpace (hexUp (b &&& 15)) = hexUp (b &&& 15) := by simp [plusToSpace, h2]
      rw [e1, e2, e3]
      cases hx : hexVal (hexUp (b >>> 4)) with
      | none => simp [hx] at hd
      | some x =>
        cases hy : hexVal (hexUp (b &&& 15)) with
        | none => simp [hx, hy] at hd
        | some y =>
          simp [hx, hy] at hd
          rw [pctDecode_esc _ _ x y r hx hy, hd]

theorem encStr_cons (b : UInt8) (s : Bytes) : encStr (b :: s) = encByte b ++ encStr s := by
  simp [encStr]

theorem decode_encStr_append (s r : Bytes) :
    pctDecode ((encStr s).map plusToSpace ++ r) = s ++ pctDecode r := by
  induction s with
  | nil => simp [encStr]
  | cons b s ih =>
    rw [encStr_cons, List.map_append, List.append_assoc, decode_encByte, ih]
    simp

/-- `url_decode(byte_serialize(s)) = s` for every byte string -/
theorem urlDecode_encStr (s : Bytes) : urlDecode (encStr s) = s := by
  have := decode_encStr_append s []
  simpa [urlDecode, pctDecode] using this

/-! ### no separator inside an encoded string -/

theorem encByte_noSep (b c : UInt8) (h : c ∈ encByte b) : c ≠ 38 ∧ c ≠ 61 := by
  unfold encByte at h
  by_cases hu : unchanged b = true
  · have := pUnch b
    simp [PUnch, hu] at this
    simp [hu] at h
    subst h
    exact ⟨this.1.2, this.2⟩
  · simp only [hu] at h
    by_cases hs : b = 32
    · subst hs
      simp at h
      subst h
      decide
    · have hs' : (b == 32) = false := by simp [hs]
      have := pEsc b
      simp only [PEsc, Bool.and_eq_true, bne_iff_ne, ne_eq] at this
      obtain ⟨⟨⟨⟨⟨⟨⟨⟨_, _⟩, h3⟩, h4⟩, h5⟩, h6⟩, _⟩, _⟩, _⟩ := this
      simp [hs'] at h
      rcases h with h | h | h
      · subst h; decide
      · subst h; exact ⟨h3, h5⟩
      · subst h; exact ⟨h4, h6⟩

theorem encStr_noSep (s : Bytes) (c : UInt8) (h : c ∈ encStr s) : c ≠ 38 ∧ c ≠ 61 := by
  simp [encStr] at h
  obtain ⟨b, _, hb⟩ := h
  exact encByte_noSep b c hb

/-! ### splitting -/

theorem splitAtByte_append (b : UInt8) (x y : Bytes) (h : b ∉ x) :
    splitAtByte b (x ++ b :: y) = (x, y) := by
  induction x with
  | nil => simp [splitAtByte]
  | cons c x ih =>
    have hc : c ≠ b := fun e => h (by simp [e])
    have hx : b ∉ x := fun e => h (by simp [e])
    simp [splitAtByte, hc, ih hx]

theorem pieces_ne_nil (s : Bytes) : pieces s ≠ [] := by
  induction s with
  | nil => simp [pieces]
  | cons c s ih =>
    unfold pieces
    split
    · simp
    · split <;> simp

theorem pieces_noAmp (x : Bytes) (h : (38 : UInt8) ∉ x) : pieces x = [x] := by
  induction x with
  | nil => simp [pieces]
  | cons c x ih =>
    have hc : c ≠ 38 := fun e => h (by simp [e])
    have hx : (38 : UInt8) ∉ x := fun e => h (by simp [e])
    simp [pieces, hc, ih hx]

theorem pieces_append (x y : Bytes) (h : (38 : UInt8) ∉ x) :
    pieces (x ++ 38 :: y) = x :: pieces y := by
  induction x with
  | nil => simp [pieces]
  | cons c x ih =>
    have hc : c ≠ 38 := fun e => h (by simp [e])
    have hx : (38 : UInt8) ∉ x := fun e => h (by simp [e])
    simp [pieces, hc, ih hx]

/-! ### the serializer as a join -/

def encPair (kv : Bytes × Bytes) : Bytes := encStr kv.1 ++ [61] ++ encStr kv.2

def joined : List (Bytes × Bytes) → Bytes
  | [] => []
  | [kv] => encPair kv
  | kv :: rest => encPair kv ++ 38 :: joined rest

theorem encPair_ne_nil (kv : Bytes × Bytes) : encPair kv ≠ [] := by simp [encPair]

theorem encPair_noAmp (kv : Bytes × Bytes) : (38 : UInt8) ∉ encPair kv := by
  intro h
  simp [encPair] at h
  rcases h with h | h
  · exact (encStr_noSep _ _ h).1 rfl
  · exact (encStr_noSep _ _ h).1 rfl

theorem foldl_appendPair (out : Bytes) (hne : out ≠ []) (kvs : List (Bytes × Bytes)) :
    kvs.foldl appendPair out = out ++ (kvs.map (fun kv => 38 :: encPair kv)).flatten := by
  induction kvs generalizing out with
  | nil => simp
  | cons kv kvs ih =>
    have hemp : out.isEmpty = false := by cases out <;> simp_all
    have hstep : appendPair out kv = out ++ 38 :: encPair kv := by
      simp [appendPair, hemp, encPair]
    rw [List.foldl_cons, hstep, ih _ (by simp)]
    simp

theorem joined_cons (kv : Bytes × Bytes) (kvs : List (Bytes × Bytes)) :
    joined (kv :: kvs) = encPair kv ++ (kvs.map (fun kv => 38 :: encPair kv)).flatten := by
  induction kvs generalizing kv with
  | nil => simp [joined]
  | cons kv2 kvs ih =>
    rw [joined]
    · rw [ih kv2]; simp
    · simp

theorem formEncode_eq_joined (kvs : List (Bytes × Bytes)) : formEncode kvs = joined kvs := by
  cases kvs with
  | nil => simp [formEncode, joined]
  | cons kv kvs =>
    have h0 : appendPair [] kv = encPair kv := by simp [appendPair, encPair]
    rw [formEncode, List.foldl_cons, h0, foldl_appendPair _ (encPair_ne_nil kv), joined_cons]

theorem pieces_joined (kv : Bytes × Bytes) (kvs : List (Bytes × Bytes)) :
    pieces (joined (kv :: kvs)) = (kv :: kvs).map encPair := by
  induction kvs generalizing kv with
  | nil => simp [joined, pieces_noAmp _ (encPair_noAmp kv)]
  | cons kv2 kvs ih =>
    rw [joined]
    · rw [pieces_append _ _ (encPair_noAmp kv), ih kv2]; simp
    · simp

theorem splitEq_encPair (kv : Bytes × Bytes) :
    splitAtByte 61 (encPair kv) = (encStr kv.1, encStr kv.2) := by
  have h : (61 : UInt8) ∉ encStr kv.1 := fun h => (encStr_noSep _ _ h).2 rfl
  simpa [encPair] using splitAtByte_append 61 (encStr kv.1) (encStr kv.2) h

theorem rawFields_formEncode (kvs : List (Bytes × Bytes)) :
    rawFields (formEncode kvs) = kvs.map (fun kv => (encStr kv.1, encStr kv.2)) := by
  rw [formEncode_eq_joined]
  cases kvs with
  | nil => simp [rawFields, joined, pieces]
  | cons kv kvs =>
    rw [rawFields, pieces_joined]
    have hf : ((kv :: kvs).map encPair).filter (fun f => !f.isEmpty) = (kv :: kvs).map encPair := by
      apply List.filter_eq_self.mpr
      intro f hf
      simp only [List.mem_map] at hf
      obtain ⟨p, _, rfl⟩ := hf
      have := encPair_ne_nil p
      cases h : encPair p <;> simp_all
    rw [hf, List.map_map]
    apply List.map_congr_left
    intro p _
    simp [splitEq_encPair]

/-- (b): what rocket's form parser reads from what the `url` serializer wrote is the list of
    pairs itself — for every list of pairs of byte strings -/
theorem formDecode_formEncode (kvs : List (Bytes × Bytes)) : formDecode (formEncode kvs) = kvs := by
  rw [formDecode, rawFields_formEncode, List.map_map]
  conv => rhs; rw [← List.map_id kvs]
  apply List.map_congr_left
  intro p _
  simp [urlDecode_encStr]

end Rfsm.Http
