import Rfsm.Model.LockTable
import Rfsm.Proofs.LocksLemmas
/-!
From the edge table to the lock machine: a table that admits a class rank makes every conforming
program `OrderedP`; a class cycle in the table excludes every rank.  Core Lean only.
-/
namespace Rfsm.Locks

theorem ltLk_irrefl (cr : Cls → Nat) (a : Lk) : ¬ ltLk cr a a := by
  rintro (h | ⟨_, h⟩) <;> omega

theorem ltLk_trans (cr : Cls → Nat) (a b c : Lk) (h1 : ltLk cr a b) (h2 : ltLk cr b c) :
    ltLk cr a c := by
  rcases h1 with h1 | ⟨e1, h1⟩ <;> rcases h2 with h2 | ⟨e2, h2⟩
  · exact Or.inl (by omega)
  · exact Or.inl (by rw [← e2]; exact h1)
  · exact Or.inl (by rw [e1]; exact h2)
  · exact Or.inr ⟨e1.trans e2, by omega⟩

theorem lk_ne_of_idx_ne {h l : Lk} (hne : h.idx ≠ l.idx) : h ≠ l := by
  intro e
  exact hne (by rw [e])

theorem lk_ne_of_cls_ne {h l : Lk} (hne : h.cls ≠ l.cls) : h ≠ l := by
  intro e
  exact hne (by rw [e])

/-- a justified table edge justifies each of its instances -/
theorem edge_sound {cr : Cls → Nat} {e : Edge} {h l : Lk} {pv : Lk → Option Nat} {u : Nat}
    (hok : edgeOk cr e = true) (hcov : e.covers h l = true)
    (hpriv : e.priv = true → pv h = some u) :
    ltLk cr h l ∨ (pv h = some u ∧ h ≠ l) := by
  simp only [Edge.covers, Bool.and_eq_true, beq_iff_eq, Bool.or_eq_true, bne_iff_ne, ne_eq] at hcov
  obtain ⟨⟨hh, ha⟩, hrel⟩ := hcov
  simp only [edgeOk, Edge.exempt, Bool.or_eq_true, decide_eq_true_eq, Bool.and_eq_true,
    beq_iff_eq, bne_iff_ne, ne_eq] at hok
  rcases hok with hlt | ⟨hsame, hr⟩ | ⟨hp, hx⟩
  · left; left
    rw [← hh, ← ha]; exact hlt
  · left; right
    have hc : h.cls = l.cls := by rw [← hh, ← ha]; exact hsame
    refine ⟨hc, ?_⟩
    rcases hrel with hrel | hrel
    · exact absurd hc hrel
    · rw [hr] at hrel
      simpa [relOk] using hrel
  · right
    refine ⟨hpriv hp, ?_⟩
    by_cases hc : h.cls = l.cls
    · rcases hrel with hrel | hrel
      · exact absurd hc hrel
      · rcases hx with hx | hx
        · exact absurd (by rw [hh, ha]; exact hc) hx
        · cases hrr : e.rel with
          | any => exact absurd hrr hx
          | lt =>
            rw [hrr] at hrel
            have : h.idx < l.idx := by simpa [relOk] using hrel
            exact lk_ne_of_idx_ne (by omega)
          | ne =>
            rw [hrr] at hrel
            have : h.idx ≠ l.idx := by simpa [relOk] using hrel
            exact lk_ne_of_idx_ne this
    · exact lk_ne_of_cls_ne hc

/-- `OrderedP` from a bound on the held-while-acquiring pairs -/
theorem orderedP_of_acqEdges {L : Type} [DecidableEq L] {lt : L → L → Prop}
    {pv : L → Option Nat} {u : Nat} :
    ∀ (p : List (Op L)) (held : List L),
      (∀ l, Op.acquire l ∈ p → pv l = none ∨ pv l = some u) →
      (∀ hl ∈ acqEdges held p, lt hl.1 hl.2 ∨ (pv hl.1 = some u ∧ hl.1 ≠ hl.2)) →
      OrderedP lt pv u held p
  | [], _, _, _ => trivial
  | .acquire l :: rest, held, hpv, he => by
    refine ⟨hpv l (by simp), ?_, ?_⟩
    · intro h hh
      exact he (h, l) (by simp [acqEdges]; exact Or.inl hh)
    · apply orderedP_of_acqEdges rest (l :: held)
      · intro l' hl'
        exact hpv l' (List.mem_cons_of_mem _ hl')
      · intro hl hhl
        exact he hl (by simp only [acqEdges, List.mem_append]; exact Or.inr hhl)
  | .release l :: rest, held, hpv, he => by
    apply orderedP_of_acqEdges rest (held.erase l)
    · intro l' hl'
      exact hpv l' (List.mem_cons_of_mem _ hl')
    · intro hl hhl
      exact he hl (by simpa [acqEdges] using hhl)

theorem respectsPrivacy_sound {pv : Lk → Option Nat} {u : Nat} {p : List (Op Lk)}
    (h : respectsPrivacy pv u p = true) : ∀ l, Op.acquire l ∈ p → pv l = none ∨ pv l = some u := by
  intro l hl
  have := List.all_eq_true.1 h _ hl
  simpa using this

/-- a program that conforms to a table admitting `cr` follows the lock order `ltLk cr` -/
theorem conforms_orderedP {cr : Cls → Nat} {table : List Edge} {pv : Lk → Option Nat} {u : Nat}
    {p : List (Op Lk)} (hadm : admits cr table = true) (hc : conformsB table pv u p = true) :
    OrderedP (ltLk cr) pv u [] p := by
  simp only [conformsB, Bool.and_eq_true] at hc
  obtain ⟨hpv, hed⟩ := hc
  apply orderedP_of_acqEdges p [] (respectsPrivacy_sound hpv)
  intro hl hhl
  have := List.all_eq_true.1 hed hl hhl
  rw [List.any_eq_true] at this
  obtain ⟨e, he, hx⟩ := this
  simp only [Bool.and_eq_true, Bool.or_eq_true, Bool.not_eq_true', beq_iff_eq] at hx
  obtain ⟨hcov, hp⟩ := hx
  have hok : edgeOk cr e = true := List.all_eq_true.1 hadm e he
  apply edge_sound hok hcov
  intro hpt
  rcases hp with hp | hp
  · rw [hpt] at hp
    cases hp
  · exact hp

/-- an edge whose held lock is private justifies each of its instances that is not a re-lock -/
theorem edge_sound_ne {cr : Cls → Nat} {e : Edge} {h l : Lk} {pv : Lk → Option Nat} {u : Nat}
    (hok : edgeOkModRelock cr e = true) (hcov : e.covers h l = true)
    (hpriv : e.priv = true → pv h = some u) (hne : h ≠ l) :
    ltLk cr h l ∨ (pv h = some u ∧ h ≠ l) := by
  simp only [edgeOkModRelock, Bool.or_eq_true] at hok
  rcases hok with hok | hp
  · exact edge_sound hok hcov hpriv
  · exact Or.inr ⟨hpriv hp, hne⟩

/-- a program that conforms to a table admitting `cr` up to re-locking, and that never re-locks,
follows the lock order `ltLk cr` -/
theorem conforms_orderedP_noRelock {cr : Cls → Nat} {table : List Edge} {pv : Lk → Option Nat}
    {u : Nat} {p : List (Op Lk)} (hadm : admitsModRelock cr table = true)
    (hc : conformsB table pv u p = true) (hn : noRelockB p = true) :
    OrderedP (ltLk cr) pv u [] p := by
  simp only [conformsB, Bool.and_eq_true] at hc
  obtain ⟨hpv, hed⟩ := hc
  apply orderedP_of_acqEdges p [] (respectsPrivacy_sound hpv)
  intro hl hhl
  have := List.all_eq_true.1 hed hl hhl
  rw [List.any_eq_true] at this
  obtain ⟨e, he, hx⟩ := this
  simp only [Bool.and_eq_true, Bool.or_eq_true, Bool.not_eq_true', beq_iff_eq] at hx
  obtain ⟨hcov, hp⟩ := hx
  have hok : edgeOkModRelock cr e = true := List.all_eq_true.1 hadm e he
  have hne : hl.1 ≠ hl.2 := by
    have := List.all_eq_true.1 hn hl hhl
    simpa using this
  apply edge_sound_ne hok hcov _ hne
  intro hpt
  rcases hp with hp | hp
  · rw [hpt] at hp
    cases hp
  · exact hp

/-! ### cycles exclude ranks -/

theorem pick_some {table : List Edge} {a b : Cls} (h : (pick table a b).isSome = true) :
    ∃ e ∈ table, e.held = a ∧ e.acq = b ∧ e.exempt = false := by
  cases hp : pick table a b with
  | none => rw [hp] at h; cases h
  | some e =>
    unfold pick at hp
    have hm := List.mem_of_find?_eq_some hp
    have hprop := List.find?_some hp
    simp only [Bool.and_eq_true, beq_iff_eq, Bool.not_eq_true'] at hprop
    exact ⟨e, hm, hprop.1.1, hprop.1.2, hprop.2⟩

theorem pick_lt {cr : Cls → Nat} {table : List Edge} {a b : Cls} (hadm : admits cr table = true)
    (h : (pick table a b).isSome = true) : cr a < cr b := by
  obtain ⟨e, he, rfl, rfl, hex⟩ := pick_some h
  have hok : edgeOk cr e = true := List.all_eq_true.1 hadm e he
  simpa [edgeOk, hex] using hok

theorem classCycleFrom_lt {cr : Cls → Nat} {table : List Edge} (hadm : admits cr table = true)
    (first : Cls) : ∀ (cs : List Cls) (c : Cls), classCycleFrom table first (c :: cs) = true →
      cr c < cr first
  | [], c, h => pick_lt hadm (by simpa [classCycleFrom] using h)
  | d :: rest, c, h => by
    simp only [classCycleFrom, Bool.and_eq_true] at h
    have h1 := pick_lt hadm h.1
    have h2 := classCycleFrom_lt hadm first rest d h.2
    omega

/-- a class cycle in the table: no class rank is admitted -/
theorem classCycle_not_admits {table : List Edge} {cs : List Cls}
    (h : classCycle table cs = true) (cr : Cls → Nat) : admits cr table = false := by
  cases hadm : admits cr table with
  | false => rfl
  | true =>
    cases cs with
    | nil => simp [classCycle] at h
    | cons c rest =>
      have := classCycleFrom_lt hadm c rest c (by simpa [classCycle] using h)
      omega

/-! ### the instance theorems -/

theorem start_allThreads {L : Type} [DecidableEq L] {P : Nat → List L → List (Op L) → Prop}
    {progs : List (List (Op L))} (h : ∀ (u : Nat) (p : List (Op L)), progs[u]? = some p → P u [] p) :
    AllThreads P (start progs) := by
  intro u th hth
  obtain ⟨p, hp, rfl⟩ := start_getElem? hth
  exact h u p hp

/-- every system of threads that conforms to a table admitting a rank is deadlock-free -/
theorem table_no_deadlock {cr : Cls → Nat} {table : List Edge} (hadm : admits cr table = true)
    (pv : Lk → Option Nat) (progs : List (List (Op Lk)))
    (hconf : ∀ (u : Nat) (p : List (Op Lk)), progs[u]? = some p → conformsB table pv u p = true)
    (s : Sys Lk) (hr : Reach (start progs) s) : ¬ Deadlock s := by
  apply invP_state_no_deadlock (lt := ltLk cr) (pv := pv) (ltLk_irrefl cr) (ltLk_trans cr)
  apply reach_invP _ hr
  apply start_allThreads
  intro u p hp
  show HeldOk pv u [] ∧ OrderedP (ltLk cr) pv u [] p
  exact ⟨(fun h hh => nomatch hh), conforms_orderedP hadm (hconf u p hp)⟩

theorem systemNoRelock_sound {progs : List (List (Op Lk))} (h : systemNoRelock progs = true) :
    ∀ (u : Nat) (p : List (Op Lk)), progs[u]? = some p → noRelockB p = true := by
  intro u p hp
  exact List.all_eq_true.1 h p (List.mem_of_getElem? hp)

theorem systemConforms_sound {table : List Edge} {pv : Lk → Option Nat}
    {progs : List (List (Op Lk))} (h : systemConforms table pv progs = true) :
    ∀ (u : Nat) (p : List (Op Lk)), progs[u]? = some p → conformsB table pv u p = true := by
  intro u p hp
  have hlt : u < progs.length := (List.getElem?_eq_some_iff.1 hp).1
  have := List.all_eq_true.1 h u (List.mem_range.2 hlt)
  rw [hp] at this
  exact this

theorem balancedB_sound {L : Type} [DecidableEq L] :
    ∀ (p : List (Op L)) (held : List L), balancedB held p = true → Balanced held p
  | [], held, h => by simpa [balancedB, Balanced] using h
  | .acquire l :: rest, held, h => balancedB_sound rest (l :: held) h
  | .release l :: rest, held, h => balancedB_sound rest (held.erase l) h

theorem systemBalanced_sound {progs : List (List (Op Lk))} (h : systemBalanced progs = true) :
    ∀ (u : Nat) (p : List (Op Lk)), progs[u]? = some p → Balanced [] p := by
  intro u p hp
  exact balancedB_sound p [] (List.all_eq_true.1 h p (List.mem_of_getElem? hp))

/-! ### progress and completion from the invariants -/

theorem progress_of_inv {L : Type} [DecidableEq L] {lt : L → L → Prop} {pv : L → Option Nat}
    (hirr : ∀ a, ¬ lt a a) (htr : ∀ a b c, lt a b → lt b c → lt a c) {s : Sys L}
    (hinv : AllThreads (InvP lt pv) s) (hbal : AllThreads (fun _ => Balanced) s)
    (hun : unfinished s) : ∃ t s', step s t = some s' := by
  apply Classical.byContradiction
  intro hn
  have hstuck : ∀ t, step s t = none := fun t => by
    cases h : step s t with
    | none => rfl
    | some s' => exact absurd ⟨t, s', h⟩ hn
  exact invP_state_no_deadlock hirr htr hinv (stuck_is_deadlock hbal hun hstuck)

theorem completes_of_inv {L : Type} [DecidableEq L] {lt : L → L → Prop} {pv : L → Option Nat}
    (hirr : ∀ a, ¬ lt a a) (htr : ∀ a b c, lt a b → lt b c → lt a c) :
    ∀ (n : Nat) (s : Sys L), todo s = n → AllThreads (InvP lt pv) s →
      AllThreads (fun _ => Balanced) s →
      ∃ sched s', exec s sched = some s' ∧ allFinished s' = true
  | 0, s, hn, _, _ => ⟨[], s, rfl, todo_zero_allFinished hn⟩
  | n + 1, s, hn, hinv, hbal => by
    cases hf : allFinished s with
    | true => exact ⟨[], s, rfl, hf⟩
    | false =>
      obtain ⟨t, s1, hs1⟩ := progress_of_inv hirr htr hinv hbal (not_allFinished_unfinished hf)
      have hr : Reach s s1 := Reach.step Reach.refl hs1
      have hn1 : todo s1 = n := by
        have := step_todo hs1
        omega
      obtain ⟨sched, s2, he, hfin⟩ :=
        completes_of_inv hirr htr n s1 hn1 (reach_invP hinv hr) (reach_balanced hbal hr)
      exact ⟨t :: sched, s2, by simp [exec, hs1, he], hfin⟩

end Rfsm.Locks
