import Rfsm.Proofs.HistoryLemmas
import Rfsm.Proofs.TreeLemmas
import Rfsm.Proofs.RootLemmas
/-!
The history table of a conformant document: every history pseudo-state is owned by exactly one
state (its parent), so after `exitStates` each entry is either the value recorded in this
microstep for the exited owner, or the old entry.
-/
namespace Rfsm.Interp

variable {σ : Type}

/-- a history pseudo-state listed by a state has that state as its parent -/
theorem history_owner {d : Doc} (hc : conformantB d = true) {sid h : Nat}
    (hh : h ∈ (getState d sid).history) : parentOf d h = sid := by
  unfold conformantB at hc
  simp only [Bool.and_eq_true] at hc
  simp only [List.all_eq_true] at hc
  obtain ⟨⟨⟨_, hids⟩, hall⟩, _⟩ := hc
  -- `getState d sid` is a member of the table (otherwise it is the default state: no history)
  have hmem : getState d sid ∈ d.states ∧ 0 < sid ∧ sid ≤ d.states.length := by
    unfold getState at hh ⊢
    by_cases h0 : sid = 0
    · rw [if_pos h0] at hh
      have hd : (default : State).history = [] := rfl
      rw [hd] at hh
      cases hh
    · rw [if_neg h0] at hh ⊢
      by_cases hlt : sid - 1 < d.states.length
      · have : d.states.getD (sid - 1) default = d.states[sid - 1] := by simp [List.getD, hlt]
        rw [this]
        exact ⟨List.getElem_mem hlt, by omega, by omega⟩
      · have : d.states.getD (sid - 1) default = (default : State) := by
          simp [List.getD, Nat.le_of_not_lt hlt]
        rw [this] at hh
        have hd : (default : State).history = [] := rfl
        rw [hd] at hh
        cases hh
  obtain ⟨hm, hpos, hle⟩ := hmem
  have hid : (getState d sid).id = sid := by
    have := hids (sid - 1) (by simp; omega)
    have hg : getState d sid = d.states.getD (sid - 1) default := by
      unfold getState; rw [if_neg (by omega)]
    rw [hg]
    have : (d.states.getD (sid - 1) default).id = sid - 1 + 1 := by simpa using this
    omega
  have hst := hall _ hm
  simp only [Bool.and_eq_true] at hst
  obtain ⟨⟨⟨⟨_, hhist⟩, _⟩, _⟩, _⟩ := hst
  have := (List.all_eq_true.1 hhist) h hh
  simp only [Bool.and_eq_true] at this
  obtain ⟨⟨_, hp⟩, _⟩ := this
  unfold parentOf
  rw [hid] at hp
  simpa using hp

/-- after the exit phase of a microstep every entry of the history table is either the value
    recorded now for the exited owner of that history state, or the entry from before -/
theorem exitStates_hv_cases (env : Env σ) (d : Doc) (hc : conformantB d = true) (s : Sess σ)
    (ts : List Nat) (h : Nat) :
    (parentOf d h ∈ computeExitSet d s.hv s.cfg ts ∧ h ∈ (getState d (parentOf d h)).history ∧
      tget (exitStates env d s ts).hv h = some (histVal d s.cfg (parentOf d h) h)) ∨
    tget (exitStates env d s ts).hv h = tget s.hv h := by
  by_cases hex : ∃ sid ∈ computeExitSet d s.hv s.cfg ts, h ∈ (getState d sid).history
  · obtain ⟨sid, hs, hh⟩ := hex
    have ho := history_owner hc hh
    left
    subst ho
    refine ⟨hs, hh, exitStates_records env d s ts _ h hs hh ?_⟩
    intro s2 h2
    exact (history_owner hc h2).symm
  · right
    apply exitStates_keeps
    intro sid hs hh
    exact hex ⟨sid, hs, hh⟩

end Rfsm.Interp

namespace Rfsm.Interp

/-- restoring also enters the ancestors: for every recorded state, all its proper ancestors below
    the history state's parent are in the entry set -/
theorem history_restores_ancestors {d : Doc} (hv : Table) (f h : Nat) (acc : EntryAcc) (vs : List Nat)
    (hh : isHistoryState d h = true) (hval : tget hv h = some vs) :
    ∀ v ∈ vs, ∀ a ∈ getProperAncestors d v (getState d h).parent,
      a ∈ (addDesc d hv (f + 2) h acc).toEnter := by
  intro v hv' a ha
  unfold addDesc
  simp only [hh, ↓reduceIte, hval]
  clear hval
  generalize vs.foldl (fun a s => addDesc d hv (f + 1) s a) acc = acc0
  induction vs generalizing acc0 with
  | nil => cases hv'
  | cons w vs ih =>
    simp only [List.foldl_cons]
    rcases List.mem_cons.1 hv' with rfl | hm
    · refine foldl_inv (fun (x : EntryAcc) => a ∈ x.toEnter) _ (fun b s hb => addAnc_mono hv _ s _ b a hb) _ _ ?_
      exact addAnc_adds hv f v _ acc0 a ha
    · exact ih hm _

end Rfsm.Interp

namespace Rfsm.Interp

/-- entering a plain atomic state (no history, not compound, not parallel) adds exactly that state -/
theorem addDesc_atomic {d : Doc} (hv : Table) (f v : Nat) (acc : EntryAcc)
    (hn : isHistoryState d v = false) (hc : isCompoundState d v = false) (hp : isParallelState d v = false) :
    addDesc d hv (f + 1) v acc = { acc with toEnter := oadd acc.toEnter v } := by
  unfold addDesc
  simp only [hn, hc, hp, Bool.false_eq_true, ↓reduceIte]

/-- walking up from a child of `p` to `p` passes no state -/
theorem getProperAncestors_child {d : Doc} (v p : Nat) (hp : parentOf d v = p) :
    getProperAncestors d v p = [] := by
  unfold getProperAncestors
  split
  · by_cases h0 : p = 0
    · subst h0
      unfold ancestors
      rw [hp, ancestorsAux_zero]
      rfl
    · unfold ancestors fuelOf ancestorsAux
      rw [hp, if_neg h0]
      simp
  · rfl

theorem addAnc_child {d : Doc} (hv : Table) (f v p : Nat) (acc : EntryAcc) (hp : parentOf d v = p) :
    addAnc d hv f v p acc = acc := by
  cases f with
  | zero => simp [addAnc]
  | succ f =>
    unfold addAnc
    rw [getProperAncestors_child v p hp]
    rfl

/-- **exactness for a shallow history whose stored states are plain atomic children**: targeting the
    history state adds exactly the stored states to the entry set — nothing else -/
theorem history_restores_exactly {d : Doc} (hv : Table) (f h : Nat) (acc : EntryAcc) (vs : List Nat)
    (hh : isHistoryState d h = true) (hval : tget hv h = some vs)
    (hvs : ∀ v ∈ vs, isHistoryState d v = false ∧ isCompoundState d v = false ∧
      isParallelState d v = false ∧ parentOf d v = (getState d h).parent) :
    ∀ x, x ∈ (addDesc d hv (f + 2) h acc).toEnter ↔ x ∈ acc.toEnter ∨ x ∈ vs := by
  intro x
  unfold addDesc
  simp only [hh, ↓reduceIte, hval]
  clear hval
  have hA : ∀ (l : List Nat) (a : EntryAcc), (∀ v ∈ l, parentOf d v = (getState d h).parent) →
      l.foldl (fun a s => addAnc d hv (f + 1) s (getState d h).parent a) a = a := by
    intro l
    induction l with
    | nil => intro a _; rfl
    | cons w l ih =>
      intro a hl
      simp only [List.foldl_cons]
      rw [addAnc_child hv _ w _ a (hl w List.mem_cons_self)]
      exact ih a (fun v hv' => hl v (List.mem_cons_of_mem _ hv'))
  rw [hA vs _ (fun v hv' => (hvs v hv').2.2.2)]
  have hD : ∀ (l : List Nat) (a : EntryAcc),
      (∀ v ∈ l, isHistoryState d v = false ∧ isCompoundState d v = false ∧ isParallelState d v = false) →
      (x ∈ (l.foldl (fun a s => addDesc d hv (f + 1) s a) a).toEnter ↔ x ∈ a.toEnter ∨ x ∈ l) := by
    intro l
    induction l with
    | nil => intro a _; simp
    | cons w l ih =>
      intro a hl
      simp only [List.foldl_cons]
      obtain ⟨h1, h2, h3⟩ := hl w List.mem_cons_self
      rw [addDesc_atomic hv f w a h1 h2 h3, ih _ (fun v hv' => hl v (List.mem_cons_of_mem _ hv'))]
      simp only [mem_oadd, List.mem_cons]
      constructor
      · rintro ((h | h) | h)
        · exact Or.inl h
        · exact Or.inr (Or.inl h)
        · exact Or.inr (Or.inr h)
      · rintro (h | h | h)
        · exact Or.inl (Or.inl h)
        · exact Or.inl (Or.inr h)
        · exact Or.inr h
  exact hD vs acc (fun v hv' => ⟨(hvs v hv').1, (hvs v hv').2.1, (hvs v hv').2.2.1⟩)

end Rfsm.Interp
