import Rfsm.Model.ReaderSpec
import Rfsm.Proofs.ReaderLeaves
/-!
C04 (b), assembling: the decidable class of `supported` content satisfies `OkB`; the reader state
inside `<scxml><state id="s"><onentry>` is `Ready`.
-/
namespace Rfsm.Reader
open Rfsm.Descriptor (Str)

/-- decidable condition under which every leaf is read as one entry: `<log>` has `expr`,
`<cancel>` has exactly one of `sendid` / `sendidexpr`, `<assign>` not both `expr` and child text,
child text of `<script>` / `<assign>` is written without `&` and `<` (`plainText`: the SAX span is
the text itself; for escaped text see `resolve_escape`);
`<send>` is not covered by this corollary (its leaf lemma is missing) -/
def supported : Content → Bool
  | .raise _ => true
  | .assign _ e t => (e.isNone || t.isNone) && !(e.isSome && t.isSome) &&
      (match t with
       | some t => plainText t
       | none => true)
  | .log _ e => e.isSome
  | .script t => plainText t
  | .send _ => false
  | .cancel i e => (i.isSome && e.isNone) || (i.isNone && e.isSome)
  | .ite _ b t => supportedB b && supportedT t
  | .foreach _ _ _ b => supportedB b
where
  supportedB : List Content → Bool
    | [] => true
    | c :: cs => supported c && supportedB cs
  supportedT : Tail → Bool
    | .none => true
    | .els b => supportedB b
    | .elif _ b t => supportedB b && supportedT t


mutual
theorem okC_of_supported : (c : Content) → supported c = true → OkC c
  | .raise e, _ => by simpa [OkC] using leaf_raise e
  | .assign l e t, h => by
    simp only [OkC]
    cases t with
    | none => exact leaf_assign_expr l e
    | some t =>
      cases e with
      | none => exact leaf_assign_text l t (by simpa [supported] using h)
      | some e => simp [supported] at h
  | .log l e, h => by
    simp only [OkC]
    cases e with
    | none => simp [supported] at h
    | some e => exact leaf_log l e
  | .script t, h => by simpa [OkC] using leaf_script t (by simpa [supported] using h)
  | .send s, h => by simp [supported] at h
  | .cancel i e, h => by
    simp only [OkC]
    cases i <;> cases e <;> simp [supported] at h
    · exact leaf_cancel_expr _
    · exact leaf_cancel_id _
  | .ite c b t, h => by
    simp only [supported, Bool.and_eq_true] at h
    simp only [OkC]
    exact ⟨okB_of_supported b h.1, okT_of_supported t h.2⟩
  | .foreach a i x b, h => by
    simp only [supported] at h
    simp only [OkC]
    exact okB_of_supported b h
theorem okB_of_supported : (b : List Content) → supported.supportedB b = true → OkB b
  | [], _ => by simp [OkB]
  | c :: cs, h => by
    simp only [supported.supportedB, Bool.and_eq_true] at h
    simp only [OkB]
    exact ⟨okC_of_supported c h.1, okB_of_supported cs h.2⟩
theorem okT_of_supported : (t : Tail) → supported.supportedT t = true → OkT t
  | .none, _ => by simp [OkT]
  | .els b, h => by
    simp only [supported.supportedT] at h
    simp only [OkT]
    exact okB_of_supported b h
  | .elif c b t, h => by
    simp only [supported.supportedT, Bool.and_eq_true] at h
    simp only [OkT]
    exact ⟨okB_of_supported b h.1, okT_of_supported t h.2⟩
end

/-! ### the same, from the start of a document -/

/-- `<scxml><state id="s"><onentry>` -/
def preOnentry : List Sax := [.start t_scxml [], .start t_state [(a_id, [115])], .start t_onentry []]

/-- the reader state inside that `<onentry>` -/
def σ0 : RS :=
  match run preOnentry {} with
  | .ok σ => σ
  | .error _ => {}

theorem σ0_run_aux : run preOnentry {} = .ok σ0 := by
  have h : (match run preOnentry {} with
    | .ok _ => true
    | .error _ => false) = true := by decide +kernel
  unfold σ0
  cases hr : run preOnentry {} with
  | ok σ => rfl
  | error e => rw [hr] at h; simp at h

theorem σ0_facts_aux : σ0.raw = none ∧ σ0.cur.tag = .onentry ∧ σ0.curEc = 1 ∧ σ0.nextId = 2 ∧
    σ0.fsm.regions = [(1, [])] ∧ (match curState σ0 with
      | .ok _ => true
      | .error _ => false) = true := by decide +kernel

theorem σ0_ready_aux : Ready σ0 [] := by
  obtain ⟨h1, h2, h3, h4, h5, h6⟩ := σ0_facts_aux
  refine ⟨h1, by rw [h2]; decide, by rw [h3]; decide, by rw [h3, h4]; decide, by rw [h5, h3]; decide, ?_, ?_⟩
  · intro id hid
    rw [h4] at hid
    rw [h5]
    simp [rget]; omega
  · cases h : curState σ0 with
    | ok s => exact ⟨s, rfl⟩
    | error e => rw [h] at h6; simp at h6

theorem le_maxKey_aux {g : Regions} {k : Nat} (h : (rget g k).isSome) : k ≤ maxKey g := by
  induction g with
  | nil => simp [rget] at h
  | cons p r ih =>
    obtain ⟨a, w⟩ := p
    simp only [rget] at h
    simp only [maxKey]
    split at h
    · omega
    · have := ih h; omega


/-! ### lexical respellings of the raw-text leaves (repaired in round 2) -/

theorem localName_prefix (p n : Str) (hp : p.all (· != 58) = true) : localName (p ++ 58 :: n) = n := by
  unfold localName
  have : (p ++ 58 :: n).dropWhile (· ≠ 58) = 58 :: n := by
    induction p with
    | nil => simp [List.dropWhile]
    | cons c cs ih =>
      simp only [List.all_cons, Bool.and_eq_true, bne_iff_ne, ne_eq] at hp
      have := ih hp.2
      simpa [List.dropWhile, hp.1] using this
  rw [this]

/-- a namespace prefix on `<script>` with child text does not change what is read -/
theorem prefix_script (p t : Str) (hp : p.all (· != 58) = true) (hpl : plainText t = true)
    (σ : RS) (es : List Exec) (hR : Ready σ es) :
    run (addPrefix p (saxC (.script t))) σ = run (saxC (.script t)) σ := by
  have hl : localName t_script = t_script := by decide
  have ht : tagOf t_script = .script := by decide
  have hlp := localName_prefix p t_script hp
  have hres := resolve_plain t hpl
  obtain ⟨hp1, hp2⟩ := script_parent hR.tag
  by_cases he : t = []
  · subst he
    simp [saxC, rawSax, addPrefix, run, step, hR.raw, hl, ht, hlp, isRawTag, rawElement, rawPre, startScript, verifyParent, RS.parentTag,
      RS.push, getAttr, addExec, hR.cur0, hR.reg, bind, Except.bind, endElement, RS.pop, RS.upd, hp1, hp2, trim_nil]
  · have hne : t.isEmpty = false := by cases t <;> simp_all
    simp [saxC, rawSax, addPrefix, hne, run, step, hR.raw, hl, ht, hlp, hres, isRawTag, rawElement, rawPre, startScript, verifyParent,
        RS.parentTag, RS.push, getAttr, addExec, hR.cur0, hR.reg, bind, Except.bind, RS.pop, RS.upd, hp1, hp2]

/-- `<assign location expr?></assign>` is read like `<assign location expr?/>` -/
theorem pair_assign (l : Str) (e : Option Str) (σ : RS) (es : List Exec) (hR : Ready σ es) :
    run (pairForm (saxC (.assign l e none))) σ = run (saxC (.assign l e none)) σ := by
  have hl : localName t_assign = t_assign := by decide
  have ht : tagOf t_assign = .assign := by decide
  have hk : ¬ a_location = a_expr := by decide
  have hp := assign_parent hR.tag
  cases e with
  | none =>
    simp [saxC, rawSax, pairForm, optA, run, step, hR.raw, hl, ht, resolve_nil, isRawTag, rawElement, rawPre, startAssign, verifyParent,
      RS.parentTag, RS.push, required, getAttr, hk, addExec, hR.cur0, hR.reg, bind, Except.bind, endElement, RS.pop,
      RS.upd, hp, createSource, trim_nil, Data.isEmpty]
  | some e =>
    simp [saxC, rawSax, pairForm, optA, run, step, hR.raw, hl, ht, resolve_nil, isRawTag, rawElement, rawPre, startAssign, verifyParent,
      RS.parentTag, RS.push, required, getAttr, hk, addExec, hR.cur0, hR.reg, bind, Except.bind, endElement, RS.pop,
      RS.upd, hp, createSource, trim_nil, Data.isEmpty]

end Rfsm.Reader
