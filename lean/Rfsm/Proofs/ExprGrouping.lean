import Rfsm.Model.ExprParser
/-!
The grouping theorem for `stackToExpr` (`stack_to_expression`) on infix chains.

A chain is kept as a forest: a first tree and a list of (operator, tree).  `flat` is the parser
stack of a forest.  One round of `stackToExpr` = `scan` (finds the last operator of minimal
priority number, `bestOp_cases`) + `foldAt` (merges its two neighbours, `foldAt_flat`) =
`mergeAt` on the forest.  The invariant `Inv` (every tree is right grouped; operators to the left
of a tree bind at most as tightly as its top, operators to its right strictly less tightly) is
preserved by merging at the best operator, and the in-order reading never changes.
-/
namespace Rfsm.Expr

/-- binary trees over operand expressions: the shape `stack_to_expression` builds from a chain -/
inductive BTree
  | leaf (e : Expr)
  | node (o : Op) (l r : BTree)

/-- the expression node the parser builds -/
def BTree.toExpr : BTree → Expr
  | .leaf e => e
  | .node o l r => mkBinary o l.toExpr r.toExpr

/-- in-order reading: operands and operators as written -/
def BTree.inorder : BTree → Expr × List (Op × Expr)
  | .leaf e => (e, [])
  | .node o l r => (l.inorder.1, l.inorder.2 ++ (o, r.inorder.1) :: r.inorder.2)

/-- priority of the top operator; an operand binds tightest -/
def BTree.topPrio : BTree → Nat
  | .leaf _ => 0
  | .node o _ _ => prio o

def rightAssoc (o : Op) : Bool := o == .assign || o == .assignUndefined

/-- documented grouping: the left subtree binds at least as tightly and the right one strictly
tighter (left to right); the other way round for `=` and `?=` -/
def WellGrouped : BTree → Prop
  | .leaf _ => True
  | .node o l r =>
    WellGrouped l ∧ WellGrouped r ∧
    (if rightAssoc o then l.topPrio < prio o ∧ r.topPrio ≤ prio o
     else l.topPrio ≤ prio o ∧ r.topPrio < prio o)

/-- what the code does: every operator groups to the right -/
def RightGrouped : BTree → Prop
  | .leaf _ => True
  | .node o l r => RightGrouped l ∧ RightGrouped r ∧ l.topPrio < prio o ∧ r.topPrio ≤ prio o

abbrev Forest := List (Op × BTree)

def fops (rest : Forest) : List Op := rest.map (·.1)

/-- the parser stack of a forest -/
def flat (t0 : BTree) : Forest → List Item
  | [] => [.ex t0.toExpr]
  | (o, t) :: rest => .ex t0.toExpr :: .tok (.operator o) :: flat t rest

theorem flat_length (t0 : BTree) (rest : Forest) : (flat t0 rest).length = 2 * rest.length + 1 := by
  induction rest generalizing t0 with
  | nil => rfl
  | cons p rest ih => obtain ⟨o, t⟩ := p; simp only [flat, List.length_cons, ih]; omega

/-- in-order reading of a forest -/
def inorderF (t0 : BTree) : Forest → Expr × List (Op × Expr)
  | [] => t0.inorder
  | (o, t) :: rest => (t0.inorder.1, t0.inorder.2 ++ (o, (inorderF t rest).1) :: (inorderF t rest).2)

/-- merge the operator at position `k` with its two neighbours -/
def mergeAt (t0 : BTree) : Forest → Nat → BTree × Forest
  | [], _ => (t0, [])
  | (o, t) :: rest, 0 => (.node o t0 t, rest)
  | (o1, t1) :: rest, k + 1 => (t0, (o1, (mergeAt t1 rest k).1) :: (mergeAt t1 rest k).2)

theorem prio_lt_255 (o : Op) : prio o < 255 := by cases o <;> decide
theorem prio_pos (o : Op) : 0 < prio o := by cases o <;> decide

/-! ### scan -/

/-- the best-operator search of `scan`, on the operators alone (stack positions `si, si+2, …`) -/
def bestOp : List Op → Nat → Nat → Nat → Nat × Nat
  | [], _, bi, bp => (bi, bp)
  | o :: os, si, bi, bp =>
    if prio o ≤ bp then bestOp os (si + 2) si (prio o) else bestOp os (si + 2) bi bp

theorem scan_flat (t0 : BTree) (rest : Forest) (si bi bp : Nat) :
    scan (flat t0 rest) si bi bp = some (flat t0 rest, bestOp (fops rest) (si + 1) bi bp) := by
  induction rest generalizing t0 si bi bp with
  | nil => simp [flat, scan, fops, bestOp]
  | cons p rest ih =>
    obtain ⟨o, t⟩ := p
    simp only [flat, scan, fops, List.map_cons, bestOp]
    by_cases h : prio o ≤ bp
    · simp only [h, if_true]
      have := ih t (si + 1 + 1) (si + 1) (prio o)
      simp only [fops] at this
      rw [this]; rfl
    · simp only [h, if_false]
      have := ih t (si + 1 + 1) bi bp
      simp only [fops] at this
      rw [this]; rfl

/-- where `bestOp` ends: nothing beats the incoming best, or the last operator of minimal
priority number among those that do -/
theorem bestOp_cases (os : List Op) (si bi bp : Nat) :
    (bestOp os si bi bp = (bi, bp) ∧ ∀ o ∈ os, bp < prio o) ∨
    (∃ pre o post, os = pre ++ o :: post ∧ bestOp os si bi bp = (si + 2 * pre.length, prio o) ∧
      prio o ≤ bp ∧ (∀ p ∈ pre, prio o ≤ prio p) ∧ (∀ q ∈ post, prio o < prio q)) := by
  induction os generalizing si bi bp with
  | nil => left; simp [bestOp]
  | cons o os ih =>
    simp only [bestOp]
    by_cases h : prio o ≤ bp
    · simp only [h, if_true]
      rcases ih (si + 2) si (prio o) with ⟨h1, h2⟩ | ⟨pre, o', post, h1, h2, h3, h4, h5⟩
      · right
        exact ⟨[], o, os, rfl, by simpa using h1, h, by simp, h2⟩
      · right
        refine ⟨o :: pre, o', post, by simp [h1], ?_, Nat.le_trans h3 h, ?_, h5⟩
        · rw [h2]; simp only [List.length_cons]; congr 1; omega
        · intro p hp
          rcases List.mem_cons.1 hp with rfl | hp
          · exact h3
          · exact h4 p hp
    · simp only [h, if_false]
      rcases ih (si + 2) bi bp with ⟨h1, h2⟩ | ⟨pre, o', post, h1, h2, h3, h4, h5⟩
      · left
        refine ⟨h1, ?_⟩
        intro q hq
        rcases List.mem_cons.1 hq with rfl | hq
        · omega
        · exact h2 q hq
      · right
        refine ⟨o :: pre, o', post, by simp [h1], ?_, h3, ?_, h5⟩
        · rw [h2]; simp only [List.length_cons]; congr 1; omega
        · intro p hp
          rcases List.mem_cons.1 hp with rfl | hp
          · omega
          · exact h4 p hp

/-! ### foldAt -/

theorem foldAt_cons2 (a b : Item) (s : List Item) (idx : Nat) (h : 0 < idx)
    (f : Expr → Expr → Option Expr) :
    foldAt (a :: b :: s) (idx + 2) f = (foldAt s idx f).map fun r => a :: b :: r := by
  unfold foldAt
  have e1 : idx + 2 - 1 = (idx - 1) + 2 := by omega
  have e2 : idx + 2 + 1 = (idx + 1) + 2 := by omega
  have e3 : idx + 2 + 2 = (idx + 2) + 2 := by omega
  by_cases hc : 0 < idx ∧ idx + 1 < s.length
  · have hc' : 0 < idx + 2 ∧ idx + 2 + 1 < (a :: b :: s).length := by
      simp only [List.length_cons]; omega
    simp only [hc, hc', and_self, if_true, e1, e2, e3, List.getElem?_cons_succ, List.take_succ_cons,
      List.drop_succ_cons]
    cases s[idx - 1]? with
    | none => rfl
    | some x =>
      cases x with
      | tok t => rfl
      | ex le =>
        cases s[idx + 1]? with
        | none => rfl
        | some y =>
          cases y with
          | tok t => rfl
          | ex re =>
            simp only
            cases f le re <;> simp
  · have hc' : ¬ (0 < idx + 2 ∧ idx + 2 + 1 < (a :: b :: s).length) := by
      simp only [List.length_cons]; omega
    rw [if_neg hc, if_neg hc']; rfl

theorem foldAt_flat (t0 : BTree) (rest : Forest) (k : Nat) (hk : k < rest.length) (o : Op)
    (ho : (fops rest)[k]? = some o) :
    foldAt (flat t0 rest) (2 * k + 1) (fun le re => some (mkBinary o le re)) =
      some (flat (mergeAt t0 rest k).1 (mergeAt t0 rest k).2) := by
  induction k generalizing t0 rest with
  | zero =>
    match rest, hk, ho with
    | (o', t) :: rest', _, ho =>
      simp only [fops, List.map_cons, List.getElem?_cons_zero, Option.some.injEq] at ho
      subst ho
      cases rest' with
      | nil => simp [flat, foldAt, mergeAt, BTree.toExpr]
      | cons p r => obtain ⟨o2, t2⟩ := p; simp [flat, foldAt, mergeAt, BTree.toExpr]
  | succ k ih =>
    match rest, hk, ho with
    | (o1, t1) :: rest', hk, ho =>
      simp only [fops, List.map_cons, List.getElem?_cons_succ] at ho
      simp only [List.length_cons] at hk
      have e : 2 * (k + 1) + 1 = (2 * k + 1) + 2 := by omega
      rw [e]
      simp only [flat]
      rw [foldAt_cons2 _ _ _ _ (by omega)]
      rw [ih t1 rest' (by omega) ho]
      simp [mergeAt, flat]

/-! ### the invariant -/

/-- `L` = operators to the left of `t0` (nearest first); operators to the left of a tree bind at
most as tightly as its top operator, those to its right strictly less tightly -/
def Inv : List Op → BTree → Forest → Prop
  | L, t0, [] => RightGrouped t0 ∧ (∀ l ∈ L, t0.topPrio ≤ prio l)
  | L, t0, (o, t) :: rest =>
    RightGrouped t0 ∧ (∀ l ∈ L, t0.topPrio ≤ prio l) ∧
    (∀ q ∈ fops ((o, t) :: rest), t0.topPrio < prio q) ∧ Inv (o :: L) t rest

theorem Inv_head {L : List Op} {t0 : BTree} {rest : Forest} (h : Inv L t0 rest) :
    RightGrouped t0 ∧ (∀ l ∈ L, t0.topPrio ≤ prio l) ∧ (∀ q ∈ fops rest, t0.topPrio < prio q) := by
  cases rest with
  | nil => exact ⟨h.1, h.2, by simp [fops]⟩
  | cons p rest => obtain ⟨o, t⟩ := p; exact ⟨h.1, h.2.1, h.2.2.1⟩

theorem Inv_mono {L L' : List Op} (hsub : ∀ l ∈ L', l ∈ L) {t0 : BTree} {rest : Forest}
    (h : Inv L t0 rest) : Inv L' t0 rest := by
  induction rest generalizing L L' t0 with
  | nil => exact ⟨h.1, fun l hl => h.2 l (hsub l hl)⟩
  | cons p rest ih =>
    obtain ⟨o, t⟩ := p
    refine ⟨h.1, fun l hl => h.2.1 l (hsub l hl), h.2.2.1, ?_⟩
    apply ih (L := o :: L) _ h.2.2.2
    intro l hl
    rcases List.mem_cons.1 hl with rfl | hl
    · exact List.mem_cons_self
    · exact List.mem_cons_of_mem _ (hsub l hl)

theorem fops_mergeAt_sub (t0 : BTree) (rest : Forest) (k : Nat) :
    ∀ q ∈ fops (mergeAt t0 rest k).2, q ∈ fops rest := by
  induction rest generalizing t0 k with
  | nil => simp [mergeAt, fops]
  | cons p rest ih =>
    obtain ⟨o, t⟩ := p
    cases k with
    | zero => intro q hq; simp only [mergeAt] at hq; simp only [fops, List.map_cons]; exact List.mem_cons_of_mem _ hq
    | succ k =>
      intro q hq
      simp only [mergeAt, fops, List.map_cons] at hq ⊢
      rcases List.mem_cons.1 hq with rfl | hq
      · exact List.mem_cons_self
      · exact List.mem_cons_of_mem _ (ih t k q hq)

/-- merging at the last operator of minimal priority number keeps the invariant -/
theorem Inv_mergeAt (L : List Op) (t0 : BTree) (pre : Forest) (o : Op) (t : BTree) (post : Forest)
    (h : Inv L t0 (pre ++ (o, t) :: post))
    (hL : ∀ l ∈ L, prio o ≤ prio l) (hpre : ∀ p ∈ fops pre, prio o ≤ prio p)
    (hpost : ∀ q ∈ fops post, prio o < prio q) :
    Inv L (mergeAt t0 (pre ++ (o, t) :: post) pre.length).1
      (mergeAt t0 (pre ++ (o, t) :: post) pre.length).2 := by
  induction pre generalizing L t0 with
  | nil =>
    simp only [List.nil_append, List.length_nil, mergeAt]
    obtain ⟨h1, h2, h3, h4⟩ := h
    have ht := Inv_head h4
    have hnode : RightGrouped (.node o t0 t) :=
      ⟨h1, ht.1, h3 o (by simp [fops]), ht.2.1 o List.mem_cons_self⟩
    cases post with
    | nil => exact ⟨hnode, fun l hl => hL l hl⟩
    | cons p post =>
      obtain ⟨o2, t2⟩ := p
      refine ⟨hnode, fun l hl => hL l hl, fun q hq => hpost q hq, ?_⟩
      have h5 : Inv (o2 :: o :: L) t2 post := h4.2.2.2
      apply Inv_mono _ h5
      intro l hl
      rcases List.mem_cons.1 hl with rfl | hl
      · exact List.mem_cons_self
      · exact List.mem_cons_of_mem _ (List.mem_cons_of_mem _ hl)
  | cons p pre ih =>
    obtain ⟨o1, t1⟩ := p
    simp only [List.cons_append, List.length_cons, mergeAt]
    obtain ⟨h1, h2, h3, h4⟩ := h
    have hrec := ih (o1 :: L) t1 h4
      (by intro l hl
          rcases List.mem_cons.1 hl with rfl | hl
          · exact hpre _ (by simp [fops])
          · exact hL l hl)
      (by intro p hp; exact hpre p (by simp only [fops, List.map_cons] at hp ⊢; exact List.mem_cons_of_mem _ hp))
    refine ⟨h1, h2, ?_, hrec⟩
    intro q hq
    simp only [fops, List.map_cons] at hq
    rcases List.mem_cons.1 hq with rfl | hq
    · exact h3 _ (by simp [fops])
    · have := fops_mergeAt_sub t1 (pre ++ (o, t) :: post) pre.length q hq
      exact h3 q (by simp only [fops, List.cons_append, List.map_cons]; exact List.mem_cons_of_mem _ this)

theorem inorderF_mergeAt (t0 : BTree) (rest : Forest) (k : Nat) :
    inorderF (mergeAt t0 rest k).1 (mergeAt t0 rest k).2 = inorderF t0 rest := by
  induction rest generalizing t0 k with
  | nil => simp [mergeAt]
  | cons p rest ih =>
    obtain ⟨o, t⟩ := p
    cases k with
    | zero =>
      simp only [mergeAt]
      cases rest with
      | nil => simp [inorderF, BTree.inorder]
      | cons q rest' => obtain ⟨o2, t2⟩ := q; simp [inorderF, BTree.inorder]
    | succ k =>
      simp only [mergeAt, inorderF]
      rw [ih t k]

theorem mergeAt_length (t0 : BTree) (rest : Forest) (k : Nat) (hk : k < rest.length) :
    (mergeAt t0 rest k).2.length + 1 = rest.length := by
  induction rest generalizing t0 k with
  | nil => simp at hk
  | cons p rest ih =>
    obtain ⟨o, t⟩ := p
    cases k with
    | zero => simp [mergeAt]
    | succ k =>
      simp only [mergeAt, List.length_cons]
      have := ih t k (by simpa using hk)
      omega

theorem getElem?_append_mid {α} (pre : List α) (x : α) (post : List α) :
    (pre ++ x :: post)[pre.length]? = some x := by
  simp

theorem flat_getElem_op (t0 : BTree) (rest : Forest) (k : Nat) (o : Op)
    (hk : (fops rest)[k]? = some o) :
    (flat t0 rest)[1 + 2 * k]? = some (.tok (.operator o)) := by
  induction rest generalizing t0 k with
  | nil => simp [fops] at hk
  | cons q rest ih =>
    obtain ⟨o1, t1⟩ := q
    cases k with
    | zero =>
      simp only [fops, List.map_cons, List.getElem?_cons_zero, Option.some.injEq] at hk
      subst hk
      simp [flat]
    | succ k =>
      simp only [fops, List.map_cons, List.getElem?_cons_succ] at hk
      have e : 1 + 2 * (k + 1) = (1 + 2 * k) + 2 := by omega
      simp only [e, flat, List.getElem?_cons_succ]
      exact ih t1 k hk

/-! ### the main theorem -/

/-- what `stack_to_expression` computes on the stack of a forest of binary operators: a tree with
the same in-order reading in which every operator groups to the right -/
theorem stackToExpr_flat (n : Nat) : ∀ (fuel : Nat) (t0 : BTree) (rest : Forest),
    rest.length = n → n + 1 ≤ fuel → (∀ o ∈ fops rest, o ≠ .not) → Inv [] t0 rest →
    ∃ t : BTree, stackToExpr fuel (flat t0 rest) = .ok (some t.toExpr) [] ∧
      t.inorder = inorderF t0 rest ∧ RightGrouped t := by
  induction n with
  | zero =>
    intro fuel t0 rest hlen hfuel _ hinv
    have : rest = [] := List.length_eq_zero_iff.1 hlen
    subst this
    obtain ⟨f, rfl⟩ : ∃ f, fuel = f + 1 := ⟨fuel - 1, by omega⟩
    refine ⟨t0, ?_, rfl, hinv.1⟩
    simp [stackToExpr, flat, scan]
  | succ n ih =>
    intro fuel t0 rest hlen hfuel hbin hinv
    obtain ⟨f, rfl⟩ : ∃ f, fuel = f + 1 := ⟨fuel - 1, by omega⟩
    have hne : rest ≠ [] := by intro h; simp [h] at hlen
    -- one round
    rcases bestOp_cases (fops rest) 1 0 255 with ⟨_, h2⟩ | ⟨pre, o, post, hsplit, hbest, _, hpre, hpost⟩
    · exfalso
      cases rest with
      | nil => exact hne rfl
      | cons p r =>
        have := h2 p.1 (by simp [fops])
        have := prio_lt_255 p.1
        omega
    · -- split the forest accordingly
      have hlenp : pre.length < rest.length := by
        have := congrArg List.length hsplit
        simp only [fops, List.length_map, List.length_append, List.length_cons] at this
        omega
      have hk : (fops rest)[pre.length]? = some o := by rw [hsplit]; simp
      have hon : o ≠ .not := hbin o (by rw [hsplit]; simp)
      have hfold := foldAt_flat t0 rest pre.length hlenp o hk
      have hidx := flat_getElem_op t0 rest pre.length o hk
      -- the forest as pre ++ (o, t) :: post'
      obtain ⟨preF, t, postF, hrest, hpl, hpreF, hpostF⟩ :
          ∃ preF t postF, rest = preF ++ (o, t) :: postF ∧ preF.length = pre.length ∧
            fops preF = pre ∧ fops postF = post := by
        clear hfold hidx hk hbest hpre hpost ih hinv hbin hlenp hne hlen hfuel hon
        induction pre generalizing rest with
        | nil =>
          cases rest with
          | nil => simp [fops] at hsplit
          | cons q r =>
            obtain ⟨o1, t1⟩ := q
            simp only [fops, List.map_cons, List.nil_append, List.cons.injEq] at hsplit
            exact ⟨[], t1, r, by simp [hsplit.1], rfl, rfl, hsplit.2⟩
        | cons x pre' ihp =>
          cases rest with
          | nil => simp [fops] at hsplit
          | cons q r =>
            obtain ⟨o1, t1⟩ := q
            simp only [fops, List.map_cons, List.cons_append, List.cons.injEq] at hsplit
            obtain ⟨pf, t, qf, h1, h2, h3, h4⟩ := ihp r hsplit.2
            exact ⟨(o1, t1) :: pf, t, qf, by rw [h1]; rfl, by simp [h2],
              by simp [fops, hsplit.1, ← h3], h4⟩
      have hinv' : Inv [] (mergeAt t0 rest pre.length).1 (mergeAt t0 rest pre.length).2 := by
        rw [hrest, ← hpl]
        apply Inv_mergeAt [] t0 preF o t postF (hrest ▸ hinv) (by simp)
        · rw [hpreF]; exact hpre
        · rw [hpostF]; exact hpost
      have hlen' : (mergeAt t0 rest pre.length).2.length = n := by
        have := mergeAt_length t0 rest pre.length hlenp
        omega
      have hbin' : ∀ q ∈ fops (mergeAt t0 rest pre.length).2, q ≠ .not :=
        fun q hq => hbin q (fops_mergeAt_sub t0 rest pre.length q hq)
      obtain ⟨tr, hst, hin, hrg⟩ := ih f _ _ hlen' (by omega) hbin' hinv'
      refine ⟨tr, ?_, by rw [hin, inorderF_mergeAt], hrg⟩
      -- unfold one round of stackToExpr
      have hflat_ne : (flat t0 rest).isEmpty = false := by
        cases rest with
        | nil => exact absurd rfl hne
        | cons q r => obtain ⟨o1, t1⟩ := q; rfl
      rw [stackToExpr]
      simp only [hflat_ne, Bool.false_eq_true, if_false, scan_flat, hbest]
      have hlt : prio o < 255 := prio_lt_255 o
      simp only [hlt, if_true, hidx]
      have e : 1 + 2 * pre.length = 2 * pre.length + 1 := by omega
      cases o <;> first | exact absurd rfl hon | (rw [e, hfold]; exact hst)

/-! ### chains of operands -/

/-- the parser stack of an infix chain `a₀ o₁ a₁ … oₙ aₙ` (operands already reduced to
expressions: literals, parenthesised sub-expressions, calls, …) -/
def chainStack (a0 : Expr) (rest : List (Op × Expr)) : List Item :=
  .ex a0 :: rest.flatMap fun (o, a) => [.tok (.operator o), .ex a]

def leaves (rest : List (Op × Expr)) : Forest := rest.map fun (o, a) => (o, .leaf a)

theorem chainStack_eq_flat (a0 : Expr) (rest : List (Op × Expr)) :
    chainStack a0 rest = flat (.leaf a0) (leaves rest) := by
  induction rest generalizing a0 with
  | nil => rfl
  | cons p rest ih =>
    obtain ⟨o, a⟩ := p
    have := ih a
    simp only [chainStack, leaves, List.flatMap_cons, List.map_cons, flat, BTree.toExpr,
      List.cons_append, List.nil_append] at this ⊢
    rw [← this]

theorem inorderF_leaves (a0 : Expr) (rest : List (Op × Expr)) :
    inorderF (.leaf a0) (leaves rest) = (a0, rest) := by
  induction rest generalizing a0 with
  | nil => rfl
  | cons p rest ih =>
    obtain ⟨o, a⟩ := p
    simp only [leaves, List.map_cons, inorderF, BTree.inorder, List.nil_append]
    have := ih a
    simp only [leaves] at this
    rw [this]

theorem fops_leaves (rest : List (Op × Expr)) : fops (leaves rest) = rest.map (·.1) := by
  simp [fops, leaves]

theorem Inv_leaves (L : List Op) (a0 : Expr) (rest : List (Op × Expr)) :
    Inv L (.leaf a0) (leaves rest) := by
  induction rest generalizing L a0 with
  | nil => exact ⟨trivial, fun l _ => Nat.zero_le _⟩
  | cons p rest ih =>
    obtain ⟨o, a⟩ := p
    exact ⟨trivial, fun l _ => Nat.zero_le _, fun q _ => prio_pos q, ih (o :: L) a⟩

/-- right grouping is the documented grouping as long as no two left-associative operators of the
same priority occur in the chain -/
theorem wellGrouped_of_rightGrouped (t : BTree) (h : RightGrouped t)
    (hp : t.inorder.2.Pairwise fun p q => prio p.1 = prio q.1 → rightAssoc p.1 = true) :
    WellGrouped t := by
  induction t with
  | leaf e => trivial
  | node o l r ihl ihr =>
    obtain ⟨hl, hr, h1, h2⟩ := h
    simp only [BTree.inorder, List.pairwise_append, List.pairwise_cons] at hp
    obtain ⟨hpl, ⟨hpo, hpr⟩, _⟩ := hp
    refine ⟨ihl hl hpl, ihr hr hpr, ?_⟩
    by_cases hra : rightAssoc o = true
    · simp only [hra, if_true]; exact ⟨h1, h2⟩
    · simp only [hra, Bool.false_eq_true, if_false]
      refine ⟨Nat.le_of_lt h1, ?_⟩
      rcases Nat.lt_or_eq_of_le h2 with h3 | h3
      · exact h3
      · exfalso
        cases r with
        | leaf e => simp only [BTree.topPrio] at h3; have := prio_pos o; omega
        | node o2 l2 r2 =>
          simp only [BTree.topPrio] at h3
          have hmem : (o2, r2.inorder.1) ∈ (BTree.node o2 l2 r2).inorder.2 := by
            simp [BTree.inorder]
          exact hra (hpo _ hmem h3.symm)

/-! ### uniqueness -/

/-- in a right-grouped tree every operator binds at least as tightly as the top one -/
theorem rightGrouped_ops_le (t : BTree) (h : RightGrouped t) :
    ∀ p ∈ t.inorder.2, prio p.1 ≤ t.topPrio := by
  induction t with
  | leaf e => intro p hp; simp [BTree.inorder] at hp
  | node o l r ihl ihr =>
    obtain ⟨hl, hr, h1, h2⟩ := h
    intro p hp
    simp only [BTree.inorder, List.mem_append, List.mem_cons] at hp
    simp only [BTree.topPrio]
    rcases hp with hp | rfl | hp
    · have := ihl hl p hp; omega
    · exact Nat.le_refl _
    · have := ihr hr p hp; omega

/-- the right-grouped tree of a chain is unique: its root is the first operator of maximal
priority number -/
theorem rightGrouped_unique (t1 t2 : BTree) (h1 : RightGrouped t1) (h2 : RightGrouped t2)
    (hin : t1.inorder = t2.inorder) : t1 = t2 := by
  induction t1 generalizing t2 with
  | leaf e =>
    cases t2 with
    | leaf e2 => simp [BTree.inorder] at hin; rw [hin]
    | node o l r =>
      have := congrArg (fun p => p.2.length) hin
      simp [BTree.inorder] at this
  | node o1 l1 r1 ihl ihr =>
    cases t2 with
    | leaf e2 =>
      have := congrArg (fun p => p.2.length) hin
      simp [BTree.inorder] at this
    | node o2 l2 r2 =>
      obtain ⟨hl1, hr1, ha1, hb1⟩ := h1
      obtain ⟨hl2, hr2, ha2, hb2⟩ := h2
      simp only [BTree.inorder, Prod.mk.injEq] at hin
      obtain ⟨hfst, hsnd⟩ := hin
      have ol1 := rightGrouped_ops_le l1 hl1
      have or1 := rightGrouped_ops_le r1 hr1
      have ol2 := rightGrouped_ops_le l2 hl2
      have or2 := rightGrouped_ops_le r2 hr2
      -- the two splits of the operator list coincide
      rcases List.append_eq_append_iff.1 hsnd with ⟨m, hm1, hm2⟩ | ⟨m, hm1, hm2⟩
      · -- l2 ops = l1 ops ++ m,  (o1,_) :: r1 ops = m ++ (o2,_) :: r2 ops
        cases m with
        | nil =>
          simp only [List.nil_append, List.cons.injEq, Prod.mk.injEq] at hm2
          simp only [List.append_nil] at hm1
          obtain ⟨⟨ho, hb⟩, hy⟩ := hm2
          subst ho
          have e1 : l1 = l2 := ihl l2 hl1 hl2 (Prod.ext hfst hm1.symm)
          have e2 : r1 = r2 := ihr r2 hr1 hr2 (Prod.ext hb hy)
          rw [e1, e2]
        | cons x m' =>
          exfalso
          simp only [List.cons_append, List.cons.injEq] at hm2
          obtain ⟨hx, hrest⟩ := hm2
          -- (o1, _) is among l2's operators, (o2, _) among r1's
          have hx2 : (o1, r1.inorder.1) ∈ l2.inorder.2 := by rw [hm1, ← hx]; simp
          have hy1 : (o2, r2.inorder.1) ∈ r1.inorder.2 := by rw [hrest]; simp
          have := ol2 _ hx2
          have := or1 _ hy1
          simp only at *
          omega
      · cases m with
        | nil =>
          simp only [List.nil_append, List.cons.injEq, Prod.mk.injEq] at hm2
          simp only [List.append_nil] at hm1
          obtain ⟨⟨ho, hb⟩, hy⟩ := hm2
          subst ho
          have e1 : l1 = l2 := ihl l2 hl1 hl2 (Prod.ext hfst hm1)
          have e2 : r1 = r2 := ihr r2 hr1 hr2 (Prod.ext hb.symm hy.symm)
          rw [e1, e2]
        | cons x m' =>
          exfalso
          simp only [List.cons_append, List.cons.injEq] at hm2
          obtain ⟨hx, hrest⟩ := hm2
          have hx1 : (o2, r2.inorder.1) ∈ l1.inorder.2 := by rw [hm1, ← hx]; simp
          have hy2 : (o1, r1.inorder.1) ∈ r2.inorder.2 := by rw [hrest]; simp
          have := ol1 _ hx1
          have := or2 _ hy2
          simp only at *
          omega

end Rfsm.Expr
