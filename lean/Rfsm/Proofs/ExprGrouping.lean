import Rfsm.Model.ExprParser
/-!
The grouping theorem for `stackToExpr` (`stack_to_expression`) on infix chains.

A chain is kept as a forest: a first tree and a list of (operator, tree).  `flat` is the parser
stack of a forest.  One round of `stackToExpr` = `scan` (finds the operator of minimal priority
number; among equal ones the first for the left-to-right operators, the last for `=`/`?=`:
`bestOp_cases`) + `foldAt` (merges its two neighbours, `foldAt_flat`) = `mergeAt` on the forest.
The invariant `Inv` (every tree has the documented grouping; every tree may stand to the right of
each operator on its left and to the left of each operator on its right: `okRightOf`/`okLeftOf`)
is preserved by merging at the best operator, and the in-order reading never changes.
-/
namespace Rfsm.Expr

/-- binary trees over operand expressions: the shape `stack_to_expression` builds from a chain -/
inductive BTree
  | leaf (e : Expr)
  | node (o : Op) (l r : BTree)

/-- the expression node the parser builds -/
def BTree.toExpr : BTree → Expr
  | .leaf e => e
  | .node o l r => mkBinary o l.toExpr r.toExpr

/-- in-order reading: operands and operators as written -/
def BTree.inorder : BTree → Expr × List (Op × Expr)
  | .leaf e => (e, [])
  | .node o l r => (l.inorder.1, l.inorder.2 ++ (o, r.inorder.1) :: r.inorder.2)

/-- priority of the top operator; an operand binds tightest -/
def BTree.topPrio : BTree → Nat
  | .leaf _ => 0
  | .node o _ _ => prio o

def rightAssoc (o : Op) : Bool := o == .assign || o == .assignUndefined

/-- documented grouping: the left subtree binds at least as tightly and the right one strictly
tighter (left to right); the other way round for `=` and `?=` -/
def WellGrouped : BTree → Prop
  | .leaf _ => True
  | .node o l r =>
    WellGrouped l ∧ WellGrouped r ∧
    (if rightAssoc o then l.topPrio < prio o ∧ r.topPrio ≤ prio o
     else l.topPrio ≤ prio o ∧ r.topPrio < prio o)

/-- a tree whose top priority number is `p` may be the left operand of `q` -/
def okLeftOf (p : Nat) (q : Op) : Prop := if rightAssoc q then p < prio q else p ≤ prio q

/-- a tree whose top priority number is `p` may be the right operand of `l` -/
def okRightOf (p : Nat) (l : Op) : Prop := if rightAssoc l then p ≤ prio l else p < prio l

instance (p : Nat) (q : Op) : Decidable (okLeftOf p q) := by unfold okLeftOf; infer_instance
instance (p : Nat) (l : Op) : Decidable (okRightOf p l) := by unfold okRightOf; infer_instance

theorem wellGrouped_node (o : Op) (l r : BTree) :
    WellGrouped (.node o l r) ↔
      WellGrouped l ∧ WellGrouped r ∧ okLeftOf l.topPrio o ∧ okRightOf r.topPrio o := by
  simp only [WellGrouped, okLeftOf, okRightOf]
  by_cases h : rightAssoc o = true <;> simp [h]

abbrev Forest := List (Op × BTree)

def fops (rest : Forest) : List Op := rest.map (·.1)

/-- the parser stack of a forest -/
def flat (t0 : BTree) : Forest → List Item
  | [] => [.ex t0.toExpr]
  | (o, t) :: rest => .ex t0.toExpr :: .tok (.operator o) :: flat t rest

theorem flat_length (t0 : BTree) (rest : Forest) : (flat t0 rest).length = 2 * rest.length + 1 := by
  induction rest generalizing t0 with
  | nil => rfl
  | cons p rest ih => obtain ⟨o, t⟩ := p; simp only [flat, List.length_cons, ih]; omega

/-- in-order reading of a forest -/
def inorderF (t0 : BTree) : Forest → Expr × List (Op × Expr)
  | [] => t0.inorder
  | (o, t) :: rest => (t0.inorder.1, t0.inorder.2 ++ (o, (inorderF t rest).1) :: (inorderF t rest).2)

/-- merge the operator at position `k` with its two neighbours -/
def mergeAt (t0 : BTree) : Forest → Nat → BTree × Forest
  | [], _ => (t0, [])
  | (o, t) :: rest, 0 => (.node o t0 t, rest)
  | (o1, t1) :: rest, k + 1 => (t0, (o1, (mergeAt t1 rest k).1) :: (mergeAt t1 rest k).2)

theorem prio_lt_255 (o : Op) : prio o < 255 := by cases o <;> decide
theorem prio_pos (o : Op) : 0 < prio o := by cases o <;> decide

/-! ### scan -/

/-- the best-operator search of `scan`, on the operators alone (stack positions `si, si+2, …`) -/
def bestOp : List Op → Nat → Nat → Nat → Nat × Nat
  | [], _, bi, bp => (bi, bp)
  | o :: os, si, bi, bp =>
    if better o bp then bestOp os (si + 2) si (prio o) else bestOp os (si + 2) bi bp

theorem scan_flat (t0 : BTree) (rest : Forest) (si bi bp : Nat) :
    scan (flat t0 rest) si bi bp = some (flat t0 rest, bestOp (fops rest) (si + 1) bi bp) := by
  induction rest generalizing t0 si bi bp with
  | nil => simp [flat, scan, fops, bestOp]
  | cons p rest ih =>
    obtain ⟨o, t⟩ := p
    simp only [flat, scan, fops, List.map_cons, bestOp]
    by_cases h : better o bp = true
    · simp only [h, if_true]
      have := ih t (si + 1 + 1) (si + 1) (prio o)
      simp only [fops] at this
      rw [this]; rfl
    · simp only [h, Bool.false_eq_true, if_false]
      have := ih t (si + 1 + 1) bi bp
      simp only [fops] at this
      rw [this]; rfl

/-- operators of one priority have one direction -/
theorem rightToLeft_of_prio_eq (a b : Op) (h : prio a = prio b) : rightToLeft a = rightToLeft b := by
  cases a <;> cases b <;> first | rfl | (exfalso; revert h; decide)

theorem better_trans (a b : Op) (bp : Nat) (h1 : better a (prio b) = true) (h2 : better b bp = true) :
    better a bp = true := by
  have hr := rightToLeft_of_prio_eq a b
  simp only [better, Bool.or_eq_true, Bool.and_eq_true, decide_eq_true_eq, beq_iff_eq] at h1 h2 ⊢
  rcases h1 with h1 | ⟨h1, h1'⟩
  · rcases h2 with h2 | ⟨_, h2'⟩
    · left; omega
    · left; omega
  · rcases h2 with h2 | ⟨h2, h2'⟩
    · left; omega
    · right; exact ⟨h1, by omega⟩

theorem better_of_not_better (a b : Op) (bp : Nat) (h1 : better a bp = true)
    (h2 : ¬ better b bp = true) : better a (prio b) = true := by
  have hr := rightToLeft_of_prio_eq a b
  simp only [better, Bool.or_eq_true, Bool.and_eq_true, decide_eq_true_eq, beq_iff_eq, not_or,
    not_and, Nat.not_lt] at h1 h2 ⊢
  obtain ⟨h2a, h2b⟩ := h2
  rcases h1 with h1 | ⟨h1, h1'⟩
  · left; omega
  · by_cases he : prio b = bp
    · exfalso
      have := hr (by omega)
      rw [h1] at this
      exact h2b this.symm he
    · left; omega

/-- where `bestOp` ends: nothing beats the incoming best, or the operator that beats the incoming
best and every operator before it and is beaten by none after it -/
theorem bestOp_cases (os : List Op) (si bi bp : Nat) :
    (bestOp os si bi bp = (bi, bp) ∧ ∀ o ∈ os, ¬ better o bp = true) ∨
    (∃ pre o post, os = pre ++ o :: post ∧ bestOp os si bi bp = (si + 2 * pre.length, prio o) ∧
      better o bp = true ∧ (∀ p ∈ pre, better o (prio p) = true) ∧
      (∀ q ∈ post, ¬ better q (prio o) = true)) := by
  induction os generalizing si bi bp with
  | nil => left; simp [bestOp]
  | cons o os ih =>
    simp only [bestOp]
    by_cases h : better o bp = true
    · simp only [h, if_true]
      rcases ih (si + 2) si (prio o) with ⟨h1, h2⟩ | ⟨pre, o', post, h1, h2, h3, h4, h5⟩
      · right
        exact ⟨[], o, os, rfl, by simpa using h1, h, by simp, h2⟩
      · right
        refine ⟨o :: pre, o', post, by simp [h1], ?_, better_trans _ _ _ h3 h, ?_, h5⟩
        · rw [h2]; simp only [List.length_cons]; congr 1; omega
        · intro p hp
          rcases List.mem_cons.1 hp with rfl | hp
          · exact h3
          · exact h4 p hp
    · simp only [h, Bool.false_eq_true, if_false]
      rcases ih (si + 2) bi bp with ⟨h1, h2⟩ | ⟨pre, o', post, h1, h2, h3, h4, h5⟩
      · left
        refine ⟨h1, ?_⟩
        intro q hq
        rcases List.mem_cons.1 hq with rfl | hq
        · exact h
        · exact h2 q hq
      · right
        refine ⟨o :: pre, o', post, by simp [h1], ?_, h3, ?_, h5⟩
        · rw [h2]; simp only [List.length_cons]; congr 1; omega
        · intro p hp
          rcases List.mem_cons.1 hp with rfl | hp
          · exact better_of_not_better _ _ _ h3 h
          · exact h4 p hp

/-- the winner may stand to the right of every binary operator it beats … -/
theorem okRightOf_of_better (o l : Op) (ho : o ≠ .not) (hl : l ≠ .not)
    (h : better o (prio l) = true) : okRightOf (prio o) l := by
  cases o <;> cases l <;> first | exact absurd rfl ho | exact absurd rfl hl | (revert h; decide)

/-- … and to the left of every binary operator that does not beat it -/
theorem okLeftOf_of_not_better (o q : Op) (ho : o ≠ .not) (hq : q ≠ .not)
    (h : ¬ better q (prio o) = true) : okLeftOf (prio o) q := by
  cases o <;> cases q <;> first | exact absurd rfl ho | exact absurd rfl hq | (revert h; decide)

/-! ### foldAt -/

theorem foldAt_cons2 (a b : Item) (s : List Item) (idx : Nat) (h : 0 < idx)
    (f : Expr → Expr → Option Expr) :
    foldAt (a :: b :: s) (idx + 2) f = (foldAt s idx f).map fun r => a :: b :: r := by
  unfold foldAt
  have e1 : idx + 2 - 1 = (idx - 1) + 2 := by omega
  have e2 : idx + 2 + 1 = (idx + 1) + 2 := by omega
  have e3 : idx + 2 + 2 = (idx + 2) + 2 := by omega
  by_cases hc : 0 < idx ∧ idx + 1 < s.length
  · have hc' : 0 < idx + 2 ∧ idx + 2 + 1 < (a :: b :: s).length := by
      simp only [List.length_cons]; omega
    simp only [hc, hc', and_self, if_true, e1, e2, e3, List.getElem?_cons_succ, List.take_succ_cons,
      List.drop_succ_cons]
    cases s[idx - 1]? with
    | none => rfl
    | some x =>
      cases x with
      | tok t => rfl
      | ex le =>
        cases s[idx + 1]? with
        | none => rfl
        | some y =>
          cases y with
          | tok t => rfl
          | ex re =>
            simp only
            cases f le re <;> simp
  · have hc' : ¬ (0 < idx + 2 ∧ idx + 2 + 1 < (a :: b :: s).length) := by
      simp only [List.length_cons]; omega
    rw [if_neg hc, if_neg hc']; rfl

theorem foldAt_flat (t0 : BTree) (rest : Forest) (k : Nat) (hk : k < rest.length) (o : Op)
    (ho : (fops rest)[k]? = some o) :
    foldAt (flat t0 rest) (2 * k + 1) (fun le re => some (mkBinary o le re)) =
      some (flat (mergeAt t0 rest k).1 (mergeAt t0 rest k).2) := by
  induction k generalizing t0 rest with
  | zero =>
    match rest, hk, ho with
    | (o', t) :: rest', _, ho =>
      simp only [fops, List.map_cons, List.getElem?_cons_zero, Option.some.injEq] at ho
      subst ho
      cases rest' with
      | nil => simp [flat, foldAt, mergeAt, BTree.toExpr]
      | cons p r => obtain ⟨o2, t2⟩ := p; simp [flat, foldAt, mergeAt, BTree.toExpr]
  | succ k ih =>
    match rest, hk, ho with
    | (o1, t1) :: rest', hk, ho =>
      simp only [fops, List.map_cons, List.getElem?_cons_succ] at ho
      simp only [List.length_cons] at hk
      have e : 2 * (k + 1) + 1 = (2 * k + 1) + 2 := by omega
      rw [e]
      simp only [flat]
      rw [foldAt_cons2 _ _ _ _ (by omega)]
      rw [ih t1 rest' (by omega) ho]
      simp [mergeAt, flat]

/-! ### the invariant -/

/-- `L` = operators to the left of `t0` (nearest first): every tree has the documented grouping,
may be the right operand of every operator on its left and the left operand of every operator on
its right -/
def Inv : List Op → BTree → Forest → Prop
  | L, t0, [] => WellGrouped t0 ∧ (∀ l ∈ L, okRightOf t0.topPrio l)
  | L, t0, (o, t) :: rest =>
    WellGrouped t0 ∧ (∀ l ∈ L, okRightOf t0.topPrio l) ∧
    (∀ q ∈ fops ((o, t) :: rest), okLeftOf t0.topPrio q) ∧ Inv (o :: L) t rest

theorem Inv_head {L : List Op} {t0 : BTree} {rest : Forest} (h : Inv L t0 rest) :
    WellGrouped t0 ∧ (∀ l ∈ L, okRightOf t0.topPrio l) ∧ (∀ q ∈ fops rest, okLeftOf t0.topPrio q) := by
  cases rest with
  | nil => exact ⟨h.1, h.2, by simp [fops]⟩
  | cons p rest => obtain ⟨o, t⟩ := p; exact ⟨h.1, h.2.1, h.2.2.1⟩

theorem Inv_mono {L L' : List Op} (hsub : ∀ l ∈ L', l ∈ L) {t0 : BTree} {rest : Forest}
    (h : Inv L t0 rest) : Inv L' t0 rest := by
  induction rest generalizing L L' t0 with
  | nil => exact ⟨h.1, fun l hl => h.2 l (hsub l hl)⟩
  | cons p rest ih =>
    obtain ⟨o, t⟩ := p
    refine ⟨h.1, fun l hl => h.2.1 l (hsub l hl), h.2.2.1, ?_⟩
    apply ih (L := o :: L) _ h.2.2.2
    intro l hl
    rcases List.mem_cons.1 hl with rfl | hl
    · exact List.mem_cons_self
    · exact List.mem_cons_of_mem _ (hsub l hl)

theorem fops_mergeAt_sub (t0 : BTree) (rest : Forest) (k : Nat) :
    ∀ q ∈ fops (mergeAt t0 rest k).2, q ∈ fops rest := by
  induction rest generalizing t0 k with
  | nil => simp [mergeAt, fops]
  | cons p rest ih =>
    obtain ⟨o, t⟩ := p
    cases k with
    | zero => intro q hq; simp only [mergeAt] at hq; simp only [fops, List.map_cons]; exact List.mem_cons_of_mem _ hq
    | succ k =>
      intro q hq
      simp only [mergeAt, fops, List.map_cons] at hq ⊢
      rcases List.mem_cons.1 hq with rfl | hq
      · exact List.mem_cons_self
      · exact List.mem_cons_of_mem _ (ih t k q hq)

/-- merging at the best operator keeps the invariant -/
theorem Inv_mergeAt (L : List Op) (t0 : BTree) (pre : Forest) (o : Op) (t : BTree) (post : Forest)
    (h : Inv L t0 (pre ++ (o, t) :: post))
    (hL : ∀ l ∈ L, okRightOf (prio o) l) (hpre : ∀ p ∈ fops pre, okRightOf (prio o) p)
    (hpost : ∀ q ∈ fops post, okLeftOf (prio o) q) :
    Inv L (mergeAt t0 (pre ++ (o, t) :: post) pre.length).1
      (mergeAt t0 (pre ++ (o, t) :: post) pre.length).2 := by
  induction pre generalizing L t0 with
  | nil =>
    simp only [List.nil_append, List.length_nil, mergeAt]
    obtain ⟨h1, h2, h3, h4⟩ := h
    have ht := Inv_head h4
    have hnode : WellGrouped (.node o t0 t) :=
      (wellGrouped_node o t0 t).2 ⟨h1, ht.1, h3 o (by simp [fops]), ht.2.1 o List.mem_cons_self⟩
    cases post with
    | nil => exact ⟨hnode, fun l hl => hL l hl⟩
    | cons p post =>
      obtain ⟨o2, t2⟩ := p
      refine ⟨hnode, fun l hl => hL l hl, fun q hq => hpost q hq, ?_⟩
      have h5 : Inv (o2 :: o :: L) t2 post := h4.2.2.2
      apply Inv_mono _ h5
      intro l hl
      rcases List.mem_cons.1 hl with rfl | hl
      · exact List.mem_cons_self
      · exact List.mem_cons_of_mem _ (List.mem_cons_of_mem _ hl)
  | cons p pre ih =>
    obtain ⟨o1, t1⟩ := p
    simp only [List.cons_append, List.length_cons, mergeAt]
    obtain ⟨h1, h2, h3, h4⟩ := h
    have hrec := ih (o1 :: L) t1 h4
      (by intro l hl
          rcases List.mem_cons.1 hl with rfl | hl
          · exact hpre _ (by simp [fops])
          · exact hL l hl)
      (by intro p hp; exact hpre p (by simp only [fops, List.map_cons] at hp ⊢; exact List.mem_cons_of_mem _ hp))
    refine ⟨h1, h2, ?_, hrec⟩
    intro q hq
    simp only [fops, List.map_cons] at hq
    rcases List.mem_cons.1 hq with rfl | hq
    · exact h3 _ (by simp [fops])
    · have := fops_mergeAt_sub t1 (pre ++ (o, t) :: post) pre.length q hq
      exact h3 q (by simp only [fops, List.cons_append, List.map_cons]; exact List.mem_cons_of_mem _ this)

theorem inorderF_mergeAt (t0 : BTree) (rest : Forest) (k : Nat) :
    inorderF (mergeAt t0 rest k).1 (mergeAt t0 rest k).2 = inorderF t0 rest := by
  induction rest generalizing t0 k with
  | nil => simp [mergeAt]
  | cons p rest ih =>
    obtain ⟨o, t⟩ := p
    cases k with
    | zero =>
      simp only [mergeAt]
      cases rest with
      | nil => simp [inorderF, BTree.inorder]
      | cons q rest' => obtain ⟨o2, t2⟩ := q; simp [inorderF, BTree.inorder]
    | succ k =>
      simp only [mergeAt, inorderF]
      rw [ih t k]

theorem mergeAt_length (t0 : BTree) (rest : Forest) (k : Nat) (hk : k < rest.length) :
    (mergeAt t0 rest k).2.length + 1 = rest.length := by
  induction rest generalizing t0 k with
  | nil => simp at hk
  | cons p rest ih =>
    obtain ⟨o, t⟩ := p
    cases k with
    | zero => simp [mergeAt]
    | succ k =>
      simp only [mergeAt, List.length_cons]
      have := ih t k (by simpa using hk)
      omega

theorem getElem?_append_mid {α} (pre : List α) (x : α) (post : List α) :
    (pre ++ x :: post)[pre.length]? = some x := by
  simp

theorem flat_getElem_op (t0 : BTree) (rest : Forest) (k : Nat) (o : Op)
    (hk : (fops rest)[k]? = some o) :
    (flat t0 rest)[1 + 2 * k]? = some (.tok (.operator o)) := by
  induction rest generalizing t0 k with
  | nil => simp [fops] at hk
  | cons q rest ih =>
    obtain ⟨o1, t1⟩ := q
    cases k with
    | zero =>
      simp only [fops, List.map_cons, List.getElem?_cons_zero, Option.some.injEq] at hk
      subst hk
      simp [flat]
    | succ k =>
      simp only [fops, List.map_cons, List.getElem?_cons_succ] at hk
      have e : 1 + 2 * (k + 1) = (1 + 2 * k) + 2 := by omega
      simp only [e, flat, List.getElem?_cons_succ]
      exact ih t1 k hk

/-! ### the main theorem -/

/-- what `stack_to_expression` computes on the stack of a forest of binary operators: a tree with
the same in-order reading and the documented grouping -/
theorem stackToExpr_flat (n : Nat) : ∀ (fuel : Nat) (t0 : BTree) (rest : Forest),
    rest.length = n → n + 1 ≤ fuel → (∀ o ∈ fops rest, o ≠ .not) → Inv [] t0 rest →
    ∃ t : BTree, stackToExpr fuel (flat t0 rest) = .ok (some t.toExpr) [] ∧
      t.inorder = inorderF t0 rest ∧ WellGrouped t := by
  induction n with
  | zero =>
    intro fuel t0 rest hlen hfuel _ hinv
    have : rest = [] := List.length_eq_zero_iff.1 hlen
    subst this
    obtain ⟨f, rfl⟩ : ∃ f, fuel = f + 1 := ⟨fuel - 1, by omega⟩
    refine ⟨t0, ?_, rfl, hinv.1⟩
    simp [stackToExpr, flat, scan]
  | succ n ih =>
    intro fuel t0 rest hlen hfuel hbin hinv
    obtain ⟨f, rfl⟩ : ∃ f, fuel = f + 1 := ⟨fuel - 1, by omega⟩
    have hne : rest ≠ [] := by intro h; simp [h] at hlen
    -- one round
    rcases bestOp_cases (fops rest) 1 0 255 with ⟨_, h2⟩ | ⟨pre, o, post, hsplit, hbest, _, hpre, hpost⟩
    · exfalso
      cases rest with
      | nil => exact hne rfl
      | cons p r =>
        have := h2 p.1 (by simp [fops])
        have hlt := prio_lt_255 p.1
        simp [better, hlt] at this
    · -- split the forest accordingly
      have hlenp : pre.length < rest.length := by
        have := congrArg List.length hsplit
        simp only [fops, List.length_map, List.length_append, List.length_cons] at this
        omega
      have hk : (fops rest)[pre.length]? = some o := by rw [hsplit]; simp
      have hon : o ≠ .not := hbin o (by rw [hsplit]; simp)
      have hfold := foldAt_flat t0 rest pre.length hlenp o hk
      have hidx := flat_getElem_op t0 rest pre.length o hk
      -- the forest as pre ++ (o, t) :: post'
      obtain ⟨preF, t, postF, hrest, hpl, hpreF, hpostF⟩ :
          ∃ preF t postF, rest = preF ++ (o, t) :: postF ∧ preF.length = pre.length ∧
            fops preF = pre ∧ fops postF = post := by
        clear hfold hidx hk hbest hpre hpost ih hinv hbin hlenp hne hlen hfuel hon
        induction pre generalizing rest with
        | nil =>
          cases rest with
          | nil => simp [fops] at hsplit
          | cons q r =>
            obtain ⟨o1, t1⟩ := q
            simp only [fops, List.map_cons, List.nil_append, List.cons.injEq] at hsplit
            exact ⟨[], t1, r, by simp [hsplit.1], rfl, rfl, hsplit.2⟩
        | cons x pre' ihp =>
          cases rest with
          | nil => simp [fops] at hsplit
          | cons q r =>
            obtain ⟨o1, t1⟩ := q
            simp only [fops, List.map_cons, List.cons_append, List.cons.injEq] at hsplit
            obtain ⟨pf, t, qf, h1, h2, h3, h4⟩ := ihp r hsplit.2
            exact ⟨(o1, t1) :: pf, t, qf, by rw [h1]; rfl, by simp [h2],
              by simp [fops, hsplit.1, ← h3], h4⟩
      have hinv' : Inv [] (mergeAt t0 rest pre.length).1 (mergeAt t0 rest pre.length).2 := by
        rw [hrest, ← hpl]
        apply Inv_mergeAt [] t0 preF o t postF (hrest ▸ hinv) (by simp)
        · rw [hpreF]
          intro p hp
          exact okRightOf_of_better o p hon (hbin p (by rw [hsplit]; simp [hp])) (hpre p hp)
        · rw [hpostF]
          intro q hq
          exact okLeftOf_of_not_better o q hon (hbin q (by rw [hsplit]; simp [hq])) (hpost q hq)
      have hlen' : (mergeAt t0 rest pre.length).2.length = n := by
        have := mergeAt_length t0 rest pre.length hlenp
        omega
      have hbin' : ∀ q ∈ fops (mergeAt t0 rest pre.length).2, q ≠ .not :=
        fun q hq => hbin q (fops_mergeAt_sub t0 rest pre.length q hq)
      obtain ⟨tr, hst, hin, hrg⟩ := ih f _ _ hlen' (by omega) hbin' hinv'
      refine ⟨tr, ?_, by rw [hin, inorderF_mergeAt], hrg⟩
      -- unfold one round of stackToExpr
      have hflat_ne : (flat t0 rest).isEmpty = false := by
        cases rest with
        | nil => exact absurd rfl hne
        | cons q r => obtain ⟨o1, t1⟩ := q; rfl
      rw [stackToExpr]
      simp only [hflat_ne, Bool.false_eq_true, if_false, scan_flat, hbest]
      have hlt : prio o < 255 := prio_lt_255 o
      simp only [hlt, if_true, hidx]
      have e : 1 + 2 * pre.length = 2 * pre.length + 1 := by omega
      cases o <;> first | exact absurd rfl hon | (rw [e, hfold]; exact hst)

/-! ### chains of operands -/

/-- the parser stack of an infix chain `a₀ o₁ a₁ … oₙ aₙ` (operands already reduced to
expressions: literals, parenthesised sub-expressions, calls, …) -/
def chainStack (a0 : Expr) (rest : List (Op × Expr)) : List Item :=
  .ex a0 :: rest.flatMap fun (o, a) => [.tok (.operator o), .ex a]

def leaves (rest : List (Op × Expr)) : Forest := rest.map fun (o, a) => (o, .leaf a)

theorem chainStack_eq_flat (a0 : Expr) (rest : List (Op × Expr)) :
    chainStack a0 rest = flat (.leaf a0) (leaves rest) := by
  induction rest generalizing a0 with
  | nil => rfl
  | cons p rest ih =>
    obtain ⟨o, a⟩ := p
    have := ih a
    simp only [chainStack, leaves, List.flatMap_cons, List.map_cons, flat, BTree.toExpr,
      List.cons_append, List.nil_append] at this ⊢
    rw [← this]

theorem inorderF_leaves (a0 : Expr) (rest : List (Op × Expr)) :
    inorderF (.leaf a0) (leaves rest) = (a0, rest) := by
  induction rest generalizing a0 with
  | nil => rfl
  | cons p rest ih =>
    obtain ⟨o, a⟩ := p
    simp only [leaves, List.map_cons, inorderF, BTree.inorder, List.nil_append]
    have := ih a
    simp only [leaves] at this
    rw [this]

theorem fops_leaves (rest : List (Op × Expr)) : fops (leaves rest) = rest.map (·.1) := by
  simp [fops, leaves]

theorem okRightOf_zero (l : Op) : okRightOf 0 l := by
  have := prio_pos l
  unfold okRightOf; split <;> omega

theorem okLeftOf_zero (q : Op) : okLeftOf 0 q := by
  have := prio_pos q
  unfold okLeftOf; split <;> omega

theorem Inv_leaves (L : List Op) (a0 : Expr) (rest : List (Op × Expr)) :
    Inv L (.leaf a0) (leaves rest) := by
  induction rest generalizing L a0 with
  | nil => exact ⟨trivial, fun l _ => okRightOf_zero l⟩
  | cons p rest ih =>
    obtain ⟨o, a⟩ := p
    exact ⟨trivial, fun l _ => okRightOf_zero l, fun q _ => okLeftOf_zero q, ih (o :: L) a⟩

/-! ### uniqueness -/

/-- in a well grouped tree every operator binds at least as tightly as the top one -/
theorem wellGrouped_ops_le (t : BTree) (h : WellGrouped t) :
    ∀ p ∈ t.inorder.2, prio p.1 ≤ t.topPrio := by
  induction t with
  | leaf e => intro p hp; simp [BTree.inorder] at hp
  | node o l r ihl ihr =>
    obtain ⟨hl, hr, h1, h2⟩ := (wellGrouped_node o l r).1 h
    intro p hp
    simp only [BTree.inorder, List.mem_append, List.mem_cons] at hp
    simp only [BTree.topPrio]
    have h1' : l.topPrio ≤ prio o := by unfold okLeftOf at h1; split at h1 <;> omega
    have h2' : r.topPrio ≤ prio o := by unfold okRightOf at h2; split at h2 <;> omega
    rcases hp with hp | rfl | hp
    · have := ihl hl p hp; omega
    · exact Nat.le_refl _
    · have := ihr hr p hp; omega

theorem rightAssoc_of_prio_eq (a b : Op) (h : prio a = prio b) : rightAssoc a = rightAssoc b := by
  cases a <;> cases b <;> first | rfl | (exfalso; revert h; decide)

/-- an operator of the left operand and an operator of the right operand cannot both be tops -/
theorem wellGrouped_clash (o1 o2 : Op) (pl pr : Nat) (h1 : prio o1 ≤ pl) (h2 : prio o2 ≤ pr)
    (hl : okLeftOf pl o2) (hr : okRightOf pr o1) : False := by
  have he := rightAssoc_of_prio_eq o1 o2
  unfold okLeftOf at hl
  unfold okRightOf at hr
  split at hl <;> split at hr
  · omega
  · rename_i ha hb
    have : prio o1 = prio o2 := by omega
    rw [he this] at hb; exact hb ha
  · rename_i ha hb
    have : prio o1 = prio o2 := by omega
    rw [he this] at hb; exact ha hb
  · omega

/-- the well grouped tree of a chain is unique: the parser's result is characterised completely -/
theorem wellGrouped_unique (t1 t2 : BTree) (h1 : WellGrouped t1) (h2 : WellGrouped t2)
    (hin : t1.inorder = t2.inorder) : t1 = t2 := by
  induction t1 generalizing t2 with
  | leaf e =>
    cases t2 with
    | leaf e2 => simp [BTree.inorder] at hin; rw [hin]
    | node o l r =>
      have := congrArg (fun p => p.2.length) hin
      simp [BTree.inorder] at this
  | node o1 l1 r1 ihl ihr =>
    cases t2 with
    | leaf e2 =>
      have := congrArg (fun p => p.2.length) hin
      simp [BTree.inorder] at this
    | node o2 l2 r2 =>
      obtain ⟨hl1, hr1, ha1, hb1⟩ := (wellGrouped_node _ _ _).1 h1
      obtain ⟨hl2, hr2, ha2, hb2⟩ := (wellGrouped_node _ _ _).1 h2
      simp only [BTree.inorder, Prod.mk.injEq] at hin
      obtain ⟨hfst, hsnd⟩ := hin
      have ol1 := wellGrouped_ops_le l1 hl1
      have or1 := wellGrouped_ops_le r1 hr1
      have ol2 := wellGrouped_ops_le l2 hl2
      have or2 := wellGrouped_ops_le r2 hr2
      -- the two splits of the operator list coincide
      rcases List.append_eq_append_iff.1 hsnd with ⟨m, hm1, hm2⟩ | ⟨m, hm1, hm2⟩
      · cases m with
        | nil =>
          simp only [List.nil_append, List.cons.injEq, Prod.mk.injEq] at hm2
          simp only [List.append_nil] at hm1
          obtain ⟨⟨ho, hb⟩, hy⟩ := hm2
          subst ho
          have e1 : l1 = l2 := ihl l2 hl1 hl2 (Prod.ext hfst hm1.symm)
          have e2 : r1 = r2 := ihr r2 hr1 hr2 (Prod.ext hb hy)
          rw [e1, e2]
        | cons x m' =>
          exfalso
          simp only [List.cons_append, List.cons.injEq] at hm2
          obtain ⟨hx, hrest⟩ := hm2
          -- (o1, _) is among l2's operators, (o2, _) among r1's
          have hx2 : (o1, r1.inorder.1) ∈ l2.inorder.2 := by rw [hm1, ← hx]; simp
          have hy1 : (o2, r2.inorder.1) ∈ r1.inorder.2 := by rw [hrest]; simp
          exact wellGrouped_clash o1 o2 _ _ (ol2 _ hx2) (or1 _ hy1) ha2 hb1
      · cases m with
        | nil =>
          simp only [List.nil_append, List.cons.injEq, Prod.mk.injEq] at hm2
          simp only [List.append_nil] at hm1
          obtain ⟨⟨ho, hb⟩, hy⟩ := hm2
          subst ho
          have e1 : l1 = l2 := ihl l2 hl1 hl2 (Prod.ext hfst hm1)
          have e2 : r1 = r2 := ihr r2 hr1 hr2 (Prod.ext hb.symm hy.symm)
          rw [e1, e2]
        | cons x m' =>
          exfalso
          simp only [List.cons_append, List.cons.injEq] at hm2
          obtain ⟨hx, hrest⟩ := hm2
          have hx1 : (o2, r2.inorder.1) ∈ l1.inorder.2 := by rw [hm1, ← hx]; simp
          have hy2 : (o1, r1.inorder.1) ∈ r2.inorder.2 := by rw [hrest]; simp
          exact wellGrouped_clash o2 o1 _ _ (ol1 _ hx1) (or2 _ hy2) ha1 hb2

end Rfsm.Expr
