import Rfsm.Model.ReaderSpec
/-!
C04 (c), on views: the part of the state table that records nesting and document order
(`V`: id, name, parent, doc id, children) and the three things the reader does to it — a reference
to a state name (`vref`, `get_or_create_state`), the declaration of a state (`vdecl`,
`get_or_create_state_with_attributes`: doc id and parent are given *at the declaration*, whether or
not the name had been referenced before), and the recursion over a tree of states (`amT`).

`amT_spec`: for every tree of states with distinct names, whatever the transitions refer to
(forward, backward, undeclared), every state's entry ends up with the parent of the tree and with
the doc id of its position in the document (pre-order, one id per state and per transition), and
no other entry loses its name, id, parent or doc id.
-/
namespace Rfsm.Reader
open Rfsm.Descriptor (Str)

structure V where
  id : Nat
  name : Str
  parent : Nat
  docId : Nat
  kids : List Nat
  deriving DecidableEq, Repr

def vOf (s : State) : V := ⟨s.id, s.name, s.parent, s.docId, s.states⟩
def view (f : Fsm) : List V := f.states.map vOf

def vfind : List V → Str → Option Nat
  | [], _ => none
  | v :: r, n => if v.name = n then some v.id else vfind r n

def vref (vs : List V) (n : Str) : List V :=
  match vfind vs n with
  | some _ => vs
  | none => vs ++ [⟨vs.length + 1, n, 0, 0, []⟩]

def vget (vs : List V) (i : Nat) : Option V := if i = 0 then none else vs[i - 1]?

def vmod (vs : List V) (i : Nat) (g : V → V) : List V := if i = 0 then vs else modifyNth g vs (i - 1)

def vdecl (vs : List V) (n : Str) (p d : Nat) : Nat × List V :=
  let vs1 := vref vs n
  let i := (vfind vs1 n).getD 0
  let vs2 := vmod vs1 i fun v => { v with docId := d, parent := if p ≠ 0 then p else v.parent }
  (i, if p ≠ 0 then vmod vs2 p fun v => { v with kids := if v.kids.contains i then v.kids else v.kids ++ [i] }
      else vs2)

/-- ids are positions -/
def IdsOk (vs : List V) : Prop := ∀ k v, vs[k]? = some v → v.id = k + 1

/-- same name, id, parent and doc id -/
def SamePD (v v' : V) : Prop := v'.name = v.name ∧ v'.id = v.id ∧ v'.parent = v.parent ∧ v'.docId = v.docId

theorem modifyNth_get {α} (g : α → α) (l : List α) (k j : Nat) :
    (modifyNth g l k)[j]? = if j = k then l[j]?.map g else l[j]? := by
  induction l generalizing k j with
  | nil => simp [modifyNth]
  | cons x xs ih =>
    cases k with
    | zero => cases j <;> simp [modifyNth]
    | succ k =>
      cases j with
      | zero => simp [modifyNth]
      | succ j => simp [modifyNth, ih]

theorem modifyNth_length {α} (g : α → α) (l : List α) (k : Nat) : (modifyNth g l k).length = l.length := by
  induction l generalizing k with
  | nil => simp [modifyNth]
  | cons x xs ih => cases k <;> simp [modifyNth, ih]

theorem vget_vmod (vs : List V) (i j : Nat) (g : V → V) :
    vget (vmod vs i g) j = if j = i then (vget vs j).map g else vget vs j := by
  unfold vget vmod
  by_cases hj : j = 0
  · subst hj; by_cases hi : i = 0 <;> simp [hi]
  · by_cases hi : i = 0
    · subst hi; simp [hj]
    · simp only [hj, hi, if_false, modifyNth_get]
      by_cases h : j = i
      · subst h; simp
      · have : ¬ j - 1 = i - 1 := by omega
        simp [h, this]

theorem vfind_vmod (vs : List V) (i : Nat) (g : V → V) (hg : ∀ v, (g v).name = v.name ∧ (g v).id = v.id) (n : Str) :
    vfind (vmod vs i g) n = vfind vs n := by
  unfold vmod
  by_cases hi : i = 0
  · simp [hi]
  · simp only [hi, if_false]
    generalize i - 1 = k
    induction vs generalizing k with
    | nil => simp [modifyNth]
    | cons x xs ih =>
      cases k with
      | zero => simp [modifyNth, vfind, hg x]
      | succ k => simp [modifyNth, vfind, ih]

theorem vfind_append (vs : List V) (v : V) (n : Str) :
    vfind (vs ++ [v]) n = match vfind vs n with
      | some i => some i
      | none => if v.name = n then some v.id else none := by
  induction vs with
  | nil => simp [vfind]
  | cons x xs ih =>
    simp only [List.cons_append, vfind]
    split <;> simp_all

theorem vfind_some_aux (o : Nat) {vs : List V} {n : Str} {i : Nat} (h : vfind vs n = some i)
    (hok : ∀ k v, vs[k]? = some v → v.id = o + k + 1) :
    ∃ k v, vs[k]? = some v ∧ i = o + k + 1 ∧ v.name = n := by
  induction vs generalizing o with
  | nil => simp [vfind] at h
  | cons x xs ih =>
    simp only [vfind] at h
    split at h
    · rename_i hn
      simp at h
      exact ⟨0, x, by simp, by rw [← h, hok 0 x (by simp)], hn⟩
    · obtain ⟨k, v, hk, hi, hn⟩ := ih (o + 1) h (fun k v hk => by
        have := hok (k + 1) v (by simpa using hk); omega)
      exact ⟨k + 1, v, by simpa using hk, by omega, hn⟩

/-- what `vfind` returns is the id of an entry of that name -/
theorem vfind_some {vs : List V} {n : Str} {i : Nat} (h : vfind vs n = some i) (hok : IdsOk vs) :
    ∃ v, vget vs i = some v ∧ v.name = n ∧ v.id = i := by
  obtain ⟨k, v, hk, hi, hn⟩ := vfind_some_aux 0 h (fun k v hk => by have := hok k v hk; omega)
  refine ⟨v, ?_, hn, by have := hok k v hk; omega⟩
  unfold vget
  have : i - 1 = k := by omega
  simp [show i ≠ 0 by omega, this, hk]


theorem vget_of_le {vs : List V} {p : Nat} (h0 : p ≠ 0) (hle : p ≤ vs.length) : ∃ v, vget vs p = some v := by
  unfold vget
  simp only [h0, if_false]
  exact ⟨vs[p - 1]'(by omega), by simp⟩

theorem le_of_vget {vs : List V} {p : Nat} {v : V} (h : vget vs p = some v) : p ≠ 0 ∧ p ≤ vs.length := by
  unfold vget at h
  by_cases h0 : p = 0
  · simp [h0] at h
  · simp only [h0, if_false] at h
    have := (List.getElem?_eq_some_iff.1 h).1
    exact ⟨h0, by omega⟩

theorem SamePD.refl (v : V) : SamePD v v := ⟨rfl, rfl, rfl, rfl⟩
theorem SamePD.trans {a b c : V} (h1 : SamePD a b) (h2 : SamePD b c) : SamePD a c :=
  ⟨h2.1.trans h1.1, h2.2.1.trans h1.2.1, h2.2.2.1.trans h1.2.2.1, h2.2.2.2.trans h1.2.2.2⟩

/-- `vs'` extends `vs`: names keep their ids, entries whose name is not in `S` keep name, id, parent
and doc id -/
structure Ext (S : List Str) (vs vs' : List V) : Prop where
  ok : IdsOk vs'
  find : ∀ m j, vfind vs m = some j → vfind vs' m = some j
  keep : ∀ j v, vget vs j = some v → v.name ∉ S → ∃ v', vget vs' j = some v' ∧ SamePD v v'
  len : vs.length ≤ vs'.length

theorem Ext.refl (S : List Str) {vs : List V} (h : IdsOk vs) : Ext S vs vs :=
  ⟨h, fun _ _ h => h, fun _ v hv _ => ⟨v, hv, SamePD.refl v⟩, Nat.le_refl _⟩

theorem Ext.trans {S S' : List Str} {a b c : List V} (h1 : Ext S a b) (h2 : Ext S' b c) : Ext (S ++ S') a c := by
  refine ⟨h2.ok, fun m j h => h2.find m j (h1.find m j h), ?_, Nat.le_trans h1.len h2.len⟩
  intro j v hv hn
  simp only [List.mem_append, not_or] at hn
  obtain ⟨v', hv', hs⟩ := h1.keep j v hv hn.1
  obtain ⟨v'', hv'', hs'⟩ := h2.keep j v' hv' (by rw [hs.1]; exact hn.2)
  exact ⟨v'', hv'', hs.trans hs'⟩

theorem Ext.mono {S S' : List Str} {a b : List V} (h : Ext S a b) (hs : ∀ x ∈ S, x ∈ S') : Ext S' a b :=
  ⟨h.ok, h.find, fun j v hv hn => h.keep j v hv (fun hx => hn (hs _ hx)), h.len⟩

theorem idsOk_append {vs : List V} (h : IdsOk vs) (n : Str) : IdsOk (vs ++ [⟨vs.length + 1, n, 0, 0, []⟩]) := by
  intro k v hk
  by_cases hlt : k < vs.length
  · rw [List.getElem?_append_left hlt] at hk; exact h k v hk
  · rw [List.getElem?_append_right (by omega)] at hk
    have : k - vs.length = 0 := by
      cases hh : k - vs.length with
      | zero => rfl
      | succ m => rw [hh] at hk; simp at hk
    rw [this] at hk; simp at hk; subst hk; simp; omega

theorem vget_append_left {vs : List V} {j : Nat} {v : V} (w : V) (h : vget vs j = some v) : vget (vs ++ [w]) j = some v := by
  unfold vget at *
  by_cases h0 : j = 0
  · simp [h0] at h
  · simp only [h0, if_false] at *
    rw [List.getElem?_append_left (by have := List.getElem?_eq_some_iff.1 h; exact this.1)]
    exact h

theorem vref_ext {vs : List V} (h : IdsOk vs) (n : Str) : Ext [] vs (vref vs n) := by
  unfold vref
  cases hf : vfind vs n with
  | some i => exact Ext.refl [] h
  | none =>
    refine ⟨idsOk_append h n, ?_, ?_, by simp⟩
    · intro m j hm; rw [vfind_append, hm]
    · intro j v hv _; exact ⟨v, vget_append_left _ hv, SamePD.refl v⟩

theorem vref_find (vs : List V) (n : Str) : ∃ i, vfind (vref vs n) n = some i := by
  unfold vref
  cases hf : vfind vs n with
  | some i => exact ⟨i, hf⟩
  | none => exact ⟨vs.length + 1, by simp [vfind_append, hf]⟩

theorem vrefs_ext {vs : List V} (h : IdsOk vs) (ns : List Str) : Ext [] vs (ns.foldl vref vs) := by
  induction ns generalizing vs with
  | nil => exact Ext.refl [] h
  | cons n r ih =>
    have h1 := vref_ext h n
    have h2 := ih h1.ok
    simpa using h1.trans h2

theorem idsOk_vmod {vs : List V} (h : IdsOk vs) (i : Nat) (g : V → V) (hg : ∀ v, (g v).id = v.id) : IdsOk (vmod vs i g) := by
  intro k v hk
  unfold vmod at hk
  by_cases hi : i = 0
  · simp [hi] at hk; exact h k v hk
  · simp only [hi, if_false, modifyNth_get] at hk
    by_cases hki : k = i - 1
    · simp only [hki, if_true] at hk
      cases hx : vs[i - 1]? with
      | none => rw [hx] at hk; simp at hk
      | some x => rw [hx] at hk; simp at hk; subst hk; rw [hg, hki]; exact h _ x hx
    · simp only [hki, if_false] at hk; exact h k v hk

/-- the declaration: the entry of `n` gets doc id `d` and parent `p`, nothing else loses its name, id,
parent or doc id — whether `n` had been referenced before or not -/
theorem vdecl_spec {vs : List V} (h : IdsOk vs) (n : Str) (p d : Nat) (hp : p ≠ 0) :
    Ext [n] vs (vdecl vs n p d).2 ∧ (vdecl vs n p d).1 ≠ 0 ∧
    ∃ v, vfind (vdecl vs n p d).2 n = some (vdecl vs n p d).1 ∧ vget (vdecl vs n p d).2 (vdecl vs n p d).1 = some v ∧
      v.name = n ∧ v.parent = p ∧ v.docId = d := by
  obtain ⟨i, hi⟩ := vref_find vs n
  have h1 := vref_ext h n
  obtain ⟨v0, hv0, hn0, hid0⟩ := vfind_some hi h1.ok
  have hi0 : i ≠ 0 := by intro h0; rw [h0] at hv0; simp [vget] at hv0
  simp only [vdecl, hi, Option.getD_some, hp, ne_eq, not_false_eq_true, if_true]
  refine ⟨⟨?_, ?_, ?_, ?_⟩, hi0, ?_⟩
  · exact idsOk_vmod (idsOk_vmod h1.ok _ _ (by intro v; rfl)) _ _ (by intro v; rfl)
  · intro m j hm
    rw [vfind_vmod _ _ _ (by intro v; exact ⟨rfl, rfl⟩), vfind_vmod _ _ _ (by intro v; exact ⟨rfl, rfl⟩)]
    exact h1.find m j hm
  · intro j v hv hn
    simp only [List.mem_singleton] at hn
    obtain ⟨v', hv', hs⟩ := h1.keep j v hv (by simp)
    have hji : j ≠ i := by
      intro hji; subst hji; rw [hv'] at hv0; simp at hv0; subst hv0; exact hn (hs.1 ▸ hn0)
    rw [vget_vmod, vget_vmod]
    by_cases hjp : j = p
    · simp only [hjp, if_true]
      have hpi : ¬ p = i := by rw [← hjp]; exact hji
      subst hjp
      simp only [hpi, if_false, hv', Option.map_some]
      exact ⟨_, rfl, hs.1, hs.2.1, hs.2.2.1, hs.2.2.2⟩
    · simp only [hjp, hji, if_false]; exact ⟨v', hv', hs⟩
  · have := h1.len
    simp only [vmod, hi0, hp, if_false, modifyNth_length]
    exact this
  · have hfind : vfind (vmod (vmod (vref vs n) i fun v => { v with docId := d, parent := p }) p fun v =>
        { v with kids := if v.kids.contains i then v.kids else v.kids ++ [i] }) n = some i := by
      rw [vfind_vmod _ _ _ (by intro v; exact ⟨rfl, rfl⟩), vfind_vmod _ _ _ (by intro v; exact ⟨rfl, rfl⟩)]; exact hi
    by_cases hip : i = p
    · refine ⟨{ v0 with docId := d, parent := p, kids := if v0.kids.contains i then v0.kids else v0.kids ++ [i] },
        hfind, ?_, hn0, rfl, rfl⟩
      rw [vget_vmod, vget_vmod]
      subst hip
      simp [hv0]
    · refine ⟨{ v0 with docId := d, parent := p }, hfind, ?_, hn0, rfl, rfl⟩
      rw [vget_vmod, vget_vmod]
      simp [hip, hv0]


/-! ### trees of states -/

/-- a `<state id=name>` with an optional `<transition target=tg/>` (any references, forward or
backward) and child states -/
inductive ST where
  | node (name : Str) (tg : Option Str) (kids : List ST)

mutual
def namesT : ST → List Str
  | .node n _ ks => n :: namesF ks
def namesF : List ST → List Str
  | [] => []
  | t :: r => namesT t ++ namesF r
end

mutual
/-- doc ids consumed by a subtree: one per state, one per transition -/
def sizeT : ST → Nat
  | .node _ tg ks => (if tg.isSome then 2 else 1) + sizeF ks
def sizeF : List ST → Nat
  | [] => 0
  | t :: r => sizeT t + sizeF r
end

mutual
/-- the reader on views: declaration, references of the transition, children -/
def amT : ST → Nat → List V → Nat → List V
  | .node n tg ks, p, vs, d =>
    let r := vdecl vs n p d
    let vs2 := match tg with
      | some t => (splitAsciiWs t).foldl vref r.2
      | none => r.2
    amF ks r.1 vs2 (d + if tg.isSome then 2 else 1)
def amF : List ST → Nat → List V → Nat → List V
  | [], _, vs, _ => vs
  | t :: r, p, vs, d => amF r p (amT t p vs d) (d + sizeT t)
end

mutual
/-- the entry of every state of the tree has the parent of the tree and the doc id of its position
in the document -/
def GoodT (vs : List V) : ST → Nat → Nat → Prop
  | .node n tg ks, pid, d =>
    ∃ i v, vfind vs n = some i ∧ vget vs i = some v ∧ v.name = n ∧ v.parent = pid ∧ v.docId = d ∧
      GoodF vs ks i (d + if tg.isSome then 2 else 1)
def GoodF (vs : List V) : List ST → Nat → Nat → Prop
  | [], _, _ => True
  | t :: r, pid, d => GoodT vs t pid d ∧ GoodF vs r pid (d + sizeT t)
end

mutual
theorem GoodT.ext {S : List Str} {vs vs' : List V} (he : Ext S vs vs') :
    (t : ST) → (pid d : Nat) → (∀ m ∈ namesT t, m ∉ S) → GoodT vs t pid d → GoodT vs' t pid d
  | .node n tg ks, pid, d, hn, hg => by
    simp only [GoodT] at *
    obtain ⟨i, v, hf, hv, hname, hp, hd, hks⟩ := hg
    obtain ⟨v', hv', hs⟩ := he.keep i v hv (by rw [hname]; exact hn n (by simp [namesT]))
    exact ⟨i, v', he.find n i hf, hv', hs.1.trans hname, hs.2.2.1.trans hp, hs.2.2.2.trans hd,
      GoodF.ext he ks i _ (fun m hm => hn m (by simp [namesT, hm])) hks⟩
theorem GoodF.ext {S : List Str} {vs vs' : List V} (he : Ext S vs vs') :
    (ts : List ST) → (pid d : Nat) → (∀ m ∈ namesF ts, m ∉ S) → GoodF vs ts pid d → GoodF vs' ts pid d
  | [], _, _, _, _ => by simp [GoodF]
  | t :: r, pid, d, hn, hg => by
    simp only [GoodF] at *
    exact ⟨GoodT.ext he t pid d (fun m hm => hn m (by simp [namesF, hm])) hg.1,
      GoodF.ext he r pid _ (fun m hm => hn m (by simp [namesF, hm])) hg.2⟩
end

mutual
theorem amT_spec : (t : ST) → (p : Nat) → (vs : List V) → (d : Nat) → IdsOk vs → p ≠ 0 → (namesT t).Nodup →
    Ext (namesT t) vs (amT t p vs d) ∧ GoodT (amT t p vs d) t p d
  | .node n tg ks, p, vs, d, hok, hp, hnd => by
    simp only [namesT, List.nodup_cons] at hnd
    obtain ⟨he1, hi0, v, hf, hv, hname, hpar, hdoc⟩ := vdecl_spec hok n p d hp
    -- references of the transition
    have he2 : Ext [] (vdecl vs n p d).2 (match tg with
        | some t => (splitAsciiWs t).foldl vref (vdecl vs n p d).2
        | none => (vdecl vs n p d).2) := by
      cases tg with
      | none => exact Ext.refl [] he1.ok
      | some t => exact vrefs_ext he1.ok _
    obtain ⟨he3, hg3⟩ := amF_spec ks (vdecl vs n p d).1 _ (d + if tg.isSome then 2 else 1) he2.ok hi0 hnd.2
    have he23 := he2.trans he3
    simp only [List.nil_append] at he23
    refine ⟨?_, ?_⟩
    · simp only [amT, namesT]
      exact (he1.trans he23).mono (by simp)
    · simp only [amT, GoodT]
      obtain ⟨v', hv', hs⟩ := he23.keep _ v hv (by rw [hname]; exact hnd.1)
      exact ⟨_, v', he23.find n _ hf, hv', hs.1.trans hname, hs.2.2.1.trans hpar, hs.2.2.2.trans hdoc, hg3⟩
theorem amF_spec : (ts : List ST) → (p : Nat) → (vs : List V) → (d : Nat) → IdsOk vs → p ≠ 0 → (namesF ts).Nodup →
    Ext (namesF ts) vs (amF ts p vs d) ∧ GoodF (amF ts p vs d) ts p d
  | [], p, vs, d, hok, _, _ => by simp [amF, GoodF, namesF]; exact Ext.refl [] hok
  | t :: r, p, vs, d, hok, hp, hnd => by
    simp only [namesF, List.nodup_append] at hnd
    obtain ⟨he1, hg1⟩ := amT_spec t p vs d hok hp hnd.1
    obtain ⟨he2, hg2⟩ := amF_spec r p (amT t p vs d) (d + sizeT t) he1.ok hp hnd.2.1
    refine ⟨?_, ?_⟩
    · simp only [amF, namesF]; exact he1.trans he2
    · simp only [amF, GoodF]
      exact ⟨GoodT.ext he2 t p d (fun m hm hm' => hnd.2.2 m hm m hm' rfl) hg1, hg2⟩
end

end Rfsm.Reader
