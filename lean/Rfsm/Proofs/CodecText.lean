import Rfsm.Proofs.CodecReads
/-! `i64::to_string` / `str::parse::<i64>` round trip, and facts about the decimal text. -/
namespace Rfsm.Codec

theorem digitsVal_snoc (acc : Nat) (xs : Str) (c : Nat) :
    digitsVal acc (xs ++ [c]) =
      (digitsVal acc xs).bind (fun m => if isDigit c then some (m * 10 + (c - 48)) else none) := by
  induction xs generalizing acc with
  | nil => simp [digitsVal]
  | cons x xs ih =>
    simp only [List.cons_append, digitsVal]
    split
    · exact ih _
    · rfl

theorem isDigit_add (d : Nat) (h : d < 10) : isDigit (48 + d) = true := by
  simp [isDigit]; omega

theorem digitsVal_showNatF (fuel n : Nat) (h : n ≤ fuel) : digitsVal 0 (showNatF fuel n) = some n := by
  induction fuel generalizing n with
  | zero =>
    have : n = 0 := by omega
    subst this
    simp [showNatF, digitsVal, isDigit]
  | succ fuel ih =>
    unfold showNatF
    split
    · rename_i h1
      simp [digitsVal, isDigit_add n h1]
    · rename_i h1
      rw [digitsVal_snoc, ih (n / 10) (by omega)]
      simp [isDigit_add (n % 10) (Nat.mod_lt _ (by omega))]
      omega

theorem showNatF_all_digits (fuel n : Nat) : ∀ c ∈ showNatF fuel n, isDigit c = true := by
  induction fuel generalizing n with
  | zero => simp [showNatF]; exact isDigit_add _ (Nat.mod_lt _ (by omega))
  | succ fuel ih =>
    unfold showNatF
    split
    · rename_i h1
      simp; exact isDigit_add n h1
    · intro c hc
      simp at hc
      rcases hc with hc | hc
      · exact ih _ c hc
      · subst hc; exact isDigit_add _ (Nat.mod_lt _ (by omega))

theorem showNatF_length (fuel n k : Nat) (hk : 1 ≤ k) (h : n < 10 ^ k) : (showNatF fuel n).length ≤ k := by
  induction fuel generalizing n k with
  | zero => simp [showNatF]; omega
  | succ fuel ih =>
    unfold showNatF
    split
    · simp; omega
    · rename_i h1
      cases k with
      | zero => omega
      | succ k =>
        cases k with
        | zero => simp at h; omega
        | succ k =>
          have : n / 10 < 10 ^ (k + 1) := by
            rw [Nat.div_lt_iff_lt_mul (by omega)]
            rw [Nat.pow_succ] at h
            exact h
          have := ih (n / 10) (k + 1) (by omega) this
          simp; omega

theorem showNatF_ne_nil (fuel n : Nat) : showNatF fuel n ≠ [] := by
  cases fuel <;> simp [showNatF]
  split <;> simp

theorem validUtf8_ascii (s : Str) (h : ∀ c ∈ s, c < 128) : validUtf8 s = true := by
  induction s with
  | nil => rfl
  | cons c r ih =>
    have hc : c < 128 := h c (by simp)
    unfold validUtf8
    simp [hc]
    exact ih (fun d hd => h d (by simp [hd]))

theorem isDigit_lt (c : Nat) (h : isDigit c = true) : c < 128 := by
  simp [isDigit] at h; omega

theorem showInt_valid (v : Int) : validUtf8 (showInt v) = true := by
  apply validUtf8_ascii
  intro c hc
  unfold showInt showNat at hc
  split at hc
  · simp at hc
    rcases hc with hc | hc
    · omega
    · exact isDigit_lt c (showNatF_all_digits _ _ c hc)
  · exact isDigit_lt c (showNatF_all_digits _ _ c hc)

theorem showInt_length (v : Int) (h1 : -(2 ^ 63) ≤ v) (h2 : v < 2 ^ 63) : (showInt v).length ≤ 20 := by
  have hn : v.natAbs < 10 ^ 19 := by omega
  have := showNatF_length v.natAbs v.natAbs 19 (by omega) hn
  unfold showInt showNat
  split <;> simp <;> omega

theorem parseI64_showInt (v : Int) (h1 : -(2 ^ 63) ≤ v) (h2 : v < 2 ^ 63) :
    parseI64 (showInt v) = some v := by
  have hd := digitsVal_showNatF v.natAbs v.natAbs (Nat.le_refl _)
  unfold showInt showNat
  by_cases hv : v < 0
  · simp only [hv, if_true]
    have hne := showNatF_ne_nil v.natAbs v.natAbs
    have : (showNatF v.natAbs v.natAbs).isEmpty = false := by
      cases hh : showNatF v.natAbs v.natAbs with
      | nil => exact absurd hh hne
      | cons _ _ => rfl
    simp only [parseI64, this, hd]
    have : v.natAbs ≤ maxI64 + 1 := by simp [maxI64]; omega
    simp [this]
    omega
  · simp only [hv, if_false]
    cases hh : showNatF v.natAbs v.natAbs with
    | nil => exact absurd hh (showNatF_ne_nil _ _)
    | cons c r =>
      have hc : isDigit c = true := showNatF_all_digits v.natAbs v.natAbs c (by rw [hh]; simp)
      have hc' : c ≠ 43 ∧ c ≠ 45 := by simp [isDigit] at hc; omega
      rw [hh] at hd
      have hle : v.natAbs ≤ maxI64 := by simp [maxI64]; omega
      unfold parseI64
      split
      · rename_i heq; simp at heq
      · rename_i heq; simp at heq; omega
      · rename_i heq; simp at heq; omega
      · simp [hd, hle]; omega

end Rfsm.Codec
