import Rfsm.Proofs.ExtLemmas
/-! History recording and the entry-set closure principle (M-INT). -/
namespace Rfsm.Interp

variable {σ : Type}

theorem tget_tput (t : Table) (k k' : Nat) (v : List Nat) :
    tget (tput t k v) k' = if k' = k then some v else tget t k' := by
  unfold tget tput
  by_cases h : k' = k
  · subst h; simp
  · have hne : (k == k') = false := by simpa using (fun e => h e.symm)
    simp only [List.find?_cons, hne, if_neg h]
    congr 1
    induction t with
    | nil => rfl
    | cons a t ih =>
      simp only [List.filter_cons]
      by_cases ha : a.1 = k
      · have : (a.1 != k) = false := by simp [ha]
        have h2 : (a.1 == k') = false := by simp [ha]; exact fun e => h e.symm
        simp [this, h2, ih]
      · have : (a.1 != k) = true := by simp [ha]
        simp only [this, ↓reduceIte, List.find?_cons]
        split <;> simp_all

/-- fold of `tput` over the history children of one state -/
theorem tget_histFold (d : Doc) (cfg : List Nat) (sid : Nat) : ∀ (hs : List Nat) (tbl : Table) (h : Nat),
    tget (hs.foldl (fun tbl hid => tput tbl hid (histVal d cfg sid hid)) tbl) h =
      if h ∈ hs then some (histVal d cfg sid h) else tget tbl h := by
  intro hs
  induction hs with
  | nil => intro tbl h; simp
  | cons a hs ih =>
    intro tbl h
    simp only [List.foldl_cons, ih, tget_tput, List.mem_cons]
    by_cases h1 : h ∈ hs
    · simp [h1]
    · by_cases h2 : h = a
      · simp [h2]
      · simp [h1, h2]

/-- what `exitStates` records: for a history child `h` of exactly one exited state `sid`, the
    value of `h` is `histVal` of the configuration before the exit -/
theorem tget_historyRecord (d : Doc) (cfg : List Nat) : ∀ (l : List Nat) (tbl : Table) (sid h : Nat),
    sid ∈ l → h ∈ (getState d sid).history →
    (∀ s2 ∈ l, h ∈ (getState d s2).history → s2 = sid) →
    tget (l.foldl (fun tbl sid =>
      (getState d sid).history.foldl (fun tbl hid => tput tbl hid (histVal d cfg sid hid)) tbl) tbl) h
      = some (histVal d cfg sid h) := by
  intro l
  induction l with
  | nil => intro tbl sid h hs; cases hs
  | cons a l ih =>
    intro tbl sid h hs hh hu
    simp only [List.foldl_cons]
    by_cases hin : sid ∈ l
    · exact ih _ sid h hin hh (fun s2 h2 => hu s2 (List.mem_cons_of_mem _ h2))
    · have ha : a = sid := by
        rcases List.mem_cons.1 hs with h1 | h1
        · exact h1.symm
        · exact absurd h1 hin
      subst ha
      -- the rest of the list does not touch `h`
      have rest : ∀ (l : List Nat) (tbl : Table), (∀ s2 ∈ l, h ∉ (getState d s2).history) →
          tget (l.foldl (fun tbl sid =>
            (getState d sid).history.foldl (fun tbl hid => tput tbl hid (histVal d cfg sid hid)) tbl) tbl) h
            = tget tbl h := by
        intro l
        induction l with
        | nil => intro tbl _; rfl
        | cons b l ih2 =>
          intro tbl hb
          simp only [List.foldl_cons]
          rw [ih2 _ (fun s2 h2 => hb s2 (List.mem_cons_of_mem _ h2)), tget_histFold]
          simp [hb b List.mem_cons_self]
      rw [rest l _ ?_, tget_histFold]
      · simp [hh]
      · intro s2 h2 hc
        have := hu s2 (List.mem_cons_of_mem _ h2) hc
        subst this
        exact hin h2

theorem tget_foldr_tput (hv : Table) : ∀ (r : Table) (k : Nat),
    tget (r.foldr (fun kv tbl => tput tbl kv.1 kv.2) hv) k =
      match tget r k with
      | some v => some v
      | none => tget hv k := by
  intro r
  induction r with
  | nil => intro k; simp [tget]
  | cons a r ih =>
    intro k
    simp only [List.foldr_cons, tget_tput, ih]
    unfold tget
    simp only [List.find?_cons]
    by_cases h : k = a.1
    · subst h; simp
    · have : (a.1 == k) = false := by simpa using (fun e => h e.symm)
      simp [h, this]

/-- C06 record clause on the session level -/
theorem exitStates_records (env : Env σ) (d : Doc) (s : Sess σ) (ts : List Nat) (sid h : Nat)
    (hs : sid ∈ computeExitSet d s.hv s.cfg ts) (hh : h ∈ (getState d sid).history)
    (hu : ∀ s2, h ∈ (getState d s2).history → s2 = sid) :
    tget (exitStates env d s ts).hv h = some (histVal d s.cfg sid h) := by
  rw [(exitStates_spec env d s ts).2.1]
  unfold exitPrepare
  simp only
  rw [tget_foldr_tput]
  unfold historyRecord
  rw [tget_historyRecord d s.cfg _ [] sid h (mem_sortByDesc.2 hs) hh (fun s2 _ h2 => hu s2 h2)]

/-- … and history states of states that are not exited keep their value -/
theorem exitStates_keeps (env : Env σ) (d : Doc) (s : Sess σ) (ts : List Nat) (h : Nat)
    (hn : ∀ sid ∈ computeExitSet d s.hv s.cfg ts, h ∉ (getState d sid).history) :
    tget (exitStates env d s ts).hv h = tget s.hv h := by
  rw [(exitStates_spec env d s ts).2.1]
  unfold exitPrepare
  simp only
  rw [tget_foldr_tput]
  unfold historyRecord
  have rest : ∀ (l : List Nat) (tbl : Table), (∀ s2 ∈ l, h ∉ (getState d s2).history) →
      tget (l.foldl (fun tbl sid =>
        (getState d sid).history.foldl (fun tbl hid => tput tbl hid (histVal d s.cfg sid hid)) tbl) tbl) h
        = tget tbl h := by
    intro l
    induction l with
    | nil => intro tbl _; rfl
    | cons b l ih2 =>
      intro tbl hb
      simp only [List.foldl_cons]
      rw [ih2 _ (fun s2 h2 => hb s2 (List.mem_cons_of_mem _ h2)), tget_histFold]
      simp [hb b List.mem_cons_self]
  rw [rest _ [] (fun s2 h2 => hn s2 (mem_sortByDesc.1 h2))]
  simp [tget]

end Rfsm.Interp

namespace Rfsm.Interp

/-- closure principle for the mutual entry-set recursion: a predicate on the accumulator that is
    preserved by the three primitive updates is preserved by `addDesc` and `addAnc` -/
theorem entry_closure {d : Doc} (hv : Table) (P : EntryAcc → Prop)
    (hT : ∀ acc y, P acc → P { acc with toEnter := oadd acc.toEnter y })
    (hD : ∀ acc y, P acc → P { acc with defaultEntry := oadd acc.defaultEntry y })
    (hH : ∀ acc k v, P acc → P { acc with histContent := hcPut acc.histContent k v }) :
    ∀ (f : Nat),
      (∀ sid acc, P acc → P (addDesc d hv f sid acc)) ∧
      (∀ s anc acc, P acc → P (addAnc d hv f s anc acc)) := by
  intro f
  induction f with
  | zero => exact ⟨fun _ _ h => by simpa [addDesc] using h, fun _ _ _ h => by simpa [addAnc] using h⟩
  | succ f ih =>
    obtain ⟨ihD, ihA⟩ := ih
    have kidsStep : ∀ (kids : List Nat) (acc : EntryAcc), P acc →
        P (kids.foldl (fun a child =>
          if !a.toEnter.any (fun s => isDescendant d s child) then addDesc d hv f child a else a) acc) := by
      intro kids acc h
      refine foldl_inv P _ ?_ kids acc h
      intro b a hb
      split
      · exact ihD a b hb
      · exact hb
    refine ⟨?_, ?_⟩
    · intro sid acc h
      unfold addDesc
      simp only
      split
      · split
        · rename_i vs _
          refine foldl_inv P _ (fun b a hb => ihA a _ b hb) vs _ ?_
          exact foldl_inv P _ (fun b a hb => ihD a b hb) vs _ h
        · refine foldl_inv P _ (fun b a hb => ihA a _ b hb) _ _ ?_
          refine foldl_inv P _ (fun b a hb => ihD a b hb) _ _ ?_
          exact hH _ _ _ h
      · have h1 := hT acc sid h
        split
        · have h2 := hD _ sid h1
          split
          · refine foldl_inv P _ (fun b a hb => ihA a _ b hb) _ _ ?_
            refine foldl_inv P _ (fun b a hb => ihD a b hb) _ _ ?_
            exact h2
          · exact h2
        · split
          · exact kidsStep _ _ h1
          · exact h1
    · intro s anc acc h
      unfold addAnc
      refine foldl_inv P _ ?_ _ acc h
      intro b a hb
      have h1 := hT b a hb
      simp only
      split
      · exact kidsStep _ _ h1
      · exact h1

/-- the entry set only grows -/
theorem addDesc_mono {d : Doc} (hv : Table) (f sid : Nat) (acc : EntryAcc) (x : Nat)
    (hx : x ∈ acc.toEnter) : x ∈ (addDesc d hv f sid acc).toEnter :=
  (entry_closure hv (fun a => x ∈ a.toEnter) (fun _ _ h => mem_oadd.2 (Or.inl h)) (fun _ _ h => h)
    (fun _ _ _ h => h) f).1 sid acc hx

theorem addAnc_mono {d : Doc} (hv : Table) (f s anc : Nat) (acc : EntryAcc) (x : Nat)
    (hx : x ∈ acc.toEnter) : x ∈ (addAnc d hv f s anc acc).toEnter :=
  (entry_closure hv (fun a => x ∈ a.toEnter) (fun _ _ h => mem_oadd.2 (Or.inl h)) (fun _ _ h => h)
    (fun _ _ _ h => h) f).2 s anc acc hx

/-- a non-history state handed to `addDesc` is in the entry set afterwards -/
theorem addDesc_adds {d : Doc} (hv : Table) (f sid : Nat) (acc : EntryAcc)
    (hn : isHistoryState d sid = false) : sid ∈ (addDesc d hv (f + 1) sid acc).toEnter := by
  unfold addDesc
  simp only [hn, Bool.false_eq_true, ↓reduceIte]
  have h0 : sid ∈ ({ acc with toEnter := oadd acc.toEnter sid } : EntryAcc).toEnter := mem_oadd.2 (Or.inr rfl)
  have mono := entry_closure (d := d) hv (fun a => sid ∈ a.toEnter) (fun _ _ h => mem_oadd.2 (Or.inl h))
    (fun _ _ h => h) (fun _ _ _ h => h) f
  have h1 : sid ∈ ({ acc with toEnter := oadd acc.toEnter sid, defaultEntry := oadd acc.defaultEntry sid } : EntryAcc).toEnter :=
    mem_oadd.2 (Or.inr rfl)
  split
  · split
    · refine foldl_inv (fun a => sid ∈ a.toEnter) _ (fun b a hb => mono.2 a _ b hb) _ _ ?_
      exact foldl_inv (fun a => sid ∈ a.toEnter) _ (fun b a hb => mono.1 a b hb) _ _ h1
    · exact h1
  · split
    · refine foldl_inv (fun (a : EntryAcc) => sid ∈ a.toEnter) _ ?_ _ _ h0
      intro b a hb
      split
      · exact mono.1 a b hb
      · exact hb
    · exact h0

/-- restoring: a transition target that is a history state with recorded value `vs` enters every
    (non-history) member of `vs` -/
theorem history_restores {d : Doc} (hv : Table) (f h : Nat) (acc : EntryAcc) (vs : List Nat)
    (hh : isHistoryState d h = true) (hval : tget hv h = some vs)
    (hvs : ∀ v ∈ vs, isHistoryState d v = false) :
    ∀ v ∈ vs, v ∈ (addDesc d hv (f + 2) h acc).toEnter := by
  intro v hv'
  unfold addDesc
  simp only [hh, ↓reduceIte, hval]
  have monoA : ∀ (l : List Nat) (a : EntryAcc), v ∈ a.toEnter →
      v ∈ (l.foldl (fun a s => addAnc d hv (f + 1) s (getState d h).parent a) a).toEnter :=
    fun l a ha => foldl_inv (fun a => v ∈ a.toEnter) _ (fun b s hb => addAnc_mono hv _ s _ b v hb) l a ha
  apply monoA
  -- the first fold reaches `v` and adds it; the remaining steps only grow the set
  have : ∀ (l : List Nat) (a : EntryAcc), v ∈ l → (∀ w ∈ l, isHistoryState d w = false) →
      v ∈ (l.foldl (fun a s => addDesc d hv (f + 1) s a) a).toEnter := by
    intro l
    induction l with
    | nil => intro a h; cases h
    | cons w l ih =>
      intro a hm hall
      simp only [List.foldl_cons]
      rcases List.mem_cons.1 hm with rfl | hm
      · exact foldl_inv (fun a => v ∈ a.toEnter) _ (fun b s hb => addDesc_mono hv _ s b v hb) l _
          (addDesc_adds hv f v a (hall v List.mem_cons_self))
      · exact ih _ hm (fun w hw => hall w (List.mem_cons_of_mem _ hw))
  exact this vs acc hv' hvs

end Rfsm.Interp
