import Rfsm.Proofs.HttpLemmas
/-! Lemmas for C20 about the session table, the route's loop and `set_event`'s map. -/

namespace Rfsm.Http

/-! ### the session table -/

def queueOf (t : Table) (sid : Nat) : List Event :=
  match lookup t sid with
  | some s => s.queue
  | none => []

def totalQueued (t : Table) : Nat := (t.map (fun s => s.queue.length)).sum

def sidsOf (t : Table) : List Nat := t.map (·.sid)

def bump (sid : Nat) (e : Event) (s : Sess) : Sess :=
  if s.sid == sid then { s with queue := s.queue ++ [e] } else s

theorem enqueue_eq (t : Table) (sid : Nat) (e : Event) : enqueue t sid e = t.map (bump sid e) := rfl

theorem bump_sid (sid : Nat) (e : Event) (s : Sess) : (bump sid e s).sid = s.sid := by
  unfold bump; split <;> rfl

theorem bump_same (sid : Nat) (e : Event) (s : Sess) (h : s.sid = sid) :
    (bump sid e s).queue = s.queue ++ [e] := by
  unfold bump; simp [h]

theorem bump_other (sid : Nat) (e : Event) (s : Sess) (h : s.sid ≠ sid) : bump sid e s = s := by
  unfold bump; simp [h]

theorem lookup_nil (sid : Nat) : lookup [] sid = none := rfl

theorem lookup_cons (s : Sess) (t : Table) (sid : Nat) :
    lookup (s :: t) sid = if s.sid = sid then some s else lookup t sid := by
  unfold lookup
  rw [List.find?_cons]
  by_cases h : s.sid = sid
  · simp [h]
  · have : (s.sid == sid) = false := by simp [h]
    simp [h, this]

theorem enqueue_sids (t : Table) (sid : Nat) (e : Event) : sidsOf (enqueue t sid e) = sidsOf t := by
  induction t with
  | nil => rfl
  | cons s t ih =>
    simp only [sidsOf, enqueue_eq, List.map_cons] at ih ⊢
    rw [bump_sid, ih]

theorem lookup_enqueue (t : Table) (sid sid' : Nat) (e : Event) :
    lookup (enqueue t sid e) sid' = (lookup t sid').map (bump sid e) := by
  induction t with
  | nil => rfl
  | cons s t ih =>
    rw [enqueue_eq, List.map_cons, lookup_cons, lookup_cons, bump_sid, ← enqueue_eq, ih]
    split <;> rfl

theorem lookup_sid (t : Table) (sid : Nat) (s : Sess) (h : lookup t sid = some s) : s.sid = sid := by
  have := List.find?_some h
  simpa using this

theorem queueOf_enqueue_same (t : Table) (sid : Nat) (e : Event) (s : Sess) (h : lookup t sid = some s) :
    queueOf (enqueue t sid e) sid = queueOf t sid ++ [e] := by
  have hs := lookup_sid t sid s h
  simp only [queueOf, lookup_enqueue, h, Option.map_some]
  exact bump_same sid e s hs

theorem queueOf_enqueue_other (t : Table) (sid sid' : Nat) (e : Event) (hne : sid' ≠ sid) :
    queueOf (enqueue t sid e) sid' = queueOf t sid' := by
  simp only [queueOf, lookup_enqueue]
  cases h : lookup t sid' with
  | none => rfl
  | some s =>
    have hs := lookup_sid t sid' s h
    have : s.sid ≠ sid := by rw [hs]; exact hne
    simp only [Option.map_some, bump_other sid e s this]

theorem totalQueued_cons (s : Sess) (t : Table) : totalQueued (s :: t) = s.queue.length + totalQueued t := by
  simp [totalQueued]

theorem sidsOf_cons (s : Sess) (t : Table) : sidsOf (s :: t) = s.sid :: sidsOf t := rfl

theorem totalQueued_enqueue_absent (t : Table) (sid : Nat) (e : Event) (h : sid ∉ sidsOf t) :
    totalQueued (enqueue t sid e) = totalQueued t := by
  induction t with
  | nil => rfl
  | cons s t ih =>
    rw [sidsOf_cons, List.mem_cons, not_or] at h
    have h1 : s.sid ≠ sid := fun he => h.1 he.symm
    rw [enqueue_eq, List.map_cons, ← enqueue_eq, totalQueued_cons, totalQueued_cons, ih h.2,
      bump_other sid e s h1]

/-- with pairwise distinct session ids exactly one queue grows, by exactly one -/
theorem totalQueued_enqueue (t : Table) (sid : Nat) (e : Event) (hn : (sidsOf t).Nodup)
    (h : sid ∈ sidsOf t) : totalQueued (enqueue t sid e) = totalQueued t + 1 := by
  induction t with
  | nil => simp [sidsOf] at h
  | cons s t ih =>
    rw [sidsOf_cons, List.nodup_cons] at hn
    rw [enqueue_eq, List.map_cons, ← enqueue_eq, totalQueued_cons, totalQueued_cons]
    by_cases hs : s.sid = sid
    · have habs : sid ∉ sidsOf t := by rw [← hs]; exact hn.1
      rw [totalQueued_enqueue_absent t sid e habs, bump_same sid e s hs]
      simp; omega
    · have hin : sid ∈ sidsOf t := by
        rw [sidsOf_cons, List.mem_cons] at h
        rcases h with h | h
        · exact absurd h.symm hs
        · exact h
      rw [ih hn.2 hin, bump_other sid e s hs]
      omega

theorem lookup_isSome_iff (t : Table) (sid : Nat) : (lookup t sid).isSome ↔ sid ∈ sidsOf t := by
  induction t with
  | nil => simp [lookup, sidsOf]
  | cons s t ih =>
    rw [lookup_cons, sidsOf_cons, List.mem_cons]
    by_cases h : s.sid = sid
    · simp [h]
    · simp only [h, ↓reduceIte, ih]
      constructor
      · exact Or.inr
      · intro h2
        rcases h2 with h2 | h2
        · exact absurd h2.symm h
        · exact h2

/-! ### the route's loop -/

def lastValue : List (Bytes × Bytes) → Bytes → Option Bytes
  | [], _ => none
  | p :: l, k => (lastValue l k).or (if p.1 == k then some p.2 else none)

theorem otherFields_cons_other (p : Bytes × Bytes) (l : List (Bytes × Bytes))
    (h1 : (p.1 == scxmlEventName) = false) (h2 : (p.1 == scxmlContent) = false) :
    otherFields (p :: l) = p :: otherFields l := by
  simp [otherFields, bne, h1, h2]

theorem otherFields_cons_name (p : Bytes × Bytes) (l : List (Bytes × Bytes))
    (h1 : (p.1 == scxmlEventName) = true) : otherFields (p :: l) = otherFields l := by
  simp [otherFields, bne, h1]

theorem otherFields_cons_content (p : Bytes × Bytes) (l : List (Bytes × Bytes))
    (h2 : (p.1 == scxmlContent) = true) : otherFields (p :: l) = otherFields l := by
  simp [otherFields, bne, h2]

theorem buildEvent_aux (l : List (Bytes × Bytes)) (n0 : Option Bytes) (e0 : Event) :
    l.foldl (fun (acc : Option Bytes × Event) nv =>
      if nv.1 == scxmlEventName then (some nv.2, acc.2)
      else if nv.1 == scxmlContent then (acc.1, { acc.2 with content := some nv.2 })
      else (acc.1, { acc.2 with params := some ((acc.2.params.getD []) ++ [nv]) })) (n0, e0)
    = ((lastValue l scxmlEventName).or n0,
       { name := e0.name,
         params := if (otherFields l).isEmpty then e0.params else some (e0.params.getD [] ++ otherFields l),
         content := (lastValue l scxmlContent).or e0.content }) := by
  induction l generalizing n0 e0 with
  | nil => simp [lastValue, otherFields]
  | cons p l ih =>
    rw [List.foldl_cons]
    by_cases h1 : (p.1 == scxmlEventName) = true
    · have hne : (p.1 == scxmlContent) = false := by
        have : p.1 = scxmlEventName := by simpa using h1
        rw [this]; decide
      simp only [h1, ↓reduceIte]
      rw [ih, otherFields_cons_name p l h1]
      simp only [lastValue, h1, hne, ↓reduceIte, Bool.false_eq_true]
      cases lastValue l scxmlEventName <;> cases lastValue l scxmlContent <;> simp
    · have h1' : (p.1 == scxmlEventName) = false := by simpa using h1
      simp only [h1', Bool.false_eq_true, ↓reduceIte]
      by_cases h2 : (p.1 == scxmlContent) = true
      · simp only [h2, ↓reduceIte]
        rw [ih, otherFields_cons_content p l h2]
        simp only [lastValue, h1', h2, ↓reduceIte, Bool.false_eq_true]
        cases lastValue l scxmlEventName <;> cases lastValue l scxmlContent <;> simp
      · have h2' : (p.1 == scxmlContent) = false := by simpa using h2
        simp only [h2', Bool.false_eq_true, ↓reduceIte]
        rw [ih, otherFields_cons_other p l h1' h2']
        simp only [lastValue, h1', h2', ↓reduceIte, Bool.false_eq_true]
        cases lastValue l scxmlEventName <;> cases lastValue l scxmlContent <;>
          cases e0.params <;> simp

theorem buildEvent_eq (form : List (Bytes × Bytes)) :
    buildEvent form = (lastValue form scxmlEventName,
      { name := [],
        params := if (otherFields form).isEmpty then none else some (otherFields form),
        content := lastValue form scxmlContent }) := by
  unfold buildEvent
  rw [buildEvent_aux]
  simp

theorem fieldValue_cons (p : Bytes × Bytes) (l : List (Bytes × Bytes)) (k : Bytes) :
    fieldValue (p :: l) k = if p.1 == k then some p.2 else fieldValue l k := by
  unfold fieldValue
  rw [List.find?_cons]
  by_cases h : (p.1 == k) = true
  · simp [h]
  · have : (p.1 == k) = false := by simpa using h
    simp [this]

theorem fieldValue_none_of_absent (l : List (Bytes × Bytes)) (k : Bytes)
    (h : l.any (fun q => q.1 == k) = false) : fieldValue l k = none := by
  induction l with
  | nil => rfl
  | cons p l ih =>
    rw [List.any_cons, Bool.or_eq_false_iff] at h
    rw [fieldValue_cons, h.1, ih h.2]
    rfl

theorem lastValue_none_of_absent (l : List (Bytes × Bytes)) (k : Bytes)
    (h : l.any (fun q => q.1 == k) = false) : lastValue l k = none := by
  induction l with
  | nil => rfl
  | cons p l ih =>
    rw [List.any_cons, Bool.or_eq_false_iff] at h
    simp [lastValue, h.1, ih h.2]

theorem lastValue_distinct (form : List (Bytes × Bytes)) (k : Bytes) (h : keysDistinct form = true) :
    lastValue form k = fieldValue form k := by
  induction form with
  | nil => rfl
  | cons p l ih =>
    simp only [keysDistinct, Bool.and_eq_true, Bool.not_eq_eq_eq_not, Bool.not_true] at h
    rw [fieldValue_cons]
    by_cases hk : (p.1 == k) = true
    · have hkeq : p.1 = k := by simpa using hk
      have habs : l.any (fun q => q.1 == k) = false := by rw [← hkeq]; exact h.1
      simp [lastValue, hk, lastValue_none_of_absent l k habs]
    · have hk' : (p.1 == k) = false := by simpa using hk
      simp [lastValue, hk', ih h.2]

/-! ### `set_event`'s map (`mapOf`) on pairwise distinct names -/

theorem beq_false_symm {a b : Bytes} (h : (a == b) = false) : (b == a) = false := by
  simp only [beq_eq_false_iff_ne, ne_eq] at h ⊢
  exact fun e => h e.symm

theorem insertKV_fresh (acc : List (Bytes × Bytes)) (k v : Bytes)
    (h : acc.any (fun p => p.1 == k) = false) : insertKV acc k v = acc ++ [(k, v)] := by
  simp [insertKV, h]

theorem foldl_insert_distinct (fields acc : List (Bytes × Bytes)) (hd : keysDistinct fields = true)
    (hfresh : ∀ p ∈ fields, acc.any (fun q => q.1 == p.1) = false) :
    fields.foldl (fun acc p => insertKV acc p.1 p.2) acc = acc ++ fields := by
  induction fields generalizing acc with
  | nil => simp
  | cons p l ih =>
    simp only [keysDistinct, Bool.and_eq_true, Bool.not_eq_eq_eq_not, Bool.not_true] at hd
    rw [List.foldl_cons, insertKV_fresh acc p.1 p.2 (hfresh p (by simp))]
    rw [ih _ hd.2]
    · simp
    · intro q hq
      rw [List.any_append, hfresh q (by simp [hq])]
      have := List.any_eq_false.mp hd.1 q hq
      simp only [List.any_cons, List.any_nil, Bool.or_false, Bool.false_or]
      exact beq_false_symm (by simpa using this)

/-- with pairwise distinct names the map `set_event` builds is the list of parameters itself -/
theorem mapOf_distinct (pv : List (Bytes × Bytes)) (hd : keysDistinct pv = true) : mapOf pv = pv := by
  unfold mapOf
  rw [foldl_insert_distinct pv [] hd (by intro p _; rfl)]
  simp

/-! ### lemmas used by `Props/C20.lean` -/

/-- the event a request contributes, which depends on the table only through its session ids -/
def eventOf (t : Table) (r : Bytes × Bytes) : Option (Nat × Event) :=
  match parseSid (pctDecode r.1) with
  | none => none
  | some sid =>
    if (lookup t sid).isSome then (routeEvent (formDecode r.2)).map (fun ev => (sid, ev))
    else none

theorem receive_eventOf (t : Table) (r : Bytes × Bytes) :
    (receive t r.1 r.2).2 =
      match eventOf t r with
      | some (sid, ev) => enqueue t sid ev
      | none => t := by
  unfold receive eventOf handlePost routeBody routeEvent
  cases parseSid (pctDecode r.1) with
  | none => rfl
  | some sid =>
    simp only
    cases hl : lookup t sid with
    | none => simp
    | some s =>
      simp only [Option.isSome_some, ↓reduceIte]
      cases hb : buildEvent (formDecode r.2) with
      | mk n ev => cases n <;> simp

theorem eventOf_congr (t t' : Table) (h : sidsOf t = sidsOf t') (r : Bytes × Bytes) :
    eventOf t r = eventOf t' r := by
  unfold eventOf
  cases parseSid (pctDecode r.1) with
  | none => rfl
  | some sid =>
    have : (lookup t sid).isSome = (lookup t' sid).isSome := by
      rw [Bool.eq_iff_iff, lookup_isSome_iff, lookup_isSome_iff, h]
    simp only [this]

theorem otherFields_params (ps : List (Bytes × DataV))
    (h : ps.all (fun p => p.1 != scxmlEventName && p.1 != scxmlContent) = true) :
    otherFields (ps.map (fun p => (p.1, dataText p.2))) = ps.map (fun p => (p.1, dataText p.2)) := by
  unfold otherFields
  apply List.filter_eq_self.mpr
  intro q hq
  simp only [List.mem_map] at hq
  obtain ⟨p, hp, rfl⟩ := hq
  exact List.all_eq_true.mp h p hp

theorem otherFields_append (a b : List (Bytes × Bytes)) :
    otherFields (a ++ b) = otherFields a ++ otherFields b := by
  simp [otherFields]

theorem fieldValue_append_absent (a b : List (Bytes × Bytes)) (k : Bytes)
    (h : a.any (fun q => q.1 == k) = false) : fieldValue (a ++ b) k = fieldValue b k := by
  induction a with
  | nil => rfl
  | cons p a ih =>
    rw [List.any_cons, Bool.or_eq_false_iff] at h
    rw [List.cons_append, fieldValue_cons, h.1, ih h.2]
    rfl

theorem params_no_content (ps : List (Bytes × DataV))
    (h : ps.all (fun p => p.1 != scxmlEventName && p.1 != scxmlContent) = true) :
    (ps.map (fun p => (p.1, dataText p.2))).any (fun q => q.1 == scxmlContent) = false := by
  apply List.any_eq_false.mpr
  intro q hq
  simp only [List.mem_map] at hq
  obtain ⟨p, hp, rfl⟩ := hq
  have := List.all_eq_true.mp h p hp
  simp only [Bool.and_eq_true, bne_iff_ne, ne_eq] at this
  simp [this.2]

theorem routeBody_spec (t : Table) (sid : Nat) (form : List (Bytes × Bytes))
    (hd : keysDistinct form = true) :
    routeBody t sid form =
      match lookup t sid, specEvent form with
      | some _, some (n, _) =>
        (200, enqueue t sid
          { name := n,
            params := if (otherFields form).isEmpty then none else some (otherFields form),
            content := fieldValue form scxmlContent })
      | _, _ => (400, t) := by
  unfold routeBody specEvent
  rw [buildEvent_eq, lastValue_distinct form _ hd, lastValue_distinct form _ hd]
  cases lookup t sid with
  | none => rfl
  | some s =>
    cases fieldValue form scxmlEventName with
    | none => rfl
    | some n => rfl

/-- the route body for EVERY form (duplicates included): the last `_scxmleventname` names the event,
    the last `_content` is its content, every other field is a parameter, in body order -/
theorem routeBody_all (t : Table) (sid : Nat) (form : List (Bytes × Bytes)) :
    routeBody t sid form =
      match lookup t sid, lastValue form scxmlEventName with
      | some _, some n =>
        (200, enqueue t sid
          { name := n,
            params := if (otherFields form).isEmpty then none else some (otherFields form),
            content := lastValue form scxmlContent })
      | _, _ => (400, t) := by
  unfold routeBody
  rw [buildEvent_eq]
  cases lookup t sid with
  | none => rfl
  | some s =>
    cases lastValue form scxmlEventName with
    | none => rfl
    | some n => rfl


end Rfsm.Http

namespace Rfsm.Http

/-! ### the path segment: `u32::from_str (n.to_string()) = n` -/

theorem digit_facts : ∀ d, d < 10 →
    ((48 : UInt8) ≤ digitChar d && digitChar d ≤ 57 && (digitChar d).toNat - 48 == d &&
      digitChar d != 37 && digitChar d != 43) = true := by decide

theorem digitsVal_cons_digit (d : Nat) (hd : d < 10) (cs : Bytes) :
    digitsVal (digitChar d :: cs) = (digitsVal cs).map (fun r => d * 10 ^ cs.length + r) := by
  have h := digit_facts d hd
  simp only [Bool.and_eq_true, beq_iff_eq, bne_iff_ne, ne_eq, decide_eq_true_eq] at h
  obtain ⟨⟨⟨⟨h1, h2⟩, h3⟩, _⟩, _⟩ := h
  have hc : ((48 : UInt8) ≤ digitChar d && digitChar d ≤ 57) = true := by simp [h1, h2]
  simp only [digitsVal, hc, ↓reduceIte, h3]

theorem digitsVal_decimalAux (fuel n : Nat) (acc : Bytes) (h : n < fuel) :
    digitsVal (decimalAux fuel n acc) = (digitsVal acc).map (fun r => n * 10 ^ acc.length + r) := by
  induction fuel generalizing n acc with
  | zero => omega
  | succ fuel ih =>
    unfold decimalAux
    by_cases h10 : n < 10
    · simp only [h10, ↓reduceIte]
      exact digitsVal_cons_digit n h10 acc
    · simp only [h10, ↓reduceIte]
      have hq : n / 10 < fuel := by omega
      rw [ih (n / 10) _ hq, digitsVal_cons_digit (n % 10) (Nat.mod_lt n (by omega)) acc, Option.map_map]
      congr 1
      funext r
      simp only [Function.comp, List.length_cons, Nat.pow_succ]
      have e1 : n / 10 * (10 ^ acc.length * 10) = (n / 10 * 10 ^ acc.length) * 10 := by
        rw [Nat.mul_assoc]
      have e2 : n * 10 ^ acc.length = (10 * (n / 10) + n % 10) * 10 ^ acc.length := by
        rw [Nat.div_add_mod]
      rw [e1, e2, Nat.add_mul, Nat.mul_assoc 10]
      omega

theorem digitsVal_decimal (n : Nat) : digitsVal (decimal n) = some n := by
  unfold decimal
  rw [digitsVal_decimalAux (n + 1) n [] (by omega)]
  simp [digitsVal]

def isDigit (c : UInt8) : Bool := 48 ≤ c && c ≤ 57

theorem isDigit_digitChar (d : Nat) (hd : d < 10) : isDigit (digitChar d) = true := by
  have h := digit_facts d hd
  simp only [Bool.and_eq_true, beq_iff_eq, bne_iff_ne, ne_eq, decide_eq_true_eq] at h
  simp [isDigit, h.1.1.1.1, h.1.1.1.2]

theorem decimalAux_digits (fuel n : Nat) (acc : Bytes) (h : acc.all isDigit = true) :
    (decimalAux fuel n acc).all isDigit = true := by
  induction fuel generalizing n acc with
  | zero => exact h
  | succ fuel ih =>
    unfold decimalAux
    by_cases h10 : n < 10
    · simp only [h10, ↓reduceIte, List.all_cons, isDigit_digitChar n h10, h, Bool.and_self]
    · simp only [h10, ↓reduceIte]
      apply ih
      simp only [List.all_cons, isDigit_digitChar (n % 10) (Nat.mod_lt n (by omega)), h, Bool.and_self]

theorem decimalAux_ne_nil (fuel n : Nat) (acc : Bytes) (h : acc ≠ [] ∨ 0 < fuel) :
    decimalAux fuel n acc ≠ [] := by
  induction fuel generalizing n acc with
  | zero =>
    rcases h with h | h
    · exact h
    · omega
  | succ fuel ih =>
    unfold decimalAux
    by_cases h10 : n < 10
    · simp [h10]
    · simp only [h10, ↓reduceIte]
      exact ih _ _ (Or.inl (by simp))

theorem pctDecode_noPct (s : Bytes) (h : s.all (fun c => c != 37) = true) : pctDecode s = s := by
  induction s with
  | nil => rfl
  | cons c s ih =>
    rw [List.all_cons, Bool.and_eq_true] at h
    rw [pctDecode_cons_ne c s (by simpa using h.1), ih h.2]

theorem isDigit_facts : ∀ c : UInt8, isDigit c = true → c ≠ 37 ∧ c ≠ 43 := by
  intro c h
  have := byte_all (fun c => !isDigit c || (c != 37 && c != 43)) (by decide +kernel) c
  simp only [h, Bool.not_true, Bool.false_or, Bool.and_eq_true, bne_iff_ne, ne_eq] at this
  exact this

theorem parseSid_digits (s : Bytes) (hd : s.all isDigit = true) (hne : s ≠ []) :
    parseSid s = match digitsVal s with
      | some n => if n < 4294967296 then some n else none
      | none => none := by
  cases s with
  | nil => exact absurd rfl hne
  | cons c cs =>
    have hc43 : c ≠ 43 := by
      rw [List.all_cons, Bool.and_eq_true] at hd
      exact (isDigit_facts c hd.1).2
    have hds : stripPlus (c :: cs) = c :: cs := by
      unfold stripPlus
      split
      · rename_i r heq
        simp only [List.cons.injEq] at heq
        exact absurd heq.1 hc43
      · rfl
    unfold parseSid
    simp only [hds, List.isEmpty_cons, Bool.false_eq_true, ↓reduceIte]
    cases digitsVal (c :: cs) <;> rfl

/-- the decimal spelling of a session id is read back as that id -/
theorem parseSid_decimal (n : Nat) (h : n < 4294967296) : parseSid (pctDecode (decimal n)) = some n := by
  have hd : (decimal n).all isDigit = true := decimalAux_digits _ _ [] rfl
  have hne : decimal n ≠ [] := decimalAux_ne_nil _ _ [] (Or.inr (by omega))
  have hp : (decimal n).all (fun c => c != 37) = true := by
    apply List.all_eq_true.mpr
    intro c hc
    have := (isDigit_facts c (List.all_eq_true.mp hd c hc)).1
    simpa using this
  rw [pctDecode_noPct _ hp, parseSid_digits _ hd hne, digitsVal_decimal]
  simp [h]

end Rfsm.Http

namespace Rfsm.Http

/-! ### pairwise distinct names -/

theorem keysDistinct_iff (l : List (Bytes × Bytes)) :
    keysDistinct l = true ↔ (l.map (·.1)).Nodup := by
  induction l with
  | nil => simp [keysDistinct]
  | cons p l ih =>
    simp only [keysDistinct, Bool.and_eq_true, Bool.not_eq_eq_eq_not, Bool.not_true, List.map_cons,
      List.nodup_cons, ih]
    constructor
    · rintro ⟨h1, h2⟩
      refine ⟨?_, h2⟩
      intro hm
      simp only [List.mem_map] at hm
      obtain ⟨q, hq, hqe⟩ := hm
      have := List.any_eq_false.mp h1 q hq
      simp [hqe] at this
    · rintro ⟨h1, h2⟩
      refine ⟨?_, h2⟩
      apply List.any_eq_false.mpr
      intro q hq hqe
      apply h1
      simp only [List.mem_map]
      exact ⟨q, hq, by simpa using hqe⟩

theorem keysDistinct_otherFields (l : List (Bytes × Bytes)) (h : keysDistinct l = true) :
    keysDistinct (otherFields l) = true := by
  rw [keysDistinct_iff] at h ⊢
  exact h.sublist (List.Sublist.map _ List.filter_sublist)

end Rfsm.Http
