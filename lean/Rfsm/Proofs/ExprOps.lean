import Rfsm.Model.ExprEval
/-!
Lemmas about the operator table (`operation`) and the compile cache of M-EXPR.
-/
namespace Rfsm.Expr

def InI64 (v : Int) : Prop := i64Min ≤ v ∧ v ≤ i64Max

theorem clampI64_inI64 (v : Int) : InI64 (clampI64 v) := by
  unfold clampI64 InI64 i64Min i64Max
  split
  · omega
  · split <;> omega

theorem clampI64_of_inI64 {v : Int} (h : InI64 v) : clampI64 v = v := by
  unfold InI64 i64Min i64Max at h
  unfold clampI64 i64Min i64Max
  split
  · omega
  · split <;> omega

theorem clampI64_above {v : Int} (h : i64Max < v) : clampI64 v = i64Max := by
  unfold clampI64 i64Min i64Max at *
  split
  · omega
  · simp

theorem clampI64_below {v : Int} (h : v < i64Min) : clampI64 v = i64Min := by
  unfold clampI64
  simp [h]

variable {D : Type} (ops : DoubleOps D) (cells : Cells D) (held : List Nat)

theorem operation_plus_int (a b : Int) :
    operation ops cells held .plus (.int a) (.int b) = .val (.int (clampI64 (a + b))) [] := rfl

theorem operation_minus_int (a b : Int) :
    operation ops cells held .minus (.int a) (.int b) = .val (.int (clampI64 (a - b))) [] := rfl

theorem operation_multiply_int (a b : Int) :
    operation ops cells held .multiply (.int a) (.int b) = .val (.int (clampI64 (a * b))) [] := rfl

theorem operation_modulus_int (a b : Int) (hb : b ≠ 0) :
    operation ops cells held .modulus (.int a) (.int b) = .val (.int (Int.tmod a b)) [] := by
  simp only [operation, isNumeric, Bool.and_self, if_true, arith, remI64]
  have h1 : (b == 0) = false := by simp [hb]
  simp [h1]

/-- a zero divisor yields an error value (it used to panic) -/
theorem operation_modulus_zero (a : Int) :
    operation ops cells held .modulus (.int a) (.int 0) = .val (.error .remUndefined) [] := rfl

/-- `i64::MIN % -1` is 0 (it used to panic) -/
theorem operation_modulus_min :
    operation ops cells held .modulus (.int i64Min) (.int (-1)) = .val (.int 0) [] := by
  rw [operation_modulus_int ops cells held i64Min (-1) (by decide)]; rfl

/-- Double contagion for `+ - *`: one Double operand makes the result a Double -/
theorem operation_contagion (a : Int) (b : D) :
    operation ops cells held .plus (.int a) (.dbl b) = .val (.dbl (ops.add (ops.ofInt a) b)) [] ∧
    operation ops cells held .plus (.dbl b) (.int a) = .val (.dbl (ops.add b (ops.ofInt a))) [] ∧
    operation ops cells held .minus (.int a) (.dbl b) = .val (.dbl (ops.sub (ops.ofInt a) b)) [] ∧
    operation ops cells held .minus (.dbl b) (.int a) = .val (.dbl (ops.sub b (ops.ofInt a))) [] ∧
    operation ops cells held .multiply (.int a) (.dbl b) = .val (.dbl (ops.mul (ops.ofInt a) b)) [] ∧
    operation ops cells held .multiply (.dbl b) (.int a) = .val (.dbl (ops.mul b (ops.ofInt a))) [] ∧
    operation ops cells held .modulus (.int a) (.dbl b) = .val (.dbl (ops.rem (ops.ofInt a) b)) [] ∧
    operation ops cells held .modulus (.dbl b) (.int a) = .val (.dbl (ops.rem b (ops.ofInt a))) [] :=
  ⟨rfl, rfl, rfl, rfl, rfl, rfl, rfl, rfl⟩

/-- `/` on two integers: a Double (or the NaN error), never an Integer -/
theorem operation_divide_int (a b : Int) :
    operation ops cells held .divide (.int a) (.int b) =
      if ops.isNaN (ops.div (ops.ofInt a) (ops.ofInt b)) then .val (.error .divideNaN) []
      else .val (.dbl (ops.div (ops.ofInt a) (ops.ofInt b))) [] := rfl

/-- `+` aggregates strings, arrays and maps -/
theorem operation_plus_aggregates (s t : Str) (a1 a2 : List Ref) (m1 m2 : List (Str × Ref)) :
    operation ops cells held .plus (.str s) (.str t) = .val (.str (s ++ t)) [] ∧
    operation ops cells held .plus (.array a1) (.array a2) = .val (.array (a1 ++ a2)) [] ∧
    operation ops cells held .plus (.array a1) (.str t) =
      .val (.array (a1 ++ [⟨cells.length, false⟩])) [.str t] ∧
    operation ops cells held .plus (.map m1) (.map m2) = .val (.map (mapExtend m1 m2)) [] :=
  ⟨rfl, rfl, rfl, rfl⟩

/-- comparison of two strings is the lexicographic order on code points -/
theorem operation_less_str (s t : Str) :
    operation ops cells held .less (.str s) (.str t) = .val (.bool (strLt s t)) [] := rfl

/-- two integers are compared exactly -/
theorem operation_compare_int (a b : Int) :
    operation ops cells held .less (.int a) (.int b) = .val (.bool (decide (a < b))) [] ∧
    operation ops cells held .lessEqual (.int a) (.int b) = .val (.bool (decide (a ≤ b))) [] ∧
    operation ops cells held .greater (.int a) (.int b) = .val (.bool (decide (b < a))) [] ∧
    operation ops cells held .greaterEqual (.int a) (.int b) = .val (.bool (decide (b ≤ a))) [] :=
  ⟨rfl, rfl, rfl, rfl⟩

/-- an Integer and a Double are compared through `as_number` -/
theorem operation_less_int_dbl (a : Int) (b : D) :
    operation ops cells held .less (.int a) (.dbl b) = .val (.bool (ops.lt (ops.ofInt a) b)) [] := rfl

/-- every operator other than `==` / `!=` yields a value (possibly an error value): no panic, no
blocking.  (`OpRes` has no panic outcome any more: integer `%` was the only source.) -/
theorem operation_val (o : Op) (l r : Data D) (h1 : o ≠ .equal) (h2 : o ≠ .notEqual) :
    ∃ d n, operation ops cells held o l r = .val d n := by
  cases o <;> simp only [operation] <;> try contradiction
  all_goals
    repeat' split
    all_goals first
      | exact ⟨_, _, rfl⟩
      | (simp only [arith, remI64]; repeat' split
         all_goals exact ⟨_, _, rfl⟩)

/-! ### the compile cache -/

/-- "a source id determines its text": every cached entry is the parse of its id's text -/
def CacheOK (textOf : Nat → Str) (cache : Cache) : Prop :=
  ∀ id e, cacheGet cache id = some e → parse (textOf id) = .ok e

theorem cacheOK_nil (textOf : Nat → Str) : CacheOK textOf [] := by
  intro id e h; simp [cacheGet] at h

theorem compile_eq_parse (textOf : Nat → Str) (cache : Cache) (h : CacheOK textOf cache) (id : Nat) :
    (compile cache (textOf id) id).2 = parse (textOf id) ∧
    CacheOK textOf (compile cache (textOf id) id).1 := by
  unfold compile
  split
  · exact ⟨rfl, h⟩
  · split
    · rename_i e he
      exact ⟨(h id e he).symm, h⟩
    · rename_i hnone
      split
      · rename_i e hp
        refine ⟨hp.symm, ?_⟩
        intro id' e' h'
        simp only [cacheGet] at h'
        split at h'
        · rename_i hid
          have : id = id' := by simpa using hid
          subst this
          cases h'
          exact hp
        · exact h id' e' h'
      · rename_i other hne
        exact ⟨rfl, h⟩

end Rfsm.Expr
