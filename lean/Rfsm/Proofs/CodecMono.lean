import Rfsm.Proofs.CodecReads
/-!
Extension monotonicity of every reader program (`Prog.mono`), and its consequence: a reader program
that decodes an image exactly ends in the error state on every strict prefix of that image.
-/
namespace Rfsm.Codec

def RState.ext (st : RState) (e : List Nat) : RState := { st with inp := st.inp ++ e }

@[simp] theorem ext_ok (st : RState) (e) : (st.ext e).ok = st.ok := rfl
@[simp] theorem ext_tid (st : RState) (e) : (st.ext e).tid = st.tid := rfl
@[simp] theorem ext_num (st : RState) (e) : (st.ext e).num = st.num := rfl
@[simp] theorem ext_inp (st : RState) (e) : (st.ext e).inp = st.inp ++ e := rfl

theorem error_ext (st : RState) (e) : (st.ext e).error = st.error.ext e := by
  cases h : st.ok <;> simp [RState.error, RState.ext, h]

theorem readMore_notok (n : Nat) (st : RState) (h : st.ok = false) : readMore n st = st := by
  cases n <;> simp [readMore, h]

theorem readMore_mono (n : Nat) (st : RState) (e : List Nat) (h : (readMore n st).ok = true) :
    readMore n (st.ext e) = (readMore n st).ext e := by
  induction n generalizing st with
  | zero => rfl
  | succ n ih =>
    cases hok : st.ok with
    | false => simp [readMore_notok, hok] at h
    | true =>
      cases hi : st.inp with
      | nil =>
        simp [readMore, hok, hi, readMore_notok _ _ (error_ok st)] at h
        simp [error_ok] at h
      | cons b r =>
        simp only [readMore, hok, hi, if_true, ext_ok, ext_inp, List.cons_append] at h ⊢
        exact ih _ h

theorem readStrPayload_mono (us : Nat) (st : RState) (e : List Nat)
    (h : (readStrPayload us st).2.ok = true) :
    readStrPayload us (st.ext e) = ((readStrPayload us st).1, (readStrPayload us st).2.ext e) := by
  unfold readStrPayload at h ⊢
  by_cases hl : st.inp.length < us
  · simp [hl, error_ok] at h
  · have hl' : ¬ (st.inp ++ e).length < us := by simp; omega
    have ht : (st.inp ++ e).take us = st.inp.take us := List.take_append_of_le_length (by omega)
    have hd : (st.inp ++ e).drop us = st.inp.drop us ++ e := List.drop_append_of_le_length (by omega)
    simp only [hl, hl', if_false, ext_inp, ht, hd] at h ⊢
    by_cases hv : validUtf8 (st.inp.take us) = true
    · simp [hv, RState.ext]
    · simp [hv, error_ok] at h


theorem longStrPayload_mono (st : RState) (e : List Nat) (h : (longStrPayload st).2.ok = true) :
    longStrPayload (st.ext e) = ((longStrPayload st).1, (longStrPayload st).2.ext e) := by
  obtain ⟨inp, ok, t, n, pn⟩ := st
  cases ok with
  | false => simp [longStrPayload] at h
  | true =>
    simp only [longStrPayload, RState.ext, if_true] at h ⊢
    have := readStrPayload_mono n ⟨inp, true, t, 0, pn⟩ e h
    simp only [RState.ext] at this
    exact this

theorem longStrPayload_ok (st : RState) (h : (longStrPayload st).2.ok = true) : st.ok = true := by
  cases hok : st.ok with
  | true => rfl
  | false => simp [longStrPayload, hok] at h

theorem readLongStr_mono (st : RState) (e : List Nat) (h : (readLongStr st).2.ok = true) :
    readLongStr (st.ext e) = ((readLongStr st).1, (readLongStr st).2.ext e) := by
  obtain ⟨inp, ok, t, n, pn⟩ := st
  unfold readLongStr at h ⊢
  have h6 := longStrPayload_ok _ h
  have hm := readMore_mono 8 ⟨inp, ok, 224, 0, pn⟩ e h6
  have hx : ({ (RState.mk inp ok t n pn).ext e with tid := 0xE0, num := 0 } : RState) =
      (RState.mk inp ok 224 0 pn).ext e := rfl
  rw [hx, hm]
  exact longStrPayload_mono _ e h

theorem rts_mono (st : RState) (e : List Nat) (h : (readTypeAndSize st).2.ok = true) :
    readTypeAndSize (st.ext e) = ((readTypeAndSize st).1, (readTypeAndSize st).2.ext e) := by
  obtain ⟨inp, ok, t, n, pn⟩ := st
  cases ok with
  | false => simp [readTypeAndSize] at h
  | true =>
    cases inp with
    | nil => simp [readTypeAndSize, error_ok] at h
    | cons val r =>
      simp only [readTypeAndSize, if_true, RState.ext, List.cons_append] at h ⊢
      by_cases h1 : val / 16 * 16 = 16
      · simp only [if_pos h1]
      · simp only [if_neg h1] at h ⊢
        by_cases h2 : 48 ≤ val / 16 * 16 ∧ val / 16 * 16 ≤ 176
        · simp only [if_pos h2] at h ⊢
          have := readMore_mono ((val / 16 * 16 - 48) / 16) ⟨r, true, val / 16 * 16, val % 16, pn⟩ e h
          simp only [RState.ext] at this
          rw [this]
        · simp only [if_neg h2] at h ⊢
          by_cases h3 : val / 16 * 16 = 192
          · simp only [if_pos h3] at h ⊢
            have := readStrPayload_mono (val % 16) ⟨r, true, 192, 0, pn⟩ e h
            simp only [RState.ext] at this
            rw [this]
          · simp only [if_neg h3] at h ⊢
            by_cases h4 : val / 16 * 16 = 208
            · simp only [if_pos h4] at h ⊢
              cases r with
              | nil => simp [error_ok] at h
              | cons b r' =>
                simp only [List.cons_append] at h ⊢
                have := readStrPayload_mono (val % 16 * 256 + b) ⟨r', true, 208, 0, pn⟩ e h
                simp only [RState.ext] at this
                rw [this]
            · simp only [if_neg h4] at h ⊢
              by_cases h5 : val / 16 * 16 = 224
              · simp only [if_pos h5] at h ⊢
                have := readLongStr_mono ⟨r, true, t, n, pn⟩ e h
                simp only [RState.ext] at this
                rw [this]
              · simp only [if_neg h5]

theorem readUIntS_mono (st : RState) (e : List Nat) (h : (readUIntS st).2.ok = true) :
    readUIntS (st.ext e) = ((readUIntS st).1, (readUIntS st).2.ext e) := by
  unfold readUIntS at h ⊢
  by_cases h1 : (readTypeAndSize st).2.ok = true
  · rw [rts_mono st e h1]
    simp only [h1, if_true, ext_ok, ext_tid, ext_num] at h ⊢
    by_cases h2 : isNumTid (readTypeAndSize st).2.tid = true
    · simp [h2]
    · simp [h2, error_ok] at h
  · simp [h1] at h

theorem readStringS_mono (st : RState) (e : List Nat) (h : (readStringS st).2.ok = true) :
    readStringS (st.ext e) = ((readStringS st).1, (readStringS st).2.ext e) := by
  unfold readStringS at h ⊢
  by_cases h1 : (readTypeAndSize st).2.ok = true
  · rw [rts_mono st e h1]
    simp only [h1, if_true, ext_ok, ext_tid] at h ⊢
    by_cases h2 : (readTypeAndSize st).2.tid = 192 ∨ (readTypeAndSize st).2.tid = 208 ∨ (readTypeAndSize st).2.tid = 224
    · simp [h2]
    · simp [h2, error_ok] at h
  · simp [h1] at h

theorem readOptStrS_mono (st : RState) (e : List Nat) (h : (readOptStrS st).2.ok = true) :
    readOptStrS (st.ext e) = ((readOptStrS st).1, (readOptStrS st).2.ext e) := by
  unfold readOptStrS at h ⊢
  cases hok : st.ok with
  | false => simp [hok] at h
  | true =>
    simp only [hok, if_true, ext_ok] at h ⊢
    by_cases h1 : (readTypeAndSize st).2.ok = true
    · rw [rts_mono st e h1]
      simp only [ext_tid] at h ⊢
      by_cases h2 : (readTypeAndSize st).2.tid = 16
      · simp [h2]
      · by_cases h3 : (readTypeAndSize st).2.tid = 224 ∨ (readTypeAndSize st).2.tid = 208 ∨ (readTypeAndSize st).2.tid = 192
        · simp [h2, h3]
        · simp [h2, h3, error_ok] at h
    · exfalso
      have hn : (readTypeAndSize st).2.ok = false := by simpa using h1
      by_cases h2 : (readTypeAndSize st).2.tid = 16
      · simp [h2, hn] at h
      · by_cases h3 : (readTypeAndSize st).2.tid = 224 ∨ (readTypeAndSize st).2.tid = 208 ∨ (readTypeAndSize st).2.tid = 192
        · simp [h2, h3, hn] at h
        · simp [h2, h3, error_ok] at h

theorem readBoolS_mono (st : RState) (e : List Nat) (h : (readBoolS st).2.ok = true) :
    readBoolS (st.ext e) = ((readBoolS st).1, (readBoolS st).2.ext e) := by
  obtain ⟨inp, ok, t, n, pn⟩ := st
  cases ok with
  | false => simp [readBoolS] at h
  | true =>
    cases inp with
    | nil => simp [readBoolS, error_ok] at h
    | cons b r =>
      simp only [readBoolS, if_true, RState.ext, List.cons_append] at h ⊢
      by_cases h1 : b = 31
      · simp [h1]
      · by_cases h2 : b = 16
        · simp [h2]
        · simp [h1, h2, error_ok] at h

theorem Prim.mono {α} (p : Prim α) (st : RState) (e : List Nat) (h : (p.run st).2.ok = true) :
    p.run (st.ext e) = ((p.run st).1, (p.run st).2.ext e) := by
  cases p with
  | bool => exact readBoolS_mono st e h
  | optStr => exact readOptStrS_mono st e h
  | str => exact readStringS_mono st e h
  | uint => exact readUIntS_mono st e h
  | fail => simp [Prim.run, error_ok] at h
  | hasError => rfl
  | panic s =>
    obtain ⟨inp, ok, t, n, pn⟩ := st
    cases pn <;> rfl

/-- a run that ends without error never saw the end of its input: appending bytes changes nothing
but the remaining input -/
theorem Prog.mono {α} (p : Prog α) (st : RState) (e : List Nat) (h : (p.run st).2.ok = true) :
    p.run (st.ext e) = ((p.run st).1, (p.run st).2.ext e) := by
  induction p generalizing st with
  | pure a => rfl
  | prim q => exact Prim.mono q st e h
  | bind q f ihq ihf =>
    have h' : ((f (q.run st).1).run (q.run st).2).2.ok = true := h
    have hq : (q.run st).2.ok = true := by
      cases hk : (q.run st).2.ok with
      | true => rfl
      | false => rw [Prog.sticky _ _ hk] at h'; exact absurd h' (by simp)
    show (f (q.run (st.ext e)).1).run (q.run (st.ext e)).2 = _
    rw [ihq st hq]
    exact ihf _ _ h'

/-- if `p` reads `img` exactly (to `x`, nothing left), then on every strict prefix of `img` the
sticky error flag is set at the end — whatever was returned -/
theorem prefix_sets_error {α} (p : Prog α) (img : List Nat) (x : α) (hr : Reads p img x)
    (k : Nat) (hk : k < img.length) (t n : Nat) (pn : Option Site) :
    (p.run ⟨img.take k, true, t, n, pn⟩).2.ok = false := by
  cases hok : (p.run ⟨img.take k, true, t, n, pn⟩).2.ok with
  | false => rfl
  | true =>
    exfalso
    have hm := Prog.mono p ⟨img.take k, true, t, n, pn⟩ (img.drop k) hok
    obtain ⟨t', n', hfull⟩ := hr [] t n pn
    have he : (RState.mk (img.take k) true t n pn).ext (img.drop k) = ⟨img ++ [], true, t, n, pn⟩ := by
      simp [RState.ext]
    rw [he, hfull] at hm
    have : ([] : List Nat) = (p.run ⟨img.take k, true, t, n, pn⟩).2.inp ++ img.drop k := by
      have := congrArg (fun r => r.2.inp) hm
      simpa [RState.ext] using this
    have hd : img.drop k = [] := by
      cases hdd : img.drop k with
      | nil => rfl
      | cons a b => rw [hdd] at this; simp at this
    have : img.length - k = 0 := by simpa using congrArg List.length hd
    omega

end Rfsm.Codec
