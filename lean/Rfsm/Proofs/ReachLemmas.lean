import Rfsm.Proofs.ConformantLemmas
/-!
Reachable sessions: an inductive over-approximation of what `interpret` can produce, closed under
every operation the event loop performs, and the proof that the loops stay inside it.  Invariants
are then proved by induction over `Reach` (one case per operation).
-/
namespace Rfsm.Interp

variable {σ : Type}

/-- the transition list `interpret` hands to the first `enterStates` -/
def rootInit (d : Doc) : List Nat :=
  if (getState d d.root).initial != 0 then [(getState d d.root).initial] else []

inductive Reach (env : Env σ) (d : Doc) : Sess σ → Prop
  /-- start-up: the initial configuration entered from an empty one -/
  | start (s0 : Sess σ) (hc : s0.cfg = []) (hh : s0.hv = []) : Reach env d (enterStates env d s0 (rootInit d))
  /-- anything that leaves configuration and history alone (dequeuing, `_event`, finalize content,
      invoke bookkeeping, the cancel event setting `running := false`, …) -/
  | same {s s' : Sess σ} : Reach env d s → s'.cfg = s.cfg → s'.hv = s.hv → Reach env d s'
  /-- a microstep with the transitions selected for some event (or eventless) -/
  | micro {s : Sess σ} (ev : Option Descriptor.Str) : Reach env d s →
      Reach env d (microstep env d (select env d ev s).1 (select env d ev s).2)

theorem reach_of_kept {env : Env σ} {d : Doc} {s s' : Sess σ} (h : Reach env d s) (k : Kept s s') :
    Reach env d s' := Reach.same h k.cfg k.hv

theorem macroLoop_reach (env : Env σ) (d : Doc) : ∀ (f : Nat) (s s' : Sess σ),
    Reach env d s → macroLoop env d f s = some s' → Reach env d s' := by
  intro f
  induction f with
  | zero => intro s s' _ h; simp [macroLoop] at h
  | succ f ih =>
    intro s s' hr h
    unfold macroLoop at h
    split at h
    · cases h; exact hr
    · -- eventless selection
      have hsel : Reach env d (select env d none s).1 :=
        reach_of_kept hr (kept_of_sameCore (select_sameCore env d none s))
      revert h
      generalize hq : select env d none s = q
      obtain ⟨s1, enabled⟩ := q
      have hm := Reach.micro (env := env) (d := d) none hr
      rw [hq] at hsel hm
      simp only at hsel hm ⊢
      intro h
      split at h
      · -- no eventless transition
        split at h
        · cases h; exact hsel
        · rename_i e rest hiq
          have hr2 : Reach env d { s1 with iq := rest, dm := env.setEvent s1.dm e, trace := s1.trace ++ [.int e.name] } :=
            Reach.same hsel rfl rfl
          revert h
          generalize hq2 : select env d (some e.name)
            { s1 with iq := rest, dm := env.setEvent s1.dm e, trace := s1.trace ++ [.int e.name] } = q2
          obtain ⟨s2, enabled2⟩ := q2
          have hsel2 := reach_of_kept hr2 (kept_of_sameCore (select_sameCore env d (some e.name) _))
          have hm2 := Reach.micro (env := env) (d := d) (some e.name) hr2
          rw [hq2] at hsel2 hm2
          simp only at hsel2 hm2 ⊢
          intro h
          split at h
          · exact ih _ _ hsel2 h
          · exact ih _ _ hm2 h
      · exact ih _ _ hm h

theorem invokeOne_same (env : Env σ) (sid : Nat) (s : Sess σ) (inv : Invoke) :
    (invokeOne env sid s inv).cfg = s.cfg ∧ (invokeOne env sid s inv).hv = s.hv := by
  unfold invokeOne
  simp only
  split <;> exact ⟨rfl, rfl⟩

theorem invokeState_same (env : Env σ) (d : Doc) (s : Sess σ) (sid : Nat) :
    (invokeState env d s sid).cfg = s.cfg ∧ (invokeState env d s sid).hv = s.hv := by
  unfold invokeState
  simp only
  generalize sortBy (fun i => i) ((getState d sid).invokes.map (·.docId)) = l
  induction l generalizing s with
  | nil => exact ⟨rfl, rfl⟩
  | cons a l ih =>
    simp only [List.foldl_cons]
    split
    · exact ih s
    · rename_i inv _
      obtain ⟨h1, h2⟩ := ih (invokeOne env sid s inv)
      obtain ⟨i1, i2⟩ := invokeOne_same env sid s inv
      exact ⟨h1.trans i1, h2.trans i2⟩

theorem runInvokes_same (env : Env σ) (d : Doc) (s : Sess σ) :
    (runInvokes env d s).cfg = s.cfg ∧ (runInvokes env d s).hv = s.hv := by
  unfold runInvokes
  simp only
  generalize sortBy (docIdOf d) s.toInvoke = l
  induction l generalizing s with
  | nil => exact ⟨rfl, rfl⟩
  | cons a l ih =>
    simp only [List.foldl_cons]
    obtain ⟨h1, h2⟩ := ih (invokeState env d s a)
    obtain ⟨i1, i2⟩ := invokeState_same env d s a
    exact ⟨h1.trans i1, h2.trans i2⟩

end Rfsm.Interp

namespace Rfsm.Interp
variable {σ : Type}

theorem preExternal_same (env : Env σ) (d : Doc) (s : Sess σ) (e : Event) :
    (preExternal env d s e).cfg = s.cfg ∧ (preExternal env d s e).hv = s.hv := by
  unfold preExternal
  simp only
  have fwd : ∀ (l : List Descriptor.Str) (s0 : Sess σ),
      (l.foldl (forwardOne e) s0).cfg = s0.cfg ∧ (l.foldl (forwardOne e) s0).hv = s0.hv := by
    intro l
    induction l with
    | nil => intro s0; exact ⟨rfl, rfl⟩
    | cons a l ih =>
      intro s0
      simp only [List.foldl_cons]
      obtain ⟨h1, h2⟩ := ih (forwardOne e s0 a)
      have : (forwardOne e s0 a).cfg = s0.cfg ∧ (forwardOne e s0 a).hv = s0.hv := by
        unfold forwardOne; split <;> exact ⟨rfl, rfl⟩
      exact ⟨h1.trans this.1, h2.trans this.2⟩
  have h1 : (forgetDoneChild (s.emit [.ext e.name]) e).cfg = s.cfg ∧
      (forgetDoneChild (s.emit [.ext e.name]) e).hv = s.hv := by
    unfold forgetDoneChild
    split
    · split <;> exact ⟨rfl, rfl⟩
    · exact ⟨rfl, rfl⟩
  generalize forgetDoneChild (s.emit [.ext e.name]) e = s1 at h1 ⊢
  obtain ⟨f1, f2⟩ := fwd (forwardList d s1 e)
    ((finalizeList d s1 e).foldl (runContent env) { s1 with dm := env.setEvent s1.dm e })
  have k := foldl_runContent_kept env (finalizeList d s1 e) { s1 with dm := env.setEvent s1.dm e }
  exact ⟨f1.trans (k.cfg.trans h1.1), f2.trans (k.hv.trans h1.2)⟩

theorem processExternal_reach (env : Env σ) (d : Doc) (s : Sess σ) (e : Event) (h : Reach env d s) :
    Reach env d (processExternal env d s e) := by
  unfold processExternal
  simp only
  have hp := preExternal_same env d s e
  have h1 : Reach env d (preExternal env d s e) := Reach.same h hp.1 hp.2
  split
  · exact reach_of_kept h1 (kept_of_sameCore (select_sameCore env d _ _))
  · exact Reach.micro (some e.name) h1

theorem handleExternal_reach (env : Env σ) (d : Doc) (s : Sess σ) (e : Event) (h : Reach env d s) :
    Reach env d (handleExternal env d s e) := by
  unfold handleExternal
  split
  · exact Reach.same h rfl rfl
  · exact processExternal_reach env d s e h

theorem takeExternal_same (c : Descriptor.Str) : ∀ (q : List Event) (s : Sess σ),
    (takeExternal c s q).1.cfg = s.cfg ∧ (takeExternal c s q).1.hv = s.hv := by
  intro q
  induction q with
  | nil => intro s; exact ⟨rfl, rfl⟩
  | cons e rest ih =>
    intro s
    unfold takeExternal
    split
    · exact ⟨rfl, rfl⟩
    · exact ih _

theorem awaitExternal_same (c : Descriptor.Str) : ∀ (feed : List (List Event)) (s : Sess σ),
    (awaitExternal c s feed).1.cfg = s.cfg ∧ (awaitExternal c s feed).1.hv = s.hv := by
  intro feed
  induction feed with
  | nil =>
    intro s
    have ht := takeExternal_same c s.extq s
    unfold awaitExternal
    generalize takeExternal c s s.extq = r at ht
    obtain ⟨s2, oe⟩ := r
    cases oe with
    | none => exact ht
    | some e => exact ht
  | cons b rest ih =>
    intro s
    have ht := takeExternal_same c s.extq s
    unfold awaitExternal
    generalize takeExternal c s s.extq = r at ht
    obtain ⟨s2, oe⟩ := r
    cases oe with
    | none =>
      simp only
      obtain ⟨h1, h2⟩ := ih ({ s2 with extq := b }.emit [.feed])
      exact ⟨h1.trans ht.1, h2.trans ht.2⟩
    | some e => exact ht

theorem mainLoop_reach (env : Env σ) (d : Doc) (c : Descriptor.Str) (m : Nat) : ∀ (f : Nat)
    (s : Sess σ) feed r, Reach env d s → mainLoop env d c m f s feed = some r → Reach env d r.1 := by
  intro f
  induction f with
  | zero => intro s feed r _ h; simp [mainLoop] at h
  | succ f ih =>
    intro s feed r hr h
    unfold mainLoop at h
    split at h
    · cases h; exact hr
    · split at h
      · cases h
      · rename_i s1 hm
        have hr1 := macroLoop_reach env d m s s1 hr hm
        split at h
        · cases h; exact hr1
        · have hi := runInvokes_same env d s1
          have hr2 : Reach env d (runInvokes env d s1) := Reach.same hr1 hi.1 hi.2
          simp only at h
          split at h
          · exact ih _ _ _ hr2 h
          · have ha := awaitExternal_same c feed ((runInvokes env d s1).emit [.idle])
            have hr3 : Reach env d (awaitExternal c ((runInvokes env d s1).emit [.idle]) feed).1 :=
              Reach.same (Reach.same hr2 rfl rfl) ha.1 ha.2
            split at h
            · rename_i s2 _ heq
              rw [heq] at hr3
              cases h; exact hr3
            · rename_i s2 e feed' heq
              rw [heq] at hr3
              exact ih _ _ _ (handleExternal_reach env d s2 e hr3) h

end Rfsm.Interp

namespace Rfsm.Interp
variable {σ : Type}

theorem initSession_empty (env : Env σ) (d : Doc) (dm0 : σ) :
    (initSession env d dm0).cfg = [] ∧ (initSession env d dm0).hv = [] := by
  unfold initSession
  simp only
  have : ∀ (l : List Nat) (s : Sess σ),
      (l.foldl (fun s sid => s.absorb (env.initData s.dm sid (!d.late))) s).cfg = s.cfg ∧
      (l.foldl (fun s sid => s.absorb (env.initData s.dm sid (!d.late))) s).hv = s.hv := by
    intro l
    induction l with
    | nil => intro s; exact ⟨rfl, rfl⟩
    | cons a l ih => intro s; simp only [List.foldl_cons]; exact ih _
  obtain ⟨h1, h2⟩ := this (allStatesPreorder d (fuelOf d) d.root) { dm := dm0 }
  split
  · exact ⟨h1, h2⟩
  · exact ⟨h1, h2⟩

theorem startSession_reach (env : Env σ) (d : Doc) (dm0 : σ) : Reach env d (startSession env d dm0) := by
  have h := initSession_empty env d dm0
  exact Reach.start (initSession env d dm0) h.1 h.2

/-- every session the event loop returns — in particular every session at a macrostep boundary —
    is reachable -/
theorem run_reach (env : Env σ) (d : Doc) (c : Descriptor.Str) (m f : Nat) (dm0 : σ)
    (feed : List (List Event)) (r : Sess σ × Bool)
    (h : mainLoop env d c m f (startSession env d dm0) feed = some r) : Reach env d r.1 :=
  mainLoop_reach env d c m f _ feed r (startSession_reach env d dm0) h

end Rfsm.Interp
