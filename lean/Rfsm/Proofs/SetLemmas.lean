import Rfsm.Model.Interp
/-! Lemmas about the `OrderedSet` / `List.sort` models (`oadd`, `odel`, `ounion`, `sortBy`). -/
namespace Rfsm.Interp

theorem mem_oadd {l : List Nat} {x y : Nat} : y ∈ oadd l x ↔ y ∈ l ∨ y = x := by
  unfold oadd
  split
  · rename_i h
    constructor
    · exact Or.inl
    · rintro (h' | rfl)
      · exact h'
      · simpa using h
  · simp

theorem nodup_oadd {l : List Nat} {x : Nat} (h : l.Nodup) : (oadd l x).Nodup := by
  unfold oadd
  split
  · exact h
  · rename_i hx
    rw [List.nodup_append]
    refine ⟨h, by simp, ?_⟩
    intro a ha b hb
    simp at hb
    subst hb
    intro hab
    subst hab
    exact hx (by simpa using ha)

theorem mem_odel {l : List Nat} {x y : Nat} : y ∈ odel l x ↔ y ∈ l ∧ y ≠ x := by
  simp [odel]

theorem nodup_odel {l : List Nat} {x : Nat} (h : l.Nodup) : (odel l x).Nodup := by
  unfold odel
  exact List.Nodup.sublist List.filter_sublist h

theorem mem_foldl_oadd {m : List Nat} : ∀ {l : List Nat} {y : Nat}, y ∈ m.foldl oadd l ↔ y ∈ l ∨ y ∈ m := by
  induction m with
  | nil => simp
  | cons a m ih =>
    intro l y
    simp only [List.foldl_cons, ih, mem_oadd, List.mem_cons]
    constructor
    · rintro ((h | h) | h)
      · exact Or.inl h
      · exact Or.inr (Or.inl h)
      · exact Or.inr (Or.inr h)
    · rintro (h | h | h)
      · exact Or.inl (Or.inl h)
      · exact Or.inl (Or.inr h)
      · exact Or.inr h

theorem nodup_foldl_oadd {m : List Nat} : ∀ {l : List Nat}, l.Nodup → (m.foldl oadd l).Nodup := by
  induction m with
  | nil => intro l h; simpa
  | cons a m ih => intro l h; exact ih (nodup_oadd h)

theorem mem_ounion {l m : List Nat} {y : Nat} : y ∈ ounion l m ↔ y ∈ l ∨ y ∈ m := mem_foldl_oadd

theorem mem_foldl_odel {m : List Nat} : ∀ {l : List Nat} {y : Nat}, y ∈ m.foldl odel l ↔ y ∈ l ∧ y ∉ m := by
  induction m with
  | nil => simp
  | cons a m ih =>
    intro l y
    simp only [List.foldl_cons, ih, mem_odel, List.mem_cons, not_or]
    constructor
    · rintro ⟨⟨h1, h2⟩, h3⟩; exact ⟨h1, h2, h3⟩
    · rintro ⟨h1, h2, h3⟩; exact ⟨⟨h1, h2⟩, h3⟩

/-! ### insertion sort -/

theorem mem_insertBy {key : Nat → Nat} {x y : Nat} : ∀ {l : List Nat}, y ∈ insertBy key x l ↔ y = x ∨ y ∈ l := by
  intro l
  induction l with
  | nil => simp [insertBy]
  | cons a l ih =>
    unfold insertBy
    split
    · simp only [List.mem_cons, ih]
      constructor
      · rintro (h | h | h)
        · exact Or.inr (Or.inl h)
        · exact Or.inl h
        · exact Or.inr (Or.inr h)
      · rintro (h | h | h)
        · exact Or.inr (Or.inl h)
        · exact Or.inl h
        · exact Or.inr (Or.inr h)
    · simp

theorem perm_insertBy {key : Nat → Nat} {x : Nat} : ∀ {l : List Nat}, (insertBy key x l).Perm (x :: l) := by
  intro l
  induction l with
  | nil => simp [insertBy]
  | cons a l ih =>
    unfold insertBy
    split
    · exact (List.Perm.cons a ih).trans (List.Perm.swap x a l)
    · exact List.Perm.refl _

theorem sorted_insertBy {key : Nat → Nat} {x : Nat} :
    ∀ {l : List Nat}, l.Pairwise (fun a b => key a ≤ key b) →
      (insertBy key x l).Pairwise (fun a b => key a ≤ key b) := by
  intro l
  induction l with
  | nil => intro _; simp [insertBy]
  | cons a l ih =>
    intro h
    unfold insertBy
    split
    · rename_i hle
      rw [List.pairwise_cons] at h ⊢
      refine ⟨?_, ih h.2⟩
      intro b hb
      rcases mem_insertBy.1 hb with rfl | hb
      · exact hle
      · exact h.1 b hb
    · rename_i hgt
      rw [List.pairwise_cons]
      refine ⟨?_, h⟩
      intro b hb
      have hx : key x ≤ key a := by omega
      rcases List.mem_cons.1 hb with rfl | hb
      · exact hx
      · exact Nat.le_trans hx ((List.pairwise_cons.1 h).1 b hb)

theorem perm_foldl_insertBy {key : Nat → Nat} :
    ∀ (l acc : List Nat), (l.foldl (fun acc x => insertBy key x acc) acc).Perm (l ++ acc) := by
  intro l
  induction l with
  | nil => intro acc; simp
  | cons a l ih =>
    intro acc
    simp only [List.foldl_cons]
    refine (ih _).trans ?_
    refine (List.Perm.append_left l perm_insertBy).trans ?_
    simp [List.perm_middle]

theorem sortBy_perm (key : Nat → Nat) (l : List Nat) : (sortBy key l).Perm l := by
  have := perm_foldl_insertBy (key := key) l []
  simpa [sortBy] using this

theorem sorted_foldl_insertBy {key : Nat → Nat} :
    ∀ (l acc : List Nat), acc.Pairwise (fun a b => key a ≤ key b) →
      (l.foldl (fun acc x => insertBy key x acc) acc).Pairwise (fun a b => key a ≤ key b) := by
  intro l
  induction l with
  | nil => intro acc h; simpa
  | cons a l ih => intro acc h; exact ih _ (sorted_insertBy h)

/-- `sortBy` returns its input in ascending key order -/
theorem sortBy_sorted (key : Nat → Nat) (l : List Nat) :
    (sortBy key l).Pairwise (fun a b => key a ≤ key b) :=
  sorted_foldl_insertBy l [] List.Pairwise.nil

theorem mem_sortBy {key : Nat → Nat} {l : List Nat} {x : Nat} : x ∈ sortBy key l ↔ x ∈ l :=
  (sortBy_perm key l).mem_iff

theorem mem_insertByDesc {key : Nat → Nat} {x y : Nat} : ∀ {l : List Nat}, y ∈ insertByDesc key x l ↔ y = x ∨ y ∈ l := by
  intro l
  induction l with
  | nil => simp [insertByDesc]
  | cons a l ih =>
    unfold insertByDesc
    split
    · simp only [List.mem_cons, ih]
      constructor
      · rintro (h | h | h)
        · exact Or.inr (Or.inl h)
        · exact Or.inl h
        · exact Or.inr (Or.inr h)
      · rintro (h | h | h)
        · exact Or.inr (Or.inl h)
        · exact Or.inl h
        · exact Or.inr (Or.inr h)
    · simp

theorem perm_insertByDesc {key : Nat → Nat} {x : Nat} : ∀ {l : List Nat}, (insertByDesc key x l).Perm (x :: l) := by
  intro l
  induction l with
  | nil => simp [insertByDesc]
  | cons a l ih =>
    unfold insertByDesc
    split
    · exact (List.Perm.cons a ih).trans (List.Perm.swap x a l)
    · exact List.Perm.refl _

theorem sorted_insertByDesc {key : Nat → Nat} {x : Nat} :
    ∀ {l : List Nat}, l.Pairwise (fun a b => key b ≤ key a) →
      (insertByDesc key x l).Pairwise (fun a b => key b ≤ key a) := by
  intro l
  induction l with
  | nil => intro _; simp [insertByDesc]
  | cons a l ih =>
    intro h
    unfold insertByDesc
    split
    · rename_i hle
      rw [List.pairwise_cons] at h ⊢
      refine ⟨?_, ih h.2⟩
      intro b hb
      rcases mem_insertByDesc.1 hb with rfl | hb
      · exact hle
      · exact h.1 b hb
    · rename_i hgt
      rw [List.pairwise_cons]
      refine ⟨?_, h⟩
      intro b hb
      have hx : key a ≤ key x := by omega
      rcases List.mem_cons.1 hb with rfl | hb
      · exact hx
      · exact Nat.le_trans ((List.pairwise_cons.1 h).1 b hb) hx

theorem perm_foldl_insertByDesc {key : Nat → Nat} :
    ∀ (l acc : List Nat), (l.foldl (fun acc x => insertByDesc key x acc) acc).Perm (l ++ acc) := by
  intro l
  induction l with
  | nil => intro acc; simp
  | cons a l ih =>
    intro acc
    simp only [List.foldl_cons]
    refine (ih _).trans ?_
    refine (List.Perm.append_left l perm_insertByDesc).trans ?_
    simp [List.perm_middle]

theorem sortByDesc_perm (key : Nat → Nat) (l : List Nat) : (sortByDesc key l).Perm l := by
  have := perm_foldl_insertByDesc (key := key) l []
  simpa [sortByDesc] using this

theorem sorted_foldl_insertByDesc {key : Nat → Nat} :
    ∀ (l acc : List Nat), acc.Pairwise (fun a b => key b ≤ key a) →
      (l.foldl (fun acc x => insertByDesc key x acc) acc).Pairwise (fun a b => key b ≤ key a) := by
  intro l
  induction l with
  | nil => intro acc h; simpa
  | cons a l ih => intro acc h; exact ih _ (sorted_insertByDesc h)

/-- `sortByDesc` returns its input in descending key order -/
theorem sortByDesc_sorted (key : Nat → Nat) (l : List Nat) :
    (sortByDesc key l).Pairwise (fun a b => key b ≤ key a) :=
  sorted_foldl_insertByDesc l [] List.Pairwise.nil

theorem mem_sortByDesc {key : Nat → Nat} {l : List Nat} {x : Nat} : x ∈ sortByDesc key l ↔ x ∈ l :=
  (sortByDesc_perm key l).mem_iff

end Rfsm.Interp
