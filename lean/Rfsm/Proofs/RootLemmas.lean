import Rfsm.Proofs.TreeLemmas
import Rfsm.Proofs.HistoryLemmas
/-!
Start-up enters the document root: `computeEntrySet d [] (rootInit d)` contains `d.root` for a
conformant document whose root has children and whose first initial target is a proper state.
-/
namespace Rfsm.Interp

theorem ancestorsAux_no_zero (d : Doc) : ∀ (f c : Nat), (0 : Nat) ∉ ancestorsAux d f c := by
  intro f
  induction f with
  | zero => intro c; simp [ancestorsAux]
  | succ f ih =>
    intro c
    unfold ancestorsAux
    split
    · simp
    · rename_i hc
      intro h
      rcases List.mem_cons.1 h with h | h
      · exact hc h.symm
      · exact ih _ h

theorem takeWhile_all {l : List Nat} {p : Nat → Bool} (h : ∀ x ∈ l, p x = true) : l.takeWhile p = l := by
  induction l with
  | nil => rfl
  | cons a l ih =>
    simp only [List.takeWhile_cons, h a List.mem_cons_self, ↓reduceIte]
    rw [ih (fun x hx => h x (List.mem_cons_of_mem _ hx))]

/-- walking up to "no state" (0) visits every ancestor -/
theorem getProperAncestors_zero (d : Doc) (s : Nat) : getProperAncestors d s 0 = ancestors d s := by
  unfold getProperAncestors
  have : isDescendant d 0 s = false := by unfold isDescendant; simp
  rw [this]
  simp only [Bool.not_false, ↓reduceIte]
  apply takeWhile_all
  intro x hx
  have : x ≠ 0 := fun e => ancestorsAux_no_zero d _ _ (e ▸ hx)
  simpa using this

/-- one step of the fold inside `addAnc` only grows the entry set and adds its own state -/
theorem ancStep_spec {d : Doc} (hv : Table) (f : Nat) (a : EntryAcc) (anc : Nat) :
    let r := (let a1 : EntryAcc := { a with toEnter := oadd a.toEnter anc }
      if isParallelState d anc then
        (getState d anc).kids.foldl (fun a child =>
          if !a.toEnter.any (fun s => isDescendant d s child) then addDesc d hv f child a else a) a1
      else a1)
    anc ∈ r.toEnter ∧ ∀ x ∈ a.toEnter, x ∈ r.toEnter := by
  simp only
  have kids : ∀ (x : Nat) (kids : List Nat) (b : EntryAcc), x ∈ b.toEnter →
      x ∈ (kids.foldl (fun a child =>
        if !a.toEnter.any (fun s => isDescendant d s child) then addDesc d hv f child a else a) b).toEnter := by
    intro x kids b hb
    refine foldl_inv (fun (a : EntryAcc) => x ∈ a.toEnter) _ ?_ kids b hb
    intro b c hb
    split
    · exact addDesc_mono hv f c b x hb
    · exact hb
  split
  · exact ⟨kids anc _ _ (mem_oadd.2 (Or.inr rfl)), fun x hx => kids x _ _ (mem_oadd.2 (Or.inl hx))⟩
  · exact ⟨mem_oadd.2 (Or.inr rfl), fun x hx => mem_oadd.2 (Or.inl hx)⟩

/-- `addAncestorStatesToEnter` enters every proper ancestor up to (excluding) the given one -/
theorem addAnc_adds {d : Doc} (hv : Table) (f s anc : Nat) (acc : EntryAcc) (a : Nat)
    (ha : a ∈ getProperAncestors d s anc) : a ∈ (addAnc d hv (f + 1) s anc acc).toEnter := by
  unfold addAnc
  generalize getProperAncestors d s anc = L at ha
  induction L generalizing acc with
  | nil => cases ha
  | cons b L ih =>
    simp only [List.foldl_cons]
    have hs := ancStep_spec (d := d) hv f acc b
    simp only at hs
    rcases List.mem_cons.1 ha with rfl | ha
    · refine foldl_inv (fun (x : EntryAcc) => a ∈ x.toEnter) _ ?_ L _ hs.1
      intro x c hx
      exact (ancStep_spec (d := d) hv f x c).2 a hx
    · exact ih _ ha

/-- the effective-target fold only grows -/
theorem effStep_mono (d : Doc) (hv : Table) (f : Nat) (l : List Nat) : ∀ (acc : List Nat) (x : Nat), x ∈ acc →
    x ∈ l.foldl (fun acc s =>
      if isHistoryState d s then
        match tget hv s with
        | some v => ounion acc v
        | none => ounion acc (effTargetsAux d hv f (histTransition d s).target)
      else oadd acc s) acc := by
  induction l with
  | nil => intro acc x h; exact h
  | cons s l ih =>
    intro acc x h
    simp only [List.foldl_cons]
    apply ih
    split
    · split
      · exact mem_ounion.2 (Or.inl h)
      · exact mem_ounion.2 (Or.inl h)
    · exact mem_oadd.2 (Or.inl h)

/-- a leading target that is a proper state is an effective target -/
theorem effTargets_head {d : Doc} (hv : Table) (t : Transition) (t0 : Nat) (ts' : List Nat)
    (ht : t.target = t0 :: ts') (hn : isHistoryState d t0 = false) : t0 ∈ effTargets d hv t := by
  unfold effTargets fuelOf effTargetsAux
  rw [ht]
  simp only [List.foldl_cons, hn, Bool.false_eq_true, ↓reduceIte]
  exact effStep_mono d hv _ ts' _ t0 (mem_oadd.2 (Or.inr rfl))

/-- the domain of a transition that starts at the root is "no state": everything up to and
    including the root is entered -/
theorem transDomain_of_root_source {d : Doc} (hr : parentOf d d.root = 0) (hv : Table) (t : Transition)
    (hs : t.source = d.root) : transDomain d hv t = 0 := by
  unfold transDomain
  simp only
  split
  · rfl
  · have : (t.source != d.root) = false := by simp [hs]
    simp only [this, Bool.and_false, Bool.false_and, Bool.false_eq_true, ↓reduceIte]
    have hanc : getProperAncestors d d.root 0 = [] := by
      rw [getProperAncestors_zero]
      unfold ancestors; rw [hr, ancestorsAux_zero]
    unfold findLCCA
    rw [hs]
    simp only [hanc]
    simp

/-- start-up enters the root -/
theorem computeEntrySet_root {d : Doc} (ht : TreeLike d) (tid t0 : Nat) (ts' : List Nat)
    (hsrc : (getTrans d tid).source = d.root) (htg : (getTrans d tid).target = t0 :: ts')
    (hn : isHistoryState d t0 = false) (hd : isDescendant d t0 d.root = true) (hv : Table) :
    d.root ∈ (computeEntrySet d hv [tid]).toEnter := by
  unfold computeEntrySet
  simp only [List.foldl_cons, List.foldl_nil]
  rw [transDomain_of_root_source ht.rootParent hv _ hsrc]
  have hmem := effTargets_head (d := d) hv (getTrans d tid) t0 ts' htg hn
  have hroot : d.root ∈ getProperAncestors d t0 0 := by
    rw [getProperAncestors_zero]
    exact (isDescendant_iff.1 hd).2.2.2
  generalize (getTrans d tid).target.foldl (fun a s => addDesc d hv (entryFuel d) s a) {} = acc0
  generalize effTargets d hv (getTrans d tid) = E at hmem
  have hfuel : entryFuel d = (2 * d.states.length + 1) + 1 := by unfold entryFuel; omega
  rw [hfuel]
  induction E generalizing acc0 with
  | nil => cases hmem
  | cons e E ih =>
    simp only [List.foldl_cons]
    rcases List.mem_cons.1 hmem with rfl | hmem
    · refine foldl_inv (fun (x : EntryAcc) => d.root ∈ x.toEnter) _ ?_ E _
        (addAnc_adds hv _ t0 0 acc0 d.root hroot)
      intro x c hx
      exact addAnc_mono hv _ c 0 x d.root hx
    · exact ih _ hmem

end Rfsm.Interp

namespace Rfsm.Interp

/-- what `conformantB` says about the initial transition of a root that has children -/
theorem conformant_root_initial {d : Doc} (h : conformantB d = true)
    (hk : (getState d d.root).kids ≠ []) :
    (getState d d.root).initial ≠ 0 ∧
    (getTrans d (getState d d.root).initial).source = d.root ∧
    (getTrans d (getState d d.root).initial).target ≠ [] ∧
    ∀ t ∈ (getTrans d (getState d d.root).initial).target, isDescendant d t d.root = true := by
  unfold conformantB at h
  simp only [Bool.and_eq_true] at h
  simp only [List.all_eq_true] at h
  obtain ⟨⟨⟨⟨⟨⟨hv1, hv2⟩, _⟩, _⟩, hids⟩, hall⟩, _⟩ := h
  have hpos : 0 < d.root := by simpa using hv1
  have hle : d.root ≤ d.states.length := by simpa using hv2
  have hg : getState d d.root = d.states[d.root - 1]'(by omega) := by
    unfold getState
    rw [if_neg (by omega)]
    simp [List.getD, show d.root - 1 < d.states.length by omega]
  have hmem : getState d d.root ∈ d.states := by rw [hg]; exact List.getElem_mem _
  have hid : (getState d d.root).id = d.root := by
    have := hids (d.root - 1) (by simp; omega)
    have hg2 : getState d d.root = d.states.getD (d.root - 1) default := by
      unfold getState; rw [if_neg (by omega)]
    rw [hg2]
    have : (d.states.getD (d.root - 1) default).id = d.root - 1 + 1 := by simpa using this
    omega
  have hst := hall _ hmem
  simp only [Bool.and_eq_true] at hst
  obtain ⟨_, hcomp⟩ := hst
  have hcond : (isCompoundState d (getState d d.root).id ||
      ((getState d d.root).id == d.root && !(getState d d.root).kids.isEmpty)) = true := by
    rw [hid]
    have : (getState d d.root).kids.isEmpty = false := by
      cases hkk : (getState d d.root).kids with
      | nil => exact absurd hkk hk
      | cons a l => rfl
    simp [this]
  rw [if_pos hcond] at hcomp
  simp only [Bool.and_eq_true] at hcomp
  obtain ⟨⟨⟨⟨hi, _⟩, hsrc⟩, hne⟩, htg⟩ := hcomp
  rw [hid] at hsrc htg
  refine ⟨by simpa using hi, by simpa using hsrc, ?_, ?_⟩
  · intro he; rw [he] at hne; simp at hne
  · intro t ht
    have := (List.all_eq_true.1 htg) t ht
    simp only [Bool.and_eq_true] at this
    exact this.2

end Rfsm.Interp

namespace Rfsm.Interp

/-- what processing one transition adds to the entry set -/
def entryStep (d : Doc) (hv : Table) (acc : EntryAcc) (tid : Nat) : EntryAcc :=
  let t := getTrans d tid
  let acc := t.target.foldl (fun a s => addDesc d hv (entryFuel d) s a) acc
  let anc := transDomain d hv t
  (effTargets d hv t).foldl (fun a s => addAnc d hv (entryFuel d) s anc a) acc

theorem computeEntrySet_eq (d : Doc) (hv : Table) (ts : List Nat) :
    computeEntrySet d hv ts = ts.foldl (entryStep d hv) {} := rfl

theorem entryStep_mono (d : Doc) (hv : Table) (acc : EntryAcc) (tid x : Nat) (hx : x ∈ acc.toEnter) :
    x ∈ (entryStep d hv acc tid).toEnter := by
  unfold entryStep
  simp only
  refine foldl_inv (fun (a : EntryAcc) => x ∈ a.toEnter) _ (fun b s hb => addAnc_mono hv _ s _ b x hb) _ _ ?_
  exact foldl_inv (fun (a : EntryAcc) => x ∈ a.toEnter) _ (fun b s hb => addDesc_mono hv _ s b x hb) _ _ hx

theorem entryFold_mono (d : Doc) (hv : Table) : ∀ (ts : List Nat) (acc : EntryAcc) (x : Nat),
    x ∈ acc.toEnter → x ∈ (ts.foldl (entryStep d hv) acc).toEnter := by
  intro ts
  induction ts with
  | nil => intro acc x h; exact h
  | cons t ts ih => intro acc x h; exact ih _ x (entryStep_mono d hv acc t x h)

/-- one transition: its proper-state targets and, for every effective target, all proper ancestors
    below the transition's domain are in the entry set afterwards -/
theorem entryStep_adds (d : Doc) (hv : Table) (acc : EntryAcc) (tid : Nat) :
    (∀ t ∈ (getTrans d tid).target, isHistoryState d t = false → t ∈ (entryStep d hv acc tid).toEnter) ∧
    (∀ s ∈ effTargets d hv (getTrans d tid), ∀ a ∈ getProperAncestors d s (transDomain d hv (getTrans d tid)),
      a ∈ (entryStep d hv acc tid).toEnter) := by
  have hfuel : entryFuel d = (2 * d.states.length + 1) + 1 := by unfold entryFuel; omega
  refine ⟨?_, ?_⟩
  · intro t ht hn
    unfold entryStep
    simp only
    refine foldl_inv (fun (a : EntryAcc) => t ∈ a.toEnter) _ (fun b s hb => addAnc_mono hv _ s _ b t hb) _ _ ?_
    generalize (getTrans d tid).target = L at ht
    induction L generalizing acc with
    | nil => cases ht
    | cons u L ih =>
      simp only [List.foldl_cons]
      rcases List.mem_cons.1 ht with rfl | ht
      · refine foldl_inv (fun (a : EntryAcc) => t ∈ a.toEnter) _ (fun b s hb => addDesc_mono hv _ s b t hb) _ _ ?_
        rw [hfuel]
        exact addDesc_adds hv _ t acc hn
      · exact ih _ ht
  · intro s hs a ha
    unfold entryStep
    simp only
    generalize (getTrans d tid).target.foldl (fun a s => addDesc d hv (entryFuel d) s a) acc = acc0
    generalize effTargets d hv (getTrans d tid) = E at hs
    induction E generalizing acc0 with
    | nil => cases hs
    | cons e E ih =>
      simp only [List.foldl_cons]
      rcases List.mem_cons.1 hs with rfl | hs
      · refine foldl_inv (fun (x : EntryAcc) => a ∈ x.toEnter) _ (fun b c hb => addAnc_mono hv _ c _ b a hb) _ _ ?_
        rw [hfuel]
        exact addAnc_adds hv _ s _ acc0 a ha
      · exact ih _ hs

/-- the entry set of a microstep contains, for every taken transition, its proper-state targets
    and all proper ancestors of its effective targets below its domain -/
theorem computeEntrySet_adds (d : Doc) (hv : Table) (ts : List Nat) (tid : Nat) (htid : tid ∈ ts) :
    (∀ t ∈ (getTrans d tid).target, isHistoryState d t = false → t ∈ (computeEntrySet d hv ts).toEnter) ∧
    (∀ s ∈ effTargets d hv (getTrans d tid), ∀ a ∈ getProperAncestors d s (transDomain d hv (getTrans d tid)),
      a ∈ (computeEntrySet d hv ts).toEnter) := by
  rw [computeEntrySet_eq]
  have key : ∀ (ts : List Nat) (acc : EntryAcc), tid ∈ ts →
      (∀ t ∈ (getTrans d tid).target, isHistoryState d t = false → t ∈ (ts.foldl (entryStep d hv) acc).toEnter) ∧
      (∀ s ∈ effTargets d hv (getTrans d tid), ∀ a ∈ getProperAncestors d s (transDomain d hv (getTrans d tid)),
        a ∈ (ts.foldl (entryStep d hv) acc).toEnter) := by
    intro ts
    induction ts with
    | nil => intro acc h; cases h
    | cons u ts ih =>
      intro acc h
      simp only [List.foldl_cons]
      rcases List.mem_cons.1 h with rfl | h
      · have hs := entryStep_adds d hv acc tid
        exact ⟨fun t ht hn => entryFold_mono d hv ts _ t (hs.1 t ht hn),
               fun s hs' a ha => entryFold_mono d hv ts _ a (hs.2 s hs' a ha)⟩
      · exact ih _ h
  exact key ts {} htid

end Rfsm.Interp
