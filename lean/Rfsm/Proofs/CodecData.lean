import Rfsm.Proofs.CodecText
/-! Well-formedness limits, and the round trip of `Data` (all variants, nested arrays and maps) by
mutual structural induction. -/
namespace Rfsm.Codec

/-- limits under which a value is claimed to survive the round trip -/
structure Lim where
  /-- strings must be shorter than this -/
  strMax : Nat
  /-- `u64`/`usize` values (delays, source ids, list lengths) must be below this -/
  uMax : Nat

/-- what the Rust types allow (`usize::MAX` long strings, full `u64`) -/
def typeLim : Lim := ⟨2 ^ 64, 2 ^ 64⟩

def wfStr (L : Lim) (s : Str) : Bool := decide (s.length < L.strMax) && validUtf8 s
def wfU (L : Lim) (v : Nat) : Bool := decide (v < L.uMax)

mutual
  def wfData (L : Lim) : Data → Bool
    | .integer v => decide (-(2 ^ 63 : Int) ≤ v) && decide (v < 2 ^ 63)
    | .double t => wfStr L t && isF64Text t
    | .string s => wfStr L s
    | .boolean _ => true
    | .array l => wfU L l.length && wfDataList L l
    | .map l => wfU L l.length && wfDataMap L l
    | .null => true
    | .error s => wfStr L s
    | .source s id => wfStr L s && wfU L id
    | .none => true
  def wfDataList (L : Lim) : List Data → Bool
    | [] => true
    | d :: r => wfData L d && wfDataList L r
  def wfDataMap (L : Lim) : List (Str × Data) → Bool
    | [] => true
    | (k, d) :: r => wfStr L k && wfData L d && wfDataMap L r
end

mutual
  def Data.depth : Data → Nat
    | .array l => depthList l + 1
    | .map l => depthMap l + 1
    | _ => 1
  def depthList : List Data → Nat
    | [] => 0
    | d :: r => max d.depth (depthList r)
  def depthMap : List (Str × Data) → Nat
    | [] => 0
    | (_, d) :: r => max d.depth (depthMap r)
end

@[simp] theorem bytesOf_nil : bytesOf [] = [] := rfl
@[simp] theorem bytesOf_cons (op : Op) (r : List Op) : bytesOf (op :: r) = op.bytes ++ bytesOf r := by
  simp [bytesOf]
@[simp] theorem bytesOf_append (a b : List Op) : bytesOf (a ++ b) = bytesOf a ++ bytesOf b := by
  simp [bytesOf]

theorem wfStr_lim {s : Str} (h : wfStr typeLim s = true) : s.length < 2 ^ 64 ∧ validUtf8 s = true := by
  simp only [wfStr, typeLim, Bool.and_eq_true] at h
  exact ⟨of_decide_eq_true h.1, h.2⟩

theorem Reads.wstr {s : Str} (h : wfStr typeLim s = true) : Reads pStr (Op.str s).bytes s :=
  Reads.str s (wfStr_lim h).1 (wfStr_lim h).2

theorem Reads.wuint {v : Nat} (h : wfU typeLim v = true) : Reads pUInt (uintOp v).bytes v :=
  Reads.uint v (by simp only [wfU, typeLim] at h; exact of_decide_eq_true h)

def pairReader (fuel : Nat) : Prog (Str × Data) := do
  let k ← pStr
  let v ← readDataF fuel
  pure (k, v)

theorem readDataF_succ (fuel : Nat) : readDataF (fuel + 1) = (pU8 >>= fun what =>
    match what with
    | 0 => pure .null
    | 1 => do
      let rv ← pStr
      match parseI64 rv with
      | some v => pure (.integer v)
      | none => do pFail; pure .null
    | 2 => do
      let rv ← pStr
      if isF64Text rv then pure (.double rv) else do pFail; pure .null
    | 3 => do let s ← pStr; pure (.string s)
    | 4 => do let b ← pBool; pure (.boolean b)
    | 5 => do
      let len ← pUInt
      let l ← readN len (readDataF fuel)
      pure (.array l)
    | 6 => do
      let len ← pUInt
      let l ← readN len (pairReader fuel)
      pure (.map l)
    | 7 => do let k ← pStr; pure (.error k)
    | 8 => do let k ← pStr; let id ← pUInt; pure (.source k id)
    | 9 => pure .none
    | _ => do pFail; pure .null) := rfl

mutual
  theorem reads_data (d : Data) (fuel : Nat) (hw : wfData typeLim d = true) (hf : d.depth ≤ fuel) :
      Reads (readDataF fuel) (bytesOf (opsData d)) d := by
    cases fuel with
    | zero => cases d <;> simp [Data.depth] at hf
    | succ fuel =>
      rw [readDataF_succ]
      cases d with
      | null => exact Reads.bind_pure (Reads.of_eq (Reads.u8 0 (by omega)) (by simp [opsData])) rfl
      | none => exact Reads.bind_pure (Reads.of_eq (Reads.u8 9 (by omega)) (by simp [opsData])) rfl
      | boolean b =>
        simp only [opsData, bytesOf_cons, bytesOf_nil, List.append_nil]
        exact Reads.bind (Reads.u8 4 (by omega)) (Reads.bind_pure (Reads.bool b) rfl)
      | string s =>
        simp only [opsData, bytesOf_cons, bytesOf_nil, List.append_nil]
        simp only [wfData] at hw
        exact Reads.bind (Reads.u8 3 (by omega)) (Reads.bind_pure (Reads.wstr hw) rfl)
      | error s =>
        simp only [opsData, bytesOf_cons, bytesOf_nil, List.append_nil]
        simp only [wfData] at hw
        exact Reads.bind (Reads.u8 7 (by omega)) (Reads.bind_pure (Reads.wstr hw) rfl)
      | source s id =>
        simp only [opsData, bytesOf_cons, bytesOf_nil, List.append_nil]
        simp only [wfData, Bool.and_eq_true] at hw
        exact Reads.bind (Reads.u8 8 (by omega)) (Reads.bind (Reads.wstr hw.1) (Reads.bind_pure (Reads.wuint hw.2) rfl))
      | double t =>
        simp only [opsData, bytesOf_cons, bytesOf_nil, List.append_nil]
        simp only [wfData, Bool.and_eq_true] at hw
        refine Reads.bind (Reads.u8 2 (by omega)) (Reads.bind_pure (Reads.wstr hw.1) ?_)
        simp [hw.2]
      | integer v =>
        simp only [opsData, bytesOf_cons, bytesOf_nil, List.append_nil]
        simp only [wfData, Bool.and_eq_true, decide_eq_true_eq] at hw
        have hs : Reads pStr (Op.str (showInt v)).bytes (showInt v) :=
          Reads.str _ (by have := showInt_length v hw.1 hw.2; omega) (showInt_valid v)
        refine Reads.bind (Reads.u8 1 (by omega)) (Reads.bind_pure hs ?_)
        simp [parseI64_showInt v hw.1 hw.2]
      | array l =>
        simp only [opsData, bytesOf_cons]
        simp only [wfData, Bool.and_eq_true] at hw
        simp only [Data.depth] at hf
        refine Reads.bind (Reads.u8 5 (by omega)) (Reads.bind (Reads.wuint hw.1) ?_)
        exact Reads.bind_pure (reads_dataList l fuel hw.2 (by omega)) rfl
      | map l =>
        simp only [opsData, bytesOf_cons]
        simp only [wfData, Bool.and_eq_true] at hw
        simp only [Data.depth] at hf
        refine Reads.bind (Reads.u8 6 (by omega)) (Reads.bind (Reads.wuint hw.1) ?_)
        exact Reads.bind_pure (reads_dataMap l fuel hw.2 (by omega)) rfl
  theorem reads_dataList (l : List Data) (fuel : Nat) (hw : wfDataList typeLim l = true)
      (hf : depthList l ≤ fuel) :
      Reads (readN l.length (readDataF fuel)) (bytesOf (opsDataList l)) l := by
    cases l with
    | nil => exact Reads.pure []
    | cons d r =>
      simp only [wfDataList, Bool.and_eq_true] at hw
      simp only [depthList] at hf
      simp only [opsDataList, bytesOf_append]
      show Reads (readDataF fuel >>= fun a => readN r.length (readDataF fuel) >>= fun r' => Pure.pure (a :: r')) _ _
      exact Reads.bind (reads_data d fuel hw.1 (by omega)) (Reads.bind_pure (reads_dataList r fuel hw.2 (by omega)) rfl)
  theorem reads_dataMap (l : List (Str × Data)) (fuel : Nat) (hw : wfDataMap typeLim l = true)
      (hf : depthMap l ≤ fuel) :
      Reads (readN l.length (pairReader fuel)) (bytesOf (opsDataMap l)) l := by
    cases l with
    | nil => exact Reads.pure []
    | cons kd r =>
      obtain ⟨k, d⟩ := kd
      simp only [wfDataMap, Bool.and_eq_true] at hw
      simp only [depthMap] at hf
      simp only [opsDataMap, bytesOf_cons, bytesOf_append]
      show Reads (pairReader fuel >>= fun a => readN r.length (pairReader fuel) >>= fun r' => Pure.pure (a :: r')) _ _
      have hp : Reads (pairReader fuel) ((Op.str k).bytes ++ bytesOf (opsData d)) (k, d) :=
        Reads.bind (Reads.wstr hw.1.1) (Reads.bind_pure (reads_data d fuel hw.1.2 (by omega)) rfl)
      rw [← List.append_assoc]
      exact Reads.bind hp (Reads.bind_pure (reads_dataMap r fuel hw.2 (by omega)) rfl)
end

/-- `read_data` on the bytes of `write_data(d)` followed by anything -/
theorem Reads.data {d : Data} (hw : wfData typeLim d = true) (hf : d.depth ≤ dataFuel) :
    Reads readData (bytesOf (opsData d)) d :=
  reads_data d dataFuel hw hf

end Rfsm.Codec
