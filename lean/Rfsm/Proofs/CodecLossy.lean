import Rfsm.Proofs.CodecFsm
/-! What `write_str`/`read_string` do with strings of any length (the lossy behaviour, exactly). -/
namespace Rfsm.Codec

/-- what the unchanged code does with a string of 16 bytes or more of *any* length: header with
`len mod 4096`, payload cut to `len mod 4096` bytes, and that is what comes back -/
theorem readString_lossy (s : Str) (h16 : 16 ≤ s.length) (hu : validUtf8 (s.take (s.length % 4096)) = true)
    (rest : List Nat) (t n : Nat) (p : Option Site) :
    readStringS ⟨(Op.str s).bytes ++ rest, true, t, n, p⟩ =
      (s.take (s.length % 4096), ⟨rest, true, 0xD0, 0, p⟩) := by
  have h1 : ¬ s.length < 16 := by omega
  have hb : (Op.str s).bytes =
      (0xD0 + s.length / 256 % 16) :: s.length % 256 :: s.take (s.length % 4096) := by
    simp [Op.bytes, strHeader, strSliceLen, h1, tvBytes, tvTail]
  have hhi : (0xD0 + s.length / 256 % 16) / 16 * 16 = 0xD0 := by omega
  have hlo : (0xD0 + s.length / 256 % 16) % 16 = s.length / 256 % 16 := by omega
  have hl : s.length / 256 % 16 * 256 + s.length % 256 = s.length % 4096 := by omega
  have hlen : (s.take (s.length % 4096)).length = s.length % 4096 := by
    simp only [List.length_take]; exact Nat.min_eq_left (Nat.mod_le _ _)
  rw [hb]
  simp only [readStringS, readTypeAndSize, if_true, hhi, hlo, List.cons_append, hl]
  have := readStrPayload_exact (s.take (s.length % 4096)) rest hu 0xD0 0 p
  rw [hlen] at this
  simp [this]

end Rfsm.Codec
