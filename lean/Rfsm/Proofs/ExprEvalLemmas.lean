import Rfsm.Model.ExprEval
/-!
The evaluator releases every data lock it takes: after an evaluation that ends with a value or an
error the set of held cells is empty again (`eval_held`).  Proved over the functional induction
principle of the mutually recursive evaluator; the case names (`case48` …) are those of
`eval.mutual_induct` for the model as it is.
-/
namespace Rfsm.Expr

variable {D : Type}

def Out.isValueOrError {α : Type} : Out α → Bool
  | .ok _ => true
  | .err _ => true
  | _ => false

/-- a value/error outcome comes with no lock held -/
def HeldOK {α : Type} (r : St D × Out α) : Prop :=
  (r.2.isValueOrError = true → r.1.held = []) ∧ r.2 ≠ .deadlock .other ∧ r.2 ≠ .livelock ∧
    (∀ s, r.2 ≠ .panic s)

theorem heldOK_of_eq {α : Type} {x : St D × Out α} {st : St D} {o : Out α} (h : HeldOK x)
    (he : x = (st, o)) (ho : o.isValueOrError = true) : st.held = [] := by
  subst he; exact h.1 ho

theorem runAction_no_deadlock (ops : DoubleOps D) (cells : Cells D) (name : Str)
    (ds : List (Data D)) (s : LockSite) : runAction ops cells name ds ≠ .deadlock s := by
  unfold runAction
  repeat' split
  all_goals first
    | (intro h; cases h; done)
    | (generalize dataToString ops _ _ = x; cases x <;> (intro h; cases h))
    | (simp only []; split <;> (intro h; cases h))

theorem runAction_no_panic (ops : DoubleOps D) (cells : Cells D) (name : Str)
    (ds : List (Data D)) (s : PanicSite) : runAction ops cells name ds ≠ .panic s := by
  unfold runAction
  repeat' split
  all_goals first
    | (intro h; cases h; done)
    | (generalize dataToString ops _ _ = x; cases x <;> (intro h; cases h))
    | (simp only []; split <;> (intro h; cases h))

theorem runAction_no_livelock (ops : DoubleOps D) (cells : Cells D) (name : Str)
    (ds : List (Data D)) : runAction ops cells name ds ≠ .livelock := by
  unfold runAction
  repeat' split
  all_goals first
    | (intro h; cases h; done)
    | (generalize dataToString ops _ _ = x; cases x <;> (intro h; cases h))
    | (simp only []; split <;> (intro h; cases h))

set_option maxHeartbeats 4000000 in
theorem eval_held_all (ops : DoubleOps D) :
    (∀ e au (st : St D), st.held = [] → HeldOK (eval ops e au st)) ∧
    (∀ es au (st : St D) r, st.held = [] → r ≠ .deadlock .other → r ≠ .livelock → (∀ s, r ≠ .panic s) → HeldOK (evalSeq ops es au st r)) ∧
    (∀ args (st : St D), st.held = [] → HeldOK (evalArgs ops args st)) ∧
    (∀ fs au (st : St D) acc, st.held = [] → HeldOK (evalFields ops fs au st acc)) ∧
    (∀ items au (st : St D), st.held = [] → HeldOK (evalList ops items au st)) := by
  apply eval.mutual_induct ops
    (motive_1 := fun e au st => st.held = [] → HeldOK (eval ops e au st))
    (motive_2 := fun es au st r => st.held = [] → r ≠ .deadlock .other → r ≠ .livelock → (∀ s, r ≠ .panic s) → HeldOK (evalSeq ops es au st r))
    (motive_3 := fun args st => st.held = [] → HeldOK (evalArgs ops args st))
    (motive_4 := fun fs au st acc => st.held = [] → HeldOK (evalFields ops fs au st acc))
    (motive_5 := fun items au st => st.held = [] → HeldOK (evalList ops items au st))
  case case19 =>
    intro name args x st st1 ds hargs s hrun _ _
    exact absurd hrun (runAction_no_panic ops _ _ _ _)
  case case20 =>
    intro name args x st st1 ds hargs s hrun _ _
    exact absurd hrun (runAction_no_deadlock ops _ _ _ _)
  case case21 =>
    intro name args x st st1 ds hargs hrun _ _
    exact absurd hrun (runAction_no_livelock ops _ _ _)
  case case34 =>
    intro l i au st st1 ir h1 h2 h3 h4 hl st2 hi ihl ihi hst
    have hs1 : ir.isValueOrError = true → st1.held = [] := fun ho => heldOK_of_eq (ihl hst) hl ho
    cases ir <;> simp_all [HeldOK, eval, Out.isValueOrError]
  case case32 =>
    intro l i au st st1 ir h1 h2 h3 h4 hl st2 s hi ihl ihi hst
    have hs1 : ir.isValueOrError = true → st1.held = [] := fun ho => heldOK_of_eq (ihl hst) hl ho
    cases ir <;> simp_all [HeldOK, eval, Out.isValueOrError]
  case case33 =>
    intro l i au st st1 ir h1 h2 h3 h4 hl st2 s hi ihl ihi hst
    have hs1 : ir.isValueOrError = true → st1.held = [] := fun ho => heldOK_of_eq (ihl hst) hl ho
    cases ir <;> simp_all [HeldOK, eval, Out.isValueOrError]
  case case48 =>
    intro l i au st st1 st2 ir h1 h2 h3 h4 hi e _ _ _ _ hl ihl ihi hst
    have hs1 : st1.held = [] := heldOK_of_eq (ihl hst) hl rfl
    have hs2 : ir.isValueOrError = true → st2.held = [] := fun ho => heldOK_of_eq (ihi hs1) hi ho
    cases ir <;> simp_all [HeldOK, eval, Out.isValueOrError]
  case case49 =>
    intro l i au st st1 ir h1 h2 h3 h4 hl st2 e hne _ _ _ _ hi ihl ihi hst
    cases ir <;> simp_all [HeldOK, eval, Out.isValueOrError]
  case case71 =>
    intro l r au st hassign st1 ir h1 h2 h3 h4 hr hnok ihr ihl hst
    have hs1 : ir.isValueOrError = true → st1.held = [] := fun ho => heldOK_of_eq (ihr hst) hr ho
    cases hl : eval ops l au st1 with
    | mk st2 ol =>
      cases ir <;> cases ol <;> simp_all [HeldOK, eval, Out.isValueOrError]
  case case95 =>
    intro e rest au st x st1 ir h1 h2 h3 h4 he ihe ihr hst _ _ _
    have hs1 : ir.isValueOrError = true → st1.held = [] := fun ho => heldOK_of_eq (ihe hst) he ho
    cases ir <;> simp_all [HeldOK, evalSeq, Out.isValueOrError]
  case case115 =>
    intro k v rest au st acc st1 r hk st2 r1 hv key ihk ihv ihrest hst
    have hs1 : st1.held = [] := heldOK_of_eq (ihk hst) hk rfl
    have hs2 : st2.held = [] := heldOK_of_eq (ihv hs1) hv rfl
    have := ihrest hs2
    simp only [evalFields, hk, hv]
    exact this
  all_goals (intros; try (simp_all [HeldOK, eval, evalList, evalSeq, evalArgs, evalFields, St.alloc, St.lock, St.unlock, St.setCell, Out.isValueOrError]; done))
  all_goals (
    simp_all [HeldOK, eval, evalList, evalSeq, evalArgs, evalFields, St.alloc, St.lock, St.unlock, St.setCell, St.get, Out.isValueOrError]
    try (repeat (cases ‹_ ∧ _›))
    try subst_vars
    try simp_all [HeldOK, eval, evalList, evalSeq, evalArgs, evalFields, St.alloc, St.lock, St.unlock, St.setCell, St.get, Out.isValueOrError]
    first
    | done
    | ((repeat' split) <;> (try simp_all [St.alloc, St.lock, St.unlock, St.setCell, St.get, Out.isValueOrError]) <;>
        (try (intros; contradiction))))

/-- **held-lock set empty after every evaluation that returns** -/
theorem eval_held (ops : DoubleOps D) (e : Expr) (au : Bool) (st : St D) (h : st.held = [])
    (ho : (eval ops e au st).2.isValueOrError = true) : (eval ops e au st).1.held = [] :=
  ((eval_held_all ops).1 e au st h).1 ho

/-- a lock taken while nothing else is held never blocks -/
theorem eval_no_deadlock_other (ops : DoubleOps D) (e : Expr) (au : Bool) (st : St D)
    (h : st.held = []) : (eval ops e au st).2 ≠ .deadlock .other :=
  ((eval_held_all ops).1 e au st h).2.1

theorem held_of_ok (ops : DoubleOps D) {e : Expr} {au : Bool} {st st' : St D} {r : Ref}
    (h : st.held = []) (he : eval ops e au st = (st', .ok r)) : st'.held = [] :=
  heldOK_of_eq ((eval_held_all ops).1 e au st h) he rfl

/-- the only lock the evaluator can block on is one inside `DataArc::eq` -/
theorem eval_deadlock_only_equal (ops : DoubleOps D) (e : Expr) (au : Bool) (st : St D)
    (h : st.held = []) (s : LockSite) (hd : (eval ops e au st).2 = .deadlock s) : s = .equal := by
  cases s with
  | equal => rfl
  | other => exact absurd hd (eval_no_deadlock_other ops e au st h)

/-- `left = right` itself never blocks, whatever cells the two sides are (`a = a` included) -/
theorem assign_no_deadlock (ops : DoubleOps D) (l r : Expr) (au : Bool) (st st1 st2 : St D)
    (ra v : Ref) (hst : st.held = []) (hr : eval ops r false st = (st1, .ok ra))
    (hl : eval ops l au st1 = (st2, .ok v)) (s : LockSite) :
    (eval ops (.assign l r) au st).2 ≠ .deadlock s := by
  have hs1 := held_of_ok ops hst hr
  have hs2 := held_of_ok ops hs1 hl
  simp only [eval]
  split
  · intro h; cases h
  · simp only [hr, hl, St.lock, St.unlock, hs2, List.contains_nil, Bool.false_eq_true, if_false,
      List.erase_cons_head]
    repeat' split
    all_goals (intro h; cases h)

/-- `left ?= right` (`a ?= a` included) -/
theorem assignUndef_no_deadlock (ops : DoubleOps D) (l r : Expr) (au : Bool) (st st1 st2 : St D)
    (ra v : Ref) (hst : st.held = []) (hr : eval ops r au st = (st1, .ok ra))
    (hl : eval ops l true st1 = (st2, .ok v)) (s : LockSite) :
    (eval ops (.assignUndef l r) au st).2 ≠ .deadlock s := by
  have hs1 := held_of_ok ops hst hr
  have hs2 := held_of_ok ops hs1 hl
  simp only [eval]
  split
  · intro h; cases h
  · simp only [hr, hl, St.lock, St.unlock, hs2, List.contains_nil, Bool.false_eq_true, if_false,
      List.erase_cons_head]
    intro h; cases h

/-- `left[index]` (`a[a]` included) -/
theorem index_no_deadlock (ops : DoubleOps D) (l i : Expr) (au : Bool) (st st1 st2 : St D)
    (lv iv : Ref) (hst : st.held = []) (hl : eval ops l au st = (st1, .ok lv))
    (hi : eval ops i au st1 = (st2, .ok iv)) (s : LockSite) :
    (eval ops (.index l i) au st).2 ≠ .deadlock s := by
  have hs1 := held_of_ok ops hst hl
  have hs2 := held_of_ok ops hs1 hi
  simp only [eval, hl, hi, St.lock, St.unlock, hs2, List.contains_nil, Bool.false_eq_true, if_false,
    List.erase_cons_head]
  repeat' split
  all_goals (intro h; cases h)

/-- the evaluator never produces the parser's `livelock` outcome -/
theorem eval_no_livelock (ops : DoubleOps D) (e : Expr) (au : Bool) (st : St D)
    (h : st.held = []) : (eval ops e au st).2 ≠ .livelock :=
  ((eval_held_all ops).1 e au st h).2.2.1

/-- the evaluator never panics -/
theorem eval_no_panic (ops : DoubleOps D) (e : Expr) (au : Bool) (st : St D)
    (h : st.held = []) (s : PanicSite) : (eval ops e au st).2 ≠ .panic s :=
  ((eval_held_all ops).1 e au st h).2.2.2 s

end Rfsm.Expr
