import Rfsm.Proofs.ReachLemmas
/-! The external queue is append-only for everything except the dequeue itself (M-INT). -/
namespace Rfsm.Interp

variable {σ : Type}

/-- `s'` has the external queue of `s` plus events appended at the end -/
def ExtGrows (s s' : Sess σ) : Prop := ∃ l, s'.extq = s.extq ++ l

theorem ExtGrows.refl (s : Sess σ) : ExtGrows s s := ⟨[], by simp⟩
theorem ExtGrows.of_eq {s s' : Sess σ} (h : s'.extq = s.extq) : ExtGrows s s' := ⟨[], by simp [h]⟩
theorem ExtGrows.trans {a b c : Sess σ} (h1 : ExtGrows a b) (h2 : ExtGrows b c) : ExtGrows a c := by
  obtain ⟨l1, h1⟩ := h1
  obtain ⟨l2, h2⟩ := h2
  exact ⟨l1 ++ l2, by rw [h2, h1, List.append_assoc]⟩

theorem ext_absorb (s : Sess σ) (o : ExecOut σ) : ExtGrows s (s.absorb o) := ⟨o.selfExt, rfl⟩
theorem ext_emit (s : Sess σ) (o : List Obs) : ExtGrows s (s.emit o) := ExtGrows.of_eq rfl

theorem ext_foldl {α : Type} (f : Sess σ → α → Sess σ) (hf : ∀ s a, ExtGrows s (f s a)) :
    ∀ (l : List α) (s : Sess σ), ExtGrows s (l.foldl f s) := by
  intro l
  induction l with
  | nil => intro s; exact ExtGrows.refl s
  | cons a l ih => intro s; exact (hf s a).trans (ih _)

theorem conditionMatch_ext (env : Env σ) (d : Doc) (s : Sess σ) (t : Nat) :
    ExtGrows s (conditionMatch env d s t).1 := by
  unfold conditionMatch
  simp only
  split
  · exact ExtGrows.refl s
  · split
    · exact ext_absorb _ _
    · exact (ext_absorb s _).trans (ExtGrows.of_eq rfl)

theorem firstEnabled_ext (env : Env σ) (d : Doc) : ∀ (l : List Nat) (s : Sess σ),
    ExtGrows s (firstEnabled env d s l).1 := by
  intro l
  induction l with
  | nil => intro s; exact ExtGrows.refl s
  | cons t ts ih =>
    intro s
    unfold firstEnabled
    have h := conditionMatch_ext env d s t
    split
    · rename_i s' heq; rw [heq] at h; exact h
    · rename_i s' heq; rw [heq] at h; exact h.trans (ih s')

theorem selectLoop_ext (env : Env σ) (d : Doc) (ev : Option Descriptor.Str) :
    ∀ (as : List Nat) (s : Sess σ) (acc : List Nat), ExtGrows s (selectLoop env d ev s as acc).1 := by
  intro as
  induction as with
  | nil => intro s acc; exact ExtGrows.refl s
  | cons a as ih =>
    intro s acc
    unfold selectLoop
    have h := firstEnabled_ext env d (candidates d ev a) s
    split
    · rename_i s' t heq; rw [heq] at h; exact h.trans (ih s' _)
    · rename_i s' heq; rw [heq] at h; exact h.trans (ih s' _)

theorem select_ext (env : Env σ) (d : Doc) (ev : Option Descriptor.Str) (s : Sess σ) :
    ExtGrows s (select env d ev s).1 := by
  unfold select
  have h := selectLoop_ext env d ev (atomicStates d s.cfg) s []
  split
  rename_i s' enabled heq
  rw [heq] at h
  exact h.trans (ext_emit _ _)

theorem runContent_ext (env : Env σ) (s : Sess σ) (c : Nat) : ExtGrows s (runContent env s c) := by
  unfold runContent
  simp only
  split
  · exact ext_emit _ _
  · exact (ext_emit s _).trans (ext_absorb _ _)

theorem cancelChildren_ext (d : Doc) (s : Sess σ) (sid : Nat) : ExtGrows s (cancelChildren d s sid) := by
  unfold cancelChildren
  exact ext_foldl cancelOne (fun s c => ExtGrows.of_eq rfl) _ s

theorem exitOne_ext (env : Env σ) (d : Doc) (s : Sess σ) (sid : Nat) : ExtGrows s (exitOne env d s sid) := by
  unfold exitOne
  simp only
  exact ((ext_emit s _).trans (cancelChildren_ext d _ sid)).trans
    ((ext_foldl (runContent env) (runContent_ext env) _ _).trans (ExtGrows.of_eq rfl))

theorem exitStates_ext (env : Env σ) (d : Doc) (s : Sess σ) (ts : List Nat) : ExtGrows s (exitStates env d s ts) := by
  unfold exitStates
  exact (ExtGrows.of_eq (s := s) (s' := exitPrepare d s ts) rfl).trans (ext_foldl (exitOne env d) (exitOne_ext env d) _ _)

theorem executeTransitionContent_ext (env : Env σ) (d : Doc) (s : Sess σ) (ts : List Nat) :
    ExtGrows s (executeTransitionContent env d s ts) := by
  unfold executeTransitionContent
  refine ext_foldl _ ?_ ts s
  intro s t
  simp only
  split
  · exact runContent_ext env s _
  · exact ExtGrows.refl s

theorem enterOne_ext (env : Env σ) (d : Doc) (acc : EntryAcc) (s : Sess σ) (sid : Nat) :
    ExtGrows s (enterOne env d acc s sid) := by
  unfold enterOne
  have h1 : ExtGrows s (enterAdd s sid) := ExtGrows.of_eq rfl
  have h2 : ExtGrows (enterAdd s sid) (enterInit env d (enterAdd s sid) sid) := by
    unfold enterInit
    split
    · exact (ExtGrows.of_eq rfl).trans (ext_absorb _ _)
    · exact ExtGrows.refl _
  have h3 := ext_foldl (runContent env) (runContent_ext env) (entryContent d acc sid) (enterInit env d (enterAdd s sid) sid)
  have h4 : ∀ s0 : Sess σ, ExtGrows s0 (enterFinal env d s0 sid) := by
    intro s0
    unfold enterFinal
    simp only
    split
    · split
      · exact ExtGrows.of_eq rfl
      · split
        · exact (ext_absorb s0 _).trans (ExtGrows.of_eq rfl)
        · exact (ext_absorb s0 _).trans (ExtGrows.of_eq rfl)
    · exact ExtGrows.refl s0
  exact ((h1.trans h2).trans h3).trans (h4 _)

theorem enterStates_ext (env : Env σ) (d : Doc) (s : Sess σ) (ts : List Nat) : ExtGrows s (enterStates env d s ts) := by
  unfold enterStates
  exact ext_foldl _ (enterOne_ext env d _) _ s

theorem microstep_ext (env : Env σ) (d : Doc) (s : Sess σ) (ts : List Nat) : ExtGrows s (microstep env d s ts) := by
  unfold microstep
  exact ((exitStates_ext env d s ts).trans (executeTransitionContent_ext env d _ ts)).trans (enterStates_ext env d _ ts)

theorem preExternal_ext (env : Env σ) (d : Doc) (s : Sess σ) (e : Event) : ExtGrows s (preExternal env d s e) := by
  unfold preExternal
  simp only
  have h1 : ExtGrows s (forgetDoneChild (s.emit [.ext e.name]) e) := by
    unfold forgetDoneChild
    split
    · split <;> exact ExtGrows.of_eq rfl
    · exact ExtGrows.of_eq rfl
  generalize forgetDoneChild (s.emit [.ext e.name]) e = s1 at h1 ⊢
  have h2 : ExtGrows s1 { s1 with dm := env.setEvent s1.dm e } := ExtGrows.of_eq rfl
  have h3 := ext_foldl (runContent env) (runContent_ext env) (finalizeList d s1 e) { s1 with dm := env.setEvent s1.dm e }
  have hf : ∀ (s0 : Sess σ) (iid : Descriptor.Str), ExtGrows s0 (forwardOne e s0 iid) := by
    intro s0 iid
    unfold forwardOne
    split
    · exact ext_emit _ _
    · exact ExtGrows.refl _
  have h4 := ext_foldl (forwardOne e) hf (forwardList d s1 e)
    ((finalizeList d s1 e).foldl (runContent env) { s1 with dm := env.setEvent s1.dm e })
  exact ((h1.trans h2).trans h3).trans h4

theorem processExternal_ext (env : Env σ) (d : Doc) (s : Sess σ) (e : Event) : ExtGrows s (processExternal env d s e) := by
  unfold processExternal
  simp only
  have h1 := preExternal_ext env d s e
  have h2 := select_ext env d (some e.name) (preExternal env d s e)
  split
  · exact h1.trans h2
  · exact (h1.trans h2).trans (microstep_ext env d _ _)

/-- dequeuing: the first acceptable event is taken, everything before it is discarded by the
    invoke filter, everything after it stays queued in the same order -/
theorem takeExternal_spec (c : Descriptor.Str) : ∀ (q : List Event) (s : Sess σ),
    (∀ s' e, takeExternal c s q = (s', some e) →
      ∃ pre, q = pre ++ e :: s'.extq ∧ (∀ x ∈ pre, ∃ s0 : Sess σ, s0.children = s.children ∧ acceptExternal c s0 x = false) ∧
        ∃ s0 : Sess σ, s0.children = s.children ∧ acceptExternal c s0 e = true) ∧
    (∀ s', takeExternal c s q = (s', none) → s'.extq = [] ∧
      ∀ x ∈ q, ∃ s0 : Sess σ, s0.children = s.children ∧ acceptExternal c s0 x = false) := by
  intro q
  induction q with
  | nil =>
    intro s
    refine ⟨?_, ?_⟩
    · intro s' e h; simp [takeExternal] at h
    · intro s' h; simp [takeExternal] at h; subst h; simp
  | cons x rest ih =>
    intro s
    refine ⟨?_, ?_⟩
    · intro s' e h
      unfold takeExternal at h
      split at h
      · rename_i hacc
        simp only [Prod.mk.injEq, Option.some.injEq] at h
        obtain ⟨rfl, rfl⟩ := h
        exact ⟨[], by simp, by simp, s, rfl, hacc⟩
      · rename_i hacc
        obtain ⟨pre, h1, h2, h3⟩ := (ih (s.emit [.dropped x.name])).1 s' e h
        refine ⟨x :: pre, by simp [h1], ?_, h3⟩
        intro y hy
        rcases List.mem_cons.1 hy with rfl | hy
        · exact ⟨s, rfl, by simpa using hacc⟩
        · exact h2 y hy
    · intro s' h
      unfold takeExternal at h
      split at h
      · cases h
      · rename_i hacc
        obtain ⟨h1, h2⟩ := (ih (s.emit [.dropped x.name])).2 s' h
        refine ⟨h1, ?_⟩
        intro y hy
        rcases List.mem_cons.1 hy with rfl | hy
        · exact ⟨s, rfl, by simpa using hacc⟩
        · exact h2 y hy

end Rfsm.Interp
