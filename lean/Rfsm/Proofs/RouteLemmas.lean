import Rfsm.Model.Route
/-! Lemmas for C15: decimal round trip, the session table, one-enqueue accounting, counters. -/
namespace Rfsm.Route

/-! ## decimal -/

theorem showNatAux_digits (f n : Nat) : ∀ c ∈ showNatAux f n, 48 ≤ c ∧ c ≤ 57 := by
  induction f generalizing n with
  | zero => intro c hc; simp [showNatAux] at hc; omega
  | succ f ih =>
    intro c hc
    simp only [showNatAux] at hc
    split at hc
    · simp at hc; omega
    · rcases List.mem_append.1 hc with h | h
      · exact ih _ c h
      · simp at h; omega

theorem showNatAux_ne_nil (f n : Nat) : showNatAux f n ≠ [] := by
  cases f with
  | zero => simp [showNatAux]
  | succ f => simp only [showNatAux]; split <;> simp

theorem digitsVal_snoc (xs : Str) (acc d : Nat) (hd : d < 10) :
    digitsVal (xs ++ [48 + d]) acc = (digitsVal xs acc).map (fun v => v * 10 + d) := by
  induction xs generalizing acc with
  | nil =>
    have h1 : 48 + d ≤ 57 := by omega
    simp [digitsVal, h1]
  | cons c cs ih =>
    simp only [List.cons_append, digitsVal]
    split
    · exact ih _
    · rfl

theorem digitsVal_showNatAux (f n : Nat) (h : n ≤ f) : digitsVal (showNatAux f n) 0 = some n := by
  induction f generalizing n with
  | zero =>
    have : n = 0 := by omega
    subst this
    simp [showNatAux, digitsVal]
  | succ f ih =>
    simp only [showNatAux]
    split
    · rename_i h10
      have h1 : 48 + n ≤ 57 := by omega
      simp [digitsVal, h1]
    · rename_i h10
      rw [digitsVal_snoc _ _ _ (Nat.mod_lt _ (by omega)), ih (n / 10) (by omega)]
      simp only [Option.map_some, Option.some.injEq]
      omega

theorem digitsVal_showNat (n : Nat) : digitsVal (showNat n) 0 = some n :=
  digitsVal_showNatAux n n (Nat.le_refl n)

theorem showNat_injective {n m : Nat} (h : showNat n = showNat m) : n = m := by
  have := digitsVal_showNat n
  rw [h, digitsVal_showNat m] at this
  exact (Option.some.inj this).symm

theorem showNat_digits (n : Nat) : ∀ c ∈ showNat n, 48 ≤ c ∧ c ≤ 57 := showNatAux_digits n n

theorem showNat_ne_nil (n : Nat) : showNat n ≠ [] := showNatAux_ne_nil n n

/-- `parse::<u32>` reads back what `to_string` wrote -/
theorem parseU32_showNat (n : Nat) (h : n < 4294967296) : parseU32 (showNat n) = some n := by
  have hd := showNat_digits n
  have hv := digitsVal_showNat n
  cases hs : showNat n with
  | nil => exact absurd hs (showNat_ne_nil n)
  | cons c cs =>
    rw [hs] at hd hv
    have hc := hd c (by simp)
    have h43 : c ≠ 43 := by omega
    have h45 : c ≠ 45 := by omega
    simp [parseU32, h43, h45, hv, h]

/-! ## the session table -/

section World
variable {δ : Type}

theorem lookup_modify (w : World δ) (sid sid' : Nat) (f : Session δ → Session δ)
    (hf : ∀ s, (f s).sid = s.sid) :
    lookup (modify w sid f) sid' = (lookup w sid').map (fun s => if s.sid = sid then f s else s) := by
  induction w with
  | nil => rfl
  | cons s r ih =>
    unfold lookup modify at ih ⊢
    have hsid : (if s.sid = sid then f s else s).sid = s.sid := by split <;> simp [hf]
    simp only [List.map_cons, List.find?_cons, hsid]
    by_cases h2 : s.sid = sid'
    · have hb : (s.sid == sid') = true := by simpa using h2
      simp [hb]
    · have hb : (s.sid == sid') = false := by simpa using h2
      simp only [hb]
      exact ih

/-- number of events in all queues of all sessions -/
def queued (w : World δ) : Nat := (w.map fun s => s.extQ.length + s.intQ.length).sum

theorem modify_absent (w : World δ) (sid : Nat) (f : Session δ → Session δ)
    (h : ∀ s ∈ w, s.sid ≠ sid) : modify w sid f = w := by
  induction w with
  | nil => rfl
  | cons s r ih =>
    simp only [modify, List.map_cons]
    rw [if_neg (h s (by simp))]
    congr 1
    exact ih (fun x hx => h x (by simp [hx]))

theorem lookup_some_mem {w : World δ} {sid : Nat} {T : Session δ} (h : lookup w sid = some T) :
    T ∈ w ∧ T.sid = sid := by
  unfold lookup at h
  exact ⟨List.mem_of_find?_eq_some h, by simpa using List.find?_some h⟩

theorem queued_modify (w : World δ) (sid : Nat) (f : Session δ → Session δ) (T : Session δ)
    (hnd : (w.map (·.sid)).Nodup) (hl : lookup w sid = some T)
    (hf : ∀ s, (f s).extQ.length + (f s).intQ.length = s.extQ.length + s.intQ.length + 1) :
    queued (modify w sid f) = queued w + 1 := by
  induction w with
  | nil => simp [lookup] at hl
  | cons s r ih =>
    simp only [List.map_cons, List.nodup_cons] at hnd
    by_cases hs : s.sid = sid
    · have habs : ∀ x ∈ r, x.sid ≠ sid := by
        intro x hx hxs
        exact hnd.1 (List.mem_map.2 ⟨x, hx, by rw [hxs, hs]⟩)
      have : modify (s :: r) sid f = f s :: r := by
        simp only [modify, List.map_cons, hs, if_true]
        congr 1
        exact modify_absent r sid f habs
      rw [this]
      simp only [queued, List.map_cons, List.sum_cons, hf]
      omega
    · have hl' : lookup r sid = some T := by
        simp only [lookup, List.find?_cons] at hl ⊢
        have : (s.sid == sid) = false := by simpa using hs
        rw [this] at hl
        exact hl
      have := ih hnd.2 hl'
      simp only [queued, modify, List.map_cons, hs, if_false, List.sum_cons] at this ⊢
      omega

theorem queued_enqExt (w : World δ) (sid : Nat) (ev : Event δ) (T : Session δ)
    (hnd : (w.map (·.sid)).Nodup) (hl : lookup w sid = some T) :
    queued (enqExt w sid ev) = queued w + 1 :=
  queued_modify w sid _ T hnd hl (by intro s; simp; omega)

theorem queued_enqInt (w : World δ) (sid : Nat) (ev : Event δ) (T : Session δ)
    (hnd : (w.map (·.sid)).Nodup) (hl : lookup w sid = some T) :
    queued (enqInt w sid ev) = queued w + 1 :=
  queued_modify w sid _ T hnd hl (by intro s; simp; omega)

end World

/-! ## counters -/

theorem runCounter_values (c : Nat) (sched : List Nat) (h : c + sched.length ≤ 4294967296) :
    (runCounter c sched).1.map Prod.snd = List.range' c sched.length := by
  induction sched generalizing c with
  | nil => rfl
  | cons t ts ih =>
    simp only [List.length_cons] at h
    have hc : (c + 1) % 4294967296 = c + 1 ∨ ts.length = 0 := by
      by_cases h0 : ts.length = 0
      · exact Or.inr h0
      · exact Or.inl (Nat.mod_eq_of_lt (by omega))
    simp only [runCounter, fetchAdd, List.map_cons, List.length_cons, List.range'_succ]
    congr 1
    rcases hc with hc | hc
    · rw [hc]; exact ih (c + 1) (by omega)
    · have : ts = [] := List.eq_nil_of_length_eq_zero hc
      subst this
      rfl

theorem runCounter_threads (c : Nat) (sched : List Nat) :
    (runCounter c sched).1.map Prod.fst = sched := by
  induction sched generalizing c with
  | nil => rfl
  | cons t ts ih => simp [runCounter, ih]

/-! ## generated ids -/

theorem append_dot_cancel (d1 d2 r1 r2 : Str) (h1 : ∀ c ∈ d1, c ≠ 46) (h2 : ∀ c ∈ d2, c ≠ 46)
    (h : d1 ++ 46 :: r1 = d2 ++ 46 :: r2) : d1 = d2 := by
  induction d1 generalizing d2 with
  | nil =>
    cases d2 with
    | nil => rfl
    | cons c cs =>
      simp only [List.nil_append, List.cons_append, List.cons.injEq] at h
      exact absurd h.1.symm (h2 c (by simp))
  | cons a as ih =>
    cases d2 with
    | nil =>
      simp only [List.nil_append, List.cons_append, List.cons.injEq] at h
      exact absurd h.1 (h1 a (by simp))
    | cons c cs =>
      simp only [List.cons_append, List.cons.injEq] at h
      rw [h.1, ih cs (fun x hx => h1 x (by simp [hx])) (fun x hx => h2 x (by simp [hx])) h.2]

end Rfsm.Route
