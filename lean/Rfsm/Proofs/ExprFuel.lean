import Rfsm.Proofs.ExprParserLemmas
/-!
The fuel `parse` passes to the parser model is sufficient: `outOfFuel` is never the result
(`parse_fuel_sufficient`).  Every step of the token loop consumes input (`nextToken_progress'`),
every nested call starts after a consumed bracket, and `stackToExpr` shortens the stack on every
round.
-/
namespace Rfsm.Expr

theorem scan_length (stack : List Item) (si bi bp : Nat) {r : List Item} {i p : Nat}
    (h : scan stack si bi bp = some (r, i, p)) : r.length = stack.length := by
  induction stack generalizing si bi bp r i p with
  | nil => simp [scan] at h; rw [h.1]
  | cons it rest ih =>
    have key : ∀ (x : Item) (si' bi' bp' : Nat),
        ((scan rest si' bi' bp').map fun (r, i, p) => (x :: r, i, p)) = some (r, i, p) →
        r.length = (it :: rest).length := by
      intro x si' bi' bp' hm
      simp only [Option.map_eq_some_iff] at hm
      obtain ⟨⟨r', i', p'⟩, h1, h2⟩ := hm
      cases h2
      simp only [List.length_cons, ih _ _ _ h1]
    cases it with
    | ex e => simp only [scan] at h; exact key _ _ _ _ h
    | tok t =>
      cases t with
      | identifier id => simp only [scan] at h; exact key _ _ _ _ h
      | operator o =>
        simp only [scan] at h
        split at h <;> exact key _ _ _ _ h
      | separator c =>
        simp only [scan] at h
        split at h
        · split at h <;> exact key _ _ _ _ h
        · cases h
      | _ => simp [scan] at h

theorem foldAt_length {stack : List Item} {idx : Nat} {f : Expr → Expr → Option Expr}
    {r : List Item} (h : foldAt stack idx f = some r) : r.length + 2 = stack.length := by
  unfold foldAt at h
  split at h
  · rename_i hc
    split at h
    · split at h
      · cases h
        simp only [List.length_append, List.length_take, List.length_cons, List.length_drop]
        omega
      · cases h
    · cases h
  · cases h

theorem stackToExpr_fuel (fuel : Nat) (stack : List Item) (h : stack.length < fuel) :
    stackToExpr fuel stack ≠ .outOfFuel := by
  induction fuel generalizing stack with
  | zero => omega
  | succ fuel ih =>
    rw [stackToExpr]
    split
    · intro h; cases h
    · split
      · intro h; cases h
      · rename_i st bi bp hscan
        have hl := scan_length stack 0 0 255 hscan
        split
        · split
          · split
            · split
              · apply ih
                simp only [List.length_append, List.length_take, List.length_cons, List.length_drop]
                omega
              · intro h; cases h
            · intro h; cases h
          · split
            · rename_i hf
              apply ih
              have := foldAt_length hf
              omega
            · intro h; cases h
          · split
            · rename_i hf
              apply ih
              have := foldAt_length hf
              omega
            · intro h; cases h
          · intro h; cases h
        · split <;> (intro h; cases h)

/-- result of a sub-parser is not `outOfFuel`, and what it leaves is a suffix measure: not longer
than the input, strictly shorter when a stop character was consumed -/
def SubGood (inp : Str) (r : PRes (Ch × Option Expr × Str)) : Prop :=
  r ≠ .outOfFuel ∧
  ∀ stop e rest, r = .ok (stop, e, rest) → rest.length ≤ inp.length ∧ (stop ≠ 0 → rest.length < inp.length)

def ListGood {α : Type} (inp : Str) (r : PRes (α × Str)) : Prop :=
  r ≠ .outOfFuel ∧ ∀ v rest, r = .ok (v, rest) → rest.length ≤ inp.length

theorem SubGood_mono {inp' inp : Str} {r : PRes (Ch × Option Expr × Str)}
    (hl : inp'.length ≤ inp.length) (h : SubGood inp' r) : SubGood inp r := by
  refine ⟨h.1, ?_⟩
  intro stop e rest hr
  have := h.2 stop e rest hr
  exact ⟨by omega, fun hs => by have := this.2 hs; omega⟩

theorem SubGood_err (inp : Str) (e : PErr) : SubGood inp (.err e) :=
  ⟨(by intro h; cases h), (by intro _ _ _ h; cases h)⟩
theorem SubGood_livelock (inp : Str) : SubGood inp .livelock :=
  ⟨(by intro h; cases h), (by intro _ _ _ h; cases h)⟩
theorem SubGood_panic (inp : Str) : SubGood inp .panic :=
  ⟨(by intro h; cases h), (by intro _ _ _ h; cases h)⟩

theorem SubGood_finishSub (inp : Str) (stop : Ch) (rest : Str) (exprs : List Expr) (stack : List Item)
    (h1 : rest.length ≤ inp.length) (h2 : stop ≠ 0 → rest.length < inp.length) :
    SubGood inp (finishSub stop rest exprs stack) := by
  unfold finishSub
  have hf := stackToExpr_fuel (stackFuel stack) stack (by simp [stackFuel])
  split
  · exact SubGood_panic _
  · rename_i h; exact absurd h hf
  · exact SubGood_err _ _
  · split
    · rename_i e stack' _ _
      obtain ⟨e', he⟩ := wrapExprs_ok stop rest (addOpt exprs e)
      rw [he]
      refine ⟨(by intro h; cases h), ?_⟩
      intro s e2 r2 h
      cases h
      exact ⟨h1, h2⟩
    · exact SubGood_err _ _

theorem ListGood_err {α : Type} (inp : Str) (e : PErr) : ListGood (α := α) inp (.err e) :=
  ⟨(by intro h; cases h), (by intro _ _ h; cases h)⟩
theorem ListGood_livelock {α : Type} (inp : Str) : ListGood (α := α) inp .livelock :=
  ⟨(by intro h; cases h), (by intro _ _ h; cases h)⟩
theorem ListGood_panic {α : Type} (inp : Str) : ListGood (α := α) inp .panic :=
  ⟨(by intro h; cases h), (by intro _ _ h; cases h)⟩
theorem ListGood_ok {α : Type} (inp : Str) (v : α) (rest : Str) (h : rest.length ≤ inp.length) :
    ListGood inp (.ok (v, rest)) :=
  ⟨(by intro h; cases h), (by intro _ _ h'; cases h'; exact h)⟩
theorem ListGood_mono {α : Type} {inp' inp : Str} {r : PRes (α × Str)}
    (hl : inp'.length ≤ inp.length) (h : ListGood inp' r) : ListGood inp r :=
  ⟨h.1, fun v rest hr => by have := h.2 v rest hr; omega⟩

/-- with `2·|input| + 2` (resp. `+ 3`) units of fuel no parser function runs out of fuel -/
theorem parser_fuel (fuel : Nat) :
    (∀ stops inp exprs stack, 2 * inp.length + 2 ≤ fuel →
      SubGood inp (parseSub fuel stops inp exprs stack)) ∧
    (∀ stop inp acc, 2 * inp.length + 3 ≤ fuel → ListGood inp (parseArgs fuel stop inp acc)) ∧
    (∀ stop inp acc, 2 * inp.length + 3 ≤ fuel → ListGood inp (parseMembers fuel stop inp acc)) := by
  induction fuel with
  | zero =>
    refine ⟨?_, ?_, ?_⟩
    · intro _ inp _ _ h; omega
    · intro _ inp _ h; omega
    · intro _ inp _ h; omega
  | succ fuel ih =>
    obtain ⟨ihS, ihA, ihM⟩ := ih
    refine ⟨?_, ?_, ?_⟩
    · intro stops inp exprs stack hf
      have hp := nextToken_progress' stops inp
      have hl := nextToken_length stops inp
      rw [parseSub]
      cases hnt : nextToken stops inp with
      | mk t rest =>
        rw [hnt] at hp hl
        simp only at hp hl
        cases t with
        | eoe => exact SubGood_finishSub _ _ _ _ _ hl (fun h => absurd rfl h)
        | error e => exact SubGood_err _ _
        | null =>
          simp [Token.isEoe, Token.isOperator, Token.isError] at hp
          exact SubGood_mono (by omega) (ihS _ _ _ _ (by omega))
        | tstring s =>
          simp [Token.isEoe, Token.isOperator, Token.isError] at hp
          exact SubGood_mono (by omega) (ihS _ _ _ _ (by omega))
        | boolean b =>
          simp [Token.isEoe, Token.isOperator, Token.isError] at hp
          exact SubGood_mono (by omega) (ihS _ _ _ _ (by omega))
        | int i =>
          simp [Token.isEoe, Token.isOperator, Token.isError] at hp
          exact SubGood_mono (by omega) (ihS _ _ _ _ (by omega))
        | dbl d =>
          simp [Token.isEoe, Token.isOperator, Token.isError] at hp
          exact SubGood_mono (by omega) (ihS _ _ _ _ (by omega))
        | identifier id =>
          simp [Token.isEoe, Token.isOperator, Token.isError] at hp
          exact SubGood_mono (by omega) (ihS _ _ _ _ (by omega))
        | operator o =>
          simp only
          split
          · exact SubGood_livelock _
          · exact SubGood_mono (by omega) (ihS _ _ _ _ (by omega))
        | exprSep =>
          simp [Token.isEoe, Token.isOperator, Token.isError] at hp
          simp only
          have hfs := stackToExpr_fuel (stackFuel stack) stack (by simp [stackFuel])
          split
          · exact SubGood_panic _
          · rename_i h; exact absurd h hfs
          · exact SubGood_err _ _
          · split
            · exact SubGood_mono (by omega) (ihS _ _ _ _ (by omega))
            · exact SubGood_err _ _
        | separator sep =>
          simp [Token.isEoe, Token.isOperator, Token.isError] at hp
          simp only
          split
          · rename_i hc
            apply SubGood_finishSub _ _ _ _ _ hl
            intro hne
            rcases hp with hp | ⟨h0, _⟩
            · exact hp
            · exact absurd h0 hne
          · rename_i hc
            have hlt : rest.length < inp.length := by
              rcases hp with hp | ⟨h0, h1⟩
              · exact hp
              · subst h0; exact absurd (by simpa using h1) hc
            split
            · exact SubGood_mono (by omega) (ihS _ _ _ _ (by omega))
            · exact SubGood_mono (by omega) (ihS _ _ _ _ (by omega))
        | bracket br =>
          simp [Token.isEoe, Token.isOperator, Token.isError] at hp
          simp only
          repeat' split
          all_goals first
            | exact SubGood_err _ _
            | exact SubGood_livelock _
            | exact SubGood_panic _
            | exact SubGood_finishSub _ _ _ _ _ (by omega) (fun _ => by omega)
            | exact SubGood_mono (by omega) (ihS _ _ _ _ (by omega))
            | (rename_i heq
               have h1 := ((ihS _ _ _ _ (by omega)).2 _ _ _ heq).1
               exact SubGood_mono (by omega) (ihS _ _ _ _ (by omega)))
            | (rename_i heq
               have h1 := (ihA _ _ _ (by omega)).2 _ _ heq
               exact SubGood_mono (by omega) (ihS _ _ _ _ (by omega)))
            | (rename_i heq
               have h1 := (ihM _ _ _ (by omega)).2 _ _ heq
               exact SubGood_mono (by omega) (ihS _ _ _ _ (by omega)))
            | (rename_i heq; exact absurd heq (ihS _ _ _ _ (by omega)).1)
            | (rename_i heq; exact absurd heq (ihA _ _ _ (by omega)).1)
            | (rename_i heq; exact absurd heq (ihM _ _ _ (by omega)).1)
    · intro stop inp acc hf
      rw [parseArgs]
      split
      · rename_i rest heq
        have h1 := ((ihS _ _ _ _ (by omega)).2 _ _ _ heq).1
        split
        · exact ListGood_ok _ _ _ h1
        · exact ListGood_err _ _
      · rename_i stopc e rest heq
        have h1 := (ihS _ _ _ _ (by omega)).2 _ _ _ heq
        split
        · exact ListGood_ok _ _ _ h1.1
        · split
          · exact ListGood_err _ _
          · rename_i hne0
            have h2 := h1.2 (by simpa using hne0)
            exact ListGood_mono (by omega) (ihA _ _ _ (by omega))
      · exact ListGood_err _ _
      · exact ListGood_panic _
      · exact ListGood_livelock _
      · rename_i heq; exact absurd heq (ihS _ _ _ _ (by omega)).1
    · intro stop inp acc hf
      rw [parseMembers]
      split
      · rename_i rest heq
        have h1 := ((ihS _ _ _ _ (by omega)).2 _ _ _ heq).1
        split
        · exact ListGood_ok _ _ _ h1
        · exact ListGood_err _ _
      · rename_i k rest heq
        have h1 := ((ihS _ _ _ _ (by omega)).2 _ _ _ heq).1
        split
        · exact ListGood_err _ _
        · rename_i stopv v rest' heq2
          have h2 := (ihS _ _ _ _ (by omega)).2 _ _ _ heq2
          split
          · exact ListGood_ok _ _ _ (by omega)
          · split
            · exact ListGood_err _ _
            · rename_i hne0
              have h3 := h2.2 (by simpa using hne0)
              exact ListGood_mono (by omega) (ihM _ _ _ (by omega))
        · exact ListGood_err _ _
        · exact ListGood_panic _
        · exact ListGood_livelock _
        · rename_i heq2; exact absurd heq2 (ihS _ _ _ _ (by omega)).1
      · exact ListGood_err _ _
      · exact ListGood_panic _
      · exact ListGood_livelock _
      · rename_i heq; exact absurd heq (ihS _ _ _ _ (by omega)).1

/-- `parse` never runs out of fuel -/
theorem parse_fuel_sufficient (text : Str) : parse text ≠ .outOfFuel := by
  unfold parse
  have := ((parser_fuel (parseFuel text)).1 [0] text [] [] (by simp [parseFuel])).1
  split
  all_goals first
    | (intro h; cases h; done)
    | (rename_i heq; exact absurd heq this)

end Rfsm.Expr
