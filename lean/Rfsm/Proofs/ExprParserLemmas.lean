import Rfsm.Model.ExprParser
import Rfsm.Proofs.ExprLexerLemmas
/-!
The parser model never reaches `panic!("Internal error")`: the parser stack only ever holds
expressions, identifiers, operators and the `.` separator (`StackOK`), and `scan` accepts exactly
those.
-/
namespace Rfsm.Expr

def ItemOK : Item → Bool
  | .ex _ => true
  | .tok (.identifier _) => true
  | .tok (.operator _) => true
  | .tok (.separator c) => c == 46
  | .tok _ => false

def StackOK (stack : List Item) : Prop := ∀ it ∈ stack, ItemOK it = true

theorem StackOK_nil : StackOK [] := by intro it h; cases h

theorem StackOK_append {a b : List Item} (ha : StackOK a) (hb : StackOK b) : StackOK (a ++ b) := by
  intro it h
  rcases List.mem_append.1 h with h | h
  · exact ha it h
  · exact hb it h

theorem StackOK_push {s : List Item} (hs : StackOK s) {it : Item} (hi : ItemOK it = true) :
    StackOK (s ++ [it]) :=
  StackOK_append hs (by intro x hx; simp at hx; subst hx; exact hi)

theorem StackOK_dropLast {s : List Item} (hs : StackOK s) : StackOK s.dropLast :=
  fun it h => hs it (List.dropLast_subset s h)

theorem StackOK_take {s : List Item} (hs : StackOK s) (n : Nat) : StackOK (s.take n) :=
  fun it h => hs it (List.take_subset n s h)

theorem StackOK_drop {s : List Item} (hs : StackOK s) (n : Nat) : StackOK (s.drop n) :=
  fun it h => hs it (List.drop_subset n s h)

theorem StackOK_cons {s : List Item} {it : Item} (hi : ItemOK it = true) (hs : StackOK s) :
    StackOK (it :: s) := by
  intro x hx
  rcases List.mem_cons.1 hx with rfl | hx
  · exact hi
  · exact hs x hx

theorem StackOK_pushOpt {s : List Item} (hs : StackOK s) (e : Option Expr) : StackOK (pushOpt s e) := by
  cases e with
  | none => exact hs
  | some e => exact StackOK_push hs rfl

/-- `scan` succeeds on an OK stack and returns an OK stack -/
theorem scan_ok (stack : List Item) (hs : StackOK stack) (si bi bp : Nat) :
    ∃ r i p, scan stack si bi bp = some (r, i, p) ∧ StackOK r := by
  induction stack generalizing si bi bp with
  | nil => exact ⟨[], bi, bp, rfl, StackOK_nil⟩
  | cons it rest ih =>
    have hit : ItemOK it = true := hs it List.mem_cons_self
    have hrest : StackOK rest := fun x hx => hs x (List.mem_cons_of_mem _ hx)
    cases it with
    | ex e =>
      obtain ⟨r, i, p, h1, h2⟩ := ih hrest (si + 1) bi bp
      exact ⟨.ex e :: r, i, p, by simp [scan, h1], StackOK_cons rfl h2⟩
    | tok t =>
      cases t with
      | identifier id =>
        obtain ⟨r, i, p, h1, h2⟩ := ih hrest (si + 1) bi bp
        exact ⟨.ex (.var id) :: r, i, p, by simp [scan, h1], StackOK_cons rfl h2⟩
      | operator o =>
        by_cases hp : better o bp = true
        · obtain ⟨r, i, p, h1, h2⟩ := ih hrest (si + 1) si (prio o)
          exact ⟨.tok (.operator o) :: r, i, p, by simp [scan, hp, h1], StackOK_cons rfl h2⟩
        · obtain ⟨r, i, p, h1, h2⟩ := ih hrest (si + 1) bi bp
          exact ⟨.tok (.operator o) :: r, i, p, by simp [scan, hp, h1], StackOK_cons rfl h2⟩
      | separator c =>
        have hc : c = 46 := by simpa [ItemOK] using hit
        subst hc
        by_cases hp : 2 < bp
        · obtain ⟨r, i, p, h1, h2⟩ := ih hrest (si + 1) si 2
          exact ⟨.tok (.separator 46) :: r, i, p, by simp [scan, hp, h1], StackOK_cons rfl h2⟩
        · obtain ⟨r, i, p, h1, h2⟩ := ih hrest (si + 1) bi bp
          exact ⟨.tok (.separator 46) :: r, i, p, by simp [scan, hp, h1], StackOK_cons rfl h2⟩
      | _ => simp [ItemOK] at hit

theorem foldAt_ok {stack : List Item} (hs : StackOK stack) (idx : Nat)
    (f : Expr → Expr → Option Expr) {r : List Item} (h : foldAt stack idx f = some r) : StackOK r := by
  unfold foldAt at h
  split at h
  · split at h
    · split at h
      · cases h
        exact StackOK_append (StackOK_take hs _) (StackOK_cons rfl (StackOK_drop hs _))
      · cases h
    · cases h
  · cases h

theorem stackToExpr_no_panic (fuel : Nat) (stack : List Item) (hs : StackOK stack) :
    stackToExpr fuel stack ≠ .panic := by
  induction fuel generalizing stack with
  | zero => simp [stackToExpr]
  | succ fuel ih =>
    rw [stackToExpr]
    split
    · intro h; cases h
    · obtain ⟨r, i, p, h1, h2⟩ := scan_ok stack hs 0 0 255
      rw [h1]
      simp only
      split
      · split
        · split
          · split
            · exact ih _ (StackOK_append (StackOK_take h2 _) (StackOK_cons rfl (StackOK_drop h2 _)))
            · intro h; cases h
          · intro h; cases h
        · split
          · rename_i hf
            exact ih _ (foldAt_ok h2 _ _ hf)
          · intro h; cases h
        · split
          · rename_i hf
            exact ih _ (foldAt_ok h2 _ _ hf)
          · intro h; cases h
        · intro h; cases h
      · split <;> (intro h; cases h)

theorem wrapExprs_ok (stop : Ch) (rest : Str) (l : List Expr) :
    ∃ e, wrapExprs stop rest l = .ok (stop, e, rest) := by
  cases l with
  | nil => exact ⟨none, rfl⟩
  | cons a as => cases as <;> exact ⟨_, rfl⟩

theorem finishSub_no_panic (stop : Ch) (rest : Str) (exprs : List Expr) (stack : List Item)
    (hs : StackOK stack) : finishSub stop rest exprs stack ≠ .panic := by
  unfold finishSub
  have := stackToExpr_no_panic (stackFuel stack) stack hs
  split
  · rename_i h; exact absurd h this
  · intro h; cases h
  · intro h; cases h
  · split
    · rename_i e stack' _ _
      obtain ⟨e', he⟩ := wrapExprs_ok stop rest (addOpt exprs e)
      rw [he]; intro h; cases h
    · intro h; cases h

/-- `parse_sub_expression`, `parse_argument_list`, `parse_member_list` never reach the
`panic!("Internal error")` arm of `stack_to_expression` -/
theorem parser_no_panic (fuel : Nat) :
    (∀ stops inp exprs stack, StackOK stack → parseSub fuel stops inp exprs stack ≠ .panic) ∧
    (∀ stop inp acc, parseArgs fuel stop inp acc ≠ .panic) ∧
    (∀ stop inp acc, parseMembers fuel stop inp acc ≠ .panic) := by
  induction fuel with
  | zero =>
    refine ⟨?_, ?_, ?_⟩
    · intro _ _ _ _ _; rw [parseSub]; intro h; cases h
    · intro _ _ _; rw [parseArgs]; intro h; cases h
    · intro _ _ _; rw [parseMembers]; intro h; cases h
  | succ fuel ih =>
    obtain ⟨ihS, ihA, ihM⟩ := ih
    refine ⟨?_, ?_, ?_⟩
    · intro stops inp exprs stack hs
      rw [parseSub]
      repeat' split
      all_goals first
        | (intro h; cases h; done)
        | exact finishSub_no_panic _ _ _ _ hs
        | exact ihS _ _ _ _ (StackOK_push hs rfl)
        | exact ihS _ _ _ _ hs
        | exact ihS _ _ _ _ StackOK_nil
        | exact ihS _ _ _ _ (StackOK_dropLast hs)
        | exact ihS _ _ _ _ (StackOK_pushOpt (StackOK_dropLast hs) _)
        | exact ihS _ _ _ _ (StackOK_pushOpt hs _)
        | exact ihS _ _ _ _ (StackOK_push (StackOK_dropLast hs) rfl)
        | (rename_i heq; exact absurd heq (ihS _ _ _ _ StackOK_nil))
        | (rename_i heq; exact absurd heq (ihA _ _ _))
        | (rename_i heq; exact absurd heq (ihM _ _ _))
        | (rename_i heq; exact absurd heq (stackToExpr_no_panic _ _ hs))
    · intro stop inp acc
      rw [parseArgs]
      repeat' split
      all_goals first
        | (intro h; cases h; done)
        | exact ihA _ _ _
        | (rename_i heq; exact absurd heq (ihS _ _ _ _ StackOK_nil))
    · intro stop inp acc
      rw [parseMembers]
      repeat' split
      all_goals first
        | (intro h; cases h; done)
        | exact ihM _ _ _
        | (rename_i heq; exact absurd heq (ihS _ _ _ _ StackOK_nil))

theorem parse_no_panic (text : Str) : parse text ≠ .panic := by
  unfold parse
  have := (parser_no_panic (parseFuel text)).1 [0] text [] [] StackOK_nil
  split
  all_goals first
    | (intro h; cases h; done)
    | (rename_i heq; exact absurd heq this)

end Rfsm.Expr
