import Rfsm.Proofs.ReaderStates
import Rfsm.Proofs.ReaderContent
/-!
C04 (c), simulation: on trees of states the reader (`step` on `<state id>`, `<transition target/>`,
`</state>`) does to the view of its state table exactly what `vdecl` / `vref` / `amT` do
(`decl_sim`, `step_startState`, `step_transition`, `step_stopState`, `simT`, `simF`).
-/
namespace Rfsm.Reader
open Rfsm.Descriptor (Str)

theorem findName_view (l : List State) (n : Str) : findName l n = vfind (l.map vOf) n := by
  induction l with
  | nil => rfl
  | cons s r ih => simp [findName, vfind, vOf, ih]

theorem view_getOrCreate (f : Fsm) (n : Str) :
    view (getOrCreateState f n false).2 = vref (view f) n ∧
    (getOrCreateState f n false).1 = (vfind (vref (view f) n) n).getD 0 := by
  unfold getOrCreateState vref
  rw [findName_view]
  show _ ∧ _
  cases hf : vfind (List.map vOf f.states) n with
  | some i => simp [view, hf]
  | none => simp [view, hf, vfind_append, vOf]

theorem view_parseStateSpec (f : Fsm) (ns : List Str) (acc : List Nat) :
    view (parseStateSpec f ns acc).2 = ns.foldl vref (view f) := by
  induction ns generalizing f acc with
  | nil => simp [parseStateSpec]
  | cons n r ih =>
    simp only [parseStateSpec, List.foldl_cons]
    rw [ih, (view_getOrCreate f n).1]

theorem map_modifyNth {α β} (h : α → β) (g : α → α) (g' : β → β) (hg : ∀ x, h (g x) = g' (h x)) (l : List α) (k : Nat) :
    (modifyNth g l k).map h = modifyNth g' (l.map h) k := by
  induction l generalizing k with
  | nil => simp [modifyNth]
  | cons x xs ih => cases k <;> simp [modifyNth, hg, ih]

theorem view_modState (f : Fsm) (i : Nat) (g : State → State) (g' : V → V) (hi : i ≠ 0)
    (hg : ∀ s, vOf (g s) = g' (vOf s)) : view (modState f i g) = vmod (view f) i g' := by
  simp [view, modState, vmod, hi, map_modifyNth vOf g g' hg]

theorem view_modState_id (f : Fsm) (i : Nat) (g : State → State) (hg : ∀ s, vOf (g s) = vOf s) :
    view (modState f i g) = view f := by
  simp only [view, modState]
  rw [map_modifyNth vOf g id hg]
  generalize f.states.map vOf = l
  generalize i - 1 = k
  induction l generalizing k with
  | nil => simp [modifyNth]
  | cons x xs ih => cases k <;> simp [modifyNth, ih]

theorem getState_view (f : Fsm) (i : Nat) : (getState f i).map vOf = vget (view f) i := by
  unfold getState vget view
  by_cases h : i = 0 <;> simp [h]

theorem getState_some_of_vget {f : Fsm} {i : Nat} {v : V} (h : vget (view f) i = some v) :
    ∃ s, getState f i = some s := by
  rw [← getState_view] at h
  cases hs : getState f i with
  | none => rw [hs] at h; simp at h
  | some s => exact ⟨s, rfl⟩


/-- `get_or_create_state_with_attributes` for `<state id=n>` inside state `p` is `vdecl` on the view -/
theorem decl_sim (σ : RS) (a : Attrs) (n : Str) (p : Nat) (hp : p ≠ 0)
    (hok : IdsOk (view σ.fsm)) (hpv : ∃ v, vget (view σ.fsm) p = some v)
    (hid : getAttr a a_id = some n) (hin : getAttr a a_initial = none) :
    ∃ σ', getOrCreateStateWithAttributes σ a false p = .ok ((vdecl (view σ.fsm) n p σ.nextDoc).1, σ') ∧
      view σ'.fsm = (vdecl (view σ.fsm) n p σ.nextDoc).2 ∧ σ'.nextDoc = σ.nextDoc + 1 ∧
      σ'.raw = σ.raw ∧ σ'.cur = σ.cur ∧ σ'.stack = σ.stack ∧ σ'.nextId = σ.nextId := by
  obtain ⟨hv1, hi1⟩ := view_getOrCreate σ.fsm n
  obtain ⟨i, hfi⟩ := vref_find (view σ.fsm) n
  have he := vref_ext hok n
  obtain ⟨v0, hv0, _, _⟩ := vfind_some hfi he.ok
  have hi0 : i ≠ 0 := (le_of_vget hv0).1
  -- the state that is declared exists
  rw [← hv1] at hv0 hfi
  obtain ⟨s1, hs1⟩ := getState_some_of_vget hv0
  have hi : (getOrCreateState σ.fsm n false).1 = i := by rw [hi1, ← hv1, hfi]; rfl
  -- the parent exists after the first update
  obtain ⟨pv, hpv⟩ := hpv
  have hple : p ≤ (view (getOrCreateState σ.fsm n false).2).length := by
    rw [hv1]; exact Nat.le_trans (le_of_vget hpv).2 he.len
  have hv2 := view_modState (getOrCreateState σ.fsm n false).2 i
    (fun s => { s with initial := if 0 ≠ 0 then 0 else s.initial, docId := σ.nextDoc,
                       parent := if p ≠ 0 then p else s.parent })
    (fun v => { v with docId := σ.nextDoc, parent := if p ≠ 0 then p else v.parent }) hi0
    (by intro s; simp [vOf])
  obtain ⟨v2, hv2'⟩ := vget_of_le (vs := view (modState (getOrCreateState σ.fsm n false).2 i
    (fun s => { s with initial := if 0 ≠ 0 then 0 else s.initial, docId := σ.nextDoc,
                       parent := if p ≠ 0 then p else s.parent }))) hp (by
      rw [hv2]; simp only [vmod, hi0, if_false, modifyNth_length]; exact hple)
  obtain ⟨s2, hs2⟩ := getState_some_of_vget hv2'
  have hv3 := view_modState (modState (getOrCreateState σ.fsm n false).2 i
    (fun s => { s with initial := if 0 ≠ 0 then 0 else s.initial, docId := σ.nextDoc,
                       parent := if p ≠ 0 then p else s.parent })) p
    (fun q => { q with states := if q.states.contains i then q.states else q.states ++ [i] })
    (fun v => { v with kids := if v.kids.contains i then v.kids else v.kids ++ [i] }) hp
    (by intro s; simp [vOf])
  have e1 : (vdecl (view σ.fsm) n p σ.nextDoc).1 = i := by simp [vdecl, ← hv1, hfi]
  have e2 : (vdecl (view σ.fsm) n p σ.nextDoc).2 =
      vmod (vmod (view (getOrCreateState σ.fsm n false).2) i
        (fun v => { v with docId := σ.nextDoc, parent := if p ≠ 0 then p else v.parent })) p
        (fun v => { v with kids := if v.kids.contains i then v.kids else v.kids ++ [i] }) := by
    simp [vdecl, ← hv1, hfi, hp]
  rw [e1, e2]
  simp only [getOrCreateStateWithAttributes, hid, hin]
  rw [hi]
  simp only [hs1]
  rw [if_pos hp]
  simp only [hs2]
  refine ⟨_, rfl, ?_, rfl, rfl, rfl, rfl, rfl⟩
  rw [← hv2, ← hv3]


/-- a reader state between state elements: inside `<scxml>` or a `<state>` whose id is `p` -/
structure SR (σ : RS) (p : Nat) : Prop where
  raw : σ.raw = none
  tag : σ.cur.tag = .scxml ∨ σ.cur.tag = .state
  cur : σ.cur.state = p
  p0 : p ≠ 0
  ok : IdsOk (view σ.fsm)
  valid : p ≤ (view σ.fsm).length
  nid : σ.nextId ≠ 0

theorem step_startState (σ : RS) (p : Nat) (n : Str) (h : SR σ p) :
    ∃ σ', step σ (.start t_state [(a_id, n)]) = .ok σ' ∧ σ'.raw = none ∧
      σ'.cur = { σ.cur with state := (vdecl (view σ.fsm) n p σ.nextDoc).1, tag := .state } ∧
      σ'.stack = σ.cur :: σ.stack ∧ view σ'.fsm = (vdecl (view σ.fsm) n p σ.nextDoc).2 ∧
      σ'.nextDoc = σ.nextDoc + 1 ∧ σ'.nextId = σ.nextId := by
  have hl : localName t_state = t_state := by decide
  have ht : tagOf t_state = .state := by decide
  have hk : ¬ a_id = a_initial := by decide
  have hmem : σ.cur.tag ∈ [Tag.scxml, .state, .parallel] := by rcases h.tag with h | h <;> simp [h]
  obtain ⟨σ1, hd, hview, hdoc, hraw, hcur, hstack, hnid⟩ := decl_sim (σ.push .state) [(a_id, n)] n p h.p0
    (by simpa [RS.push] using h.ok) (by
      have := vget_of_le h.p0 h.valid; simpa [RS.push] using this) (by simp [getAttr]) (by simp [getAttr, hk])
  have hfsm : (σ.push .state).fsm = σ.fsm := rfl
  have hnd : (σ.push .state).nextDoc = σ.nextDoc := rfl
  rw [hfsm, hnd] at hd hview
  refine ⟨setCurState σ1 (vdecl (view σ.fsm) n p σ.nextDoc).1, ?_, ?_, ?_, ?_, hview, ?_, ?_⟩
  · have hcs : (σ.push .state).cur.state = p := by simpa [RS.push] using h.cur
    have hmem' : σ.cur.tag = Tag.scxml ∨ σ.cur.tag = Tag.state ∨ σ.cur.tag = Tag.parallel := by
      rcases h.tag with h | h <;> simp [h]
    simp [step, h.raw, hl, ht, isRawTag, startElement, startStateLike, verifyParent, RS.parentTag, bind,
      Except.bind, hcs, hd]
    simp [RS.push, hmem']
  · simpa [setCurState, RS.push] using hraw.trans h.raw
  · simp [setCurState, hcur, RS.push]
  · simp [setCurState, hstack, RS.push]
  · rw [hnd] at hdoc; simpa [setCurState] using hdoc
  · simpa [setCurState, RS.push] using hnid


theorem tget_append_self (ts : List Transition) (t : Transition) : ∃ t', tget (ts ++ [t]) t.id = some t' := by
  induction ts with
  | nil => exact ⟨t, by simp [tget]⟩
  | cons x xs ih =>
    simp only [List.cons_append, tget]
    split
    · exact ⟨x, rfl⟩
    · exact ih

@[simp] theorem modState_transitions (f : Fsm) (i : Nat) (g : State → State) : (modState f i g).transitions = f.transitions := rfl
@[simp] theorem modState_regions (f : Fsm) (i : Nat) (g : State → State) : (modState f i g).regions = f.regions := rfl
@[simp] theorem modState_datamodel (f : Fsm) (i : Nat) (g : State → State) : (modState f i g).datamodel = f.datamodel := rfl
@[simp] theorem modState_bindingLate (f : Fsm) (i : Nat) (g : State → State) : (modState f i g).bindingLate = f.bindingLate := rfl
@[simp] theorem modState_version (f : Fsm) (i : Nat) (g : State → State) : (modState f i g).version = f.version := rfl
@[simp] theorem modState_name (f : Fsm) (i : Nat) (g : State → State) : (modState f i g).name = f.name := rfl
@[simp] theorem modState_pseudoRoot (f : Fsm) (i : Nat) (g : State → State) : (modState f i g).pseudoRoot = f.pseudoRoot := rfl
@[simp] theorem modState_script (f : Fsm) (i : Nat) (g : State → State) : (modState f i g).script = f.script := rfl

theorem view_states (f : Fsm) (l : List State) (h : l = f.states) (f' : Fsm) (h' : f'.states = l) : view f' = view f := by
  simp [view, h', h]

/-- `<transition target=tg/>` inside a state: references only -/
theorem step_transition (σ : RS) (p : Nat) (tg : Str) (h : SR σ p) (htag : σ.cur.tag = .state) :
    ∃ σ', step σ (.empty t_transition [(a_target, tg)]) = .ok σ' ∧ σ'.raw = none ∧ σ'.cur = σ.cur ∧
      σ'.stack = σ.stack ∧ view σ'.fsm = (splitAsciiWs tg).foldl vref (view σ.fsm) ∧
      σ'.nextDoc = σ.nextDoc + 1 ∧ σ'.nextId ≠ 0 := by
  have hl : localName t_transition = t_transition := by decide
  have ht : tagOf t_transition = .transition := by decide
  have k1 : ¬ a_target = a_event := by decide
  have k2 : ¬ a_target = a_cond := by decide
  have k3 : ¬ a_target = a_type := by decide
  have hv0 : view { σ.fsm with regions := rset σ.fsm.regions (σ.nextId + 1) [] } = view σ.fsm := rfl
  have hv := view_parseStateSpec { σ.fsm with regions := rset σ.fsm.regions (σ.nextId + 1) [] } (splitAsciiWs tg) []
  rw [hv0] at hv
  -- the current state still exists after the references
  have hext := vrefs_ext h.ok (splitAsciiWs tg)
  obtain ⟨pv, hpv⟩ := vget_of_le (vs := view (parseStateSpec { σ.fsm with regions := rset σ.fsm.regions (σ.nextId + 1) [] }
      (splitAsciiWs tg) []).2) h.p0 (by rw [hv]; exact Nat.le_trans h.valid hext.len)
  obtain ⟨ps, hps⟩ := getState_some_of_vget hpv
  obtain ⟨t', ht'⟩ := tget_append_self
    (parseStateSpec { σ.fsm with regions := rset σ.fsm.regions (σ.nextId + 1) [] } (splitAsciiWs tg) []).2.transitions
    { id := σ.nextId, docId := σ.nextDoc, events := [], wildcard := false, cond := .null, source := ps.id,
      target := (parseStateSpec { σ.fsm with regions := rset σ.fsm.regions (σ.nextId + 1) [] } (splitAsciiWs tg) []).1,
      ttype := .external }
  have hvm := view_modState_id
    (parseStateSpec { σ.fsm with regions := rset σ.fsm.regions (σ.nextId + 1) [] } (splitAsciiWs tg) []).2 p
    (fun s => { s with transitions := s.transitions ++ [σ.nextId] }) (by intro s; rfl)
  simp [step, h.raw, hl, ht, isRawTag, startElement, startTransition, verifyParent, RS.parentTag, RS.push, htag,
    getAttr, k1, k2, k3, bind, Except.bind, startRegion, curState, h.cur, h.p0, hps, modCurState, endElement,
    endTransition, endRegion, unwind, h.nid, ht', RS.pop]
  exact hvm.trans hv


/-- `</state>`: `set_default_initial` may add an initial transition; nesting and doc ids are not touched -/
theorem step_stopState (σ : RS) (i : Nat) (c : Item) (st : List Item) (hraw : σ.raw = none)
    (htag : σ.cur.tag = .state) (hcur : σ.cur.state = i) (hi0 : i ≠ 0) (hvalid : i ≤ (view σ.fsm).length)
    (hstack : σ.stack = c :: st) (hnid : σ.nextId ≠ 0) :
    ∃ σ', step σ (.stop t_state) = .ok σ' ∧ σ'.raw = none ∧ σ'.cur = c ∧ σ'.stack = st ∧
      view σ'.fsm = view σ.fsm ∧ σ'.nextDoc = σ.nextDoc ∧ σ'.nextId ≠ 0 := by
  have hl : localName t_state = t_state := by decide
  have ht : tagOf t_state = .state := by decide
  obtain ⟨v, hv⟩ := vget_of_le (vs := view σ.fsm) hi0 hvalid
  obtain ⟨s, hs⟩ := getState_some_of_vget hv
  by_cases hinit : s.initial = 0
  · cases hk : s.states with
    | nil =>
      simp [step, hraw, hl, ht, endElement, htag, setDefaultInitial, hcur, hs, hinit, hk, bind, Except.bind, RS.pop,
        hstack, hnid]
    | cons first rest =>
      have hvm := view_modState_id σ.fsm i (fun s => { s with initial := σ.nextId }) (by intro s; rfl)
      simp [step, hraw, hl, ht, endElement, htag, setDefaultInitial, hcur, hs, hinit, hk, bind, Except.bind, RS.pop,
        hstack]
      exact hvm
  · simp [step, hraw, hl, ht, endElement, htag, setDefaultInitial, hcur, hs, hinit, bind, Except.bind, RS.pop,
      hstack, hnid]


/-! ### trees of states: the reader run is `amT` on the view -/

mutual
/-- SAX events of a tree of states -/
def saxST : ST → List Sax
  | .node n tg ks =>
    [.start t_state [(a_id, n)]] ++
    (match tg with
     | some t => [.empty t_transition [(a_target, t)]]
     | none => []) ++ saxSF ks ++ [.stop t_state]
def saxSF : List ST → List Sax
  | [] => []
  | t :: r => saxST t ++ saxSF r
end

/-- conclusion of the simulation -/
def Sim (evs : List Sax) (σ : RS) (vs' : List V) (d' : Nat) : Prop :=
  ∃ σ', run evs σ = .ok σ' ∧ σ'.raw = none ∧ σ'.cur = σ.cur ∧ σ'.stack = σ.stack ∧ σ'.nextId ≠ 0 ∧
    view σ'.fsm = vs' ∧ σ'.nextDoc = d'

mutual
theorem simT : (t : ST) → (σ : RS) → (p : Nat) → SR σ p → (namesT t).Nodup →
    Sim (saxST t) σ (amT t p (view σ.fsm) σ.nextDoc) (σ.nextDoc + sizeT t)
  | .node n tg ks, σ, p, h, hnd => by
    simp only [namesT, List.nodup_cons] at hnd
    obtain ⟨σ1, hs1, hraw1, hcur1, hstack1, hview1, hdoc1, hnid1⟩ := step_startState σ p n h
    obtain ⟨he1, hi0, v, hf, hv, _, _, _⟩ := vdecl_spec h.ok n p σ.nextDoc h.p0
    have hSR1 : SR σ1 (vdecl (view σ.fsm) n p σ.nextDoc).1 :=
      ⟨hraw1, Or.inr (by rw [hcur1]), by rw [hcur1], hi0, by rw [hview1]; exact he1.ok,
        by rw [hview1]; exact (le_of_vget hv).2, by rw [hnid1]; exact h.nid⟩
    -- the transition
    have htr : ∃ σ2, run (match tg with
          | some t => [Sax.empty t_transition [(a_target, t)]]
          | none => []) σ1 = .ok σ2 ∧ σ2.raw = none ∧ σ2.cur = σ1.cur ∧ σ2.stack = σ1.stack ∧ σ2.nextId ≠ 0 ∧
        view σ2.fsm = (match tg with
          | some t => (splitAsciiWs t).foldl vref (vdecl (view σ.fsm) n p σ.nextDoc).2
          | none => (vdecl (view σ.fsm) n p σ.nextDoc).2) ∧
        σ2.nextDoc = σ.nextDoc + (if tg.isSome then 2 else 1) ∧
        Ext [] (vdecl (view σ.fsm) n p σ.nextDoc).2 (view σ2.fsm) := by
      cases tg with
      | none =>
        exact ⟨σ1, by simp [run], hraw1, rfl, rfl, by rw [hnid1]; exact h.nid, hview1, by simpa using hdoc1,
          by rw [hview1]; exact Ext.refl [] he1.ok⟩
      | some t =>
        obtain ⟨σ2, hs2, hraw2, hcur2, hstack2, hview2, hdoc2, hnid2⟩ :=
          step_transition σ1 _ t hSR1 (by rw [hcur1])
        refine ⟨σ2, by rw [run_cons_ok hs2]; simp [run], hraw2, hcur2, hstack2, hnid2, by rw [hview2, hview1],
          by simp [hdoc2, hdoc1], ?_⟩
        rw [hview2, hview1]; exact vrefs_ext he1.ok _
    obtain ⟨σ2, hs2, hraw2, hcur2, hstack2, hnid2, hview2, hdoc2, hext2⟩ := htr
    have hSR2 : SR σ2 (vdecl (view σ.fsm) n p σ.nextDoc).1 :=
      ⟨hraw2, Or.inr (by rw [hcur2, hcur1]), by rw [hcur2, hcur1], hi0, hext2.ok,
        Nat.le_trans (le_of_vget hv).2 hext2.len, hnid2⟩
    obtain ⟨σ3, hs3, hraw3, hcur3, hstack3, hnid3, hview3, hdoc3⟩ := simF ks σ2 _ hSR2 hnd.2
    obtain ⟨he3, _⟩ := amF_spec ks (vdecl (view σ.fsm) n p σ.nextDoc).1 (view σ2.fsm) σ2.nextDoc hext2.ok hi0 hnd.2
    obtain ⟨σ4, hs4, hraw4, hcur4, hstack4, hview4, hdoc4, hnid4⟩ :=
      step_stopState σ3 (vdecl (view σ.fsm) n p σ.nextDoc).1 σ.cur σ.stack hraw3 (by rw [hcur3, hcur2, hcur1])
        (by rw [hcur3, hcur2, hcur1]) hi0
        (by rw [hview3]; exact Nat.le_trans hSR2.valid he3.len)
        (by rw [hstack3, hstack2, hstack1]) hnid3
    refine ⟨σ4, ?_, hraw4, hcur4, hstack4, hnid4, ?_, ?_⟩
    · simp only [saxST]
      rw [List.append_assoc, List.append_assoc, List.singleton_append, run_cons_ok hs1, run_append, hs2]
      simp only []
      rw [run_append, hs3]
      simp only []
      rw [run_cons_ok hs4]; simp [run]
    · rw [hview4, hview3, hview2, hdoc2]; simp only [amT]; rfl
    · rw [hdoc4, hdoc3, hdoc2]; simp only [sizeT]; omega
theorem simF : (ts : List ST) → (σ : RS) → (p : Nat) → SR σ p → (namesF ts).Nodup →
    Sim (saxSF ts) σ (amF ts p (view σ.fsm) σ.nextDoc) (σ.nextDoc + sizeF ts)
  | [], σ, p, h, _ => ⟨σ, by simp [saxSF, run], h.raw, rfl, rfl, h.nid, by simp [amF], by simp [sizeF]⟩
  | t :: r, σ, p, h, hnd => by
    simp only [namesF, List.nodup_append] at hnd
    obtain ⟨σ1, hs1, hraw1, hcur1, hstack1, hnid1, hview1, hdoc1⟩ := simT t σ p h hnd.1
    obtain ⟨he1, _⟩ := amT_spec t p (view σ.fsm) σ.nextDoc h.ok h.p0 hnd.1
    have hSR1 : SR σ1 p :=
      ⟨hraw1, by rw [hcur1]; exact h.tag, by rw [hcur1]; exact h.cur, h.p0, by rw [hview1]; exact he1.ok,
        by rw [hview1]; exact Nat.le_trans h.valid he1.len, hnid1⟩
    obtain ⟨σ2, hs2, hraw2, hcur2, hstack2, hnid2, hview2, hdoc2⟩ := simF r σ1 p hSR1 hnd.2.1
    refine ⟨σ2, ?_, hraw2, by rw [hcur2, hcur1], by rw [hstack2, hstack1], hnid2, ?_, ?_⟩
    · simp only [saxSF]; rw [run_append, hs1]; exact hs2
    · rw [hview2, hview1, hdoc1]; simp only [amF]
    · rw [hdoc2, hdoc1]; simp only [sizeF]; omega
end

/-- the reader state after `<scxml>` -/
def σscxml : RS :=
  match run [.start t_scxml []] {} with
  | .ok σ => σ
  | .error _ => {}

theorem σscxml_facts_aux : run [.start t_scxml []] {} = .ok σscxml ∧ σscxml.raw = none ∧
    σscxml.cur.tag = .scxml ∧ σscxml.cur.state = 1 ∧ σscxml.nextId = 1 ∧ σscxml.nextDoc = 2 ∧
    view σscxml.fsm = [⟨1, [95, 95, 105, 100, 49], 0, 1, []⟩] := by
  have h : (match run [.start t_scxml []] {} with
    | .ok _ => true
    | .error _ => false) = true := by decide +kernel
  refine ⟨?_, by decide +kernel, by decide +kernel, by decide +kernel, by decide +kernel, by decide +kernel,
    by decide +kernel⟩
  unfold σscxml
  cases hr : run [.start t_scxml []] {} with
  | ok σ => rfl
  | error e => rw [hr] at h; simp at h


end Rfsm.Reader
