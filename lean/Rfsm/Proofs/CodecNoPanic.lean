import Rfsm.Proofs.CodecFsm
/-! The writer does not panic on a model within the limits (`value[0..len]` is only a problem for
strings of 4096 bytes and more). -/
namespace Rfsm.Codec

def strOk : Op → Bool
  | .str s => decide (s.length < 4096)
  | _ => true

def opsOk (ops : List Op) : Bool := ops.all strOk

@[simp] theorem opsOk_nil : opsOk [] = true := rfl
@[simp] theorem opsOk_cons (op : Op) (r : List Op) : opsOk (op :: r) = (strOk op && opsOk r) := by
  simp [opsOk]
@[simp] theorem opsOk_append (a b : List Op) : opsOk (a ++ b) = (opsOk a && opsOk b) := by
  simp [opsOk]
@[simp] theorem strOk_uint (v : Nat) : strOk (uintOp v) = true := by
  unfold uintOp; repeat' split
  all_goals rfl
@[simp] theorem strOk_bool (b : Bool) : strOk (boolOp b) = true := rfl

theorem strOk_str {s : Str} (h : wfStr small s = true) : strOk (.str s) = true := by
  simp only [strOk]; exact decide_eq_true (wfStr_small h).1

theorem strOk_optStr {o : Option Str} (h : wfOptStr small o = true) : strOk (optStrOp o) = true := by
  cases o with
  | none => rfl
  | some s => exact strOk_str h

theorem opsOk_flatMap {α} (f : α → List Op) (l : List α) (h : ∀ a ∈ l, opsOk (f a) = true) :
    opsOk (l.flatMap f) = true := by
  induction l with
  | nil => rfl
  | cons a r ih =>
    simp only [List.flatMap_cons, opsOk_append, Bool.and_eq_true]
    exact ⟨h a (by simp), ih (fun b hb => h b (by simp [hb]))⟩

theorem opsOk_opsList {α} (f : α → List Op) (l : List α) (h : ∀ a ∈ l, opsOk (f a) = true) :
    opsOk (opsList f l) = true := by
  simp [opsList, opsOk_flatMap f l h]

theorem opsOk_no_panic (ops : List Op) (h : opsOk ops = true) : anyPanics ops = false := by
  induction ops with
  | nil => rfl
  | cons op r ih =>
    simp only [opsOk_cons, Bool.and_eq_true] at h
    simp only [anyPanics, List.any_cons, Bool.or_eq_false_iff]
    refine ⟨?_, ih h.2⟩
    cases op with
    | str s =>
      simp only [strOk, decide_eq_true_eq] at h
      have := h.1
      simp only [Op.panics, strPanics, strSliceLen]
      split
      · simp
      · have : s.length % 4096 = s.length := Nat.mod_eq_of_lt this
        simp [this]
    | _ => rfl

mutual
  theorem opsOk_data (d : Data) (h : wfData small d = true) : opsOk (opsData d) = true := by
    cases d with
    | integer v =>
      simp only [wfData, Bool.and_eq_true, decide_eq_true_eq] at h
      have hl := showInt_length v h.1 h.2
      have : strOk (.str (showInt v)) = true := by
        simp only [strOk]; exact decide_eq_true (by omega)
      simp [opsData, this]
    | double t => simp only [wfData, Bool.and_eq_true] at h; simp [opsData, strOk_str h.1]
    | string s => simp only [wfData] at h; simp [opsData, strOk_str h]
    | boolean b => simp [opsData]
    | null => simp [opsData]
    | none => simp [opsData]
    | error s => simp only [wfData] at h; simp [opsData, strOk_str h]
    | source s id => simp only [wfData, Bool.and_eq_true] at h; simp [opsData, strOk_str h.1]
    | array l =>
      simp only [wfData, Bool.and_eq_true] at h
      simp [opsData, opsOk_dataList l h.2]
    | map l =>
      simp only [wfData, Bool.and_eq_true] at h
      simp [opsData, opsOk_dataMap l h.2]
  theorem opsOk_dataList (l : List Data) (h : wfDataList small l = true) : opsOk (opsDataList l) = true := by
    cases l with
    | nil => rfl
    | cons d r =>
      simp only [wfDataList, Bool.and_eq_true] at h
      simp [opsDataList, opsOk_data d h.1, opsOk_dataList r h.2]
  theorem opsOk_dataMap (l : List (Str × Data)) (h : wfDataMap small l = true) : opsOk (opsDataMap l) = true := by
    cases l with
    | nil => rfl
    | cons kd r =>
      obtain ⟨k, d⟩ := kd
      simp only [wfDataMap, Bool.and_eq_true] at h
      simp [opsDataMap, strOk_str h.1.1, opsOk_data d h.1.2, opsOk_dataMap r h.2]
end

theorem opsOk_wd {d : Data} (h : wfD small d = true) : opsOk (opsData d) = true := by
  simp only [wfD, Bool.and_eq_true] at h; exact opsOk_data d h.1

theorem opsOk_ids (l : List Nat) : opsOk (opsIds l) = true :=
  opsOk_opsList _ l (fun a _ => by simp)

theorem opsOk_strs {l : List Str} (h : wfStrs small l = true) : opsOk (opsStrList l) = true := by
  simp only [wfStrs, Bool.and_eq_true, List.all_eq_true] at h
  exact opsOk_opsList _ l (fun a ha => by simp [strOk_str (h.2 a ha)])

theorem opsOk_common {c : CommonContent} (h : wfCommon small c = true) : opsOk (opsCommon c) = true := by
  simp only [wfCommon, Bool.and_eq_true] at h
  simp [opsCommon, strOk_optStr h.1, strOk_optStr h.2]

theorem opsOk_optCommon {o : Option CommonContent} (h : wfOptCommon small o = true) :
    opsOk (opsOptCommon o) = true := by
  cases o with
  | none => simp [opsOptCommon]
  | some c => simp [opsOptCommon, opsOk_common h]

theorem opsOk_param {p : Param} (h : wfParam small p = true) : opsOk (opsParam p) = true := by
  simp only [wfParam, Bool.and_eq_true] at h
  simp [opsParam, strOk_str h.1.1, strOk_str h.1.2, strOk_str h.2]

theorem opsOk_params {o : Option (List Param)} (h : wfParams small o = true) : opsOk (opsParams o) = true := by
  cases o with
  | none => simp [opsParams]
  | some l =>
    simp only [wfParams, Bool.and_eq_true, List.all_eq_true] at h
    exact opsOk_opsList _ l (fun a ha => opsOk_param (h.2 a ha))

theorem opsOk_doneData {d : DoneData} (h : wfDoneData small d = true) : opsOk (opsDoneData d) = true := by
  simp only [wfDoneData, Bool.and_eq_true] at h
  simp [opsDoneData, opsOk_optCommon h.1, opsOk_params h.2]

theorem opsOk_dataPairs {l : List (Str × Data)} (h : wfDataPairs small l = true) :
    opsOk (opsDataPairs l) = true := by
  simp only [wfDataPairs, Bool.and_eq_true, List.all_eq_true] at h
  exact opsOk_opsList _ l (fun a ha => by simp [strOk_str (h.2 a ha).1, opsOk_wd (h.2 a ha).2])

theorem opsOk_invoke {i : Invoke} (h : wfInvoke small i = true) : opsOk (opsInvoke i) = true := by
  simp only [wfInvoke, Bool.and_eq_true] at h
  obtain ⟨⟨⟨⟨⟨⟨⟨⟨⟨⟨⟨h1, h2⟩, h3⟩, h4⟩, h5⟩, h6⟩, h7⟩, h8⟩, h9⟩, h10⟩, h11⟩, h12⟩ := h
  have hps : opsOk (if i.invokeId.isEmpty = true then [Op.str i.parentStateName] else []) = true := by
    split
    · rename_i he; simp only [he, if_true] at h2; simp [strOk_str h2]
    · rfl
  simp only [opsInvoke, opsOk_append, opsOk_cons, opsOk_nil, strOk_uint, strOk_bool, strOk_str h1, hps,
    opsOk_wd h4, opsOk_wd h5, opsOk_wd h6, opsOk_wd h7, strOk_str h8,
    opsOk_optCommon h10, opsOk_params h11, opsOk_strs h12, Bool.and_self]

theorem opsOk_transition {t : Transition} (h : wfTransition small t = true) : opsOk (opsTransition t) = true := by
  simp only [wfTransition, Bool.and_eq_true] at h
  obtain ⟨⟨⟨⟨⟨⟨h1, h2⟩, h3⟩, h4⟩, h5⟩, h6⟩, h7⟩ := h
  have hc : opsOk (if (!t.cond.isEmpty) = true then opsData t.cond else []) = true := by
    split
    · rename_i he
      have : t.cond.isEmpty = false := by simpa using he
      simp only [this] at h6
      exact opsOk_wd (by simpa using h6)
    · rfl
  have hk : opsOk (if (t.content != 0) = true then [uintOp t.content] else []) = true := by
    split <;> simp
  simp only [opsTransition, opsOk_append, opsOk_cons, opsOk_nil, strOk_uint, opsOk_ids, opsOk_strs h5, hc, hk,
    Bool.and_self]

theorem opsOk_guard (c : Bool) (ops : List Op) (h : opsOk ops = true) :
    opsOk (if c = true then ops else []) = true := by
  split
  · exact h
  · rfl

theorem opsOk_state {s : State} (h : wfState small s = true) : opsOk (opsState s) = true := by
  simp only [wfState, Bool.and_eq_true, List.all_eq_true] at h
  obtain ⟨⟨⟨⟨⟨⟨⟨⟨⟨⟨⟨⟨⟨h1, h2⟩, h3⟩, h4⟩, h5⟩, h6⟩, h7⟩, h8⟩, h9⟩, h10⟩, h11⟩, h12⟩, h13⟩, h14⟩ := h
  have hinv : opsOk (opsList opsInvoke s.invoke) = true :=
    opsOk_opsList _ _ (fun a ha => opsOk_invoke (h10 a ha))
  have hdd : opsOk (opsOptDoneData s.donedata) = true := by
    cases hd : s.donedata with
    | none => rfl
    | some d => rw [hd] at h14; exact opsOk_doneData h14
  have hst : opsOk (uintOp s.initial :: opsIds s.states) = true := by simp [opsOk_ids]
  simp only [opsState, opsOk_append, opsOk_cons, opsOk_nil, strOk_uint, strOk_str h3,
    opsOk_guard _ _ hst, opsOk_guard _ _ (opsOk_ids s.onentry), opsOk_guard _ _ (opsOk_ids s.onexit),
    opsOk_ids, opsOk_guard _ _ hinv, opsOk_guard _ _ (opsOk_ids s.history),
    opsOk_guard _ _ (opsOk_dataPairs h12), hdd, Bool.and_self]

theorem opsOk_send {s : Send} (h : wfSend small s = true) : opsOk (opsSend s) = true := by
  simp only [wfSend, Bool.and_eq_true] at h
  obtain ⟨⟨⟨⟨⟨⟨⟨⟨⟨⟨⟨⟨h1, h2⟩, h3⟩, h4⟩, h5⟩, h6⟩, h7⟩, h8⟩, h9⟩, h10⟩, h11⟩, h12⟩, h13⟩ := h
  simp only [opsSend, opsOk_append, opsOk_cons, opsOk_nil, strOk_uint, strOk_str h1, opsOk_wd h2, opsOk_wd h3,
    opsOk_optCommon h4, opsOk_strs h5, strOk_str h6, opsOk_params h7, opsOk_wd h8, opsOk_wd h9, opsOk_wd h10,
    opsOk_wd h11, opsOk_wd h13, Bool.and_self]

theorem opsOk_exec {e : Exec} (h : wfExec small e = true) : opsOk (opsExec e) = true := by
  cases e with
  | ifc c a b =>
    simp only [wfExec, Bool.and_eq_true] at h
    simp only [opsExec, opsOk_append, opsOk_cons, opsOk_nil, strOk_uint, opsOk_wd h.1.1, Bool.and_self]
  | expression c =>
    simp only [wfExec] at h
    simp only [opsExec, opsOk_append, opsOk_cons, opsOk_nil, strOk_uint, opsOk_wd h, Bool.and_self]
  | script l => simp only [opsExec, opsOk_append, opsOk_cons, opsOk_nil, strOk_uint, opsOk_ids, Bool.and_self]
  | log label ex =>
    simp only [wfExec, Bool.and_eq_true] at h
    simp only [opsExec, opsOk_append, opsOk_cons, opsOk_nil, strOk_uint, strOk_str h.1, opsOk_wd h.2, Bool.and_self]
  | foreach c idx arr item =>
    simp only [wfExec, Bool.and_eq_true] at h
    simp only [opsExec, opsOk_append, opsOk_cons, opsOk_nil, strOk_uint, strOk_str h.1.1.2, opsOk_wd h.1.2,
      strOk_str h.2, Bool.and_self]
  | send s =>
    simp only [wfExec] at h
    simp only [opsExec, opsOk_append, opsOk_cons, opsOk_nil, strOk_uint, opsOk_send h, Bool.and_self]
  | raise ev =>
    simp only [wfExec] at h
    simp only [opsExec, opsOk_cons, opsOk_nil, strOk_uint, strOk_str h, Bool.and_self]
  | cancel id ex =>
    simp only [wfExec, Bool.and_eq_true] at h
    simp only [opsExec, opsOk_append, opsOk_cons, opsOk_nil, strOk_uint, strOk_str h.1, opsOk_wd h.2, Bool.and_self]
  | assign ex l =>
    simp only [wfExec, Bool.and_eq_true] at h
    simp only [opsExec, opsOk_append, opsOk_cons, opsOk_nil, strOk_uint, opsOk_wd h.1, opsOk_wd h.2, Bool.and_self]

theorem opsOk_fsm {f : Fsm} (h : wfFsm small f = true) : opsOk (opsFsm f) = true := by
  simp only [wfFsm, Bool.and_eq_true, List.all_eq_true] at h
  obtain ⟨⟨⟨⟨⟨⟨⟨⟨⟨h1, h2⟩, h3⟩, h4⟩, h5⟩, h6⟩, h7⟩, h8⟩, h9⟩, h10⟩ := h
  have hs : opsOk (opsList opsState f.states) = true := opsOk_opsList _ _ (fun a ha => opsOk_state (h6 a ha))
  have ht : opsOk (opsList opsTransition f.transitions) = true :=
    opsOk_opsList _ _ (fun a ha => opsOk_transition (h8 a ha))
  have hc : opsOk (opsList (fun (c : Nat × List Exec) => uintOp c.1 :: opsList opsExec c.2) f.content) = true := by
    refine opsOk_opsList _ _ (fun a ha => ?_)
    have := h10 a ha
    simp only [wfRegion, Bool.and_eq_true, List.all_eq_true] at this
    simp only [opsOk_cons, strOk_uint, Bool.true_and]
    exact opsOk_opsList _ _ (fun e he => opsOk_exec (this.2 e he))
  simp only [opsFsm, opsOk_append, opsOk_cons, opsOk_nil, strOk_uint, strOk_str versionText_wf, strOk_str h1,
    strOk_str h2, hs, ht, hc, Bool.and_self]

/-- `FsmWriter::write` does not panic on a model within the limits, and emits `imageOf f` -/
theorem encodeFsm_wf {f : Fsm} (h : wfFsm small f = true) : encodeFsm f = WriteResult.bytes (imageOf f) := by
  simp [encodeFsm, opsOk_no_panic _ (opsOk_fsm h), imageOf]

end Rfsm.Codec
