import Rfsm.Proofs.ConformantLemmas
/-!
Tree lemmas about the parent pointers of a conformant document (M-INT): `isDescendant` is
transitive and irreflexive along chains, hence exit sets are closed under active descendants.

`ancestors` walks the parent pointers with fuel `d.states.length + 1`.  `conformantB` makes the walk
from every state end at the root (whose parent is 0) within that fuel, and makes document ids
strictly decrease along it.
-/
namespace Rfsm.Interp

/-- what the proofs need of the parent pointers -/
structure TreeLike (d : Doc) : Prop where
  rootParent : parentOf d d.root = 0
  /-- document order: a parent precedes its children -/
  docLt : ∀ x, parentOf d x ≠ 0 → docIdOf d (parentOf d x) < docIdOf d x
  /-- walking up from any state other than the root reaches the root within the fuel -/
  rootReach : ∀ x, parentOf d x ≠ 0 → d.root ∈ ancestors d x

theorem ancestorsAux_zero (d : Doc) (f : Nat) : ancestorsAux d f 0 = [] := by
  cases f <;> simp [ancestorsAux]

theorem ancestorsAux_mono (d : Doc) : ∀ (f g c a : Nat), f ≤ g → a ∈ ancestorsAux d f c → a ∈ ancestorsAux d g c := by
  intro f
  induction f with
  | zero => intro g c a _ h; simp [ancestorsAux] at h
  | succ f ih =>
    intro g c a hfg h
    cases g with
    | zero => omega
    | succ g =>
      unfold ancestorsAux at h ⊢
      split at h
      · simp at h
      · rename_i hc
        rw [if_neg hc]
        rcases List.mem_cons.1 h with rfl | h
        · exact List.mem_cons_self
        · exact List.mem_cons_of_mem _ (ih g _ a (by omega) h)

/-- a walk that has reached the root is complete: more fuel adds nothing -/
theorem ancestorsAux_stable (d : Doc) (hr : parentOf d d.root = 0) :
    ∀ (f g c a : Nat), d.root ∈ ancestorsAux d f c → a ∈ ancestorsAux d g c → a ∈ ancestorsAux d f c := by
  intro f
  induction f with
  | zero => intro g c a h _; simp [ancestorsAux] at h
  | succ f ih =>
    intro g c a h ha
    cases g with
    | zero => simp [ancestorsAux] at ha
    | succ g =>
      unfold ancestorsAux at h ha ⊢
      split at h
      · simp at h
      · rename_i hc
        rw [if_neg hc] at ha ⊢
        rcases List.mem_cons.1 ha with rfl | ha
        · exact List.mem_cons_self
        · rcases List.mem_cons.1 h with h | h
          · -- c is the root: nothing above it
            rw [← h, hr, ancestorsAux_zero] at ha
            simp at ha
          · exact List.mem_cons_of_mem _ (ih g _ a h ha)

/-- transitivity along a complete walk -/
theorem ancestorsAux_trans (d : Doc) (hr : parentOf d d.root = 0) :
    ∀ (f g c p q : Nat), d.root ∈ ancestorsAux d f c → p ∈ ancestorsAux d f c →
      q ∈ ancestorsAux d g (parentOf d p) → q ∈ ancestorsAux d f c := by
  intro f
  induction f with
  | zero => intro g c p q h _ _; simp [ancestorsAux] at h
  | succ f ih =>
    intro g c p q h hp hq
    unfold ancestorsAux at h hp ⊢
    split at h
    · simp at h
    · rename_i hc
      rw [if_neg hc] at hp ⊢
      rcases List.mem_cons.1 h with h | h
      · -- c is the root
        rcases List.mem_cons.1 hp with rfl | hp
        · rw [← h, hr, ancestorsAux_zero] at hq; simp at hq
        · rw [← h, hr, ancestorsAux_zero] at hp; simp at hp
      · rcases List.mem_cons.1 hp with rfl | hp
        · exact List.mem_cons_of_mem _ (ancestorsAux_stable d hr f g _ q h hq)
        · exact List.mem_cons_of_mem _ (ih g _ p q h hp hq)

/-- document ids strictly decrease along the walk -/
theorem ancestorsAux_docLt {d : Doc} (ht : TreeLike d) :
    ∀ (f x a : Nat), a ∈ ancestorsAux d f (parentOf d x) → docIdOf d a < docIdOf d x := by
  intro f
  induction f with
  | zero => intro x a h; simp [ancestorsAux] at h
  | succ f ih =>
    intro x a h
    unfold ancestorsAux at h
    split at h
    · simp at h
    · rename_i hc
      rcases List.mem_cons.1 h with rfl | h
      · exact ht.docLt x hc
      · exact Nat.lt_trans (ih _ a h) (ht.docLt x hc)

theorem isDescendant_iff {d : Doc} {x p : Nat} :
    isDescendant d x p = true ↔ x ≠ 0 ∧ p ≠ 0 ∧ x ≠ p ∧ p ∈ ancestors d x := by
  unfold isDescendant
  by_cases h : x = 0 ∨ p = 0 ∨ x = p
  · rw [if_pos h]
    constructor
    · intro h'; cases h'
    · rintro ⟨h1, h2, h3, _⟩
      rcases h with h | h | h
      · exact absurd h h1
      · exact absurd h h2
      · exact absurd h h3
  · rw [if_neg h]
    have h' : x ≠ 0 ∧ p ≠ 0 ∧ x ≠ p := by
      refine ⟨fun e => h (Or.inl e), fun e => h (Or.inr (Or.inl e)), fun e => h (Or.inr (Or.inr e))⟩
    simp [h'.1, h'.2.1, h'.2.2]

theorem parent_ne_zero_of_mem_ancestors {d : Doc} {x a : Nat} (h : a ∈ ancestors d x) : parentOf d x ≠ 0 := by
  intro h0
  unfold ancestors at h
  rw [h0, ancestorsAux_zero] at h
  simp at h

/-- a descendant comes later in document order -/
theorem isDescendant_docLt {d : Doc} (ht : TreeLike d) {x p : Nat} (h : isDescendant d x p = true) :
    docIdOf d p < docIdOf d x := by
  obtain ⟨_, _, _, hm⟩ := isDescendant_iff.1 h
  exact ancestorsAux_docLt ht _ x p hm

/-- `isDescendant` is transitive on a tree -/
theorem isDescendant_trans {d : Doc} (ht : TreeLike d) {x p q : Nat}
    (h1 : isDescendant d x p = true) (h2 : isDescendant d p q = true) : isDescendant d x q = true := by
  have hl1 := isDescendant_docLt ht h1
  have hl2 := isDescendant_docLt ht h2
  obtain ⟨hx, _, _, hm1⟩ := isDescendant_iff.1 h1
  obtain ⟨_, hq, _, hm2⟩ := isDescendant_iff.1 h2
  refine isDescendant_iff.2 ⟨hx, hq, ?_, ?_⟩
  · intro e; subst e; omega
  · have hroot := ht.rootReach x (parent_ne_zero_of_mem_ancestors hm1)
    exact ancestorsAux_trans d ht.rootParent _ _ _ p q hroot hm1 hm2

/-- no state is its own descendant, and descent is asymmetric -/
theorem isDescendant_asymm {d : Doc} (ht : TreeLike d) {x p : Nat}
    (h1 : isDescendant d x p = true) : isDescendant d p x = false := by
  cases h2 : isDescendant d p x with
  | false => rfl
  | true =>
    have := isDescendant_docLt ht h1
    have := isDescendant_docLt ht h2
    omega

/-- a child is a descendant of its parent -/
theorem isDescendant_parent {d : Doc} (ht : TreeLike d) {x : Nat} (hx : x ≠ 0) (hp : parentOf d x ≠ 0) :
    isDescendant d x (parentOf d x) = true := by
  refine isDescendant_iff.2 ⟨hx, hp, ?_, ?_⟩
  · intro e
    have := ht.docLt x hp
    rw [← e] at this
    omega
  · unfold ancestors fuelOf ancestorsAux
    rw [if_neg hp]
    exact List.mem_cons_self

/-! ### exit sets on a tree -/

/-- **Exit sets are closed under active descendants**: when a state is exited, every active state
    below it is exited in the same microstep. -/
theorem computeExitSet_descendant_closed {d : Doc} (ht : TreeLike d) (hv : Table) (cfg ts : List Nat)
    {p x : Nat} (hp : p ∈ computeExitSet d hv cfg ts) (hx : x ∈ cfg) (hd : isDescendant d x p = true) :
    x ∈ computeExitSet d hv cfg ts := by
  obtain ⟨_, tid, htid, hne, hdom⟩ := mem_computeExitSet.1 hp
  exact mem_computeExitSet.2 ⟨hx, tid, htid, hne, isDescendant_trans ht hd hdom⟩

/-- a state that stays active keeps its parent: if the parent were exited, so would the state be -/
theorem kept_parent_kept {d : Doc} (ht : TreeLike d) (hv : Table) (cfg ts : List Nat) {x : Nat}
    (hx : x ∈ cfg) (hx0 : x ≠ 0) (hn : x ∉ computeExitSet d hv cfg ts) (hp : parentOf d x ≠ 0) :
    parentOf d x ∉ computeExitSet d hv cfg ts :=
  fun h => hn (computeExitSet_descendant_closed ht hv cfg ts h hx (isDescendant_parent ht hx0 hp))

/-! ### `conformantB` gives `TreeLike` -/

theorem conformant_treeLike {d : Doc} (h : conformantB d = true) : TreeLike d := by
  unfold conformantB at h
  simp only [Bool.and_eq_true] at h
  simp only [List.all_eq_true] at h
  obtain ⟨⟨⟨⟨⟨_, hrootp⟩, _⟩, hids⟩, hall⟩, htree⟩ := h
  have hrp : parentOf d d.root = 0 := by unfold parentOf; simpa using hrootp
  have hid : ∀ x, 0 < x → x ≤ d.states.length → (getState d x).id = x := by
    intro x hpos hle
    have := hids (x - 1) (by simp; omega)
    have hg : getState d x = d.states.getD (x - 1) default := by
      unfold getState; rw [if_neg (by omega)]
    rw [hg]
    have : (d.states.getD (x - 1) default).id = x - 1 + 1 := by simpa using this
    omega
  refine ⟨hrp, ?_, ?_⟩
  · intro x hx
    obtain ⟨hmem, hpos, hle⟩ := getState_mem_of_parent hx
    have hst := hall _ hmem
    simp only [Bool.and_eq_true] at hst
    obtain ⟨⟨⟨⟨⟨hpar, _⟩, _⟩, _⟩, _⟩, _⟩ := hst
    rw [Bool.or_eq_true] at hpar
    rcases hpar with hr | hr
    · have : (getState d x).id = d.root := by simpa using hr
      rw [hid x hpos hle] at this
      subst this
      exact absurd hrp hx
    · simp only [Bool.and_eq_true] at hr
      obtain ⟨⟨⟨_, hlt⟩, _⟩, _⟩ := hr
      unfold docIdOf parentOf
      simpa using hlt
  · intro x hx
    obtain ⟨hmem, hpos, hle⟩ := getState_mem_of_parent hx
    have := htree _ hmem
    rw [Bool.or_eq_true] at this
    rcases this with hr | hr
    · have : (getState d x).id = d.root := by simpa using hr
      rw [hid x hpos hle] at this
      subst this
      exact absurd hrp hx
    · rw [hid x hpos hle] at hr
      simpa using hr

end Rfsm.Interp

namespace Rfsm.Interp

/-- in a list sorted by descending document id, a descendant stands before its ancestor -/
theorem descendant_before_ancestor {d : Doc} (ht : TreeLike d) {order l1 l2 : List Nat} {x p : Nat}
    (hs : order.Pairwise (fun a b => docIdOf d b ≤ docIdOf d a))
    (hsplit : order = l1 ++ p :: l2) (hx : x ∈ order) (hd : isDescendant d x p = true) : x ∈ l1 := by
  have hlt := isDescendant_docLt ht hd
  subst hsplit
  rcases List.mem_append.1 hx with h | h
  · exact h
  · rcases List.mem_cons.1 h with h | h
    · subst h; omega
    · have hp := (List.pairwise_append.1 hs).2.1
      have := (List.pairwise_cons.1 hp).1 x h
      omega

end Rfsm.Interp
