import Rfsm.Proofs.EntryLemmas
/-! What `conformantB` gives the proofs. -/
namespace Rfsm.Interp

theorem getState_mem_of_parent {d : Doc} {x : Nat} (hx : parentOf d x ≠ 0) :
    getState d x ∈ d.states ∧ 0 < x ∧ x ≤ d.states.length := by
  unfold parentOf getState at hx
  unfold getState
  by_cases h0 : x = 0
  · simp [h0] at hx
    exact absurd rfl hx
  · rw [if_neg h0] at hx ⊢
    by_cases hlt : x - 1 < d.states.length
    · have : d.states.getD (x - 1) default = d.states[x - 1] := by simp [List.getD, hlt]
      rw [this]
      exact ⟨List.getElem_mem hlt, by omega, by omega⟩
    · have : d.states.getD (x - 1) default = (default : State) := by
        simp [List.getD, Nat.le_of_not_lt hlt]
      rw [this] at hx
      exact absurd rfl hx

theorem conformant_noHistParent {d : Doc} (h : conformantB d = true) : NoHistParent d := by
  intro x hx
  obtain ⟨hmem, hpos, hle⟩ := getState_mem_of_parent hx
  unfold conformantB at h
  simp only [Bool.and_eq_true] at h
  simp only [List.all_eq_true] at h
  obtain ⟨⟨⟨⟨⟨_, hrootp⟩, _⟩, hids⟩, hall⟩, _⟩ := h
  have hst := hall _ hmem
  simp only [Bool.and_eq_true] at hst
  obtain ⟨⟨⟨⟨⟨hpar, _⟩, _⟩, _⟩, _⟩, _⟩ := hst
  -- the id of `getState d x` is `x`
  have hid : (getState d x).id = x := by
    have := hids (x - 1) (by simp; omega)
    have hg : getState d x = d.states.getD (x - 1) default := by
      unfold getState; rw [if_neg (by omega)]
    rw [hg]
    have : (d.states.getD (x - 1) default).id = x - 1 + 1 := by simpa using this
    omega
  rw [Bool.or_eq_true] at hpar
  rcases hpar with hr | hr
  · -- it is the root: its parent is 0
    have : (getState d x).id = d.root := by simpa using hr
    rw [hid] at this
    subst this
    have : (getState d d.root).parent = 0 := by simpa using hrootp
    exact absurd this hx
  · simp only [Bool.and_eq_true] at hr
    obtain ⟨⟨_, hh⟩, _⟩ := hr
    unfold isHistoryState parentOf
    simpa using hh

theorem computeEntrySet_noHist {d : Doc} (hv : Table) (hp : NoHistParent d) (ts : List Nat) :
    ∀ x ∈ (computeEntrySet d hv ts).toEnter, isHistoryState d x = false := by
  unfold computeEntrySet
  have key := entry_noHist hv hp (entryFuel d)
  refine foldl_inv (NoHistIn d) _ ?_ ts {} (by intro x hx; simp at hx)
  intro b tid hb
  simp only
  refine foldl_inv (NoHistIn d) _ (fun b a hb => key.2 a _ b hb) _ _ ?_
  exact foldl_inv (NoHistIn d) _ (fun b a hb => key.1 a b hb) _ _ hb

end Rfsm.Interp
